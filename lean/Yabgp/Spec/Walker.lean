/-
  C08 — the specification: an independent, executable, decidable structural grammar of BGP messages
  ("walker").  It shares no definition with the decoders / encoders of `Yabgp/Model` (only the byte
  type of `Base/Bytes.lean`) and is written from the RFCs:

    RFC 4271 (header, OPEN, UPDATE, path attributes, NOTIFICATION, KEEPALIVE), RFC 5492 (capabilities),
    RFC 2918 (ROUTE-REFRESH), RFC 1997 / 4360 / 8092 (communities), RFC 4456 (reflection), RFC 6793 (AS4),
    RFC 4760 (MP_REACH / MP_UNREACH), RFC 8277 / 4364 / 4659 (labeled and VPN routes), RFC 7432 / 9136 (EVPN),
    RFC 8955 / 8956 (flow specification), RFC 9830 (SR policy NLRI and segment sub-TLVs), RFC 9012 (tunnel
    encapsulation), RFC 6514 (PMSI tunnel), RFC 9552 (BGP-LS), RFC 8669 (prefix SID), RFC 7911 (add-path).

  What "structurally valid" means here is exactly what the property states: the header length equals the
  size, every length field (attribute, TLV, capability, NLRI) equals the octets that follow and the pieces
  sum exactly to their container, attribute flag bits match the RFC category of the type code, the
  extended-length bit decides the width of the length field, prefixes occupy ceil(len/8) octets, and the
  fixed layouts have their fixed sizes.  Values are NOT judged (an ORIGIN of 7 is structurally fine).

  Everything is a total `Bool` function (`many` is structural on a fuel argument, so `decide` evaluates the
  walker on literals).  `valid` is the specification; `explain` locates the first violation with the very
  same component tests (it has no notion of validity of its own).
  Import-free apart from Base.
-/
import Yabgp.Base.Bytes

namespace Yabgp.Walker

/-- what the layout depends on besides the octets: the AS-number width negotiated for the session and
    whether the IPv4-unicast fields of an UPDATE carry path identifiers (RFC 7911) -/
structure Cfg where
  asn4 : Bool := false
  addpath : Bool := false
  deriving DecidableEq, Repr

/-! ### sequences of self-delimiting items -/

/-- `item b = some r`: a well-formed item was read from the front of `b` and `r` is what follows it.
    `many` reads items until nothing is left; every item must consume something. -/
def many (item : Bytes → Option Bytes) : Nat → Bytes → Bool
  | _, [] => true
  | 0, _ :: _ => false
  | n + 1, x :: xs =>
    match item (x :: xs) with
    | none => false
    | some r => decide (r.length < (x :: xs).length) && many item n r

/-- the byte string is exactly a sequence of well-formed items -/
def all (item : Bytes → Option Bytes) (b : Bytes) : Bool := many item b.length b

/-- `n` octets are there: what follows them -/
def skip (n : Nat) (b : Bytes) : Option Bytes := if n ≤ b.length then some (b.drop n) else none

def ceil8 (bits : Nat) : Nat := (bits + 7) / 8

/-! ### prefixes and routes (a length in bits, then ceil(length/8) octets) -/

/-- RFC 4271 §4.3: `<length, prefix>`, the prefix occupying the minimum number of octets -/
def prefixItem (maxBits : Nat) : Bytes → Option Bytes
  | l :: r => if l.toNat ≤ maxBits then skip (ceil8 l.toNat) r else none
  | [] => none

/-- RFC 7911 §3: with add-path every prefix is preceded by a 4-octet path identifier -/
def pathPrefixItem (addpath : Bool) (maxBits : Nat) (b : Bytes) : Option Bytes :=
  if addpath then
    match skip 4 b with
    | some r => prefixItem maxBits r
    | none => none
  else prefixItem maxBits b

/-- RFC 8277 / RFC 4364: the length in bits covers the label(s) (24 bits each), the route distinguisher
    (64 bits, VPN families) and the prefix; `minBits` is what must at least be there -/
def bitsItem (minBits : Nat) : Bytes → Option Bytes
  | l :: r => if minBits ≤ l.toNat then skip (ceil8 l.toNat) r else none
  | [] => none

/-! ### type-length-value items -/

/-- 1-octet type, 1-octet length -/
def tlv11 (p : Nat → Bytes → Bool) : Bytes → Option Bytes
  | t :: l :: r =>
    if l.toNat ≤ r.length && p t.toNat (r.take l.toNat) then some (r.drop l.toNat) else none
  | _ => none

/-- 1-octet type, 2-octet length -/
def tlv12 (p : Nat → Bytes → Bool) : Bytes → Option Bytes
  | t :: a :: b :: r =>
    if a.toNat * 256 + b.toNat ≤ r.length && p t.toNat (r.take (a.toNat * 256 + b.toNat))
    then some (r.drop (a.toNat * 256 + b.toNat)) else none
  | _ => none

/-- 2-octet type, 2-octet length -/
def tlv22 (p : Nat → Bytes → Bool) : Bytes → Option Bytes
  | t1 :: t2 :: a :: b :: r =>
    if a.toNat * 256 + b.toNat ≤ r.length && p (t1.toNat * 256 + t2.toNat) (r.take (a.toNat * 256 + b.toNat))
    then some (r.drop (a.toNat * 256 + b.toNat)) else none
  | _ => none

/-- RFC 9012 §2: sub-TLV types 0..127 have a 1-octet length, 128..255 a 2-octet length -/
def subTlv (p : Nat → Bytes → Bool) : Bytes → Option Bytes
  | t :: r => if t.toNat < 128 then tlv11 p (t :: r) else tlv12 p (t :: r)
  | [] => none

def anyValue (_ : Nat) (_ : Bytes) : Bool := true

/-! ### OPEN (RFC 4271 §4.2, RFC 5492) -/

/-- fixed sizes of the capability values this grammar knows; any other code is opaque -/
def capValueOk (code : Nat) (v : Bytes) : Bool :=
  if code = 1 then v.length = 4                       -- multiprotocol: AFI, reserved, SAFI
  else if code = 2 then v.length = 0                  -- route refresh
  else if code = 5 then v.length % 6 = 0              -- extended next hop: (AFI, SAFI, next hop AFI)*
  else if code = 64 then 2 ≤ v.length && (v.length - 2) % 4 = 0   -- graceful restart
  else if code = 65 then v.length = 4                 -- 4-octet AS number
  else if code = 69 then v.length % 4 = 0             -- add-path: (AFI, SAFI, send/receive)*
  else if code = 70 then v.length = 0                 -- enhanced route refresh
  else if code = 71 then v.length % 7 = 0             -- long-lived graceful restart
  else if code = 128 then v.length = 0                -- route refresh (pre-standard)
  else true

def capItem : Bytes → Option Bytes := tlv11 capValueOk

/-- an optional parameter of type 2 is a sequence of capability TLVs summing exactly to it -/
def optParamOk (ty : Nat) (v : Bytes) : Bool := if ty = 2 then all capItem v else true

def optParamItem : Bytes → Option Bytes := tlv11 optParamOk

/-- version, AS, hold time, identifier, optional-parameters length = the octets that follow = parameters -/
def openOk : Bytes → Bool
  | _ :: _ :: _ :: _ :: _ :: _ :: _ :: _ :: _ :: ol :: params =>
    decide (ol.toNat = params.length) && all optParamItem params
  | _ => false

/-! ### path attributes (RFC 4271 §4.3, §5) -/

/-- RFC category of an attribute type code: 0 well-known, 1 optional transitive, 2 optional
    non-transitive, 3 a code this grammar has no category for -/
def category (code : Nat) : Nat :=
  if code = 1 ∨ code = 2 ∨ code = 3 ∨ code = 5 ∨ code = 6 then 0
  else if code = 7 ∨ code = 8 ∨ code = 16 ∨ code = 17 ∨ code = 18 ∨ code = 22 ∨ code = 23 ∨ code = 25
        ∨ code = 32 ∨ code = 40 then 1
  else if code = 4 ∨ code = 9 ∨ code = 10 ∨ code = 14 ∨ code = 15 ∨ code = 29 then 2
  else 3

/-- flag octet: O = 128, T = 64, P = 32, E = 16, low four bits zero.  Well-known: O = 0, T = 1, P = 0;
    optional transitive: O = 1, T = 1, Partial permitted; optional non-transitive: O = 1, T = 0, P = 0;
    a type code without category must at least be optional.  E is free: it selects the length width. -/
def flagsOk (code flags : Nat) : Bool :=
  decide (flags < 256) && decide (flags % 16 = 0) &&
  (if category code = 0 then decide (flags / 32 = 2)
   else if category code = 1 then decide (flags / 64 = 3)
   else if category code = 2 then decide (flags / 32 = 4)
   else decide (flags / 128 = 1 ∧ (flags / 64 = 3 ∨ flags / 32 = 4)))

def asWidth (asn4 : Bool) : Nat := if asn4 then 4 else 2

/-- AS_PATH segment: type, count, count AS numbers of the session's width -/
def segItem (w : Nat) : Bytes → Option Bytes
  | _ :: n :: r => skip (n.toNat * w) r
  | _ => none

/-! #### NLRI of the multiprotocol families -/

/-- EVPN route value by route type (RFC 7432 §7, RFC 9136 §3): fixed layouts; the MAC length is 48, an IP
    address length 0, 32 or 128 with that many bits following.  Where RFC 7432 has one MPLS label field
    (two for the MAC/IP route) this grammar accepts a stack of one or more 3-octet label entries - that is the
    value the code's data model carries in the field - but never a missing one.  The IP prefix route is
    strict: its length is what distinguishes IPv4 from IPv6. -/
def ipLenOk (n : Nat) : Bool := n = 0 ∨ n = 32 ∨ n = 128

/-- `n` octets are one or more 3-octet label entries -/
def labelsLen (n : Nat) : Bool := 3 ≤ n && n % 3 = 0

def evpnRouteOk (ty : Nat) (v : Bytes) : Bool :=
  if ty = 1 then 22 ≤ v.length && labelsLen (v.length - 22)      -- RD 8, ESI 10, tag 4, label(s)
  else if ty = 2 then                                   -- RD 8, ESI 10, tag 4, 48, MAC 6, IP len, IP, label(s)
    30 ≤ v.length && (v.getD 22 0).toNat = 48 && ipLenOk (v.getD 29 0).toNat &&
    30 + (v.getD 29 0).toNat / 8 ≤ v.length && labelsLen (v.length - 30 - (v.getD 29 0).toNat / 8)
  else if ty = 3 then                                   -- RD 8, tag 4, IP len, IP
    13 ≤ v.length && ipLenOk (v.getD 12 0).toNat && v.length = 13 + (v.getD 12 0).toNat / 8
  else if ty = 4 then                                   -- RD 8, ESI 10, IP len, IP
    19 ≤ v.length && ipLenOk (v.getD 18 0).toNat && v.length = 19 + (v.getD 18 0).toNat / 8
  else if ty = 5 then                                   -- RD 8, ESI 10, tag 4, prefix len, prefix, gateway, label
    -- RFC 9136 §3.1: the length (34 or 58) is what tells the address family of prefix and gateway
    (v.length = 34 && (v.getD 22 0).toNat ≤ 32) || (v.length = 58 && (v.getD 22 0).toNat ≤ 128)
  else true

def evpnItem : Bytes → Option Bytes := tlv11 evpnRouteOk

/-- flow specification numeric / bitmask operator list (RFC 8955 §4.2.1): operator octet, value of
    `1 << len` octets, ..., the last one and only the last one with the end-of-list bit -/
def opList : Nat → Bytes → Option Bytes
  | _, [] => none
  | 0, _ :: _ => none
  | n + 1, op :: r =>
    match skip (2 ^ (op.toNat / 16 % 4)) r with
    | none => none
    | some r' => if op.toNat / 128 = 1 then some r' else opList n r'

/-- IPv6 flow specification prefix component (RFC 8956 §3.1): length, offset, ceil((length-offset)/8) octets -/
def prefix6Comp : Bytes → Option Bytes
  | l :: o :: r => if o.toNat ≤ l.toNat ∧ l.toNat ≤ 128 then skip (ceil8 (l.toNat - o.toNat)) r else none
  | _ => none

/-- one component: type 1, 2 a prefix; 3 .. 12 (13 for IPv6: flow label) an operator list -/
def flowComp (v6 : Bool) : Bytes → Option Bytes
  | t :: r =>
    if t.toNat = 1 ∨ t.toNat = 2 then (if v6 then prefix6Comp r else prefixItem 32 r)
    else if 3 ≤ t.toNat ∧ t.toNat ≤ (if v6 then 13 else 12) then opList r.length r
    else none
  | [] => none

/-- one flow specification: length in 1 octet below 240, else 2 octets 0xfnnn (RFC 8955 §4.1) -/
def flowItem (v6 : Bool) : Bytes → Option Bytes
  | l :: r =>
    if l.toNat < 240 then
      (if l.toNat ≤ r.length && all (flowComp v6) (r.take l.toNat) then some (r.drop l.toNat) else none)
    else
      match r with
      | l2 :: r2 =>
        if l.toNat % 16 * 256 + l2.toNat ≤ r2.length &&
           all (flowComp v6) (r2.take (l.toNat % 16 * 256 + l2.toNat))
        then some (r2.drop (l.toNat % 16 * 256 + l2.toNat)) else none
      | [] => none
  | [] => none

/-- SR policy NLRI (RFC 9830 §2.1): length in bits (96 for AFI 1, 192 for AFI 2), distinguisher 4,
    color 4, endpoint 4 or 16 -/
def srteItem (afi : Nat) : Bytes → Option Bytes
  | l :: r => if l.toNat = (if afi = 2 then 192 else 96) then skip (l.toNat / 8) r else none
  | [] => none

/-- BGP-LS descriptor TLVs (RFC 9552 §5.2): node descriptors 256 / 257 are themselves TLV sequences -/
def lsDescOk (ty : Nat) (v : Bytes) : Bool :=
  if ty = 256 ∨ ty = 257 then all (tlv22 anyValue) v else true

/-- BGP-LS NLRI value: [RD 8,] protocol id 1, identifier 8, descriptor TLVs summing exactly -/
def lsNlriOk (vpn : Bool) (_ty : Nat) (v : Bytes) : Bool :=
  match skip (if vpn then 17 else 9) v with
  | some d => all (tlv22 lsDescOk) d
  | none => false

/-- the NLRI field of MP_REACH_NLRI / MP_UNREACH_NLRI by address family; a family this grammar does not
    know is opaque -/
def nlriOk (afi safi : Nat) (b : Bytes) : Bool :=
  if afi = 1 ∨ afi = 2 then
    (if safi = 1 ∨ safi = 2 then all (prefixItem (if afi = 1 then 32 else 128)) b
     else if safi = 4 then all (bitsItem 24) b                        -- label, prefix
     else if safi = 128 ∨ safi = 129 then all (bitsItem 88) b        -- label, RD, prefix
     else if safi = 133 then all (flowItem (afi = 2)) b
     else if safi = 73 then all (srteItem afi) b
     else true)
  else if afi = 25 ∧ safi = 70 then all evpnItem b
  else if afi = 16388 ∧ (safi = 71 ∨ safi = 72) then all (tlv22 (lsNlriOk (safi = 72))) b
  else true

/-- MP_REACH_NLRI (RFC 4760 §3): AFI, SAFI, next-hop length = next-hop octets, reserved octet (0), NLRI -/
def mpReachOk : Bytes → Bool
  | a1 :: a2 :: s :: nl :: r =>
    match r.drop nl.toNat with
    | z :: nlri => decide (nl.toNat ≤ r.length) && decide (z.toNat = 0) &&
                   nlriOk (a1.toNat * 256 + a2.toNat) s.toNat nlri
    | [] => false
  | _ => false

/-- MP_UNREACH_NLRI (RFC 4760 §4): AFI, SAFI, withdrawn routes -/
def mpUnreachOk : Bytes → Bool
  | a1 :: a2 :: s :: nlri => nlriOk (a1.toNat * 256 + a2.toNat) s.toNat nlri
  | _ => false

/-! #### PMSI tunnel (RFC 6514 §5) and tunnel encapsulation (RFC 9012, RFC 9830) -/

/-- flags 1, tunnel type 1, label 3, tunnel identifier whose size follows from the type -/
def pmsiOk (v : Bytes) : Bool :=
  5 ≤ v.length &&
  (if (v.getD 1 0).toNat = 0 then v.length = 5                                  -- no tunnel information
   else if (v.getD 1 0).toNat = 6 then v.length = 9 || v.length = 21            -- ingress replication: address
   else if (v.getD 1 0).toNat = 1 then v.length = 17 || v.length = 29           -- RSVP-TE P2MP LSP
   else if 3 ≤ (v.getD 1 0).toNat ∧ (v.getD 1 0).toNat ≤ 5 then v.length = 13 || v.length = 37   -- PIM trees
   else true)

/-- segment sub-TLVs inside a segment list (RFC 9830 §2.4.4): fixed sizes per type -/
def segmentOk (ty : Nat) (v : Bytes) : Bool :=
  if ty = 9 then v.length = 6                                  -- weight: flags, reserved, weight 4
  else if ty = 1 then v.length = 6                             -- A: flags, reserved, label entry 4
  else if ty = 2 ∨ ty = 13 then v.length = 18                  -- B: flags, reserved, SRv6 SID 16
  else if ty = 3 then v.length = 6 || v.length = 10            -- C: IPv4 node [, SID]
  else if ty = 4 then v.length = 18 || v.length = 22           -- D: IPv6 node [, SID]
  else if ty = 5 then v.length = 10 || v.length = 14           -- E: interface, IPv4 node [, SID]
  else if ty = 6 then v.length = 10 || v.length = 14           -- F: IPv4 local, remote [, SID]
  else if ty = 7 then v.length = 26 || v.length = 30 || v.length = 42 || v.length = 46   -- G
  else if ty = 8 then v.length = 34 || v.length = 38 || v.length = 50 || v.length = 54   -- H
  else true

/-- sub-TLVs of the SR policy tunnel (type 15).  6 is the remote endpoint of RFC 9012 (AS 4, family 2,
    address 4 | 16) and the preference of the early SR policy drafts (flags, reserved, preference 4) -/
def srPolicySubOk (ty : Nat) (v : Bytes) : Bool :=
  if ty = 6 then v.length = 6 || v.length = 10 || v.length = 22
  else if ty = 7 ∨ ty = 13 then v.length = 2 || v.length = 6 || v.length = 18   -- binding SID
  else if ty = 12 then v.length = 6                            -- preference
  else if ty = 14 then v.length = 3                            -- ENLP
  else if ty = 15 then v.length = 2                            -- priority
  else if ty = 128 then                                        -- segment list: reserved, segment sub-TLVs
    (match v with
     | _ :: segs => all (tlv11 segmentOk) segs
     | [] => false)
  else if ty = 129 then 1 ≤ v.length                           -- policy name: reserved, name
  else true

/-- a tunnel TLV is a sequence of sub-TLVs summing exactly to it -/
def tunnelOk (ty : Nat) (v : Bytes) : Bool :=
  if ty = 15 then all (subTlv srPolicySubOk) v else all (subTlv anyValue) v

/-! #### attribute values -/

/-- inner layout of an attribute value by type code; a code this grammar does not know is opaque -/
def attrValueOk (cfg : Cfg) (code : Nat) (v : Bytes) : Bool :=
  if code = 1 then v.length = 1                                          -- ORIGIN
  else if code = 2 then all (segItem (asWidth cfg.asn4)) v               -- AS_PATH
  else if code = 3 then v.length = 4                                     -- NEXT_HOP
  else if code = 4 ∨ code = 5 then v.length = 4                          -- MED, LOCAL_PREF
  else if code = 6 then v.length = 0                                     -- ATOMIC_AGGREGATE
  else if code = 7 then v.length = asWidth cfg.asn4 + 4                  -- AGGREGATOR
  else if code = 8 then v.length % 4 = 0                                 -- COMMUNITIES
  else if code = 9 then v.length = 4                                     -- ORIGINATOR_ID
  else if code = 10 then v.length % 4 = 0                                -- CLUSTER_LIST
  else if code = 14 then mpReachOk v
  else if code = 15 then mpUnreachOk v
  else if code = 16 then v.length % 8 = 0                                -- EXTENDED COMMUNITIES
  else if code = 17 then all (segItem 4) v                               -- AS4_PATH
  else if code = 18 then v.length = 8                                    -- AS4_AGGREGATOR
  else if code = 22 then pmsiOk v
  else if code = 23 then all (tlv22 tunnelOk) v                          -- tunnel encapsulation
  else if code = 25 then v.length % 20 = 0                               -- IPv6 address specific ext. communities
  else if code = 29 then all (tlv22 anyValue) v                          -- BGP-LS attribute TLVs
  else if code = 32 then v.length % 12 = 0                               -- LARGE_COMMUNITY
  else if code = 40 then all (tlv12 anyValue) v                          -- prefix SID TLVs
  else true

/-- one path attribute: flags, type, length in 1 octet or - extended-length bit - 2 octets, value -/
def attrItem (cfg : Cfg) : Bytes → Option Bytes
  | f :: t :: r =>
    if f.toNat / 16 % 2 = 1 then
      match r with
      | a :: b :: v =>
        if a.toNat * 256 + b.toNat ≤ v.length && flagsOk t.toNat f.toNat &&
           attrValueOk cfg t.toNat (v.take (a.toNat * 256 + b.toNat))
        then some (v.drop (a.toNat * 256 + b.toNat)) else none
      | _ => none
    else
      match r with
      | l :: v =>
        if l.toNat ≤ v.length && flagsOk t.toNat f.toNat && attrValueOk cfg t.toNat (v.take l.toNat)
        then some (v.drop l.toNat) else none
      | [] => none
  | _ => none

/-! ### UPDATE (RFC 4271 §4.3) -/

/-- total path attribute length, the attributes summing exactly to it, then NLRI to the end -/
def updateTail (cfg : Cfg) : Bytes → Bool
  | a :: b :: r =>
    decide (a.toNat * 256 + b.toNat ≤ r.length) &&
    all (attrItem cfg) (r.take (a.toNat * 256 + b.toNat)) &&
    all (pathPrefixItem cfg.addpath 32) (r.drop (a.toNat * 256 + b.toNat))
  | _ => false

/-- withdrawn routes length, the withdrawn prefixes summing exactly to it, then the rest -/
def updateOk (cfg : Cfg) : Bytes → Bool
  | a :: b :: r =>
    decide (a.toNat * 256 + b.toNat ≤ r.length) &&
    all (pathPrefixItem cfg.addpath 32) (r.take (a.toNat * 256 + b.toNat)) &&
    updateTail cfg (r.drop (a.toNat * 256 + b.toNat))
  | _ => false

/-! ### messages (RFC 4271 §4.1) -/

/-- the body by message type: OPEN at least 10 octets, UPDATE at least 4, NOTIFICATION at least 2,
    KEEPALIVE none, ROUTE-REFRESH (5, and the pre-standard 128) exactly 4; no other type exists -/
def bodyOk (cfg : Cfg) (ty : Nat) (body : Bytes) : Bool :=
  if ty = 1 then openOk body
  else if ty = 2 then updateOk cfg body
  else if ty = 3 then 2 ≤ body.length
  else if ty = 4 then body.length = 0
  else if ty = 5 ∨ ty = 128 then body.length = 4
  else false

def marker : Bytes := List.replicate 16 255

/-- THE SPECIFICATION: marker of sixteen 0xff, length field = size of the message, type, body -/
def valid (cfg : Cfg) (m : Bytes) : Bool :=
  decide (m.take 16 = marker) &&
  match m.drop 16 with
  | a :: b :: t :: body => decide (a.toNat * 256 + b.toNat = m.length) && bodyOk cfg t.toNat body
  | _ => false

/-! ### where is the first violation?  (diagnostics for replay files; built from the tests above) -/

/-- index of the first item that cannot be read, and the octets it starts at -/
def firstBad (item : Bytes → Option Bytes) : Nat → Nat → Bytes → Option (Nat × Bytes)
  | _, _, [] => none
  | 0, i, b => some (i, b)
  | n + 1, i, x :: xs =>
    match item (x :: xs) with
    | none => some (i, x :: xs)
    | some r => if r.length < (x :: xs).length then firstBad item n (i + 1) r else some (i, x :: xs)

def hex2 (x : UInt8) : String := String.ofList [hexDigit (x.toNat / 16), hexDigit (x.toNat % 16)]

def showHead (b : Bytes) : String := String.join ((b.take 12).map hex2) ++ (if b.length > 12 then ".." else "")

def explainSeq (what : String) (item : Bytes → Option Bytes) (b : Bytes) : String :=
  match firstBad item b.length 0 b with
  | some (i, at_) => s!"{what}[{i}] at {showHead at_} ({at_.length} of {b.length} octets left)"
  | none => s!"{what}"

def explainNlri (afi safi : Nat) (b : Bytes) : String :=
  let fam := s!"nlri afi={afi} safi={safi}"
  if safi = 1 ∨ safi = 2 then
    explainSeq (fam ++ "/prefix") (prefixItem (if afi = 1 then 32 else 128)) b
  else if safi = 4 then explainSeq (fam ++ "/labeled-route") (bitsItem 24) b
  else if safi = 128 ∨ safi = 129 then explainSeq (fam ++ "/vpn-route") (bitsItem 88) b
  else if afi = 25 ∧ safi = 70 then explainSeq (fam ++ "/evpn-route") evpnItem b
  else if safi = 133 then explainSeq (fam ++ "/flowspec-rule") (flowItem (afi = 2)) b
  else if safi = 73 then explainSeq (fam ++ "/sr-policy") (srteItem afi) b
  else explainSeq (fam ++ "/ls-nlri") (tlv22 (lsNlriOk (safi = 72))) b

def explainAttrValue (cfg : Cfg) (code : Nat) (v : Bytes) : String :=
  if code = 2 then explainSeq "segment" (segItem (asWidth cfg.asn4)) v
  else if code = 17 then explainSeq "segment" (segItem 4) v
  else if code = 14 then
    match v with
    | a1 :: a2 :: s :: nl :: r =>
      match r.drop nl.toNat with
      | z :: nlri =>
        if nl.toNat > r.length then "next-hop length exceeds the value"
        else if z.toNat ≠ 0 then "reserved octet not 0"
        else explainNlri (a1.toNat * 256 + a2.toNat) s.toNat nlri
      | [] => "next-hop length exceeds the value / reserved octet missing"
    | _ => "shorter than AFI, SAFI, next-hop length"
  else if code = 15 then
    match v with
    | a1 :: a2 :: s :: nlri => explainNlri (a1.toNat * 256 + a2.toNat) s.toNat nlri
    | _ => "shorter than AFI, SAFI"
  else if code = 23 then
    match firstBad (tlv22 tunnelOk) v.length 0 v with
    | some (i, t1 :: t2 :: a :: b :: r) =>
      if a.toNat * 256 + b.toNat ≤ r.length then
        s!"tunnel[{i}] type {t1.toNat * 256 + t2.toNat}/" ++
          explainSeq "sub-tlv" (subTlv (if t1.toNat * 256 + t2.toNat = 15 then srPolicySubOk else anyValue))
            (r.take (a.toNat * 256 + b.toNat))
      else s!"tunnel[{i}] length {a.toNat * 256 + b.toNat} exceeds the {r.length} octets left"
    | some (i, _) => s!"tunnel[{i}] truncated header"
    | none => "tunnel"
  else if code = 29 then explainSeq "ls-tlv" (tlv22 anyValue) v
  else if code = 40 then explainSeq "sid-tlv" (tlv12 anyValue) v
  else s!"value of {v.length} octets does not have the layout of type {code}"

def explainAttr (cfg : Cfg) (b : Bytes) : String :=
  match b with
  | f :: t :: r =>
    let ext := f.toNat / 16 % 2 = 1
    let hdr : Option (Nat × Bytes) :=
      if ext then (match r with | a :: b' :: v => some (a.toNat * 256 + b'.toNat, v) | _ => none)
      else (match r with | l :: v => some (l.toNat, v) | [] => none)
    match hdr with
    | none => s!"type {t.toNat}/length field truncated"
    | some (n, v) =>
      if n > v.length then s!"type {t.toNat}/length {n} exceeds the {v.length} octets left"
      else if ¬ flagsOk t.toNat f.toNat then s!"type {t.toNat}/flags 0x{hex2 f} do not match the category of the type code"
      else s!"type {t.toNat}/" ++ explainAttrValue cfg t.toNat (v.take n)
  | _ => "attribute header truncated"

def explainUpdate (cfg : Cfg) (body : Bytes) : String :=
  match body with
  | a :: b :: r =>
    let wl := a.toNat * 256 + b.toNat
    if wl > r.length then s!"update/withdrawn-length {wl} exceeds the {r.length} octets left"
    else if ¬ all (pathPrefixItem cfg.addpath 32) (r.take wl) then
      "update/" ++ explainSeq "withdrawn" (pathPrefixItem cfg.addpath 32) (r.take wl)
    else
      match r.drop wl with
      | c :: d :: r2 =>
        let al := c.toNat * 256 + d.toNat
        if al > r2.length then s!"update/attribute-length {al} exceeds the {r2.length} octets left"
        else if ¬ all (attrItem cfg) (r2.take al) then
          match firstBad (attrItem cfg) al 0 (r2.take al) with
          | some (i, at_) => s!"update/attr[{i}] " ++ explainAttr cfg at_
          | none => "update/attr"
        else "update/" ++ explainSeq "nlri" (pathPrefixItem cfg.addpath 32) (r2.drop al)
      | _ => "update/attribute-length missing"
  | _ => "update/withdrawn-length missing"

def explainOpen (body : Bytes) : String :=
  match body with
  | _ :: _ :: _ :: _ :: _ :: _ :: _ :: _ :: _ :: ol :: params =>
    if ol.toNat ≠ params.length then
      s!"open/optional-parameters-length {ol.toNat} but {params.length} octets follow"
    else
      match firstBad optParamItem params.length 0 params with
      | some (i, t :: l :: r) =>
        if l.toNat > r.length then s!"open/param[{i}] length {l.toNat} exceeds the {r.length} octets left"
        else s!"open/param[{i}] type {t.toNat}/" ++ explainSeq "capability" capItem (r.take l.toNat)
      | some (i, _) => s!"open/param[{i}] truncated header"
      | none => "open"
  | _ => "open/shorter than the 10 fixed octets"

/-- path of the first violation, `ok` when there is none -/
def explain (cfg : Cfg) (m : Bytes) : String :=
  if valid cfg m then "ok"
  else if m.length < 19 then s!"header/message of {m.length} octets"
  else if m.take 16 ≠ marker then "header/marker"
  else
    match m.drop 16 with
    | a :: b :: t :: body =>
      if a.toNat * 256 + b.toNat ≠ m.length then
        s!"header/length field {a.toNat * 256 + b.toNat} but the message has {m.length} octets"
      else if t.toNat = 1 then explainOpen body
      else if t.toNat = 2 then explainUpdate cfg body
      else if t.toNat = 3 then "notification/shorter than 21 octets"
      else if t.toNat = 4 then "keepalive/longer than 19 octets"
      else if t.toNat = 5 ∨ t.toNat = 128 then "route-refresh/not 23 octets"
      else s!"header/type {t.toNat}"
    | _ => "header"

end Yabgp.Walker
