/-
  Specification for C19: what a routing table and its version counter must do.  Shares no definition
  with Yabgp/Model/Rib.lean.  Import-free.

  A table is a finite map  route key -> Option attributes  (a total function that is `none` almost
  everywhere).  An UPDATE is read as a list of elementary route operations; the table after the UPDATE is
  the in-order application of the operations and the version counter grows by the number of operations
  that CHANGED the table: a new route, changed attributes, or the removal of a present route.
  For an IPv4 UPDATE (RFC 4271 section 3.1 / 4.3: withdrawn routes are processed before the NLRI) there
  is also the closed form `apply`: announced prefixes carry the UPDATE's attributes, withdrawn prefixes
  that are not announced are absent, everything else is untouched.
-/

namespace Yabgp.RibSpec

abbrev Table := Nat → Option Nat

def empty : Table := fun _ => none

/-- the table after an IPv4 UPDATE (closed form): the announcement wins over the withdrawal of the same prefix -/
def apply (t : Table) (withdraw nlri : List Nat) (attr : Nat) : Table :=
  fun p => if p ∈ nlri then some attr else if p ∈ withdraw then none else t p

/-- the table after a list of IPv4 UPDATEs `(withdraw, nlri, attr)`, applied in order -/
def applyAll (t : Table) : List (List Nat × List Nat × Nat) → Table
  | [] => t
  | u :: us => applyAll (apply t u.1 u.2.1 u.2.2) us

/-- an elementary route operation -/
inductive Op where
  | announce (k v : Nat)
  | withdraw (k : Nat)
deriving DecidableEq, Repr

def Op.run : Op → Table → Table
  | .announce k v, t => fun p => if p = k then some v else t p
  | .withdraw k, t => fun p => if p = k then none else t p

/-- 1 when the operation changes the table (new route / changed attributes / removal of a present
    route), 0 when it leaves it as it is (same attributes again / withdrawal of an absent route) -/
def Op.delta : Op → Table → Nat
  | .announce k v, t => if t k = some v then 0 else 1
  | .withdraw k, t => if (t k).isSome then 1 else 0

def runOps : List Op → Table → Table
  | [], t => t
  | op :: ops, t => runOps ops (op.run t)

/-- the number of table changes made by a list of operations applied in order -/
def changes : List Op → Table → Nat
  | [], _ => 0
  | op :: ops, t => op.delta t + changes ops (op.run t)

/-- reading of an IPv4 UPDATE: withdrawals first, then the announcements, all with the same attributes -/
def ipv4Ops (withdraw nlri : List Nat) (attr : Nat) : List Op :=
  withdraw.map Op.withdraw ++ nlri.map (fun p => Op.announce p attr)

/-- reading of the multiprotocol attributes for one family: MP_REACH rules `(key, attributes)`, then MP_UNREACH keys -/
def mpOps (reach : List (Nat × Nat)) (unreach : List Nat) : List Op :=
  reach.map (fun kv => Op.announce kv.1 kv.2) ++ unreach.map Op.withdraw

/-- a table together with its version counter -/
structure Side where
  tbl : Table
  ver : Nat

/-- what may happen to one (table, counter) pair in the life of a peering -/
inductive SEv where
  | ops (l : List Op)     -- an UPDATE read as operations (possibly none for this family)
  | clear                 -- the session dropped and this table is flushed: empty table, counter untouched
  | fresh                 -- a new session: empty table, counter 0

def Side.step (sd : Side) : SEv → Side
  | .ops l => { tbl := runOps l sd.tbl, ver := sd.ver + changes l sd.tbl }
  | .clear => { tbl := empty, ver := sd.ver }
  | .fresh => { tbl := empty, ver := 0 }

def Side.history (sd : Side) (evs : List SEv) : Side := evs.foldl Side.step sd

end Yabgp.RibSpec
