/-
  RFC 4271 §4.1 / §6.1 message framing, written from the RFC text and sharing only the byte type with the models:
  what the first 19+ octets of a byte stream mean.
-/
import Yabgp.Base.Bytes

namespace Yabgp.Spec

inductive Framed
  | incomplete                                   -- wait for more octets
  | notSynchronized                              -- Marker not all ones           → NOTIFICATION (1, 1)
  | badLength (len : Nat)                        -- Length < 19 or > 4096         → NOTIFICATION (1, 2) with the field
  | message (ty : Nat) (body : Bytes) (rest : Bytes)
  deriving DecidableEq, Repr

/-- "The Marker field MUST be set to all ones" (16 octets); "Length … MUST always be at least 19 and no greater than
    4096"; the message is `Length` octets long, the Type octet follows the Length field. -/
def firstFrame (b : Bytes) : Framed :=
  if b.length < 19 then .incomplete
  else if ¬ (b.take 16).all (· == 0xff) then .notSynchronized
  else
    match b.drop 16 with
    | l1 :: l2 :: ty :: _ =>
      if l1.toNat * 256 + l2.toNat < 19 ∨ 4096 < l1.toNat * 256 + l2.toNat then .badLength (l1.toNat * 256 + l2.toNat)
      else if b.length < l1.toNat * 256 + l2.toNat then .incomplete
      else .message ty.toNat ((b.take (l1.toNat * 256 + l2.toNat)).drop 19) (b.drop (l1.toNat * 256 + l2.toNat))
    | _ => .incomplete

end Yabgp.Spec
