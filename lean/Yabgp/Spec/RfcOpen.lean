/-
  Reference OPEN encoder written from RFC 4271 §4.2, RFC 5492 (capabilities), RFC 2858/4760 (MP),
  RFC 2918 (route refresh), RFC 4724 (graceful restart), RFC 6793 (4-octet AS), RFC 7911 (add-path),
  RFC 7313 (enhanced route refresh), RFC 8950 (extended next hop), RFC 9494 (LLGR), with the
  packaging variants RFC 5492 allows (any number of capabilities per optional parameter, any order).
  Shares nothing with Model/Open.lean except the byte helpers.
-/
import Yabgp.Model.Open

namespace Yabgp.Spec

inductive Cap
  | mp (afi safi : Nat)
  | routeRefresh
  | ciscoRouteRefresh
  | enhancedRouteRefresh
  | gracefulRestart (body : Bytes)
  | ciscoMultiSession (body : Bytes)
  | as4 (asn : Nat)
  | addPath (l : List (Nat × Nat × Nat))            -- afi, safi, send/receive
  | llgr (l : List (Nat × Nat × Nat × Nat))          -- afi, safi, flags, stale time (24 bit)
  | extNextHop (l : List (Nat × Nat × Nat))          -- afi, safi (2 octets), next-hop afi
  | unknown (code : Nat) (body : Bytes)
  deriving DecidableEq, Repr

def Cap.code : Cap → Nat
  | .mp _ _ => 1 | .routeRefresh => 2 | .ciscoRouteRefresh => 128 | .enhancedRouteRefresh => 70
  | .gracefulRestart _ => 64 | .ciscoMultiSession _ => 131 | .as4 _ => 65 | .addPath _ => 69
  | .llgr _ => 71 | .extNextHop _ => 5 | .unknown c _ => c

def Cap.value : Cap → Bytes
  | .mp afi safi => be16 afi ++ [0] ++ be8 safi
  | .routeRefresh => [] | .ciscoRouteRefresh => [] | .enhancedRouteRefresh => []
  | .gracefulRestart b => b | .ciscoMultiSession b => b
  | .as4 asn => be32 asn
  | .addPath l => l.flatMap fun t => be16 t.1 ++ be8 t.2.1 ++ be8 t.2.2
  | .llgr l => l.flatMap fun t => be16 t.1 ++ be8 t.2.1 ++ be8 t.2.2.1 ++ be24 t.2.2.2
  | .extNextHop l => l.flatMap fun t => be16 t.1 ++ be16 t.2.1 ++ be16 t.2.2
  | .unknown _ b => b

def encCap (c : Cap) : Bytes := be8 c.code ++ be8 c.value.length ++ c.value

/-- one optional parameter of type 2 carrying the given capabilities -/
def encParam (caps : List Cap) : Bytes :=
  [2] ++ be8 (caps.flatMap encCap).length ++ caps.flatMap encCap

/-- body of an OPEN for true AS `asn`: AS_TRANS in the 2-octet field when it does not fit -/
def refOpenBody (asn hold bgpId : Nat) (params : List (List Cap)) : Bytes :=
  be8 4 ++ be16 (if asn > 65535 then 23456 else asn) ++ be16 hold ++ be32 bgpId ++
    be8 (params.flatMap encParam).length ++ params.flatMap encParam

/-- an ADD-PATH entry the decoder has a name for: a known address family and Send/Receive 1..3 (RFC 7911); entries
    naming anything else are skipped by the receiver, the ones around them are not affected -/
def addPathKnown (t : Nat × Nat × Nat) : Bool :=
  decide ((t.1, t.2.1) ∈ afiSafiKnown ∧ 1 ≤ t.2.2 ∧ t.2.2 ≤ 3)

/-- what a decoder must report for a capability list, in yabgp's dictionary shape -/
def applyRef (st : Nat × CapaDict) : Cap → Nat × CapaDict
  | .mp afi safi => (st.1, { st.2 with afiSafi := some (st.2.afiSafi.getD [] ++ [(afi, safi)]) })
  | .routeRefresh => (st.1, { st.2 with routeRefresh := true })
  | .ciscoRouteRefresh => (st.1, { st.2 with ciscoRouteRefresh := true })
  | .enhancedRouteRefresh => (st.1, { st.2 with enhancedRouteRefresh := true })
  | .gracefulRestart _ => (st.1, { st.2 with gracefulRestart := true })
  | .ciscoMultiSession _ => (st.1, { st.2 with ciscoMultiSession := true })
  | .as4 asn => (asn, { st.2 with fourBytesAs := true })
  | .addPath l => (st.1, { st.2 with addPath := some (st.2.addPath.getD [] ++ l.filter addPathKnown) })
  | .llgr l => (st.1, { st.2 with llgr := some (l.map fun t => (t.1, t.2.1, t.2.2.2)) })
  | .extNextHop l => (st.1, { st.2 with extNexthop := some l })
  | .unknown c b => (st.1, { st.2 with unknown := unknownSet st.2.unknown c b })

def expectOpen (asn hold bgpId : Nat) (params : List (List Cap)) : OpenMsg :=
  let st := params.flatten.foldl applyRef ((if asn > 65535 then 23456 else asn), {})
  { version := 4, asn := st.1, holdTime := hold, bgpId := bgpId, caps := st.2 }

/-- well-formedness of a capability for the reference encoder (field ranges - an ADD-PATH capability may list any
    families and Send/Receive values, the expectation above keeps the known ones -, unknown codes really unknown, value
    fits its length octet) -/
def CapOk : Cap → Prop
  | .mp afi safi => afi < 65536 ∧ safi < 256
  | .as4 asn => asn < 4294967296
  | .addPath l => (∀ t ∈ l, t.1 < 65536 ∧ t.2.1 < 256 ∧ t.2.2 < 256) ∧ l.length < 64
  | .llgr l => (∀ t ∈ l, t.1 < 65536 ∧ t.2.1 < 256 ∧ t.2.2.1 < 256 ∧ t.2.2.2 < 16777216) ∧ l.length < 37
  | .extNextHop l => (∀ t ∈ l, t.1 < 65536 ∧ t.2.1 < 65536 ∧ t.2.2 < 65536) ∧ l.length < 43
  | .unknown c b => c < 256 ∧ c ∉ [65, 1, 2, 128, 64, 131, 70, 69, 71, 5] ∧ b.length < 256
  | .gracefulRestart b => b.length < 256
  | .ciscoMultiSession b => b.length < 256
  | _ => True

end Yabgp.Spec
