/-
  C01, timers of an ended session: no hold / keepalive timer is ever left running outside the states in which
  RFC 4271 has it running.  In every state reachable after the agent's start,
    Idle / Connect / Active   ⇒ neither the HoldTimer nor the KeepaliveTimer exists,
    OpenSent                  ⇒ the KeepaliveTimer does not exist,
  hence a hold-timer expiry can only be delivered in OpenSent / OpenConfirm / Established and a keepalive-timer
  expiry only in OpenConfirm / Established.

  The proof is a pass over all actions of Model/Session.lean.  Two actions assign the FSM state without touching
  the timers - `connOk` (FSM state := Connect, whatever it was) and `dropEstab` (state := Idle when the closed
  protocol is the established one); for these the reachable-state invariants `Heal` / `One` of C02 / C12 show
  that the old state was not a session state (connOk: an attempt in flight excludes a live tracked connection)
  or that the closed protocol is not the established one (connLost of a connection we closed ourselves).
-/
import Yabgp.Props.C01b
import Yabgp.Lemmas.TmLemmas
import Yabgp.Lemmas.SessBasic

namespace Yabgp
open Sess

variable (U : Bool → Bytes → UpdClass)

/-- RFC 4271 8.2.2: the HoldTimer runs in OpenSent/OpenConfirm/Established only, the KeepaliveTimer in
    OpenConfirm/Established only -/
def NoStale (s : Sess) : Prop :=
  ((s.st = .idle ∨ s.st = .connect ∨ s.st = .active) → s.tm.hold = none ∧ s.tm.keepalive = none) ∧
  (s.st = .openSent → s.tm.keepalive = none)

/-- `s'` has the FSM state and the timers of `s` -/
def Tms (s s' : Sess) : Prop := s'.st = s.st ∧ s'.tm = s.tm

theorem Tms.refl (s : Sess) : Tms s s := ⟨rfl, rfl⟩
theorem Tms.trans {a b c : Sess} (h1 : Tms a b) (h2 : Tms b c) : Tms a c := ⟨h2.1.trans h1.1, h2.2.trans h1.2⟩

theorem NoStale.of_tms {s s' : Sess} (h : NoStale s) (ht : Tms s s') : NoStale s' := by
  unfold NoStale at *; rw [ht.1, ht.2]; exact h

/-- same state, same hold and keepalive timers (the reconnection timers may differ) -/
theorem NoStale.of_eq {s s' : Sess} (h : NoStale s) (h1 : s'.st = s.st) (h2 : s'.tm.hold = s.tm.hold)
    (h3 : s'.tm.keepalive = s.tm.keepalive) : NoStale s' := by
  unfold NoStale at *; rw [h1, h2, h3]; exact h

/-- neither timer exists -/
theorem NoStale.of_clear {s : Sess} (h1 : s.tm.hold = none) (h2 : s.tm.keepalive = none) : NoStale s :=
  ⟨fun _ => ⟨h1, h2⟩, fun _ => h2⟩

/-- OpenConfirm / Established: both timers may run -/
theorem NoStale.of_session {s : Sess} (h : s.st = .openConfirm ∨ s.st = .established) : NoStale s := by
  unfold NoStale
  rcases h with h | h <;> simp [h]

theorem NoStale.of_openSent {s : Sess} (h : s.st = .openSent) (hk : s.tm.keepalive = none) : NoStale s := by
  unfold NoStale
  simp [h, hk]

/-- what the invariant says in a state that is not OpenConfirm / Established -/
theorem NoStale.keepalive_none {s : Sess} (h : NoStale s) (hs : s.st ≠ .openConfirm) (hs' : s.st ≠ .established) :
    s.tm.keepalive = none := by
  unfold NoStale at h
  cases hst : s.st <;> simp_all

theorem NoStale.hold_none {s : Sess} (h : NoStale s) (hs : s.st = .idle ∨ s.st = .connect ∨ s.st = .active) :
    s.tm.hold = none := (h.1 hs).1

/-- leaving for a state without timers: allowed when both are absent -/
theorem NoStale.of_quiet {s s' : Sess} (h : NoStale s) (hs : s.st = .idle ∨ s.st = .connect ∨ s.st = .active)
    (h2 : s'.tm.hold = s.tm.hold) (h3 : s'.tm.keepalive = s.tm.keepalive) : NoStale s' :=
  NoStale.of_clear (h2.trans (h.1 hs).1) (h3.trans (h.1 hs).2)

/-! ### helpers that touch neither the state nor the timers -/

theorem tms_connectTcp (s : Sess) : Tms s s.connectTcp := by
  unfold connectTcp
  split
  · exact ⟨by simp [withPending, withConns], by simp [withPending, withConns]⟩
  · exact ⟨by simp, by simp⟩

theorem tms_sendOpen (s : Sess) : Tms s s.sendOpen.1 := by
  unfold sendOpen
  split
  · exact Tms.refl _
  · split
    · exact ⟨rfl, rfl⟩
    · exact ⟨by simp [withLocalCaps], by simp [withLocalCaps]⟩

theorem noStale_emit {s : Sess} (h : NoStale s) (o : Out) : NoStale (s.emit o) := h.of_eq rfl rfl rfl
theorem noStale_bumpRecv {s : Sess} (h : NoStale s) (i : Nat) (g : Stats → Stats) : NoStale (s.bumpRecv i g) := h.of_eq rfl rfl rfl
theorem noStale_withHoldTime {s : Sess} (h : NoStale s) (v : Nat) : NoStale (s.withHoldTime v) := h.of_eq rfl rfl rfl
theorem noStale_withRemote {s : Sess} (h : NoStale s) (v : CapaDict) : NoStale (s.withRemote v) := h.of_eq rfl rfl rfl
theorem noStale_setAsn4 {s : Sess} (h : NoStale s) (i : Nat) : NoStale (s.setAsn4 i) := h.of_eq rfl rfl rfl
theorem noStale_setIdleHold {s : Sess} (h : NoStale s) (v : Option Nat) : NoStale (s.setIdleHold v) := h.of_eq rfl rfl rfl

/-! ### actions -/

theorem noStale_errorClose (s : Sess) : NoStale s.errorClose :=
  NoStale.of_clear (by simp) (by simp)

theorem noStale_headerError (s : Sess) (sub : Nat) (d : Bytes) : NoStale (s.headerError sub d) :=
  NoStale.of_clear (by simp) (by simp)

theorem noStale_openMessageError (s : Sess) (sub : Nat) : NoStale (s.openMessageError sub) :=
  NoStale.of_clear (by simp) (by simp)

theorem noStale_autoStart {s : Sess} (h : NoStale s) (b : Bool) : NoStale (s.autoStart b) := by
  unfold autoStart
  split
  · rename_i hs
    split
    · exact h.of_eq rfl rfl rfl
    · split
      · refine (NoStale.of_quiet h (Or.inl hs) ?_ ?_).of_tms (tms_connectTcp _) <;> simp
      · exact h
  · exact h

/-- `dropEstab` is harmless when neither timer can be running -/
theorem noStale_dropEstab_quiet {s : Sess} (h : NoStale s) (hs : s.st = .idle ∨ s.st = .connect ∨ s.st = .active)
    (p : Option Nat) : NoStale (s.dropEstab p) ∧ ((s.dropEstab p).st = .idle ∨ (s.dropEstab p).st = .connect ∨ (s.dropEstab p).st = .active) := by
  unfold dropEstab
  split
  · split
    · exact ⟨NoStale.of_quiet h hs (by simp [withEstab]) (by simp [withEstab]), Or.inl (by simp)⟩
    · exact ⟨h, hs⟩
  · exact ⟨h, hs⟩

theorem noStale_connectionClosed_quiet {s : Sess} (h : NoStale s) (hs : s.st = .idle ∨ s.st = .connect ∨ s.st = .active)
    (p : Option Nat) : NoStale (s.connectionClosed p) := by
  unfold connectionClosed
  split
  · exact noStale_autoStart (noStale_dropEstab_quiet h hs p).1 _
  · exact (noStale_dropEstab_quiet h hs p).1

/-- FSM.connection_failed keeps the invariant in every state (in OpenSent it stops the hold timer itself) -/
theorem noStale_connectionFailed {s : Sess} (h : NoStale s) : NoStale s.connectionFailed := by
  unfold connectionFailed
  split
  · rename_i hs
    have h1 : NoStale (((s.setRetry none).closeConn).setSt .idle) :=
      NoStale.of_quiet h (Or.inr (Or.inl hs)) (by simp) (by simp)
    exact noStale_connectionClosed_quiet h1 (Or.inl (by simp)) _
  · rename_i hs
    exact NoStale.of_quiet h (Or.inr (Or.inr hs)) (by simp) (by simp)
  · rename_i hs
    have h1 : NoStale (((((s.closeConn).setRetry (some s.retryDeadline)).setHold none).setSt .active)) :=
      NoStale.of_clear (by simp) (by simpa using h.2 hs)
    exact noStale_connectionClosed_quiet h1 (Or.inr (Or.inr (by simp))) _
  · exact noStale_errorClose _
  · exact noStale_errorClose _
  · exact h

theorem noStale_manualStart {s : Sess} (h : NoStale s) : NoStale s.manualStart := by
  unfold manualStart
  split
  · exact h.of_eq rfl rfl rfl
  · rename_i hs
    refine ((NoStale.of_quiet h (Or.inl hs) ?_ ?_).of_tms (tms_connectTcp _)).of_eq rfl rfl rfl
    · simp [withAllow]
    · simp [withAllow]
  · exact h.of_eq rfl rfl rfl

theorem noStale_manualStop (s : Sess) : NoStale s.manualStop := by
  unfold manualStop
  apply NoStale.of_clear
  · simp [withAllow]
  · simp [withAllow]

/-- FSM.connection_made, entered in state Connect with neither timer running -/
theorem noStale_connectionMade {s : Sess} (_hs : s.st = .connect) (hh : s.tm.hold = none) (hk : s.tm.keepalive = none) :
    NoStale s.connectionMade := by
  have ht := tms_sendOpen ((s.setRetry none).setIdleHold none)
  unfold connectionMade
  split
  · apply NoStale.of_openSent (by simp)
    simp [ht.2, hk]
  · apply NoStale.of_clear
    · rw [ht.2]; simp [hh]
    · rw [ht.2]; simp [hk]

/-- a connection attempt succeeds: the FSM state is set to Connect whatever it was, so the state before must not have
    been one with timers running -/
theorem noStale_connOk {s : Sess} (h : NoStale s) (hs : s.st = .idle ∨ s.st = .connect ∨ s.st = .active) (i : Nat) :
    NoStale (s.connOk i) := by
  unfold connOk
  apply noStale_connectionMade
  · simp [withBgpId, withEstab]
  · simpa [withBgpId, withEstab, withProto] using (h.1 hs).1
  · simpa [withBgpId, withEstab, withProto] using (h.1 hs).2

theorem noStale_connFail {s : Sess} (h : NoStale s) (i : Nat) : NoStale (s.connFail i) := by
  unfold connFail
  split
  · exact noStale_connectionFailed (h.of_eq rfl rfl rfl)
  · exact h.of_eq rfl rfl rfl

/-- connectionLost: for a connection we closed ourselves (`disconnected`) the established-protocol reference must not
    point to it while a session is up -/
theorem noStale_connLost {s : Sess} (h : NoStale s) (i : Nat)
    (hd : (s.conn i).disconnected = true → s.estab = some i → s.st = .idle ∨ s.st = .connect ∨ s.st = .active) :
    NoStale (s.connLost i) := by
  unfold connLost
  split
  · rename_i hdis
    generalize ht : ((s.setPhase i .closed).emit (.hConnLost i)) = t
    have hnt : NoStale t := by rw [← ht]; exact h.of_eq rfl rfl rfl
    have hst : t.st = s.st := by rw [← ht]; rfl
    have hes : t.estab = s.estab := by rw [← ht]; rfl
    by_cases he : s.estab = some i
    · exact noStale_connectionClosed_quiet hnt (by rw [hst]; exact hd hdis he) _
    · have hde : t.dropEstab (some i) = t := by
        unfold dropEstab
        simp [hes, he]
      unfold connectionClosed
      rw [hde]
      split
      · exact noStale_autoStart hnt _
      · exact hnt
  · exact noStale_connectionFailed (h.of_eq rfl rfl rfl)

theorem noStale_fireRetry {s : Sess} (h : NoStale s) : NoStale s.fireRetry := by
  have key : NoStale ((((s.setRetry none).closeConn).setRetry (some s.retryDeadline)).connectTcp) :=
    (h.of_eq (by simp) (by simp) (by simp)).of_tms (tms_connectTcp _)
  unfold fireRetry
  split
  · exact key
  · exact key
  · exact h.of_eq rfl rfl rfl
  · exact noStale_errorClose _

theorem noStale_fireHold {s : Sess} (h : NoStale s) : NoStale s.fireHold := by
  unfold fireHold
  split
  · exact NoStale.of_clear (by simp) (by simp)
  · exact NoStale.of_clear (by simp) (by simp)
  · exact NoStale.of_clear (by simp) (by simp)
  · exact noStale_errorClose _
  · exact noStale_errorClose _
  · rename_i hs
    exact NoStale.of_clear (by simp) (by simpa using (h.1 (Or.inl hs)).2)

theorem noStale_fireKeepalive {s : Sess} (h : NoStale s) : NoStale s.fireKeepalive := by
  unfold fireKeepalive
  split
  · rename_i hs
    split
    · exact NoStale.of_session (Or.inl (by simp [hs]))
    · exact NoStale.of_session (Or.inl (by simp [hs]))
  · rename_i hs
    split
    · exact NoStale.of_session (Or.inr (by simp [hs]))
    · exact NoStale.of_session (Or.inr (by simp [hs]))
  · exact noStale_errorClose _
  · exact noStale_errorClose _
  · rename_i h1 h2 h3 h4
    unfold NoStale at *
    cases hst : s.st <;> simp_all

theorem noStale_fireIdleHold {s : Sess} (h : NoStale s) : NoStale s.fireIdleHold := by
  unfold fireIdleHold
  split
  · exact noStale_autoStart (noStale_setIdleHold h _) _
  · exact noStale_setIdleHold h _

theorem noStale_fsmOpenReceived {s : Sess} (h : NoStale s) : NoStale s.fsmOpenReceived := by
  unfold fsmOpenReceived
  split
  · exact noStale_errorClose _
  · exact noStale_errorClose _
  · split
    · exact NoStale.of_session (Or.inl (by simp))
    · exact NoStale.of_session (Or.inl (by simp))
  · exact noStale_errorClose _
  · exact noStale_errorClose _
  · exact h

theorem noStale_restartHold_session {s : Sess} (hs : s.st = .openConfirm ∨ s.st = .established) : NoStale s.restartHold :=
  NoStale.of_session (by simpa using hs)

theorem noStale_fsmKeepaliveReceived {s : Sess} (h : NoStale s) : NoStale s.fsmKeepaliveReceived := by
  unfold fsmKeepaliveReceived
  split
  · exact NoStale.of_session (Or.inr (by simp))
  · rename_i hs; exact noStale_restartHold_session (Or.inr hs)
  · exact noStale_errorClose _
  · exact noStale_errorClose _
  · exact noStale_errorClose _
  · exact h

theorem noStale_fsmUpdateReceived {s : Sess} (h : NoStale s) : NoStale s.fsmUpdateReceived := by
  unfold fsmUpdateReceived
  split
  · rename_i hs; exact noStale_restartHold_session (Or.inr hs)
  · exact noStale_errorClose _
  · exact noStale_errorClose _
  · exact noStale_errorClose _
  · exact noStale_errorClose _
  · exact h

/-- NOTIFICATION received; for "unsupported version number" in OpenSent / OpenConfirm the FSM goes to Idle without
    `_error_close` and stops both timers itself -/
theorem noStale_fsmNotificationReceived {s : Sess} (h : NoStale s) (e sub : Nat) :
    NoStale (s.fsmNotificationReceived e sub) := by
  unfold fsmNotificationReceived
  split
  · split
    · exact NoStale.of_clear (by simp) (by simp)
    · exact NoStale.of_clear (by simp) (by simp)
    · exact noStale_errorClose _
    · exact noStale_errorClose _
    · exact noStale_errorClose _
    · exact h
  · split
    · exact noStale_errorClose _
    · exact h

/-! ### the framing loop: every frame handler keeps the invariant, without any further hypothesis -/

theorem noStale_openAccepted {s : Sess} (h : NoStale s) (i : Nat) (m : OpenMsg) : NoStale (s.openAccepted i m).1 := by
  unfold openAccepted
  split
  · exact noStale_openMessageError _ _
  · refine noStale_emit (noStale_fsmOpenReceived (noStale_withHoldTime ?_ _)) _
    split
    · exact noStale_setAsn4 (noStale_withRemote h _) _
    · exact noStale_withRemote h _

theorem noStale_openReceived {s : Sess} (h : NoStale s) (i : Nat) (body : Bytes) : NoStale (s.openReceived i body).1 := by
  unfold openReceived
  split
  · exact noStale_headerError _ _ _
  · exact noStale_openMessageError _ _
  · exact noStale_bumpRecv h _ _
  · split
    · exact noStale_openMessageError _ _
    · exact noStale_openAccepted (noStale_bumpRecv h _ _) _ _

theorem noStale_dispatch {s : Sess} (h : NoStale s) (i ty : Nat) (body : Bytes) : NoStale (dispatch U s i ty body).1 := by
  unfold dispatch
  split
  · exact noStale_openReceived h _ _
  · split
    · split
      · exact noStale_bumpRecv h _ _
      · exact noStale_emit (noStale_bumpRecv h _ _) _
      · exact noStale_fsmUpdateReceived (noStale_emit (noStale_bumpRecv h _ _) _)
      · exact noStale_fsmUpdateReceived (noStale_emit (noStale_bumpRecv h _ _) _)
    · split
      · split
        · exact h
        · exact noStale_fsmNotificationReceived (noStale_emit (noStale_bumpRecv h _ _) _) _ _
      · split
        · split
          · exact noStale_fsmKeepaliveReceived (noStale_emit (noStale_bumpRecv h _ _) _)
          · exact noStale_headerError _ _ _
        · split
          · split
            · exact noStale_bumpRecv h _ _
            · exact noStale_emit (noStale_bumpRecv h _ _) _
          · exact noStale_headerError _ _ _

theorem noStale_parseBuffer {s : Sess} (h : NoStale s) (i : Nat) (buf : Bytes) : NoStale (parseBuffer U s i buf).1 := by
  unfold parseBuffer
  split
  · exact h
  · split
    · exact h
    · exact noStale_headerError _ _ _
    · exact noStale_headerError _ _ _
    · split
      · exact noStale_dispatch U h _ _ _
      · exact noStale_dispatch U h _ _ _

theorem noStale_drain (i : Nat) : ∀ (fuel : Nat) (s : Sess) (buf : Bytes), NoStale s → NoStale (drain U fuel s i buf).1 := by
  intro fuel
  induction fuel with
  | zero => intro s buf h; exact h
  | succ n ih =>
    intro s buf h
    have hp := noStale_parseBuffer U h i buf
    simp only [drain]
    cases hr : (parseBuffer U s i buf).2 with
    | none => exact hp
    | some rest => exact ih _ rest hp

/-! ### one step, all runs -/

theorem insess_or_quiet (st : St) : Core.InSess st ∨ (st = .idle ∨ st = .connect ∨ st = .active) := by
  unfold Core.InSess
  cases st
  · exact Or.inr (Or.inl rfl)
  · exact Or.inr (Or.inr (Or.inl rfl))
  · exact Or.inr (Or.inr (Or.inr rfl))
  · exact Or.inl (Or.inl rfl)
  · exact Or.inl (Or.inr (Or.inl rfl))
  · exact Or.inl (Or.inr (Or.inr rfl))

/-- what `Heal` and `One` give for a connection attempt in flight: no session is being set up or is up -/
theorem quiet_of_connecting {s : Sess} (hh : Core.Heal (core s)) (ho : Core.One (core s)) {c : Nat}
    (hlt : c < s.conns.length) (hc : (s.conn c).phase = .connecting) : s.st = .idle ∨ s.st = .connect ∨ s.st = .active := by
  have hlen : (core s).conns.length = s.conns.length := by simp [core]
  rcases insess_or_quiet s.st with hs | hs
  · obtain ⟨i, _, _, hup⟩ := hh.sess hs
    have hi : Core.Live (core s) i := Or.inr (by rw [hup.2])
    have hcl : Core.Live (core s) c := Or.inl (by rw [core_conn]; exact hc)
    have heq := ho.one c i (by rw [hlen]; exact hlt) hup.1 hcl hi
    subst heq
    have h2 := hup.2
    rw [core_conn] at h2
    have : (s.conn c).phase = .connected := congrArg Prod.fst h2
    rw [hc] at this
    cases this
  · exact hs

/-- what `Heal` gives for a connection we closed ourselves: it is not the established protocol of a session -/
theorem quiet_of_disconnected {s : Sess} (hh : Core.Heal (core s)) {c : Nat}
    (hd : (s.conn c).disconnected = true) (he : s.estab = some c) : s.st = .idle ∨ s.st = .connect ∨ s.st = .active := by
  rcases insess_or_quiet s.st with hs | hs
  · obtain ⟨i, _, hes, hup⟩ := hh.sess hs
    have hes' : s.estab = some i := hes
    rw [he] at hes'
    cases hes'
    have h2 := hup.2
    rw [core_conn] at h2
    have : (s.conn c).disconnected = false := congrArg Prod.snd h2
    rw [hd] at this
    cases this
  · exact hs

/-- **One step keeps the invariant**, in every state satisfying the reachable-state invariants. -/
theorem noStale_step (w : World) (e : Ev) (hen : enabled w.sess e = true)
    (hh : Core.Heal (core w.sess)) (ho : Core.One (core w.sess)) (h : NoStale w.sess) : NoStale (step U w e).sess := by
  have h0 : NoStale (w.sess.withOuts []) := h.of_eq rfl rfl rfl
  have hh0 : Core.Heal (core (w.sess.withOuts [])) := hh
  have ho0 : Core.One (core (w.sess.withOuts [])) := ho
  cases e with
  | boot => exact noStale_autoStart h0 _
  | manualStart => exact noStale_manualStart h0
  | manualStop => exact noStale_manualStop _
  | connOk c =>
    simp only [enabled, decide_eq_true_eq] at hen
    exact noStale_connOk h0 (quiet_of_connecting hh0 ho0 (c := c) hen.1 hen.2) c
  | connFail c => exact noStale_connFail h0 c
  | lost c => exact noStale_connLost h0 c (fun hd he => quiet_of_disconnected hh0 hd he)
  | advance dt => exact h0.of_eq rfl rfl rfl
  | fire t =>
    cases t with
    | retry => exact noStale_fireRetry h0
    | hold => exact noStale_fireHold h0
    | keepalive => exact noStale_fireKeepalive h0
    | idleHold => exact noStale_fireIdleHold h0
  | chunk c d =>
    simp only [step, dataReceived]
    exact noStale_drain U c _ _ _ h0

theorem noStale_run (evs : List Ev) : ∀ (w : World), Core.Heal (core w.sess) → Core.One (core w.sess) → Core.Pend (core w.sess) →
    EnabledRun U w evs → NoStale w.sess → NoStale (run U w evs).sess := by
  induction evs with
  | nil => intro w _ _ _ _ h; exact h
  | cons e r ih =>
    intro w hh ho hp hen h
    have hop := one_step U w e hen.1 ho hp hh
    exact ih (step U w e) (heal_step U w e hen.1 hh) hop.1 hop.2 hen.2 (noStale_step U w e hen.1 hh ho h)

/-- **C01, timers.**  After the agent's start (the deferred automatic start or an operator start) and any sequence of
    enabled events - connection results, peer data in any segmentation, timer expiries, operator commands, every error
    path - no timer of an ended session is left running: in Idle, Connect and Active neither the hold timer nor the
    keepalive timer exists, and in OpenSent the keepalive timer does not exist. -/
theorem C01_no_stale_timers (cfg : Cfg) (e0 : Ev) (he0 : e0 = .boot ∨ e0 = .manualStart) (evs : List Ev)
    (hen : EnabledRun U (step U (bootWorld cfg) e0) evs) :
    NoStale (run U (bootWorld cfg) (e0 :: evs)).sess := by
  have h0 := one_first U cfg e0 he0
  have hh0 := heal_first U cfg e0 he0
  have hb : NoStale ((bootWorld cfg).sess.withOuts []) := NoStale.of_clear rfl rfl
  have hfirst : NoStale (step U (bootWorld cfg) e0).sess := by
    rcases he0 with rfl | rfl
    · exact noStale_autoStart hb _
    · exact noStale_manualStart hb
  exact noStale_run U evs _ hh0 h0.1 h0.2 hen hfirst

/-- consequence stated on the events: a hold or keepalive timer can only expire (the `fire` event is only enabled) in a
    state where RFC 4271 has it running -/
theorem C01_timer_expiry_states (cfg : Cfg) (e0 : Ev) (he0 : e0 = .boot ∨ e0 = .manualStart) (evs : List Ev)
    (hen : EnabledRun U (step U (bootWorld cfg) e0) evs) :
    let s := (run U (bootWorld cfg) (e0 :: evs)).sess
    (enabled s (.fire .hold) = true → s.st = .openSent ∨ s.st = .openConfirm ∨ s.st = .established) ∧
    (enabled s (.fire .keepalive) = true → s.st = .openConfirm ∨ s.st = .established) := by
  intro s
  have h : NoStale s := C01_no_stale_timers U cfg e0 he0 evs hen
  unfold NoStale at h
  constructor
  · intro he
    simp only [enabled, timerOf] at he
    cases hst : s.st <;> simp_all
  · intro he
    simp only [enabled, timerOf] at he
    cases hst : s.st <;> simp_all

/-! ### non-vacuity -/

/-- NOTIFICATION (2,1) "unsupported version number", no data -/
def exNotifVersion : Bytes := marker ++ [0, 21, 3, 2, 1]

/-- the peer answers our OPEN with its own OPEN (OpenConfirm: both timers running) and then with NOTIFICATION (2,1):
    the session ends in Idle and both timers are gone; before the NOTIFICATION they were running -/
example :
    let evs : List Ev := [.connOk 0, .chunk 0 exOpen, .chunk 0 exNotifVersion]
    EnabledRun exU (step exU (bootWorld exCfg) .boot) evs ∧
    exOpenConfirm.sess.tm.hold = some 270 ∧ exOpenConfirm.sess.tm.keepalive = some 90 ∧
    (run exU (bootWorld exCfg) (.boot :: evs)).sess.st = .idle ∧
    (run exU (bootWorld exCfg) (.boot :: evs)).sess.tm.hold = none ∧
    (run exU (bootWorld exCfg) (.boot :: evs)).sess.tm.keepalive = none := by
  intro evs
  refine ⟨⟨by decide, by decide, by decide, trivial⟩, by decide, by decide, by decide, by decide, by decide⟩

/-- the connection is lost in OpenSent (hold timer running at the 4-minute limit): FSM.connection_failed stops the hold
    timer on its way through Active, connection_closed then resets the state to Idle -/
example :
    let evs : List Ev := [.connOk 0, .lost 0]
    EnabledRun exU (step exU (bootWorld exCfg) .boot) evs ∧
    exOpenSent.sess.tm.hold = some 720 ∧
    (run exU (bootWorld exCfg) (.boot :: evs)).sess.st = .idle ∧
    (run exU (bootWorld exCfg) (.boot :: evs)).sess.tm.hold = none ∧
    (run exU (bootWorld exCfg) (.boot :: evs)).sess.tm.keepalive = none := by
  intro evs
  refine ⟨⟨by decide, by decide, trivial⟩, by decide, by decide, by decide, by decide⟩

end Yabgp

#print axioms Yabgp.noStale_step
#print axioms Yabgp.noStale_run
#print axioms Yabgp.C01_no_stale_timers
#print axioms Yabgp.C01_timer_expiry_states
