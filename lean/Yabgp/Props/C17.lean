/-
  C17 — decoded community text is accepted back by the REST API and re-encodes the same.

  For every extended-community kind the decoder renders as text (route-target / route-origin with 2-octet AS, IPv4 and
  4-octet AS administrators, color, encapsulation, redirect-vrf, redirect-nexthop, traffic-rate, traffic-action,
  traffic-marking, dmzlink-bw, esi-label, mac-mobility, es-import, router-mac) and every field tuple in range:
     * the REST translation of yabgp/api/v1.py turns the text form of the value into the item `item v`
       (`C17_translate`), for ANY peer state when the kind has no 4-octet AS, else for a peer that advertised the
       4-octet AS capability (the views refuse it otherwise: stated restriction);
     * `ExtCommunity.construct` encodes that item to exactly the octets the RFCs require (`C17_construct_one`);
     * `ExtCommunity.parse` renders those octets as exactly that text (`C17_decode_one`);
  lifted to whole lists / the whole attribute in `C17_extcomm` (text list -> REST -> attribute octets = reference
  attribute, which decodes to the identical text list).  Communities: all 2^32 values by classes incl. every name of
  the table GENERATED from constants.py (`C17_community`, `C17_wellknown_names`); large communities with fields up to
  2^32-1 (`C17_large`).

  Stated restrictions (not defects):
    * traffic-rate / dmzlink-bw carry an IEEE 754 binary32: the value must be a natural number that binary32 represents
      exactly (`f32Exact`); the text is its decimal expansion (the decoder prints `int(rate)`);
    * a 4-octet-AS administrator below 65536 has the same text as the 2-octet-AS form and is re-encoded as the latter
      (RFC 5668 §3 asks for exactly that); `C17_as4_small_as_is_ambiguous` records the witness;
    * attribute length: at most 31 extended / 63 plain / 21 large communities fit the 1-octet length yabgp uses.
  The model is the code after the repairs listed in Model/ExtComm.lean.
-/
import Yabgp.Lemmas.ExtCommRt
import Yabgp.Lemmas.AttrRt
import Yabgp.Gen.Constants

namespace Yabgp.C17
open Yabgp.Text Yabgp.RfcExt Yabgp.ExtComm

/-- the item the REST layer must hand to the constructor for a value -/
def item : EC → Item
  | .rtAs2 a n => .str 2 (decStr a ++ ':' :: decStr n)
  | .rtIp4 ip n => .str 258 (ipv4Str ip ++ ':' :: decStr n)
  | .rtAs4 a n => .str 514 (decStr a ++ ':' :: decStr n)
  | .roAs2 a n => .str 3 (decStr a ++ ':' :: decStr n)
  | .roIp4 ip n => .str 259 (ipv4Str ip ++ ':' :: decStr n)
  | .roAs4 a n => .str 515 (decStr a ++ ':' :: decStr n)
  | .color c => .str 779 (decStr c)
  | .encap t => .str 780 (decStr t)
  | .redirectVrf a n => .str 32776 (decStr a ++ ':' :: decStr n)
  | .redirectNh ip c => .nh (ipv4Str ip) (Int.ofNat c)
  | .trafficRate a r => .str 32774 (decStr a ++ ':' :: decStr r)
  | .trafficAction s t => .action (some (Int.ofNat s.toNat)) (some (Int.ofNat t.toNat))
  | .trafficMarking d => .num 32777 (Int.ofNat d)
  | .linkBw a b => .str 16388 (decStr a ++ ':' :: decStr b)
  | .esiLabel f l => .num2 1537 (Int.ofNat f) (Int.ofNat l)
  | .macMobility f s => .num2 1536 (Int.ofNat f) (Int.ofNat s)
  | .esImport m => .str 1538 (macText m)
  | .routerMac m => .str 1539 (macText m)

/-- what the peer must have advertised for the REST layer to accept the value -/
def PeerOk (p : Peer) (v : EC) : Prop := v.needsAs4 = true → p.remoteCaps = true ∧ p.fourBytesAs = true

/-! ### text -> item (the REST translation) -/

theorem C17_translate (p : Peer) (v : EC) (hr : v.inRange = true) (hp : PeerOk p v) :
    translateOne p (text v) = .ok [item v] := by
  cases v with
  | rtAs2 a n =>
    simp only [EC.inRange, Bool.and_eq_true, decide_eq_true_eq] at hr
    exact tr_routeTarget p (noWs_decPair a n) (noComma_decPair a n) (adminOne_as2 258 2 514 p n hr.1)
  | rtIp4 ip n =>
    exact tr_routeTarget p (noWs_ipPair ip n) (noComma_ipPair ip n) (adminOne_ip4 258 2 514 p ip n)
  | rtAs4 a n =>
    simp only [EC.inRange, Bool.and_eq_true, decide_eq_true_eq] at hr
    exact tr_routeTarget p (noWs_decPair a n) (noComma_decPair a n) (adminOne_as4 258 2 514 p n hr.1.1 (hp rfl))
  | roAs2 a n =>
    simp only [EC.inRange, Bool.and_eq_true, decide_eq_true_eq] at hr
    exact tr_routeOrigin p (noWs_decPair a n) (noComma_decPair a n) (adminOne_as2 259 3 515 p n hr.1)
  | roIp4 ip n =>
    exact tr_routeOrigin p (noWs_ipPair ip n) (noComma_ipPair ip n) (adminOne_ip4 259 3 515 p ip n)
  | roAs4 a n =>
    simp only [EC.inRange, Bool.and_eq_true, decide_eq_true_eq] at hr
    exact tr_routeOrigin p (noWs_decPair a n) (noComma_decPair a n) (adminOne_as4 259 3 515 p n hr.1.1 (hp rfl))
  | color c =>
    exact tr_dict_str p "color" 779 (noWs_decStr c) (decStr_no_sep c).2.2.1 (by decide) (by decide) (fun _ => rfl) (by decide)
  | encap t =>
    exact tr_dict_str p "encapsulation" 780 (noWs_decStr t) (decStr_no_sep t).2.2.1 (by decide) (by decide)
      (fun _ => rfl) (by decide)
  | redirectVrf a n => exact tr_redirectVrf p (noWs_decPair a n)
  | redirectNh ip c => exact tr_redirectNh p ip c
  | trafficRate a r =>
    exact tr_dict_str p "traffic-rate" 32774 (noWs_decPair a r) (noComma_decPair a r) (by decide) (by decide)
      (fun _ => rfl) (by decide)
  | trafficAction s t => exact tr_action p s.toNat t.toNat
  | trafficMarking d => exact tr_marking p d
  | linkBw a b => exact tr_linkBw p (noWs_decPair a b) (noComma_decPair a b)
  | esiLabel f l => exact tr_dict1 p "esi-label" 1537 f l (by decide) (by decide) (fun _ => rfl)
  | macMobility f s => exact tr_dict1 p "mac-mobility" 1536 f s (by decide) (by decide) (fun _ => rfl)
  | esImport m =>
    exact tr_dict_str p "es-import" 1538 (noWs_macText m) (noComma_macText m) (by decide) (by decide)
      (fun _ => rfl) (by decide)
  | routerMac m =>
    exact tr_dict_str p "router-mac" 1539 (noWs_macText m) (noComma_macText m) (by decide) (by decide)
      (fun _ => rfl) (by decide)

/-! ### item -> octets (the constructor) -/

theorem C17_construct_one (v : EC) (hr : v.inRange = true) : constructOne (item v) = some (rfcBytes v) := by
  cases v with
  | rtAs2 a n =>
    simp only [EC.inRange, Bool.and_eq_true, decide_eq_true_eq] at hr
    show conAs2 2 _ = _
    rw [conAs2_dec 2 hr.1 hr.2]; rfl
  | rtIp4 ip n =>
    simp only [EC.inRange, Bool.and_eq_true, decide_eq_true_eq] at hr
    show conIp4 258 _ = _
    rw [conIp4_dec 258 hr.1 hr.2]; rfl
  | rtAs4 a n =>
    simp only [EC.inRange, Bool.and_eq_true, decide_eq_true_eq] at hr
    show conAs4 514 _ = _
    rw [conAs4_dec 514 hr.1.2 hr.2]; rfl
  | roAs2 a n =>
    simp only [EC.inRange, Bool.and_eq_true, decide_eq_true_eq] at hr
    show conAs2 3 _ = _
    rw [conAs2_dec 3 hr.1 hr.2]; rfl
  | roIp4 ip n =>
    simp only [EC.inRange, Bool.and_eq_true, decide_eq_true_eq] at hr
    show conIp4 259 _ = _
    rw [conIp4_dec 259 hr.1 hr.2]; rfl
  | roAs4 a n =>
    simp only [EC.inRange, Bool.and_eq_true, decide_eq_true_eq] at hr
    show conAs4 515 _ = _
    rw [conAs4_dec 515 hr.1.2 hr.2]; rfl
  | color c =>
    simp only [EC.inRange, decide_eq_true_eq] at hr
    show conOpaque 779 _ = _
    rw [conOpaque_dec 779 hr]; rfl
  | encap t =>
    simp only [EC.inRange, decide_eq_true_eq] at hr
    show conOpaque 780 _ = _
    rw [conOpaque_dec 780 (by omega), be32_small hr]; rfl
  | redirectVrf a n =>
    simp only [EC.inRange, Bool.and_eq_true, decide_eq_true_eq] at hr
    show conAs2 32776 _ = _
    rw [conAs2_dec 32776 hr.1 hr.2]; rfl
  | redirectNh ip c =>
    simp only [EC.inRange, Bool.and_eq_true, decide_eq_true_eq] at hr
    simp only [item, constructOne, pyIpv4_ipv4Str hr.1, inRange_ofNat hr.2]; rfl
  | trafficRate a r =>
    simp only [EC.inRange, Bool.and_eq_true, decide_eq_true_eq] at hr
    show conRate 32774 _ = _
    rw [conRate_dec 32774 hr.1 hr.2]; rfl
  | trafficAction s t =>
    cases s <;> cases t <;> rfl
  | trafficMarking d =>
    simp only [EC.inRange, decide_eq_true_eq] at hr
    simp only [item, constructOne, ↓reduceIte, inRange_ofNat (show d < 256 by omega)]; rfl
  | linkBw a b =>
    simp only [EC.inRange, Bool.and_eq_true, decide_eq_true_eq] at hr
    show conRate 16388 _ = _
    rw [conRate_dec 16388 hr.1 hr.2]; rfl
  | esiLabel f l =>
    simp only [EC.inRange, Bool.and_eq_true, decide_eq_true_eq] at hr
    simp only [item, constructOne, ↓reduceIte, inRange_ofNat hr.1, inRange_ofNat (show l < 268435456 by omega)]; rfl
  | macMobility f s =>
    simp only [EC.inRange, Bool.and_eq_true, decide_eq_true_eq] at hr
    simp only [item, constructOne, ↓reduceIte, inRange_ofNat hr.1, inRange_ofNat hr.2]
    rfl
  | esImport m =>
    show conMac 1538 _ = _
    rw [conMac_text]; rfl
  | routerMac m =>
    show conMac 1539 _ = _
    rw [conMac_text]; rfl

/-- the structured value the decoder extracts from the reference octets -/
def valOf : EC → Val
  | .rtAs2 a n => .as2 2 a n
  | .rtIp4 ip n => .ip4 258 ip n
  | .rtAs4 a n => .as4 514 a n
  | .roAs2 a n => .as2 3 a n
  | .roIp4 ip n => .ip4 259 ip n
  | .roAs4 a n => .as4 515 a n
  | .color c => .opaque 779 c
  | .encap t => .opaque 780 t
  | .redirectVrf a n => .as2 32776 a n
  | .redirectNh ip c => .ip4 2048 ip c
  | .trafficRate a r => .rate 32774 a false r
  | .trafficAction s t => .action s.toNat t.toNat
  | .trafficMarking d => .mark d
  | .linkBw a b => .rate 16388 a false b
  | .esiLabel f l => .esiLabel f l
  | .macMobility f s => .macMob f s
  | .esImport m => .mac 1538 (m / 1099511627776 % 256) (m / 4294967296 % 256) (m / 16777216 % 256) (m / 65536 % 256)
      (m / 256 % 256) (m % 256)
  | .routerMac m => .mac 1539 (m / 1099511627776 % 256) (m / 4294967296 % 256) (m / 16777216 % 256) (m / 65536 % 256)
      (m / 256 % 256) (m % 256)

/-- the decoder's rendering of that structured value is the text form of the value -/
theorem render_valOf (v : EC) : render (valOf v) = .text (text v) := by
  cases v <;> rfl


/-! ### octets -> text (the decoder), compositional form -/

theorem C17_decode_one (v : EC) (hr : v.inRange = true) (rest : Bytes) :
    decodeAll (rfcBytes v ++ rest) = consVal (valOf v) (decodeAll rest) := by
  cases v with
  | rtAs2 a n =>
    simp only [EC.inRange, Bool.and_eq_true, decide_eq_true_eq] at hr
    simp only [rfcBytes, be16, be32, List.cons_append, List.nil_append]
    apply decodeAll_of_one
    simp [decodeOne, n16, n32, valOf, u8_toNat_mod]
    omega
  | rtIp4 ip n =>
    simp only [EC.inRange, Bool.and_eq_true, decide_eq_true_eq] at hr
    simp only [rfcBytes, be16, be32, List.cons_append, List.nil_append]
    apply decodeAll_of_one
    simp [decodeOne, n16, n32, valOf, u8_toNat_mod]
    omega
  | rtAs4 a n =>
    simp only [EC.inRange, Bool.and_eq_true, decide_eq_true_eq] at hr
    simp only [rfcBytes, be16, be32, List.cons_append, List.nil_append]
    apply decodeAll_of_one
    simp [decodeOne, n16, n32, valOf, u8_toNat_mod]
    omega
  | roAs2 a n =>
    simp only [EC.inRange, Bool.and_eq_true, decide_eq_true_eq] at hr
    simp only [rfcBytes, be16, be32, List.cons_append, List.nil_append]
    apply decodeAll_of_one
    simp [decodeOne, n16, n32, valOf, u8_toNat_mod]
    omega
  | roIp4 ip n =>
    simp only [EC.inRange, Bool.and_eq_true, decide_eq_true_eq] at hr
    simp only [rfcBytes, be16, be32, List.cons_append, List.nil_append]
    apply decodeAll_of_one
    simp [decodeOne, n16, n32, valOf, u8_toNat_mod]
    omega
  | roAs4 a n =>
    simp only [EC.inRange, Bool.and_eq_true, decide_eq_true_eq] at hr
    simp only [rfcBytes, be16, be32, List.cons_append, List.nil_append]
    apply decodeAll_of_one
    simp [decodeOne, n16, n32, valOf, u8_toNat_mod]
    omega
  | color c =>
    simp only [EC.inRange, decide_eq_true_eq] at hr
    simp only [rfcBytes, be32, List.cons_append, List.nil_append]
    apply decodeAll_of_one
    simp [decodeOne, n16, n32, valOf, u8_toNat_mod]
    omega
  | encap t =>
    simp only [EC.inRange, decide_eq_true_eq] at hr
    simp only [rfcBytes, be16, List.cons_append, List.nil_append]
    apply decodeAll_of_one
    simp [decodeOne, n16, n32, valOf, u8_toNat_mod]
    omega
  | redirectVrf a n =>
    simp only [EC.inRange, Bool.and_eq_true, decide_eq_true_eq] at hr
    simp only [rfcBytes, be16, be32, List.cons_append, List.nil_append]
    apply decodeAll_of_one
    simp [decodeOne, n16, n32, valOf, u8_toNat_mod]
    omega
  | redirectNh ip c =>
    simp only [EC.inRange, Bool.and_eq_true, decide_eq_true_eq] at hr
    simp only [rfcBytes, be16, be32, List.cons_append, List.nil_append]
    apply decodeAll_of_one
    simp [decodeOne, n16, n32, valOf, u8_toNat_mod]
    omega
  | trafficRate a r =>
    simp only [EC.inRange, Bool.and_eq_true, decide_eq_true_eq] at hr
    simp only [rfcBytes, be16, be32, List.cons_append, List.nil_append]
    apply decodeAll_of_one
    rw [decodeOne_rate1, decodeRate_exact 32774 hr.1 hr.2]; rfl
  | trafficAction s t =>
    simp only [rfcBytes, List.cons_append, List.nil_append]
    apply decodeAll_of_one
    cases s <;> cases t <;> simp [decodeOne, n16, valOf, u8_toNat_mod]
  | trafficMarking d =>
    simp only [EC.inRange, decide_eq_true_eq] at hr
    simp only [rfcBytes, List.cons_append, List.nil_append]
    apply decodeAll_of_one
    simp [decodeOne, n16, valOf, u8_toNat_mod]
    omega
  | linkBw a r =>
    simp only [EC.inRange, Bool.and_eq_true, decide_eq_true_eq] at hr
    simp only [rfcBytes, be16, be32, List.cons_append, List.nil_append]
    apply decodeAll_of_one
    rw [decodeOne_rate2, decodeRate_exact 16388 hr.1 hr.2]; rfl
  | esiLabel f l =>
    simp only [EC.inRange, Bool.and_eq_true, decide_eq_true_eq] at hr
    simp only [rfcBytes, be24, List.cons_append, List.nil_append]
    apply decodeAll_of_one
    simp [decodeOne, n16, valOf, u8_toNat_mod]
    omega
  | macMobility f q =>
    simp only [EC.inRange, Bool.and_eq_true, decide_eq_true_eq] at hr
    simp only [rfcBytes, be32, List.cons_append, List.nil_append]
    apply decodeAll_of_one
    simp [decodeOne, n16, n32, valOf, u8_toNat_mod]
    omega
  | esImport m =>
    simp only [rfcBytes, beN6, List.cons_append, List.nil_append]
    apply decodeAll_of_one
    simp [decodeOne, n16, valOf, u8_toNat_mod]
  | routerMac m =>
    simp only [rfcBytes, beN6, List.cons_append, List.nil_append]
    apply decodeAll_of_one
    simp [decodeOne, n16, valOf, u8_toNat_mod]

/-! ### whole lists, the whole attribute -/

theorem C17_translate_list (p : Peer) (vs : List EC) (hr : ∀ v ∈ vs, v.inRange = true) (hp : ∀ v ∈ vs, PeerOk p v) :
    translate p (vs.map text) = .ok (vs.map item) := by
  unfold translate
  induction vs with
  | nil => rfl
  | cons v r ih =>
    have h1 := C17_translate p v (hr v (by simp)) (hp v (by simp))
    have h2 := ih (fun x hx => hr x (by simp [hx])) (fun x hx => hp x (by simp [hx]))
    simp only [List.map_cons]
    rw [trList_cons_ok h1 h2]; rfl

theorem C17_constructBody (vs : List EC) (hr : ∀ v ∈ vs, v.inRange = true) :
    constructBody (vs.map item) = some (vs.flatMap rfcBytes) := by
  induction vs with
  | nil => rfl
  | cons v r ih =>
    simp only [List.map_cons, constructBody, C17_construct_one v (hr v (by simp)),
      ih (fun x hx => hr x (by simp [hx])), List.flatMap_cons]

/-- the constructor builds exactly the reference attribute (1 to 31 communities fit its 1-octet length) -/
theorem C17_construct (vs : List EC) (hr : ∀ v ∈ vs, v.inRange = true) (hne : vs ≠ []) (hlen : vs.length ≤ 31) :
    construct (vs.map item) = .ok (rfcAttr vs) := by
  unfold construct
  rw [C17_constructBody vs hr]
  have hl := flatMap_rfcBytes_length vs
  cases hb : vs.flatMap rfcBytes with
  | nil =>
    rw [hb] at hl
    cases vs with
    | nil => exact absurd rfl hne
    | cons v r => simp at hl
  | cons b bs =>
    rw [hb] at hl
    simp only
    rw [if_pos (by rw [hl]; omega), hl]
    simp only [rfcAttr, hb]
    rfl

theorem C17_decodeAll (vs : List EC) (hr : ∀ v ∈ vs, v.inRange = true) :
    decodeAll (vs.flatMap rfcBytes) = .ok (vs.map valOf) := by
  induction vs with
  | nil => rfl
  | cons v r ih =>
    rw [List.flatMap_cons, C17_decode_one v (hr v (by simp)), ih (fun x hx => hr x (by simp [hx]))]; rfl

/-- the decoder renders the reference octets of a list of values as exactly their text forms -/
theorem C17_parse (vs : List EC) (hr : ∀ v ∈ vs, v.inRange = true) :
    parse (vs.flatMap rfcBytes) = .ok (vs.map fun v => .text (text v)) := by
  unfold parse parseVals
  rw [flatMap_rfcBytes_length, if_neg (by omega), C17_decodeAll vs hr]
  simp only [List.map_map]
  congr 1
  apply List.map_congr_left
  intro v _
  exact render_valOf v

/-- C17 for extended communities, end to end: the decoded texts of any non-empty list of in-range values, posted to
    the REST interface of a session whose peer may be offered them, are accepted; the attribute produced is the
    reference attribute octet for octet; and decoding it renders the identical texts -/
theorem C17_extcomm (p : Peer) (vs : List EC) (hr : ∀ v ∈ vs, v.inRange = true) (hp : ∀ v ∈ vs, PeerOk p v)
    (hne : vs ≠ []) (hlen : vs.length ≤ 31) :
    parse (vs.flatMap rfcBytes) = .ok (vs.map fun v => .text (text v)) ∧
    rest p (vs.map text) = .ok (rfcAttr vs) ∧
    parse ((rfcAttr vs).drop 3) = .ok (vs.map fun v => .text (text v)) := by
  refine ⟨C17_parse vs hr, ?_, ?_⟩
  · unfold rest
    rw [C17_translate_list p vs hr hp]
    simp only [C17_construct vs hr hne hlen]
  · have : (rfcAttr vs).drop 3 = vs.flatMap rfcBytes := by simp [rfcAttr]
    rw [this]; exact C17_parse vs hr

/-- the stated restriction is the code's own policy: a 4-octet AS administrator is refused (not mis-encoded) when
    the peer did not advertise the capability -/
theorem C17_as4_refused (p : Peer) (a n : Nat) (hr : (EC.rtAs4 a n).inRange = true)
    (hp : p.remoteCaps = true ∧ p.fourBytesAs = false) :
    translateOne p (text (.rtAs4 a n)) = .refused 2 ∧ translateOne p (text (.roAs4 a n)) = .refused 2 := by
  simp only [EC.inRange, Bool.and_eq_true, decide_eq_true_eq] at hr
  have h := adminOne_as4_refused
  constructor
  · have hk : lower (strip "route-target".toList) = "route-target".toList := by decide
    have hd : dispatch p "route-target".toList (decStr a ++ ':' :: decStr n) =
        trList (rtOne p) (splitAll ',' (strip (decStr a ++ ':' :: decStr n))) := rfl
    show translateOne p ("route-target".toList ++ ':' :: (decStr a ++ ':' :: decStr n)) = _
    rw [translateOne_key p _ (by decide), hk, hd, strip_noWs (noWs_decPair a n), splitAll_single (noComma_decPair a n)]
    simp [trList, rtOne, h 258 2 514 p n hr.1.1 hp]
  · have hk : lower (strip "route-origin".toList) = "route-origin".toList := by decide
    have hd : dispatch p "route-origin".toList (decStr a ++ ':' :: decStr n) =
        trList (roOne p) (splitAll ',' (strip (decStr a ++ ':' :: decStr n))) := rfl
    show translateOne p ("route-origin".toList ++ ':' :: (decStr a ++ ':' :: decStr n)) = _
    rw [translateOne_key p _ (by decide), hk, hd, strip_noWs (noWs_decPair a n), splitAll_single (noComma_decPair a n)]
    simp [trList, roOne, h 259 3 515 p n hr.1.1 hp]

/-- why a 4-octet AS administrator below 65536 is outside `inRange`: its text is the text of the 2-octet form,
    whose reference octets differ (RFC 5668 §3 prescribes the 2-octet form for such AS numbers) -/
theorem C17_as4_small_as_is_ambiguous :
    text (.rtAs4 100 5) = text (.rtAs2 100 5) ∧ rfcBytes (.rtAs4 100 5) ≠ rfcBytes (.rtAs2 100 5) :=
  ⟨rfl, by decide⟩

/-! ### communities and large communities -/

/-- C17 for COMMUNITIES: every list of 32-bit values (whatever their class: well-known names of the table, the
    reserved ranges 0x0000xxxx / 0xFFFFxxxx without a name, ordinary "asn:value") is rendered, read back by
    `Community.construct` to the RFC 1997 attribute, and that decodes to the same texts -/
theorem C17_community (vs : List Nat) (h : ∀ v ∈ vs, v < 4294967296) (hlen : vs.length ≤ 63) :
    CommText.parseCommText (vs.flatMap be32) = .ok (vs.map commStr) ∧
    CommText.constructComm (vs.map commStr) = some (rfcCommunityAttr vs) := by
  constructor
  · unfold CommText.parseCommText parseCommunity
    rw [flatMap_be32_length, if_pos (by omega), words32_flatMap_be32 vs h]
  · unfold CommText.constructComm
    rw [mapM_parseComm vs h]
    have hall : vs.all (· < 4294967296) = true := by simpa [List.all_eq_true] using h
    simp only [Option.bind_some, constructAttr, C.tCommunity, hall, and_self, ↓reduceIte, attrHdr1,
      flatMap_be32_length]
    rw [if_pos (by omega)]
    rfl

/-- every name of the table GENERATED from constants.py is what the decoder renders for its value and is read back
    as that value -/
theorem C17_wellknown_names :
    ∀ e ∈ Gen.Const.wellKnownInt2Str, commStr e.1 = e.2.toList ∧ parseComm e.2.toList = some e.1 := by decide

/-- the encoder's generated reverse table is the decoder's table with upper-cased names (the lookup upper-cases) -/
theorem C17_wellknown_reverse_table :
    Gen.Const.wellKnownStr2Int = Gen.Const.wellKnownInt2Str.map (fun e => (e.1, String.ofList (upper e.2.toList))) := by
  decide

/-- C17 for LARGE_COMMUNITY: fields up to 2^32 - 1 -/
theorem C17_large (ts : List (Nat × Nat × Nat))
    (h : ∀ t ∈ ts, t.1 < 4294967296 ∧ t.2.1 < 4294967296 ∧ t.2.2 < 4294967296) (hlen : ts.length ≤ 21) :
    CommText.parseLargeText (ts.flatMap fun t => be32 t.1 ++ be32 t.2.1 ++ be32 t.2.2) = .ok (ts.map largeStr) ∧
    CommText.constructLarge (ts.map largeStr) = some (rfcLargeAttr ts) := by
  constructor
  · unfold CommText.parseLargeText parseLargeCommunity
    rw [triples_flat_length, if_pos (by omega), triples_words ts h]
  · unfold CommText.constructLarge
    rw [mapM_parseLarge ts]
    have hall : ts.all (fun t => t.1 < 4294967296 ∧ t.2.1 < 4294967296 ∧ t.2.2 < 4294967296) = true := by
      simpa [List.all_eq_true] using h
    simp only [Option.bind_some, constructAttr, C.tLargeCommunity, hall, and_self, ↓reduceIte, attrHdr1,
      triples_flat_length]
    rw [if_pos (by omega)]
    rfl

/-! ### the constants the model hard-codes are the ones generated from constants.py -/

open Yabgp.Gen in
theorem C17_ext_codes :
    [Const.BGP_EXT_COM_RT_0, Const.BGP_EXT_COM_RT_1, Const.BGP_EXT_COM_RT_2, Const.BGP_EXT_COM_RO_0,
     Const.BGP_EXT_COM_RO_1, Const.BGP_EXT_COM_RO_2, Const.BGP_EXT_REDIRECT_NH, Const.BGP_EXT_TRA_RATE,
     Const.BGP_EXT_TRA_ACTION, Const.BGP_EXT_REDIRECT_VRF, Const.BGP_EXT_TRA_MARK, Const.BGP_EXT_COM_COLOR,
     Const.BGP_EXT_COM_COLOR_00, Const.BGP_EXT_COM_COLOR_01, Const.BGP_EXT_COM_COLOR_10, Const.BGP_EXT_COM_COLOR_11,
     Const.BGP_EXT_COM_ENCAP, Const.BGP_EXT_COM_EVPN_MAC_MOBIL, Const.BGP_EXT_COM_EVPN_ESI_MPLS_LABEL,
     Const.BGP_EXT_COM_EVPN_ES_IMPORT, Const.BGP_EXT_COM_EVPN_ROUTE_MAC, Const.BGP_EXT_COM_LINK_BW,
     Const.BGP_EXT_COM_UNKNOW, Const.BGPTYPE_EXTENDED_COMMUNITY, Const.BGPTYPE_COMMUNITIES,
     Const.BGPTYPE_LARGE_COMMUNITY, Const.ERR_MSG_UPDATE_ATTR_LEN]
    = [2, 258, 514, 3, 259, 515, 2048, 32774, 32775, 32776, 32777, 779, 51052544, 51068928, 51085312, 51101696, 780,
       1536, 1537, 1538, 1539, 16388, 0, C.tExtCommunity, C.tCommunity, C.tLargeCommunity, C.eAttrLen] := by
  decide

/-- every code of the model's name table is one of those constants, with the name the decoder prints -/
theorem C17_names :
    strDict.map (·.1) = [258, 2, 514, 779, 16388, 259, 515, 3, 32776, 2048, 1537, 1536, 32777, 32774, 51052544,
      51068928, 51085312, 51101696, 780, 1538, 1539, 32775] ∧
    (∀ e ∈ dict, nameOf e.2 = e.1.toList) ∧ (∀ e ∈ dict1, nameOf e.2 = e.1.toList) := by
  decide

/-! ### non-vacuity: concrete values meet the hypotheses, and the statements compute -/

example : (EC.rtAs4 70000 5).inRange = true ∧ (EC.trafficRate 65000 1000).inRange = true ∧
    (EC.linkBw 65000 125000000).inRange = true ∧ (EC.esImport 0xaabbccddeeff).inRange = true ∧
    (EC.trafficAction true false).inRange = true ∧ (EC.esiLabel 1 1048575).inRange = true := by decide

example : PeerOk { remoteCaps := true, fourBytesAs := true } (.rtAs4 70000 5) := fun _ => ⟨rfl, rfl⟩
example : PeerOk { remoteCaps := false, fourBytesAs := false } (.roAs2 65000 5) := fun h => by cases h

/-- an instance of the end-to-end theorem: five kinds in one attribute, towards a peer with the 4-octet AS capability -/
example :
    rest { remoteCaps := true, fourBytesAs := true }
      ([.rtAs4 70000 5, .roIp4 0x0a000001 7, .trafficRate 65000 1000, .esImport 0xaabbccddeeff, .trafficAction true false].map text)
      = .ok (rfcAttr [.rtAs4 70000 5, .roIp4 0x0a000001 7, .trafficRate 65000 1000, .esImport 0xaabbccddeeff,
                      .trafficAction true false]) :=
  (C17_extcomm _ _ (by decide) (by intro v _ _; exact ⟨rfl, rfl⟩) (by decide) (by decide)).2.1

example : rfcBytes (.trafficRate 65000 1000) = [0x80, 0x06, 0xfd, 0xe8, 0x44, 0x7a, 0x00, 0x00] := by decide
example : rfcBytes (.linkBw 65000 125000000) = [0x40, 0x04, 0xfd, 0xe8, 0x4c, 0xee, 0x6b, 0x28] := by decide

example : CommText.constructComm ([0xFFFFFF01, 0xFFFF0003, 65000 * 65536 + 100].map commStr)
    = some (rfcCommunityAttr [0xFFFFFF01, 0xFFFF0003, 65000 * 65536 + 100]) :=
  (C17_community _ (by decide) (by decide)).2

end Yabgp.C17

#print axioms Yabgp.C17.C17_translate
#print axioms Yabgp.C17.C17_construct_one
#print axioms Yabgp.C17.C17_decode_one
#print axioms Yabgp.C17.C17_translate_list
#print axioms Yabgp.C17.C17_construct
#print axioms Yabgp.C17.C17_parse
#print axioms Yabgp.C17.C17_extcomm
#print axioms Yabgp.C17.C17_as4_refused
#print axioms Yabgp.C17.C17_as4_small_as_is_ambiguous
#print axioms Yabgp.C17.C17_community
#print axioms Yabgp.C17.C17_wellknown_names
#print axioms Yabgp.C17.C17_wellknown_reverse_table
#print axioms Yabgp.C17.C17_large
#print axioms Yabgp.C17.C17_ext_codes
#print axioms Yabgp.C17.C17_names
#print axioms Yabgp.Text.parseDec_decStr
#print axioms Yabgp.Text.parseIpv4_ipv4Str
#print axioms Yabgp.Text.parseComm_commStr
#print axioms Yabgp.Text.parseLarge_largeStr
#print axioms Yabgp.ExtComm.packF_exact
#print axioms Yabgp.ExtComm.unpackF_exact
