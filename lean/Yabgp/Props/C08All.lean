/-
  C08 — umbrella module for the registry (`module`: the proof audit imports this one): the core theorems
  (Props/C08.lean: header, OPEN, UPDATE with the standard attributes, IPv6 unicast / labeled / VPN MP attributes,
  NOTIFICATION, KEEPALIVE, ROUTE-REFRESH, generated flag table, witnesses of the repaired defects) and the parts
  over other builders' or construct-only models: EVPN (C08b, Model/Mp/Evpn.lean by EVF), SR policy NLRI / PMSI /
  tunnel encapsulation (C08c, Model/Construct), extended communities (C08d, Model/ExtComm.lean by XC).
  Dropping an import here (and its theorems from the registry) removes that part without touching the others.
-/
import Yabgp.Props.C08
import Yabgp.Props.C08b
import Yabgp.Props.C08c
import Yabgp.Props.C08d
