/-
  C08 — everything the agent constructs is structurally valid BGP on the wire.
  Property theorems only: for every constructor model, `construct x = some w → Walker.valid cfg w = true`
  for ALL inputs ("valid or error").  The specification is Spec/Walker.lean; helper lemmas are in
  Lemmas/WalkerLemmas.lean.
-/
import Yabgp.Lemmas.WalkerLemmas
import Yabgp.Gen.AttrFlags

namespace Yabgp
open Walker

/-! ### KEEPALIVE, NOTIFICATION, ROUTE-REFRESH -/

theorem C08_keepalive (cfg : Cfg) : valid cfg constructKeepalive = true := by
  have := valid_header cfg C.msgKeepalive [] (by decide) (by decide)
  simpa [constructKeepalive, bodyOk, C.msgKeepalive] using this

theorem C08_notification (cfg : Cfg) (err sub : Nat) (data w : Bytes)
    (hc : constructNotification err sub data = some w) : valid cfg w = true := by
  unfold constructNotification at hc
  split at hc
  · exact constructHeader_valid cfg C.msgNotification _ w (by decide) hc (by simp [bodyOk, C.msgNotification, be8])
  · simp at hc

/-- `RouteRefresh.construct(msg_type)`: the type is the caller's; 5 (RFC 2918) and 128 (pre-standard) are the
    two the code documents and uses -/
theorem C08_routerefresh (cfg : Cfg) (ty afi res safi : Nat) (w : Bytes) (hty : ty = 5 ∨ ty = 128)
    (hc : constructRouteRefresh ty afi res safi = some w) : valid cfg w = true := by
  unfold constructRouteRefresh at hc
  split at hc
  · rename_i h
    refine constructHeader_valid cfg ty _ w h.2.2.2 hc ?_
    rcases hty with rfl | rfl <;> simp [bodyOk, be16, be8]
  · simp at hc

/-! ### OPEN -/

/-- every OPEN the constructor returns: the optional-parameters length is the size of what follows, every
    optional parameter is of type 2 and holds exactly one well-formed capability -/
theorem C08_open (cfg : Cfg) (version asn hold bgpId : Nat) (c : LocalCaps) (w : Bytes)
    (hc : constructOpen version asn hold bgpId c = some w) : valid cfg w = true := by
  unfold constructOpen at hc
  cases hcap : constructCaps asn c with
  | none => simp [hcap] at hc
  | some capas =>
    simp only [hcap, Option.bind_eq_bind, Option.bind_some] at hc
    split at hc
    · rename_i h
      refine constructHeader_valid cfg C.msgOpen _ w (by decide) hc ?_
      have hs := (seq_constructCaps asn c capas hcap).all
      simp [bodyOk, C.msgOpen, openOk, be8, be16, be32, u8_toNat h.2.2.2, hs]
    · simp at hc

/-! ### UPDATE: IPv4 unicast and the standard attributes -/

/-- the body `Update.construct` puts together (repaired: fix_2) is a valid UPDATE body for the session
    parameters it was constructed for: both length fields are the sizes of what they announce, every
    attribute is well-formed with the flags of its category, every prefix occupies ceil(len/8) octets and,
    with add-path, is preceded by its path identifier -/
theorem C08_update_body (asn4 addpath : Bool) (m : UpdMsg) (body : Bytes)
    (hg : pathIdGuard addpath m.nlri = true ∧ pathIdGuard addpath m.withdraw = true)
    (hc : constructUpdateBody asn4 addpath m = some body) :
    updateOk { asn4 := asn4, addpath := addpath } body = true := by
  unfold constructUpdateBody at hc
  cases ha : constructAttributes asn4 m.attr with
  | none => simp [ha] at hc
  | some a =>
  cases hn : constructPrefixV4 addpath m.nlri with
  | none => simp [ha, hn] at hc
  | some n =>
  cases hw : constructPrefixV4 addpath m.withdraw with
  | none => simp [ha, hn, hw] at hc
  | some w =>
  simp only [ha, hn, hw, Option.bind_eq_bind, Option.bind_some, Option.pure_def] at hc
  split at hc
  · rename_i hlen
    simp only [Option.some.injEq] at hc
    subst hc
    exact updateOk_of_parts { asn4 := asn4, addpath := addpath } w a n hlen.1 hlen.2
      (seq_constructPrefixV4 addpath m.withdraw hg.2 w hw).all
      (seq_constructAttributes { asn4 := asn4, addpath := addpath } m.attr a ha).all
      (seq_constructPrefixV4 addpath m.nlri hg.1 n hn).all
  · simp at hc

/-- C08 for `Update.construct` (as repaired): whatever it returns walks; all inputs, both AS widths, add-path
    on and off -/
theorem C08_update (asn4 addpath : Bool) (m : UpdMsg) (w : Bytes)
    (hc : constructUpdateR asn4 addpath m = some w) :
    valid { asn4 := asn4, addpath := addpath } w = true := by
  unfold constructUpdateR at hc
  split at hc
  · rename_i hg
    simp only [Bool.and_eq_true] at hg
    unfold constructUpdate at hc
    cases hb : constructUpdateBody asn4 addpath m with
    | none => simp [hb] at hc
    | some body =>
      simp only [hb, Option.bind_eq_bind, Option.bind_some] at hc
      refine constructHeader_valid _ C.msgUpdate body w (by decide) hc ?_
      simpa [bodyOk, C.msgUpdate] using C08_update_body asn4 addpath m body hg hb
  · simp at hc

/-- without add-path the guard is vacuous: the constructor as it was (before fix_2) already satisfies C08 -/
theorem C08_update_no_addpath (asn4 : Bool) (m : UpdMsg) (w : Bytes)
    (hc : constructUpdate asn4 false m = some w) : valid { asn4 := asn4, addpath := false } w = true :=
  C08_update asn4 false m w (by simpa [constructUpdateR, pathIdGuard] using hc)

/-! ### MP_REACH_NLRI / MP_UNREACH_NLRI: IPv6 unicast, labeled unicast, VPNv4 / VPNv6 -/

namespace Mp

/-- whatever `MpReachNLRI.construct` (as repaired: fix_6, fix_7) returns is ONE well-formed path attribute -
    flags of an optional non-transitive attribute with extended length, 2-octet length = the octets that follow,
    next-hop length = next-hop octets, reserved octet, every route `length in bits` + ceil(bits/8) octets with
    the label(s) [and route distinguisher] accounted for - in front of anything (`Seq`) -/
theorem C08_mp_reach (cfg : Cfg) (v : MpReachVal) (w : Bytes) (hc : constructMpReachR v = .ok w) :
    Seq (attrItem cfg) w := by
  unfold constructMpReachR at hc
  split at hc
  · rename_i hg
    cases v with
    | ipv6Unicast a ll rs =>
      simp only [reachGuard, Bool.and_eq_true] at hg
      obtain ⟨n, rfl⟩ : ∃ n, a = .v6 n := by cases a <;> simp [Ip.isV6] at hg ⊢
      simp only [constructMpReach] at hc
      cases hnl : constructU6 rs with
      | none => simp [hnl] at hc
      | some nl =>
        simp only [hnl] at hc
        have hok := nlriOk_u6 nl (seq_constructU6 rs nl hnl).all
        cases ll with
        | none =>
          simp only at hc
          refine seq_attrWrap cfg 14 _ w (Or.inl rfl) hc ?_
          have := mpReachOk_reachValue 2 safiUnicast (Ip.v6 n).packed nl (by decide) (by decide)
            (by simp [Ip.packed]) hok
          simpa [attrValueOk, Ip.packed] using this
        | some l =>
          obtain ⟨m, rfl⟩ : ∃ m, l = .v6 m := by cases l <;> simp [Ip.isV6] at hg ⊢
          simp only at hc
          refine seq_attrWrap cfg 14 _ w (Or.inl rfl) hc ?_
          have := mpReachOk_reachValue 2 safiUnicast ((Ip.v6 n).packed ++ (Ip.v6 m).packed) nl (by decide)
            (by decide) (by simp [Ip.packed]) hok
          simpa [attrValueOk, Ip.packed] using this
    | labeled af nh rs =>
      simp only [constructMpReach] at hc
      cases hnl : constructLu af rs with
      | none => simp [hnl] at hc
      | some nl =>
        simp only [hnl] at hc
        split at hc
        · simp at hc
        · cases nh with
          | none => simp at hc
          | some a =>
            simp only at hc
            have hgl : af = .inet → rs.all (fun r => v4LenOk r.pfx) = true := by
              intro ha; subst ha; simpa [reachGuard] using hg
            have hok := nlriOk_labeled af nl (seq_constructLu af rs nl hgl hnl).all
            refine seq_attrWrap cfg 14 _ w (Or.inl rfl) hc ?_
            have := mpReachOk_reachValue af.afi safiLabel a.packed nl
              (by rcases afi_cases af with e | e <;> omega) (by decide)
              (by rw [packed_length]; cases a <;> simp [Ip.width]) hok
            simpa [attrValueOk] using this
    | vpn af rd a rs =>
      simp only [constructMpReach] at hc
      cases hnh : constructVpnNexthop rd a with
      | none => simp [hnh] at hc
      | some nh =>
        cases hnl : constructVpn af false rs with
        | none => simp [hnh, hnl] at hc
        | some nl =>
          simp only [hnh, hnl] at hc
          have hgl : af = .inet → rs.all (fun r => v4LenOk r.pfx) = true := by
            intro ha; subst ha; simpa [reachGuard] using hg
          have hok := nlriOk_vpn af nl (seq_constructVpn af false rs nl hgl hnl).all
          have hnhl : nh.length < 256 := by
            unfold constructVpnNexthop at hnh
            split at hnh
            · split at hnh
              · simp only [Option.some.injEq] at hnh; subst hnh
                simp only [List.length_append, be16_length, be32_length, packed_length]
                cases a <;> simp [Ip.width]
              · simp at hnh
            · simp at hnh
          refine seq_attrWrap cfg 14 _ w (Or.inl rfl) hc ?_
          have := mpReachOk_reachValue af.afi safiVpn nh nl
            (by rcases afi_cases af with e | e <;> omega) (by decide) hnhl hok
          simpa [attrValueOk] using this
    | other afi safi => simp [constructMpReach] at hc
  · simp at hc

/-- the same for `MpUnReachNLRI.construct` (as repaired: fix_6) -/
theorem C08_mp_unreach (cfg : Cfg) (v : MpUnreachVal) (w : Bytes) (hc : constructMpUnreachR v = .ok w) :
    Seq (attrItem cfg) w := by
  unfold constructMpUnreachR at hc
  split at hc
  · rename_i hg
    cases v with
    | ipv6Unicast rs =>
      simp only [constructMpUnreach] at hc
      cases hnl : constructU6 rs with
      | none => simp [hnl] at hc
      | some nl =>
        simp only [hnl] at hc
        split at hc
        · simp at hc
        · refine seq_attrWrap cfg 15 _ w (Or.inr rfl) hc ?_
          have := mpUnreachOk_unreachValue 2 safiUnicast nl (by decide) (by decide)
            (nlriOk_u6 nl (seq_constructU6 rs nl hnl).all)
          simpa [attrValueOk] using this
    | labeled af rs =>
      cases af with
      | inet =>
        simp only [constructMpUnreach] at hc
        split at hc
        · simp at hc
        · cases hnl : constructLuWithdraw .inet rs with
          | none => simp [hnl] at hc
          | some nl =>
            simp only [hnl] at hc
            have hgl : AF.inet = .inet → rs.all (fun r => v4LenOk r.pfx) = true := by
              intro _; simpa [unreachGuard] using hg
            refine seq_attrWrap cfg 15 _ w (Or.inr rfl) hc ?_
            have := mpUnreachOk_unreachValue 1 safiLabel nl (by decide) (by decide)
              (nlriOk_labeled .inet nl (seq_constructLuWithdraw .inet rs nl hgl hnl).all)
            simpa [attrValueOk] using this
      | inet6 => simp [constructMpUnreach] at hc
    | labeledRaw af raw => simp [constructMpUnreach] at hc
    | vpn af rs =>
      simp only [constructMpUnreach] at hc
      cases hnl : constructVpn af true rs with
      | none => simp [hnl] at hc
      | some nl =>
        simp only [hnl] at hc
        split at hc
        · simp at hc
        · have hgl : af = .inet → rs.all (fun r => v4LenOk r.pfx) = true := by
            intro ha; subst ha; simpa [unreachGuard] using hg
          refine seq_attrWrap cfg 15 _ w (Or.inr rfl) hc ?_
          have := mpUnreachOk_unreachValue af.afi safiVpn nl
            (by rcases afi_cases af with e | e <;> omega) (by decide)
            (nlriOk_vpn af nl (seq_constructVpn af true rs nl hgl hnl).all)
          simpa [attrValueOk] using this
    | other afi safi => simp [constructMpUnreach] at hc
  · simp at hc

end Mp

/-! ### an UPDATE assembled from any well-formed parts -/

/-- `Update.construct` assembles `withdrawn-length ‖ withdrawn ‖ attribute-length ‖ attributes ‖ NLRI` and the
    header.  Whatever the attribute octets are made of - standard attributes (`seq_constructAttributes`),
    MP_REACH_NLRI / MP_UNREACH_NLRI (`Mp.C08_mp_reach`, `Mp.C08_mp_unreach`), in any order and number
    (`Seq.append`) - the message is valid as soon as each part is a sequence of well-formed items. -/
theorem C08_update_assembled (cfg : Cfg) (wd attrs nlri msg : Bytes)
    (hwd : Seq (pathPrefixItem cfg.addpath 32) wd) (hattrs : Seq (attrItem cfg) attrs)
    (hnlri : Seq (pathPrefixItem cfg.addpath 32) nlri)
    (hwl : wd.length < 65536) (hal : attrs.length < 65536)
    (hc : constructHeader C.msgUpdate (be16 wd.length ++ wd ++ be16 attrs.length ++ attrs ++ nlri) = some msg) :
    valid cfg msg = true := by
  refine constructHeader_valid cfg C.msgUpdate _ msg (by decide) hc ?_
  simpa [bodyOk, C.msgUpdate] using updateOk_of_parts cfg wd attrs nlri hwl hal hwd.all hattrs.all hnlri.all

/-- instance: standard attributes, then an MP_REACH_NLRI, then an MP_UNREACH_NLRI, IPv4 NLRI and withdrawals -/
theorem C08_update_with_mp (asn4 addpath : Bool) (std : List (Nat × AttrVal)) (reach : Mp.MpReachVal)
    (unreach : Mp.MpUnreachVal) (nlri withdraw : List Pfx) (a r u n w msg : Bytes)
    (hg : pathIdGuard addpath nlri = true ∧ pathIdGuard addpath withdraw = true)
    (ha : constructAttributes asn4 std = some a) (hr : Mp.constructMpReachR reach = .ok r)
    (hu : Mp.constructMpUnreachR unreach = .ok u)
    (hn : constructPrefixV4 addpath nlri = some n) (hw : constructPrefixV4 addpath withdraw = some w)
    (hwl : w.length < 65536) (hal : (a ++ r ++ u).length < 65536)
    (hc : constructHeader C.msgUpdate (be16 w.length ++ w ++ be16 (a ++ r ++ u).length ++ (a ++ r ++ u) ++ n) = some msg) :
    valid { asn4 := asn4, addpath := addpath } msg = true :=
  C08_update_assembled { asn4 := asn4, addpath := addpath } w (a ++ r ++ u) n msg
    (seq_constructPrefixV4 addpath withdraw hg.2 w hw)
    (Seq.append (Seq.append (seq_constructAttributes { asn4 := asn4, addpath := addpath } std a ha)
      (Mp.C08_mp_reach _ reach r hr)) (Mp.C08_mp_unreach _ unreach u hu))
    (seq_constructPrefixV4 addpath nlri hg.1 n hn) hwl hal hc

/-! ### the FLAG constants of /repo, regenerated on every run -/

/-- every `Attribute` subclass of the repository that has a constructor carries flag bits of the RFC category
    of its type code (`Gen/AttrFlags.lean` is rewritten from the source by `harness/gen_tables.py`) -/
theorem C08_flags_generated : ∀ e ∈ Gen.Attr.flagTable, flagsOk e.1 e.2 = true := by decide

/-- and the bit values themselves are the ones of RFC 4271 §4.3 the walker is written with -/
theorem C08_flag_bits_generated :
    [Gen.Attr.OPTIONAL, Gen.Attr.TRANSITIVE, Gen.Attr.PARTIAL, Gen.Attr.EXTENDED_LENGTH] = [128, 64, 32, 16] := by
  decide

/-! ### the messages the code constructed before the repairs (fix_1 .. fix_14 of the W8 report): none of them walks.
    Literal octets as the unrepaired constructors returned them, so these stay true whatever happens to the models. -/

/-- fix_2: `Update.construct({'attr': {1: 0}, 'nlri': ['10.0.0.0/8']}, addpath=True)` - no path identifier in front of `08 0a` -/
theorem KF_C08_addpath_plain_prefix :
    valid { addpath := true } (marker ++ [0, 29, 2, 0, 0, 0, 4, 64, 1, 1, 0, 8, 10]) = false := by decide

/-- fix_1: `{'attr': {1: 0}, 'nlri': ['::/64']}` - length 64 and four address octets -/
theorem KF_C08_ipv6_prefix_in_ipv4_nlri :
    valid {} (marker ++ [0, 32, 2, 0, 0, 0, 4, 64, 1, 1, 0, 64, 0, 0, 0, 0]) = false := by decide

/-- fix_3: `{'attr': {9: '::'}}` - length 4, sixteen octets written -/
theorem KF_C08_originator_id_ipv6 :
    valid {} (marker ++ [0, 42, 2, 0, 0, 0, 19, 128, 9, 4, 0, 0, 0, 0, 0, 0, 0, 0, 0, 0, 0, 0, 0, 0, 0, 0]) = false := by decide

/-- fix_3: `{'attr': {7: [100, '::']}}` - an AGGREGATOR of 18 octets -/
theorem KF_C08_aggregator_ipv6 :
    valid {} (marker ++ [0, 44, 2, 0, 0, 0, 21, 192, 7, 18, 0, 100, 0, 0, 0, 0, 0, 0, 0, 0, 0, 0, 0, 0, 0, 0, 0, 0]) = false := by decide

/-- fix_4: `{'attr': {32: ['1:2']}}` - a LARGE_COMMUNITY value of 8 octets -/
theorem KF_C08_large_community_two_fields :
    valid {} (marker ++ [0, 34, 2, 0, 0, 0, 11, 224, 32, 8, 0, 0, 0, 1, 0, 0, 0, 2]) = false := by decide

/-- fix_5: `{'attr': {16: [[2048, '::', 0]]}}` - an extended community of 20 octets -/
theorem KF_C08_extcomm_redirect_nh_ipv6 :
    valid {} (marker ++ [0, 46, 2, 0, 0, 0, 23, 192, 16, 20, 8, 0, 0, 0, 0, 0, 0, 0, 0, 0, 0, 0, 0, 0, 0, 0, 0, 0, 0, 0]) = false := by decide

/-- fix_6: labeled unicast `{'prefix': '10.0.0.0/33', 'label': [3]}` - 57 bits announced, 7 octets written -/
theorem KF_C08_labeled_prefix_length_33 :
    valid {} (marker ++ [0, 44, 2, 0, 0, 0, 21, 144, 14, 0, 17, 0, 1, 4, 4, 10, 0, 0, 1, 0, 57, 0, 0, 49, 10, 0, 0, 0]) = false := by decide

/-- fix_7: `{'afi_safi': (2, 1), 'nexthop': '1.2.3.4', 'nlri': ['::/0']}` - next-hop length 16, 4 octets written -/
theorem KF_C08_ipv6_unicast_ipv4_nexthop :
    valid {} (marker ++ [0, 37, 2, 0, 0, 0, 14, 144, 14, 0, 10, 0, 2, 1, 16, 1, 2, 3, 4, 0, 0]) = false := by decide

/-- fix_8: SR policy NLRI under AFI 1 with endpoint `::1` - 192 bits -/
theorem KF_C08_srte_ipv6_endpoint :
    valid {} (marker ++ [0, 61, 2, 0, 0, 0, 38, 144, 14, 0, 34, 0, 1, 73, 4, 10, 0, 0, 1, 0, 192, 0, 0, 0, 0, 0, 0, 0, 100, 0, 0, 0, 0, 0, 0, 0, 0, 0, 0, 0, 0, 0, 0, 0, 1]) = false := by decide

/-- fix_9: Ethernet A-D route with ESI type 6 - no ESI octets at all, 15 octets instead of 25 -/
theorem KF_C08_evpn_esi_unknown_type :
    valid {} (marker ++ [0, 53, 2, 0, 0, 0, 30, 144, 14, 0, 26, 0, 25, 70, 4, 10, 0, 0, 1, 0, 1, 15, 0, 0, 0, 1, 0, 0, 0, 1, 0, 0, 0, 1, 0, 0, 161]) = false := by decide

/-- fix_9: MAC/IP advertisement route without label - 30 octets, MPLS Label1 missing -/
theorem KF_C08_evpn_type2_no_label :
    valid {} (marker ++ [0, 68, 2, 0, 0, 0, 45, 144, 14, 0, 41, 0, 25, 70, 4, 10, 0, 0, 1, 0, 2, 30, 0, 0, 0, 1, 0, 0, 0, 1, 0, 0, 0, 0, 0, 0, 0, 0, 0, 0, 0, 0, 0, 1, 48, 0, 17, 34, 51, 68, 85, 0]) = false := by decide

/-- fix_9: IP prefix route `10.0.0.0/8` with gateway `::1` - 46 octets, neither 34 nor 58 -/
theorem KF_C08_evpn_type5_mixed_families :
    valid {} (marker ++ [0, 84, 2, 0, 0, 0, 61, 144, 14, 0, 57, 0, 25, 70, 4, 10, 0, 0, 1, 0, 5, 46, 0, 0, 0, 1, 0, 0, 0, 1, 0, 0, 0, 0, 0, 0, 0, 0, 0, 0, 0, 0, 0, 1, 8, 10, 0, 0, 0, 0, 0, 0, 0, 0, 0, 0, 0, 0, 0, 0, 0, 0, 0, 0, 1, 0, 0, 161]) = false := by decide

/-- fix_10: segment sub-TLV type 3 with node `::1` - length 6, 18 octets written -/
theorem KF_C08_tunnel_segment_ipv6_node :
    valid {} (marker ++ [0, 59, 2, 0, 0, 0, 36, 208, 23, 0, 32, 0, 15, 0, 28, 13, 2, 0, 0, 128, 0, 21, 0, 3, 6, 0, 0, 0, 0, 0, 0, 0, 0, 0, 0, 0, 0, 0, 0, 0, 0, 0, 1]) = false := by decide

/-- fix_10: remote endpoint `'afi': 'ipv4'` with an IPv6 address - length 10, 22 octets written -/
theorem KF_C08_tunnel_remote_endpoint_family :
    valid {} (marker ++ [0, 59, 2, 0, 0, 0, 36, 208, 23, 0, 32, 0, 15, 0, 28, 13, 2, 0, 0, 6, 10, 0, 0, 1, 44, 0, 1, 32, 1, 13, 184, 0, 0, 0, 0, 0, 0, 0, 0, 0, 0, 0, 1]) = false := by decide

/-- fix_11: IPv6 flow specification `{5: '=80&=90'}` - component type 5 without any operator -/
theorem KF_C08_flowspec6_and_items :
    valid {} (marker ++ [0, 34, 2, 0, 0, 0, 11, 144, 14, 0, 7, 0, 2, 133, 0, 0, 1, 5]) = false := by decide

/-- fix_11: `{3: '=1099511627776'}` - length code 8, six octets written -/
theorem KF_C08_flowspec6_six_octet_value :
    valid {} (marker ++ [0, 41, 2, 0, 0, 0, 18, 144, 14, 0, 14, 0, 2, 133, 0, 0, 8, 3, 177, 1, 0, 0, 0, 0, 0]) = false := by decide

/-- fix_11: `{1: {'prefix': '2001:db8::/33', 'offset': 3}}` - five pattern octets where ceil(30/8) = 4 belong -/
theorem KF_C08_flowspec6_prefix_offset :
    valid {} (marker ++ [0, 41, 2, 0, 0, 0, 18, 144, 14, 0, 14, 0, 2, 133, 0, 0, 8, 1, 33, 3, 32, 1, 13, 184, 0]) = false := by decide

/-- fix_14: IPv4 flow specification `{1: '10.0.0.0/33'}` - length 33 and four address octets -/
theorem KF_C08_flowspec4_prefix_length_33 :
    valid {} (marker ++ [0, 39, 2, 0, 0, 0, 16, 144, 14, 0, 12, 0, 1, 133, 0, 0, 6, 1, 33, 10, 0, 0, 0]) = false := by decide

/-! ### non-vacuity: the constructors do return messages, and those walk -/

set_option maxRecDepth 8000 in
example : ∃ w, constructUpdateR true true
    { attr := [(1, .origin 0), (2, .asPath [(2, [65001, 4200000000])]), (3, .nextHop 16843009), (4, .med 5),
               (5, .localPref 100), (6, .atomicAgg), (7, .aggregator 4200000000 16843009), (8, .community [4294967041]),
               (9, .originatorId 1), (10, .clusterList [1, 2]), (32, .largeCommunity [(1, 2, 3)])],
      nlri := [{ addr := 167772160, len := 8, pathId := some 7 }, { addr := 0, len := 0, pathId := some 1 }],
      withdraw := [{ addr := 3232235776, len := 24, pathId := some 4294967295 }] } = some w ∧
    valid { asn4 := true, addpath := true } w = true :=
  exists_of_isSome (by decide) (fun w h => C08_update true true _ w h)

set_option maxRecDepth 8000 in
example : ∃ w, constructOpen 4 4200000000 180 16843009
    { afiSafi := some [(1, 1), (2, 1)], routeRefresh := true, ciscoRouteRefresh := true, fourBytesAs := true,
      extNexthop := some [(1, 1, 2)], addPath := some 3, enhancedRouteRefresh := true } = some w ∧
    valid {} w = true :=
  exists_of_isSome (by decide) (fun w h => C08_open {} _ _ _ _ _ w h)

set_option maxRecDepth 8000 in
example : ∃ w, Mp.constructMpReachR (.vpn .inet (.asForm 0 0) (.v4 33686018)
    [{ labels := [25], rd := .asForm 100 100, pfx := { addr := .v4 3232235776, len := 24 } }]) = .ok w ∧
    all (attrItem {}) w = true :=
  exists_of_ok (by decide) (fun w h => (Mp.C08_mp_reach {} _ w h).all)

set_option maxRecDepth 8000 in
example : ∃ w, Mp.constructMpReachR (.labeled .inet6 (some (.v6 1))
    [{ labels := [3, 16], pfx := { addr := .v6 (42540766411282592856903984951653826560), len := 32 } }]) = .ok w ∧
    all (attrItem {}) w = true :=
  exists_of_ok (by decide) (fun w h => (Mp.C08_mp_reach {} _ w h).all)

set_option maxRecDepth 8000 in
example : ∃ w, Mp.constructMpUnreachR (.ipv6Unicast [{ pfx := { addr := .v6 (42540766411282592856903984951653826560), len := 32 } }])
    = .ok w ∧ all (attrItem {}) w = true :=
  exists_of_ok (by decide) (fun w h => (Mp.C08_mp_unreach {} _ w h).all)

/-- the walker does reject: a KEEPALIVE with one octet too many, an attribute whose length overruns -/
example : valid {} (constructKeepalive ++ [0]) = false := by decide
example : valid {} (marker ++ be16 27 ++ be8 2 ++ [0, 0, 0, 4, 0x40, 1, 2, 0]) = false := by decide

end Yabgp

#print axioms Yabgp.C08_keepalive
#print axioms Yabgp.C08_notification
#print axioms Yabgp.C08_routerefresh
#print axioms Yabgp.C08_open
#print axioms Yabgp.C08_update_body
#print axioms Yabgp.C08_update
#print axioms Yabgp.C08_update_no_addpath
#print axioms Yabgp.Mp.C08_mp_reach
#print axioms Yabgp.Mp.C08_mp_unreach
#print axioms Yabgp.C08_update_assembled
#print axioms Yabgp.C08_update_with_mp
#print axioms Yabgp.C08_flags_generated
#print axioms Yabgp.C08_flag_bits_generated
#print axioms Yabgp.KF_C08_addpath_plain_prefix
#print axioms Yabgp.KF_C08_ipv6_prefix_in_ipv4_nlri
#print axioms Yabgp.KF_C08_originator_id_ipv6
#print axioms Yabgp.KF_C08_aggregator_ipv6
#print axioms Yabgp.KF_C08_large_community_two_fields
#print axioms Yabgp.KF_C08_extcomm_redirect_nh_ipv6
#print axioms Yabgp.KF_C08_labeled_prefix_length_33
#print axioms Yabgp.KF_C08_ipv6_unicast_ipv4_nexthop
#print axioms Yabgp.KF_C08_srte_ipv6_endpoint
#print axioms Yabgp.KF_C08_evpn_esi_unknown_type
#print axioms Yabgp.KF_C08_evpn_type2_no_label
#print axioms Yabgp.KF_C08_evpn_type5_mixed_families
#print axioms Yabgp.KF_C08_tunnel_segment_ipv6_node
#print axioms Yabgp.KF_C08_tunnel_remote_endpoint_family
#print axioms Yabgp.KF_C08_flowspec6_and_items
#print axioms Yabgp.KF_C08_flowspec6_six_octet_value
#print axioms Yabgp.KF_C08_flowspec6_prefix_offset
#print axioms Yabgp.KF_C08_flowspec4_prefix_length_33
