/-
  C05 — each session's OPEN and its acceptance policy depend only on configuration.
  Acceptance (accepted iff decodable, version 4, the configured peer AS — the 4-octet value when the capability is
  present, see C14 — and hold time not 1 or 2; hold time = min(configured, proposed)) is C01_open_accepted together
  with C01_open_rejected.  This file adds: what our OPEN carries; that only configured capabilities are ever
  advertised, in every reachable state; when 4-octet AS decoding is switched on; and the witness of the known
  finding (the capability set shrinks after a peer that lacked a capability).
-/
import Yabgp.Props.C14
import Yabgp.Props.C03

namespace Yabgp
open Sess Spec

variable (U : Bool → Bytes → UpdClass)

/-- Our OPEN, whenever one is built in state `s`, decodes (by the model decoder, and by C14 also by any decoder that
    agrees with the reference encoder) to: version 4, the configured local AS as the true AS (AS_TRANS in the
    2-octet field plus the 4-octet capability when it exceeds 65535), the CONFIGURED hold time — not a negotiated
    one — and the BGP identifier chosen at the first connection. -/
theorem C05_open_fields (s : Sess) (w : Bytes) (h1 : 1 ≤ s.cfg.localAs) (hw : s.openWire = some w) :
    ∃ body m, w = marker ++ be16 (body.length + 19) ++ be8 1 ++ body ∧ parseOpen body = .ok m ∧
      m.version = 4 ∧ m.asn = s.cfg.localAs ∧ m.holdTime = s.cfg.holdCfg ∧ m.bgpId = s.bgpId.getD 0 := by
  unfold openWire at hw
  obtain ⟨body, hb, hp⟩ := C14_open_roundtrip s.cfg.localAs s.cfg.holdCfg (s.bgpId.getD 0)
    (negotiateCaps s.localCaps s.remote) w h1 hw
  obtain ⟨a1, a2, a3⟩ := C14_open_true_as s.cfg.localAs s.cfg.holdCfg (s.bgpId.getD 0) (negotiateCaps s.localCaps s.remote)
  exact ⟨body, _, hb, hp, rfl, a1, a2, a3⟩

/-- `l` advertises nothing that `l0` does not -/
structure CapsLe (l l0 : LocalCaps) : Prop where
  afiSafi : l.afiSafi = none ∨ l.afiSafi = l0.afiSafi
  crr : l.ciscoRouteRefresh = true → l0.ciscoRouteRefresh = true
  rr : l.routeRefresh = true → l0.routeRefresh = true
  fba : l.fourBytesAs = true → l0.fourBytesAs = true
  enh : l.extNexthop = none ∨ l.extNexthop = l0.extNexthop
  ap : l.addPath = none ∨ l.addPath = l0.addPath
  err : l.enhancedRouteRefresh = true → l0.enhancedRouteRefresh = true

theorem CapsLe.refl (l : LocalCaps) : CapsLe l l :=
  ⟨Or.inr rfl, id, id, id, Or.inr rfl, Or.inr rfl, id⟩

theorem CapsLe.trans {a b c : LocalCaps} (h1 : CapsLe a b) (h2 : CapsLe b c) : CapsLe a c := by
  refine ⟨?_, fun h => h2.crr (h1.crr h), fun h => h2.rr (h1.rr h), fun h => h2.fba (h1.fba h), ?_, ?_,
    fun h => h2.err (h1.err h)⟩
  · rcases h1.afiSafi with h | h
    · exact Or.inl h
    · rcases h2.afiSafi with h' | h'
      · exact Or.inl (h.trans h')
      · exact Or.inr (h.trans h')
  · rcases h1.enh with h | h
    · exact Or.inl h
    · rcases h2.enh with h' | h'
      · exact Or.inl (h.trans h')
      · exact Or.inr (h.trans h')
  · rcases h1.ap with h | h
    · exact Or.inl h
    · rcases h2.ap with h' | h'
      · exact Or.inl (h.trans h')
      · exact Or.inr (h.trans h')

/-- capability_negotiate only ever removes -/
theorem negotiateCaps_le (l : LocalCaps) (r : CapaDict) : CapsLe (negotiateCaps l r) l := by
  unfold negotiateCaps
  split
  · refine ⟨?_, ?_, ?_, ?_, ?_, ?_, ?_⟩
    · show (if r.afiSafi.isSome then l.afiSafi else none) = none ∨ _
      cases r.afiSafi <;> simp
    · simp; intro h _; exact h
    · simp; intro h _; exact h
    · simp; intro h _; exact h
    · show (if r.extNexthop.isSome then l.extNexthop else none) = none ∨ _
      cases r.extNexthop <;> simp
    · show (if r.addPath.isSome then l.addPath else none) = none ∨ _
      cases r.addPath <;> simp
    · simp; intro h _; exact h
  · exact CapsLe.refl l

end Yabgp

namespace Yabgp
open Sess Spec

variable (U : Bool → Bytes → UpdClass)

/-- configuration and local capability dictionary are left alone -/
structure Cfgc (s s' : Sess) : Prop where
  cfg : s'.cfg = s.cfg
  caps : s'.localCaps = s.localCaps

theorem Cfgc.refl (s : Sess) : Cfgc s s := ⟨rfl, rfl⟩
theorem Cfgc.trans {a b c : Sess} (h1 : Cfgc a b) (h2 : Cfgc b c) : Cfgc a c :=
  ⟨h2.cfg.trans h1.cfg, h2.caps.trans h1.caps⟩
theorem Cfgc.of_frm {i : Nat} {s s' : Sess} (h : Frm i s s') : Cfgc s s' := ⟨h.scal.cfg, h.scal.caps⟩

theorem cfgc_emit (s : Sess) (o : Out) : Cfgc s (s.emit o) := ⟨rfl, rfl⟩
theorem cfgc_withTm (s : Sess) (v : Timers) : Cfgc s (s.withTm v) := ⟨rfl, rfl⟩
theorem cfgc_withAllow (s : Sess) (v : Bool) : Cfgc s (s.withAllow v) := ⟨rfl, rfl⟩
theorem cfgc_withRetryCounter (s : Sess) (v : Nat) : Cfgc s (s.withRetryCounter v) := ⟨rfl, rfl⟩
theorem cfgc_incRetryCounter (s : Sess) : Cfgc s (s.incRetryCounter) := ⟨rfl, rfl⟩
theorem cfgc_withEstab (s : Sess) (v : Option Nat) : Cfgc s (s.withEstab v) := ⟨rfl, rfl⟩
theorem cfgc_withNow (s : Sess) (v : Nat) : Cfgc s (s.withNow v) := ⟨rfl, rfl⟩
theorem cfgc_withOuts (s : Sess) (v : List Out) : Cfgc s (s.withOuts v) := ⟨rfl, rfl⟩
theorem cfgc_setRetry (s : Sess) (v : Option Nat) : Cfgc s (s.setRetry v) := ⟨rfl, rfl⟩
theorem cfgc_setHold (s : Sess) (v : Option Nat) : Cfgc s (s.setHold v) := ⟨rfl, rfl⟩
theorem cfgc_setKeepalive (s : Sess) (v : Option Nat) : Cfgc s (s.setKeepalive v) := ⟨rfl, rfl⟩
theorem cfgc_setIdleHold (s : Sess) (v : Option Nat) : Cfgc s (s.setIdleHold v) := ⟨rfl, rfl⟩
theorem cfgc_setPhase (s : Sess) (i : Nat) (p : Phase) : Cfgc s (s.setPhase i p) := ⟨rfl, rfl⟩
theorem cfgc_withProto (s : Sess) (v : Option Nat) : Cfgc s (s.withProto v) := ⟨rfl, rfl⟩
theorem cfgc_withBgpId (s : Sess) (v : Option Nat) : Cfgc s (s.withBgpId v) := ⟨rfl, rfl⟩
theorem cfgc_bumpSent (s : Sess) (i : Nat) (g : Stats → Stats) : Cfgc s (s.bumpSent i g) := ⟨rfl, rfl⟩
theorem cfgc_writeOn (s : Sess) (i : Nat) (b : Bytes) : Cfgc s (s.writeOn i b) := by
  unfold writeOn; split
  · exact ⟨rfl, rfl⟩
  · exact Cfgc.refl s

theorem cfgc_abortPending (s : Sess) : Cfgc s s.abortPending := ⟨by simp, by simp⟩
theorem cfgc_withPending (s : Sess) (v : Option Nat) : Cfgc s (s.withPending v) := ⟨rfl, rfl⟩

theorem cfgc_connectTcp (s : Sess) : Cfgc s s.connectTcp := by
  unfold connectTcp; split
  · exact (cfgc_abortPending s).trans ⟨rfl, rfl⟩
  · exact cfgc_abortPending s

theorem cfgc_setSt (s : Sess) (v : St) : Cfgc s (s.setSt v) := Cfgc.of_frm (frm_setSt 0 s v)
theorem cfgc_closeConn (s : Sess) : Cfgc s s.closeConn := Cfgc.of_frm (frm_closeConn 0 s)
theorem cfgc_errorClose (s : Sess) : Cfgc s s.errorClose := Cfgc.of_frm (frm_errorClose 0 s)
theorem cfgc_sendNotification (s : Sess) (e sub : Nat) (d : Bytes) : Cfgc s (s.sendNotification e sub d) :=
  Cfgc.of_frm (frm_sendNotification 0 s e sub d)
theorem cfgc_sendKeepalive (s : Sess) : Cfgc s s.sendKeepalive := Cfgc.of_frm (frm_sendKeepalive 0 s)

theorem cfgc_autoStart (s : Sess) (b : Bool) : Cfgc s (s.autoStart b) := by
  unfold autoStart
  split
  · split
    · exact cfgc_setIdleHold s _
    · split
      · exact (((cfgc_incRetryCounter s).trans (cfgc_setRetry _ _)).trans (cfgc_setSt _ _)).trans (cfgc_connectTcp _)
      · exact Cfgc.refl s
  · exact Cfgc.refl s

theorem cfgc_dropEstab (s : Sess) (p : Option Nat) : Cfgc s (s.dropEstab p) := by
  unfold dropEstab
  split
  · split
    · exact (cfgc_withEstab s none).trans (cfgc_setSt _ _)
    · exact Cfgc.refl s
  · exact Cfgc.refl s

theorem cfgc_connectionClosed (s : Sess) (p : Option Nat) : Cfgc s (s.connectionClosed p) := by
  unfold connectionClosed
  split
  · exact (cfgc_dropEstab s p).trans (cfgc_autoStart _ _)
  · exact cfgc_dropEstab s p

theorem cfgc_connectionFailed (s : Sess) : Cfgc s s.connectionFailed := by
  unfold connectionFailed
  split
  · exact (((cfgc_setRetry s none).trans (cfgc_closeConn _)).trans (cfgc_setSt _ _)).trans (cfgc_connectionClosed _ _)
  · exact (cfgc_setRetry s _).trans (cfgc_setSt _ _)
  · exact ((((cfgc_closeConn s).trans (cfgc_setRetry _ _)).trans (cfgc_setHold _ _)).trans (cfgc_setSt _ _)).trans (cfgc_connectionClosed _ _)
  · exact cfgc_errorClose s
  · exact cfgc_errorClose s
  · exact Cfgc.refl s

theorem cfgc_drain (i : Nat) (f : Nat) (s : Sess) (buf : Bytes) : Cfgc s (drain U f s i buf).1 :=
  Cfgc.of_frm (drain_frm U i f s buf)

theorem cfgc_manualStop (s : Sess) : Cfgc s s.manualStop := by
  unfold manualStop
  have h1 : Cfgc s (if s.st = .established then s.sendNotification C.errCease 0 [] else s) := by
    split
    · exact cfgc_sendNotification s _ _ _
    · exact Cfgc.refl s
  exact ((((((h1.trans (cfgc_withTm _ _)).trans (cfgc_closeConn _)).trans (cfgc_withRetryCounter _ _)).trans
    (cfgc_withAllow _ _)).trans (cfgc_setSt _ _)).trans (cfgc_abortPending _)).trans (cfgc_emit _ _)

theorem cfgc_manualStart (s : Sess) : Cfgc s s.manualStart := by
  unfold manualStart
  split
  · exact cfgc_emit s _
  · exact ((((cfgc_withAllow s true).trans (cfgc_setRetry _ _)).trans (cfgc_setSt _ _)).trans (cfgc_connectTcp _)).trans
      (cfgc_emit _ _)
  · exact cfgc_emit s _

theorem cfgc_fireRetry (s : Sess) : Cfgc s s.fireRetry := by
  unfold fireRetry
  split
  · exact (((cfgc_setRetry s none).trans (cfgc_closeConn _)).trans (cfgc_setRetry _ _)).trans (cfgc_connectTcp _)
  · exact (((cfgc_setRetry s none).trans (cfgc_closeConn _)).trans (cfgc_setRetry _ _)).trans (cfgc_connectTcp _)
  · exact cfgc_setRetry s none
  · exact ((cfgc_setRetry s none).trans (cfgc_sendNotification _ _ _ _)).trans (cfgc_errorClose _)

theorem cfgc_fireHold (s : Sess) : Cfgc s s.fireHold := by
  unfold fireHold
  have hx : Cfgc s ((((s.setHold none).sendNotification C.errHold 0 []).setRetry none).errorClose.setSt .idle) :=
    ((((cfgc_setHold s none).trans (cfgc_sendNotification _ _ _ _)).trans (cfgc_setRetry _ _)).trans (cfgc_errorClose _)).trans
      (cfgc_setSt _ _)
  have hy : Cfgc s ((s.setHold none).errorClose) := (cfgc_setHold s none).trans (cfgc_errorClose _)
  split
  · exact hx
  · exact hx
  · exact hx
  · exact hy
  · exact hy
  · exact cfgc_setHold s none

theorem cfgc_fireKeepalive (s : Sess) : Cfgc s s.fireKeepalive := by
  unfold fireKeepalive
  have hk : Cfgc s ((s.setKeepalive none).sendKeepalive) := (cfgc_setKeepalive s none).trans (cfgc_sendKeepalive _)
  have hy : Cfgc s ((s.setKeepalive none).errorClose) := (cfgc_setKeepalive s none).trans (cfgc_errorClose _)
  split
  · split
    · exact hk.trans (cfgc_setKeepalive _ _)
    · exact hk
  · split
    · exact hk.trans (cfgc_setKeepalive _ _)
    · exact hk
  · exact hy
  · exact hy
  · exact cfgc_setKeepalive s none

theorem cfgc_fireIdleHold (s : Sess) : Cfgc s s.fireIdleHold := by
  unfold fireIdleHold
  split
  · exact (cfgc_setIdleHold s none).trans (cfgc_autoStart _ _)
  · exact cfgc_setIdleHold s none

/-- sending our OPEN replaces the capability dictionary by its negotiated (smaller or equal) version -/
theorem sendOpen_caps_le (t : Sess) : CapsLe t.sendOpen.1.localCaps t.localCaps ∧ t.sendOpen.1.cfg = t.cfg := by
  unfold sendOpen
  cases hp : t.proto with
  | none => exact ⟨CapsLe.refl _, rfl⟩
  | some i =>
    cases hw : t.openWire with
    | none => exact ⟨negotiateCaps_le _ _, rfl⟩
    | some w =>
      simp only
      have h := ((cfgc_writeOn (t.withLocalCaps (negotiateCaps t.localCaps t.remote)) i w).trans (cfgc_bumpSent _ i incOpens)).trans
        (cfgc_emit _ (.hSendOpen i t.cfg.localAs t.cfg.holdCfg (t.bgpId.getD 0)))
      refine ⟨?_, h.cfg⟩
      have hc : _ = negotiateCaps t.localCaps t.remote := h.caps
      rw [hc]; exact negotiateCaps_le _ _

theorem localCaps_setSt (s : Sess) (v : St) : (s.setSt v).localCaps = s.localCaps := (cfgc_setSt s v).caps
theorem cfg_setSt (s : Sess) (v : St) : (s.setSt v).cfg = s.cfg := (cfgc_setSt s v).cfg

/-- one step never adds a capability and never changes the configuration -/
theorem step_caps_le (w : World) (e : Ev) :
    CapsLe (step U w e).sess.localCaps w.sess.localCaps ∧ (step U w e).sess.cfg = w.sess.cfg := by
  have of : ∀ {s' : Sess}, Cfgc (w.sess.withOuts []) s' → CapsLe s'.localCaps w.sess.localCaps ∧ s'.cfg = w.sess.cfg := by
    intro s' h
    have : s'.localCaps = w.sess.localCaps := h.caps
    exact ⟨by rw [this]; exact CapsLe.refl _, h.cfg⟩
  cases e with
  | boot => exact of (cfgc_autoStart _ _)
  | manualStart => exact of (cfgc_manualStart _)
  | manualStop => exact of (cfgc_manualStop _)
  | connOk c =>
    simp only [step, connOk, connectionMade]
    have hpre : Cfgc (w.sess.withOuts []) ((((((((w.sess.withOuts []).setPhase c .connected).withProto (some c)).setSt .connect).withEstab
        (some c)).withBgpId (some ((w.sess.withOuts []).bgpId.getD (w.sess.withOuts []).cfg.localId))).setRetry none).setIdleHold none) :=
      ((((((cfgc_setPhase (w.sess.withOuts []) c .connected).trans (cfgc_withProto _ _)).trans (cfgc_setSt _ _)).trans
        (cfgc_withEstab _ _)).trans (cfgc_withBgpId _ _)).trans (cfgc_setRetry _ _)).trans (cfgc_setIdleHold _ _)
    obtain ⟨k1, k2⟩ := sendOpen_caps_le ((((((((w.sess.withOuts []).setPhase c .connected).withProto (some c)).setSt .connect).withEstab
        (some c)).withBgpId (some ((w.sess.withOuts []).bgpId.getD (w.sess.withOuts []).cfg.localId))).setRetry none).setIdleHold none)
    have hcaps : _ = w.sess.localCaps := hpre.caps
    have hcfg : _ = w.sess.cfg := hpre.cfg
    rw [hcaps] at k1
    rw [hcfg] at k2
    split
    · refine ⟨?_, ?_⟩
      · rw [localCaps_setSt]; exact k1
      · rw [cfg_setSt]; exact k2
    · exact ⟨k1, k2⟩
  | connFail c =>
    simp only [step, connFail]
    split
    · exact of ((cfgc_withPending _ _).trans ((cfgc_setPhase _ c .closed).trans ((cfgc_emit _ _).trans (cfgc_connectionFailed _))))
    · exact of (cfgc_setPhase _ c .closed)
  | chunk c d => exact of (cfgc_drain U c _ _ _)
  | lost c =>
    simp only [step, connLost]
    split
    · exact of ((cfgc_setPhase _ c .closed).trans ((cfgc_emit _ _).trans (cfgc_connectionClosed _ _)))
    · exact of ((cfgc_setPhase _ c .closed).trans ((cfgc_emit _ _).trans (cfgc_connectionFailed _)))
  | advance dt => exact of (cfgc_withNow _ _)
  | fire t =>
    cases t with
    | retry => exact of (cfgc_fireRetry _)
    | hold => exact of (cfgc_fireHold _)
    | keepalive => exact of (cfgc_fireKeepalive _)
    | idleHold => exact of (cfgc_fireIdleHold _)

/-- In every state reachable by any event sequence the capability dictionary from which the next OPEN is built
    advertises only capabilities of the configured set (it may have lost some: the known finding below). -/
theorem C05_only_configured_capabilities (cfg : Cfg) (evs : List Ev) :
    CapsLe (run U (bootWorld cfg) evs).sess.localCaps cfg.caps0 ∧ (run U (bootWorld cfg) evs).sess.cfg = cfg := by
  have gen : ∀ (evs : List Ev) (w : World), CapsLe w.sess.localCaps cfg.caps0 → w.sess.cfg = cfg →
      CapsLe (run U w evs).sess.localCaps cfg.caps0 ∧ (run U w evs).sess.cfg = cfg := by
    intro evs
    induction evs with
    | nil => intro w h1 h2; exact ⟨h1, h2⟩
    | cons e r ih =>
      intro w h1 h2
      obtain ⟨k1, k2⟩ := step_caps_le U w e
      exact ih _ (k1.trans h1) (k2.trans h2)
  exact gen evs _ (CapsLe.refl _) rfl

end Yabgp

#print axioms Yabgp.C05_open_fields
#print axioms Yabgp.C05_only_configured_capabilities

namespace Yabgp
open Sess Spec

variable (U : Bool → Bytes → UpdClass)

/-- AS numbers in later UPDATEs of this session are read as 4-octet exactly when the peer's OPEN carried the
    4-octet-AS capability AND our own OPEN of this session advertised it (the capability dictionary the OPEN was
    built from has it, or our AS needs it) — on a connection that starts with 2-octet decoding. -/
theorem C05_asn4_iff_both {t : Sess} {i : Nat} (hn : Norm t i) (m : OpenMsg) (h0 : (t.conn i).asn4 = false)
    (hh : ¬ (m.holdTime ≠ 0 ∧ m.holdTime < 3)) :
    ((t.openAccepted i m).1.conn i).asn4 = true ↔
      (m.caps.fourBytesAs = true ∧ (t.cfg.localAs > 65535 ∨ t.localCaps.fourBytesAs = true)) := by
  unfold openAccepted
  rw [if_neg hh]
  have keep : ∀ (u : Sess) (v : Nat), (((u.withHoldTime v).fsmOpenReceived.emit (.hOpen i m)).conn i).asn4 = (u.conn i).asn4 := by
    intro u v
    have := (keeps_fsmOpenReceived indep_asn4 (u.withHoldTime v)) i
    exact this
  split
  · rename_i hc
    simp only [keep]
    have : (((t.withRemote m.caps).setAsn4 i).conn i).asn4 = true := by
      simp only [setAsn4, conn_setConn]
      have : i < (t.withRemote m.caps).conns.length := hn.lt
      simp [this]
    simp [this, hc]
  · rename_i hc
    simp only [keep]
    have : ((t.withRemote m.caps).conn i).asn4 = false := h0
    simp [this, hc]

/-- a new connection always starts with 2-octet AS decoding -/
theorem C05_new_connection_decodes_2octet (s : Sess) (h : s.st ≠ .established) :
    (s.connectTcp.conn s.conns.length).asn4 = false := by
  unfold connectTcp
  rw [if_pos (by simpa using h)]
  simp [conn, Sess.emit, withConns, withPending]

/-- KNOWN FINDING (C05-capability-leak), model side: after a peer OPEN that carried the 4-octet-AS capability but not
    route refresh, the dictionary our NEXT OPEN is built from has lost route refresh — the OPEN of the next
    session is not the one the configuration alone determines.  (The harness replays this on the real code.) -/
theorem KF_C05_capability_leak :
    negotiateCaps exCfg.caps0 { fourBytesAs := true } ≠ exCfg.caps0 ∧
    (negotiateCaps exCfg.caps0 { fourBytesAs := true }).routeRefresh = false ∧ exCfg.caps0.routeRefresh = true := by
  decide

end Yabgp

#print axioms Yabgp.C05_asn4_iff_both
#print axioms Yabgp.C05_new_connection_decodes_2octet
#print axioms Yabgp.KF_C05_capability_leak
