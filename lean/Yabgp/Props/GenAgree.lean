/-
  Obligations that tie the constants the hand-written models use to the tables regenerated from
  /repo's source on every run (Yabgp/Gen/*.lean).  A changed constant, flag or table entry in the
  source breaks exactly one of these.
-/
import Yabgp.Gen.Constants
import Yabgp.Gen.AttrFlags
import Yabgp.Gen.Open
import Yabgp.Model.Open
import Yabgp.Model.Consts
import Yabgp.Model.Text

namespace Yabgp.GenAgree
open Yabgp.Gen

theorem attr_codes :
    [Const.BGPTYPE_ORIGIN, Const.BGPTYPE_AS_PATH, Const.BGPTYPE_NEXT_HOP, Const.BGPTYPE_MULTI_EXIT_DISC,
     Const.BGPTYPE_LOCAL_PREF, Const.BGPTYPE_ATOMIC_AGGREGATE, Const.BGPTYPE_AGGREGATOR,
     Const.BGPTYPE_COMMUNITIES, Const.BGPTYPE_ORIGINATOR_ID, Const.BGPTYPE_CLUSTER_LIST,
     Const.BGPTYPE_MP_REACH_NLRI, Const.BGPTYPE_MP_UNREACH_NLRI, Const.BGPTYPE_EXTENDED_COMMUNITY,
     Const.BGPTYPE_NEW_AS_PATH, Const.BGPTYPE_NEW_AGGREGATOR, Const.BGPTYPE_PMSI_TUNNEL,
     Const.BGPTYPE_TUNNEL_ENCAPS_ATTR, Const.BGPTYPE_LINK_STATE, Const.BGPTYPE_LARGE_COMMUNITY,
     Const.BGPTYPE_BGP_PREFIX_SID]
    = [C.tOrigin, C.tAsPath, C.tNextHop, C.tMed, C.tLocalPref, C.tAtomicAgg, C.tAggregator, C.tCommunity,
       C.tOriginatorId, C.tClusterList, C.tMpReach, C.tMpUnreach, C.tExtCommunity, C.tAs4Path,
       C.tAs4Aggregator, C.tPmsi, C.tTunnelEncaps, C.tLinkState, C.tLargeCommunity, C.tPrefixSid] := by
  decide

/-- the attribute classes are keyed by the same codes as the dispatch in update.py -/
theorem attr_ids :
    [Attr.Origin_ID, Attr.ASPath_ID, Attr.NextHop_ID, Attr.MED_ID, Attr.LocalPreference_ID,
     Attr.AtomicAggregate_ID, Attr.Aggregator_ID, Attr.Community_ID, Attr.OriginatorID_ID,
     Attr.ClusterList_ID, Attr.LargeCommunity_ID, Attr.ExtCommunity_ID, Attr.MpReachNLRI_ID,
     Attr.MpUnReachNLRI_ID]
    = [C.tOrigin, C.tAsPath, C.tNextHop, C.tMed, C.tLocalPref, C.tAtomicAgg, C.tAggregator, C.tCommunity,
       C.tOriginatorId, C.tClusterList, C.tLargeCommunity, C.tExtCommunity, C.tMpReach, C.tMpUnreach] := by
  decide

theorem attr_flags :
    [Attr.Origin_FLAG, Attr.ASPath_FLAG, Attr.NextHop_FLAG, Attr.MED_FLAG, Attr.LocalPreference_FLAG,
     Attr.AtomicAggregate_FLAG, Attr.Aggregator_FLAG, Attr.Community_FLAG, Attr.OriginatorID_FLAG,
     Attr.ClusterList_FLAG, Attr.LargeCommunity_FLAG, Attr.ExtCommunity_FLAG, Attr.MpReachNLRI_FLAG,
     Attr.MpUnReachNLRI_FLAG, Attr.EXTENDED_LENGTH]
    = [C.fOrigin, C.fAsPath, C.fNextHop, C.fMed, C.fLocalPref, C.fAtomicAgg, C.fAggregator, C.fCommunity,
       C.fOriginatorId, C.fClusterList, C.fLargeCommunity, C.fExtCommunity, C.fMpReach, C.fMpUnreach,
       C.fExtLen] := by
  decide

theorem update_errors :
    [Const.ERR_MSG_UPDATE_MALFORMED_ATTR_LIST, Const.ERR_MSG_UPDATE_ATTR_LEN, Const.ERR_MSG_UPDATE_INVALID_ORIGIN,
     Const.ERR_MSG_UPDATE_INVALID_NEXTHOP, Const.ERR_MSG_UPDATE_OPTIONAL_ATTR,
     Const.ERR_MSG_UPDATE_INVALID_NETWORK_FIELD, Const.ERR_MSG_UPDATE_MALFORMED_ASPATH]
    = [C.eMalformedAttrList, C.eAttrLen, C.eInvalidOrigin, C.eInvalidNextHop, C.eOptionalAttr,
       C.eInvalidNetworkField, C.eMalformedAsPath] := by
  decide

theorem header_consts :
    [Const.HDR_LEN, Const.MAX_LEN, Const.MSG_OPEN, Const.MSG_UPDATE, Const.MSG_NOTIFICATION, Const.MSG_KEEPALIVE,
     Const.MSG_ROUTEREFRESH, Const.MSG_CISCOROUTEREFRESH]
    = [C.hdrLen, C.maxLen, C.msgOpen, C.msgUpdate, C.msgNotification, C.msgKeepalive, C.msgRouteRefresh,
       C.msgCiscoRouteRefresh] := by
  decide

theorem notification_codes :
    [Const.ERR_MSG_HDR, Const.ERR_MSG_OPEN, Const.ERR_MSG_UPDATE, Const.ERR_HOLD_TIMER_EXPIRED, Const.ERR_FSM,
     Const.ERR_CEASE, Const.ERR_MSG_HDR_CONN_NOT_SYNC, Const.ERR_MSG_HDR_BAD_MSG_LEN, Const.ERR_MSG_HDR_BAD_MSG_TYPE,
     Const.ERR_MSG_OPEN_UNSUP_VERSION, Const.ERR_MSG_OPEN_BAD_PEER_AS, Const.ERR_MSG_OPEN_BAD_BGP_ID,
     Const.ERR_MSG_OPEN_UNSUP_OPT_PARAM, Const.ERR_MSG_OPEN_UNACCPT_HOLD_TIME, Const.LARGER_HOLD_TIME]
    = [C.errHdr, C.errOpen, C.errUpdate, C.errHold, C.errFsm, C.errCease, C.hdrNotSync, C.hdrBadLen, C.hdrBadType,
       C.openBadVersion, C.openBadPeerAs, C.openBadBgpId, C.openUnsupOptParam, C.openBadHold, C.largeHoldTime] := by
  decide

/-- the decoder's name table -/
theorem well_known_int2str : Const.wellKnownInt2Str = Text.wellKnown := by decide

/-- the encoder's reverse table holds the same values under the upper-cased names -/
theorem well_known_str2int :
    Const.wellKnownStr2Int = Text.wellKnown.map (fun e => (e.1, String.ofList (Text.upper e.2.toList))) := by
  decide

/-- the address families add-path is decoded for, and the send/receive codes -/
theorem open_tables : Open.afiSafiKeys = afiSafiKnown ∧ Open.addPathActKeys = [1, 2, 3] := by decide

/-- capability codes dispatched on by Open.parse / Capability.construct, as the model hard-codes them -/
theorem capability_codes :
    [Open.MULTIPROTOCOL_EXTENSIONS, Open.ROUTE_REFRESH, Open.EXTENDED_NEXT_HOP, Open.GRACEFUL_RESTART,
     Open.FOUR_BYTES_ASN, Open.ADD_PATH, Open.ENHANCED_ROUTE_REFRESH, Open.LLGR, Open.CISCO_ROUTE_REFRESH,
     Open.CISCO_MULTISESSION_BGP, Const.VERSION] = [1, 2, 5, 64, 65, 69, 70, 71, 128, 131, 4] := by
  decide

end Yabgp.GenAgree
