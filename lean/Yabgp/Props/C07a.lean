/-
  C07 (part a) — multiprotocol NLRI round trip for IPv6 unicast, IPv4/IPv6 labeled unicast, VPNv4/VPNv6 and the
  MP_REACH_NLRI / MP_UNREACH_NLRI wrappers, plus the C15 compositionality statements for the same list decoders.
  Property theorems only (helper lemmas live in Yabgp/Lemmas/MpRt.lean).  The models are those of the code
  with the repairs fix_1 .. fix_5 of the MPV report applied.

  Three input classes stay outside the round trip on the repaired code; each is excluded by an explicit decidable
  hypothesis and witnessed by a `KF_` theorem:
    * IPv6 unicast: a route list whose encoding leaves exactly 00 00 at a loop head (`¬ U6Safe`), i.e. two
      trailing `::/0` - the decoder's `b'\x00\x00'` special case, pinned by the repository's own test_parse_2;
    * labeled unicast: a label stack ending in label 0 (the shared encoder omits the bottom-of-stack bit;
      pinned by test_l2vpn_evpn_construct_route_type2);
    * labeled unicast MP_UNREACH_NLRI: encoded for (1,4) but decoded for neither (1,4) nor (2,4).
-/
import Yabgp.Lemmas.MpRt
import Yabgp.Gen.Constants
import Yabgp.Gen.AttrFlags

namespace Yabgp.Mp

/-- the constants the models of this part write as literals, against the tables regenerated from the source on
    every run: RD wire types 0/1/2, attribute type codes 14/15, attribute flags 0x90, UPDATE error sub-code 5.
    (The AFI/SAFI numbers of afn.py / safn.py are not among the generated tables; they are tied by the
    correspondence check on the header dispatch.) -/
theorem C07_generated_constants :
    [Gen.Const.BGP_ROUTE_DISTINGUISHER_TYPE_0, Gen.Const.BGP_ROUTE_DISTINGUISHER_TYPE_1,
     Gen.Const.BGP_ROUTE_DISTINGUISHER_TYPE_2, Gen.Const.BGPTYPE_MP_REACH_NLRI, Gen.Const.BGPTYPE_MP_UNREACH_NLRI,
     Gen.Const.ERR_MSG_UPDATE_ATTR_LEN, Gen.Attr.MpReachNLRI_FLAG, Gen.Attr.MpUnReachNLRI_FLAG]
    = [0, 1, 2, C.tMpReach, C.tMpUnreach, C.eAttrLen, 0x90, 0x90] ∧
    C.tMpReach = 14 ∧ C.tMpUnreach = 15 ∧ C.eAttrLen = 5 := by decide

/-! ### C15: the NLRI list decoders are compositional -/

/-- IPv6 prefix lists: decoding the encoding of `xs` followed by anything gives `xs` followed by whatever the
    rest decodes to (an error stays that error) -/
theorem C15_ipv6_prefixes (xs : List U6Route) (w rest : Bytes)
    (hok : ∀ r ∈ xs, U6Ok r) (hs : U6Safe xs rest) (hw : constructU6 xs = some w) :
    parseU6 false (w ++ rest) = (parseU6 false rest).map (xs ++ ·) :=
  many_enc stopU6 (stepU6 false) (stepU6_length false) encU6Route xs w rest hw
    (fun x hx e he => by
      obtain ⟨e', h1, h2, h3⟩ := u6_route x (hok x hx)
      rw [h1] at he; cases he; exact ⟨h2, h3⟩)
    (u6_noStop xs rest hok hs)

/-- labeled unicast routes, both address families -/
theorem C15_labeled (af : AF) (xs : List LuRoute) (w rest : Bytes)
    (hok : ∀ r ∈ xs, LuOk af r) (hw : constructLu af xs = some w) :
    parseLu af false (w ++ rest) = (parseLu af false rest).map (xs ++ ·) :=
  many_enc (fun _ => false) (stepLu af false) (stepLu_length af false) (encLuRoute af) xs w rest hw
    (fun x hx e he => by
      obtain ⟨e', h1, h2, h3⟩ := lu_route af x (hok x hx)
      rw [h1] at he; cases he; exact ⟨h2, h3⟩)
    (noStop_const_false _ xs rest)

/-- VPN routes, both address families, announced (`wd = false`) and withdrawn (`wd = true`) -/
theorem C15_vpn (af : AF) (wd : Bool) (xs : List VpnRoute) (w rest : Bytes)
    (hok : ∀ r ∈ xs, VpnOk af wd r) (hw : constructVpn af wd xs = some w) :
    parseVpn af wd false (w ++ rest) = (parseVpn af wd false rest).map (xs ++ ·) :=
  many_enc (fun _ => false) (stepVpn af wd false) (stepVpn_length af wd false) (encVpnRoute af wd) xs w rest hw
    (fun x hx e he => by
      obtain ⟨e', h1, h2, h3⟩ := vpn_route af wd x (hok x hx)
      rw [h1] at he; cases he; exact ⟨h2, h3⟩)
    (noStop_const_false _ xs rest)

/-- every in-range list has an encoding -/
theorem constructU6_ok (xs : List U6Route) (hok : ∀ r ∈ xs, U6Ok r) : ∃ w, constructU6 xs = some w :=
  encAll_isSome _ xs fun x hx => (u6_route x (hok x hx)).elim fun e h => ⟨e, h.1⟩

theorem constructLu_ok (af : AF) (xs : List LuRoute) (hok : ∀ r ∈ xs, LuOk af r) :
    ∃ w, constructLu af xs = some w :=
  encAll_isSome _ xs fun x hx => (lu_route af x (hok x hx)).elim fun e h => ⟨e, h.1⟩

theorem constructVpn_ok (af : AF) (wd : Bool) (xs : List VpnRoute) (hok : ∀ r ∈ xs, VpnOk af wd r) :
    ∃ w, constructVpn af wd xs = some w :=
  encAll_isSome _ xs fun x hx => (vpn_route af wd x (hok x hx)).elim fun e h => ⟨e, h.1⟩

/-- C15 in the form of the property text, labeled unicast: decode(a ‖ b) = decode(a) ++ decode(b) -/
theorem C15_labeled_concat (af : AF) (xs ys : List LuRoute) (a b : Bytes)
    (hx : ∀ r ∈ xs, LuOk af r) (hy : ∀ r ∈ ys, LuOk af r)
    (ha : constructLu af xs = some a) (hb : constructLu af ys = some b) :
    parseLu af false a = .ok xs ∧ parseLu af false b = .ok ys ∧ parseLu af false (a ++ b) = .ok (xs ++ ys) := by
  have h0 : parseLu af false [] = .ok [] := many_nil _ _ _
  have e1 := C15_labeled af xs a [] hx ha
  have e2 := C15_labeled af ys b [] hy hb
  have e3 := C15_labeled af xs a b hx ha
  simp only [List.append_nil, h0, Except.map] at e1 e2
  rw [e2] at e3
  exact ⟨by simpa using e1, e2, by simpa [Except.map] using e3⟩

theorem C15_vpn_concat (af : AF) (wd : Bool) (xs ys : List VpnRoute) (a b : Bytes)
    (hx : ∀ r ∈ xs, VpnOk af wd r) (hy : ∀ r ∈ ys, VpnOk af wd r)
    (ha : constructVpn af wd xs = some a) (hb : constructVpn af wd ys = some b) :
    parseVpn af wd false a = .ok xs ∧ parseVpn af wd false b = .ok ys ∧
      parseVpn af wd false (a ++ b) = .ok (xs ++ ys) := by
  have h0 : parseVpn af wd false [] = .ok [] := many_nil _ _ _
  have e1 := C15_vpn af wd xs a [] hx ha
  have e2 := C15_vpn af wd ys b [] hy hb
  have e3 := C15_vpn af wd xs a b hx ha
  simp only [List.append_nil, h0, Except.map] at e1 e2
  rw [e2] at e3
  exact ⟨by simpa using e1, e2, by simpa [Except.map] using e3⟩

/-- IPv6 prefix lists: the same, as long as the concatenation does not put 00 00 at a loop head -/
theorem C15_ipv6_prefixes_concat (xs ys : List U6Route) (a b : Bytes)
    (hx : ∀ r ∈ xs, U6Ok r) (hy : ∀ r ∈ ys, U6Ok r)
    (hsx : U6Safe xs []) (hsy : U6Safe ys []) (hsxy : U6Safe xs b)
    (ha : constructU6 xs = some a) (hb : constructU6 ys = some b) :
    parseU6 false a = .ok xs ∧ parseU6 false b = .ok ys ∧ parseU6 false (a ++ b) = .ok (xs ++ ys) := by
  have h0 : parseU6 false [] = .ok [] := many_nil _ _ _
  have e1 := C15_ipv6_prefixes xs a [] hx hsx ha
  have e2 := C15_ipv6_prefixes ys b [] hy hsy hb
  have e3 := C15_ipv6_prefixes xs a b hx hsxy ha
  simp only [List.append_nil, h0, Except.map] at e1 e2
  rw [e2] at e3
  exact ⟨by simpa using e1, e2, by simpa [Except.map] using e3⟩

/-- with nothing following, the excluded class is exactly: the list ends with two default routes -/
theorem U6Safe_nil_iff (rs : List U6Route) :
    U6Safe rs [] ↔ ¬ ∃ pre a b, rs = pre ++ [a, b] ∧ a.pfx.len = 0 ∧ b.pfx.len = 0 := by
  induction rs with
  | nil =>
    simp only [U6Safe, true_iff]
    rintro ⟨pre, a, b, h, _⟩
    have := congrArg List.length h
    simp at this
  | cons x xs ih =>
    simp only [U6Safe]
    rw [ih, oneMoreDefault_nil_iff]
    constructor
    · rintro ⟨h1, h2⟩ ⟨pre, a, b, h, ha, hb⟩
      cases pre with
      | nil =>
        simp only [List.nil_append, List.cons.injEq] at h
        obtain ⟨rfl, rfl⟩ := h
        exact h1 ⟨ha, Or.inr ⟨b, rfl, hb⟩⟩
      | cons p ps =>
        simp only [List.cons_append, List.cons.injEq] at h
        exact h2 ⟨ps, a, b, h.2, ha, hb⟩
    · intro h
      refine ⟨?_, ?_⟩
      · rintro ⟨hx, hh⟩
        rcases hh with ⟨_, h0⟩ | ⟨y, rfl, hy⟩
        · simp at h0
        · exact h ⟨[], x, y, rfl, hx, hy⟩
      · rintro ⟨pre, a, b, hh, ha, hb⟩
        exact h ⟨x :: pre, a, b, by simp [hh], ha, hb⟩

/-! ### C07: the values the property ranges over -/

/-- in-range MP_REACH_NLRI dictionaries of the five families -/
def ReachOk : MpReachVal → Prop
  /- IPv6 unicast: global next hop, with or without a link-local one; every prefix length 0..128; 0..n routes -/
  | .ipv6Unicast nh ll rs =>
    IsV6 nh ∧ (match ll with | some l => IsV6 l | none => True) ∧ (∀ r ∈ rs, U6Ok r) ∧ U6Safe rs []
  /- labeled unicast: a next hop of either family; 1..n routes (the constructor returns None for none) -/
  | .labeled af nh rs =>
    (match nh with | some a => IpOk a | none => False) ∧ rs ≠ [] ∧ ∀ r ∈ rs, LuOk af r
  /- VPN: next hop {'rd': 'asn:an', 'str': address of either family}; 0..n routes -/
  | .vpn af rd nh rs => NhRdOk rd ∧ IpOk nh ∧ ∀ r ∈ rs, VpnOk af false r
  | .other _ _ => False

/-- in-range MP_UNREACH_NLRI dictionaries: 1..n routes (the constructor returns None for none) -/
def UnreachOk : MpUnreachVal → Prop
  | .ipv6Unicast rs => rs ≠ [] ∧ (∀ r ∈ rs, U6Ok r) ∧ U6Safe rs []
  | .vpn af rs => rs ≠ [] ∧ ∀ r ∈ rs, VpnOk af true r
  | _ => False

instance (v : MpReachVal) : Decidable (ReachOk v) := by
  cases v with
  | ipv6Unicast nh ll rs => unfold ReachOk; cases ll <;> infer_instance
  | labeled af nh rs => unfold ReachOk; cases nh <;> infer_instance
  | vpn af rd nh rs => unfold ReachOk; infer_instance
  | other a s => unfold ReachOk; infer_instance

instance (v : MpUnreachVal) : Decidable (UnreachOk v) := by
  cases v <;> unfold UnreachOk <;> infer_instance

/-! ### C07: MP_REACH_NLRI -/

/-- IPv6 unicast, next hop with or without link-local: the constructor wraps an attribute value `body`
    (header 0x90, 14, 2-octet length; it raises only when `body` exceeds 65535 octets) that decodes back to
    exactly the dictionary given -/
theorem C07_ipv6_unicast_reach (nh : Ip) (ll : Option Ip) (rs : List U6Route)
    (h : ReachOk (.ipv6Unicast nh ll rs)) :
    ∃ body, constructMpReach (.ipv6Unicast nh ll rs) = attrWrap 14 body ∧
      parseMpReach false body = .ok (.ipv6Unicast nh ll rs) := by
  obtain ⟨hnh, hll, hrs, hsafe⟩ := h
  obtain ⟨nl, hnl⟩ := constructU6_ok rs hrs
  have hparse : parseU6 false nl = .ok rs := by
    have := C15_ipv6_prefixes rs nl [] hrs hsafe hnl
    simpa [Except.map, show parseU6 false [] = .ok [] from many_nil _ _ _] using this
  obtain ⟨_, hlen⟩ := hnh.ok
  cases ll with
  | none =>
    refine ⟨reachValue 2 safiUnicast 16 nh.packed nl, by simp [constructMpReach, hnl, C.tMpReach], ?_⟩
    have := parseMpReach_value false 2 safiUnicast nh.packed nl (by decide) (by decide) (by omega)
    rw [hlen] at this
    rw [this]
    simp [parseReachBody, afOf, safiUnicast, safiVpn, safiLabel, u6Nexthop_enc nh hnh, hparse]
  | some l =>
    simp only at hll
    obtain ⟨_, hlenl⟩ := hll.ok
    refine ⟨reachValue 2 safiUnicast 32 (nh.packed ++ l.packed) nl,
      by simp [constructMpReach, hnl, C.tMpReach], ?_⟩
    have := parseMpReach_value false 2 safiUnicast (nh.packed ++ l.packed) nl (by decide) (by decide)
      (by simp; omega)
    rw [show (nh.packed ++ l.packed).length = 32 by simp; omega] at this
    rw [this]
    simp [parseReachBody, afOf, safiUnicast, safiVpn, safiLabel, u6Nexthop_enc_ll nh l hnh hll, hparse]

/-- IPv4 (`af = .inet`, afi/safi (1,4)) and IPv6 (`af = .inet6`, (2,4)) labeled unicast -/
theorem C07_labeled_reach (af : AF) (nh : Option Ip) (rs : List LuRoute)
    (h : ReachOk (.labeled af nh rs)) :
    ∃ body, constructMpReach (.labeled af nh rs) = attrWrap 14 body ∧
      parseMpReach false body = .ok (.labeled af nh rs) := by
  obtain ⟨hnh, hne, hrs⟩ := h
  cases nh with
  | none => exact absurd hnh (by simp)
  | some a =>
    simp only at hnh
    obtain ⟨nl, hnl⟩ := constructLu_ok af rs hrs
    have hparse : parseLu af false nl = .ok rs := by
      have := C15_labeled af rs nl [] hrs hnl
      simpa [Except.map, show parseLu af false [] = .ok [] from many_nil _ _ _] using this
    have hnlne : nl ≠ [] := by
      intro hh
      have := (encAll_nil_iff (encLuRoute af) rs nl hnl (fun r hr e he => by
        obtain ⟨e', h1, h2, _⟩ := lu_route af r (hrs r hr)
        rw [h1] at he; cases he; exact h2)).mp hh
      exact hne this
    refine ⟨reachValue af.afi safiLabel a.packed.length a.packed nl,
      by simp [constructMpReach, hnl, hnlne, C.tMpReach], ?_⟩
    rw [parseMpReach_value false af.afi safiLabel a.packed nl (afi_lt af) (by decide)
      (by rw [packed_length]; cases a <;> simp [Ip.width])]
    have hnhb : luNexthop a.packed = .ok (some a) := by
      have hne' : a.packed ≠ [] := by
        intro hh; have := congrArg List.length hh; rw [packed_length] at this
        cases a <;> simp [Ip.width] at this
      simp [luNexthop, hne', nhAddr_packed a hnh]
    simp [parseReachBody, afOf_afi, safiVpn, safiLabel, hnhb, hparse]

/-- VPNv4 (`af = .inet`, (1,128)) and VPNv6 (`af = .inet6`, (2,128)) -/
theorem C07_vpn_reach (af : AF) (rd : Rd) (nh : Ip) (rs : List VpnRoute)
    (h : ReachOk (.vpn af rd nh rs)) :
    ∃ body, constructMpReach (.vpn af rd nh rs) = attrWrap 14 body ∧
      parseMpReach false body = .ok (.vpn af rd nh rs) := by
  obtain ⟨hrd, hnh, hrs⟩ := h
  obtain ⟨nl, hnl⟩ := constructVpn_ok af false rs hrs
  have hparse : parseVpn af false false nl = .ok rs := by
    have := C15_vpn af false rs nl [] hrs hnl
    simpa [Except.map, show parseVpn af false false [] = .ok [] from many_nil _ _ _] using this
  obtain ⟨nhb, hnhb, hnhl, hnhp⟩ := vpnNexthop_enc rd nh hrd hnh
  refine ⟨reachValue af.afi safiVpn nhb.length nhb nl, by simp [constructMpReach, hnl, hnhb, C.tMpReach], ?_⟩
  rw [parseMpReach_value false af.afi safiVpn nhb nl (afi_lt af) (by decide) hnhl]
  simp [parseReachBody, afOf_afi, safiVpn, hnhp, hparse]

/-- all five families at once -/
theorem C07_reach_roundtrip (v : MpReachVal) (h : ReachOk v) :
    ∃ body, constructMpReach v = attrWrap 14 body ∧ parseMpReach false body = .ok v := by
  cases v with
  | ipv6Unicast nh ll rs => exact C07_ipv6_unicast_reach nh ll rs h
  | labeled af nh rs => exact C07_labeled_reach af nh rs h
  | vpn af rd nh rs => exact C07_vpn_reach af rd nh rs h
  | other a s => exact absurd h (by simp [ReachOk])

/-! ### C07: MP_UNREACH_NLRI -/

theorem C07_ipv6_unicast_unreach (rs : List U6Route) (h : UnreachOk (.ipv6Unicast rs)) :
    ∃ body, constructMpUnreach (.ipv6Unicast rs) = attrWrap 15 body ∧
      parseMpUnreach false body = .ok (.ipv6Unicast rs) := by
  obtain ⟨hne, hrs, hsafe⟩ := h
  obtain ⟨nl, hnl⟩ := constructU6_ok rs hrs
  have hparse : parseU6 false nl = .ok rs := by
    have := C15_ipv6_prefixes rs nl [] hrs hsafe hnl
    simpa [Except.map, show parseU6 false [] = .ok [] from many_nil _ _ _] using this
  have hnlne : nl ≠ [] := by
    intro hh
    have := (encAll_nil_iff encU6Route rs nl hnl (fun r hr e he => by
      obtain ⟨e', h1, h2, _⟩ := u6_route r (hrs r hr)
      rw [h1] at he; cases he; exact h2)).mp hh
    exact hne this
  refine ⟨unreachValue 2 safiUnicast nl, by simp [constructMpUnreach, hnl, hnlne, C.tMpUnreach], ?_⟩
  rw [parseMpUnreach_value false 2 safiUnicast nl (by decide) (by decide)]
  simp [parseUnreachBody, afOf, safiUnicast, safiVpn, safiLabel, hparse]

theorem C07_vpn_unreach (af : AF) (rs : List VpnRoute) (h : UnreachOk (.vpn af rs)) :
    ∃ body, constructMpUnreach (.vpn af rs) = attrWrap 15 body ∧
      parseMpUnreach false body = .ok (.vpn af rs) := by
  obtain ⟨hne, hrs⟩ := h
  obtain ⟨nl, hnl⟩ := constructVpn_ok af true rs hrs
  have hparse : parseVpn af true false nl = .ok rs := by
    have := C15_vpn af true rs nl [] hrs hnl
    simpa [Except.map, show parseVpn af true false [] = .ok [] from many_nil _ _ _] using this
  have hnlne : nl ≠ [] := by
    intro hh
    have := (encAll_nil_iff (encVpnRoute af true) rs nl hnl (fun r hr e he => by
      obtain ⟨e', h1, h2, _⟩ := vpn_route af true r (hrs r hr)
      rw [h1] at he; cases he; exact h2)).mp hh
    exact hne this
  refine ⟨unreachValue af.afi safiVpn nl, by simp [constructMpUnreach, hnl, hnlne, C.tMpUnreach], ?_⟩
  rw [parseMpUnreach_value false af.afi safiVpn nl (afi_lt af) (by decide)]
  simp [parseUnreachBody, afOf_afi, safiVpn, hparse]

theorem C07_unreach_roundtrip (v : MpUnreachVal) (h : UnreachOk v) :
    ∃ body, constructMpUnreach v = attrWrap 15 body ∧ parseMpUnreach false body = .ok v := by
  cases v with
  | ipv6Unicast rs => exact C07_ipv6_unicast_unreach rs h
  | vpn af rs => exact C07_vpn_unreach af rs h
  | labeled af rs => exact absurd h (by simp [UnreachOk])
  | labeledRaw af b => exact absurd h (by simp [UnreachOk])
  | other a s => exact absurd h (by simp [UnreachOk])

/-- the header: flags 0x90, type code, true 2-octet length; nothing else can make the constructor raise -/
theorem C07_wrapper_header (code : Nat) (body : Bytes) :
    (body.length < 65536 → attrWrap code body = .ok ([0x90, u8 code] ++ be16 body.length ++ body)) ∧
    (¬ body.length < 65536 → attrWrap code body = .raise) := by
  constructor <;> intro h <;> simp [attrWrap, h]

/-- which wire type a route distinguisher text gets: `asn:an` is type 0 up to asn 65535 and type 2 above,
    `a.b.c.d:an` is type 1; each decodes back to the same text -/
theorem C07_rd_types (rd : Rd) (h : RdOk rd) :
    ∃ w, constructRd rd = some w ∧ parseRd w = some rd ∧
      w.take 2 = be16 (match rd with
                       | .asForm asn _ => if asn ≤ 65535 then 0 else 2
                       | .ipForm _ _ => 1
                       | .raw _ => 0) := by
  obtain ⟨w, hw, _, hp⟩ := parseRd_enc rd h
  refine ⟨w, hw, hp, ?_⟩
  cases rd with
  | raw b => exact absurd h (by simp [RdOk])
  | ipForm ip an =>
    obtain ⟨h1, h2⟩ := h
    simp only [constructRd, h1, h2, and_self, ↓reduceIte, Option.some.injEq] at hw
    subst hw; simp [be16]
  | asForm asn an =>
    rcases h with ⟨h1, h2⟩ | ⟨h1, h2, h3⟩
    · simp only [constructRd, h1, h2, ↓reduceIte, Option.some.injEq] at hw
      subst hw; simp [be16, h1]
    · have : ¬ asn ≤ 65535 := by omega
      simp only [constructRd, this, h2, h3, and_self, ↓reduceIte, Option.some.injEq] at hw
      subst hw; simp [be16, this]

/-! ### known findings: witnesses on the model of the repaired code -/

/-- IPv6 unicast: two default routes are constructed as 00 00 and decode to nothing -/
theorem KF_C07_ipv6_two_default_routes :
    constructMpUnreach (.ipv6Unicast [{ pfx := { addr := .v6 0, len := 0 } }, { pfx := { addr := .v6 0, len := 0 } }])
      = attrWrap 15 [0, 2, 1, 0, 0] ∧
    parseMpUnreach false [0, 2, 1, 0, 0] = .ok (.ipv6Unicast []) ∧
    ¬ U6Safe [{ pfx := { addr := .v6 0, len := 0 } }, { pfx := { addr := .v6 0, len := 0 } }] [] := by
  refine ⟨by decide, ?_, by decide⟩
  have : parseU6 false [0, 0] = .ok [] := by
    unfold parseU6
    rw [many_cons]
    simp [stopU6]
  simp [parseMpUnreach, parseUnreachBody, afOf, safiVpn, safiLabel, safiUnicast, this]

/-- labeled unicast: label [0] in front of 10.1.1.0/24 is constructed as 30 000000 0a0101 and decodes to
    labels [0, 40976] and the prefix 0.0.0.0/0 -/
theorem KF_C07_labeled_last_label_zero :
    constructLu .inet [{ labels := [0], pfx := { addr := .v4 167837952, len := 24 } }]
      = some [0x30, 0, 0, 0, 0x0a, 1, 1] ∧
    parseLu .inet false [0x30, 0, 0, 0, 0x0a, 1, 1]
      = .ok [{ labels := [0, 40976], pfx := { addr := .v4 0, len := 0 } }] ∧
    ¬ LuOk .inet { labels := [0], pfx := { addr := .v4 167837952, len := 24 } } := by
  refine ⟨by decide, ?_, by decide⟩
  unfold parseLu
  rw [many_cons]
  have hstep : stepLu .inet false [0x30, 0, 0, 0, 0x0a, 1, 1]
      = .ok ({ labels := [0, 40976], pfx := { addr := .v4 0, len := 0 } }, []) := by
    simp [stepLu, parseLuOne, parseLabels, luAddr, ceil8, intOfBytes, zeros, beVal, ipOfInt, p32]
  simp [hstep, Except.bind, Except.map, many_nil]

/-- labeled unicast withdrawals: whatever NLRI octets follow (af, 4) come back undecoded -/
theorem KF_C07_labeled_unreach_not_decoded (af : AF) (addpath : Bool) (nlri : Bytes) :
    parseMpUnreach addpath (unreachValue af.afi safiLabel nlri) = .ok (.labeledRaw af nlri) := by
  rw [parseMpUnreach_value addpath af.afi safiLabel nlri (afi_lt af) (by decide)]
  simp [parseUnreachBody, afOf_afi, safiVpn, safiLabel]

/-- ... while the constructor encodes them for IPv4 and returns None for IPv6 -/
theorem KF_C07_labeled_unreach_constructed :
    constructMpUnreach (.labeled .inet [{ labels := [16], pfx := { addr := .v4 167772160, len := 8 } }])
      = attrWrap 15 (unreachValue 1 safiLabel [0x20, 0x80, 0, 0, 0x0a]) ∧
    ∀ rs, constructMpUnreach (.labeled .inet6 rs) = .none := by
  exact ⟨by decide, fun _ => rfl⟩

/-! ### the NLRI classes on their own, and the full statements the known findings falsify -/

/-- IPv6Unicast.parse(IPv6Unicast.construct(rs)) = rs -/
theorem C07_ipv6_unicast_nlri (rs : List U6Route) (w : Bytes) (hok : ∀ r ∈ rs, U6Ok r) (hs : U6Safe rs [])
    (hw : constructU6 rs = some w) : parseU6 false w = .ok rs := by
  have := C15_ipv6_prefixes rs w [] hok hs hw
  simpa [Except.map, show parseU6 false [] = .ok [] from many_nil _ _ _] using this

/-- LabeledUnicast.parse(LabeledUnicast.construct(rs)) = rs for both address families -/
theorem C07_labeled_nlri (af : AF) (rs : List LuRoute) (w : Bytes) (hok : ∀ r ∈ rs, LuOk af r)
    (hw : constructLu af rs = some w) : parseLu af false w = .ok rs := by
  have := C15_labeled af rs w [] hok hw
  simpa [Except.map, show parseLu af false [] = .ok [] from many_nil _ _ _] using this

/-- MPLSVPN.parse(MPLSVPN.construct(rs, iswithdraw), iswithdraw) = rs for both address families -/
theorem C07_vpn_nlri (af : AF) (wd : Bool) (rs : List VpnRoute) (w : Bytes) (hok : ∀ r ∈ rs, VpnOk af wd r)
    (hw : constructVpn af wd rs = some w) : parseVpn af wd false w = .ok rs := by
  have := C15_vpn af wd rs w [] hok hw
  simpa [Except.map, show parseVpn af wd false [] = .ok [] from many_nil _ _ _] using this

/-- the statement of the property text for IPv6 prefix lists, without the exclusion -/
def C07_ipv6_unicast_full : Prop :=
  ∀ (rs : List U6Route) (w : Bytes), (∀ r ∈ rs, U6Ok r) → constructU6 rs = some w → parseU6 false w = .ok rs

theorem KF_C07_ipv6_unicast_full_false : ¬ C07_ipv6_unicast_full := by
  intro h
  have h1 := h [{ pfx := { addr := .v6 0, len := 0 } }, { pfx := { addr := .v6 0, len := 0 } }] [0, 0]
    (by decide) (by decide)
  have h2 : parseU6 false [0, 0] = .ok [] := by
    unfold parseU6
    rw [many_cons]
    simp [stopU6]
  rw [h2] at h1
  cases h1

/-- labeled-unicast routes of the property text, without the exclusion of a last label 0 -/
def LuSpace (af : AF) (r : LuRoute) : Prop :=
  r.pathId = none ∧ r.labels ≠ [] ∧ (∀ l ∈ r.labels, LabelOk l) ∧
  PfxOk af r.pfx ∧ 24 * (r.labels.length : Int) + r.pfx.len ≤ 255

def C07_labeled_full : Prop :=
  ∀ (af : AF) (rs : List LuRoute) (w : Bytes), (∀ r ∈ rs, LuSpace af r) → constructLu af rs = some w →
    parseLu af false w = .ok rs

theorem KF_C07_labeled_full_false : ¬ C07_labeled_full := by
  intro h
  have h1 := h .inet [{ labels := [0], pfx := { addr := .v4 167837952, len := 24 } }]
    [0x30, 0, 0, 0, 0x0a, 1, 1] (by unfold LuSpace; decide) KF_C07_labeled_last_label_zero.1
  rw [KF_C07_labeled_last_label_zero.2.1] at h1
  simp at h1

/-- the exclusion is exactly the last-label-0 class: every route of the value space with another last label
    is covered by the theorems -/
theorem LuOk_iff_space (af : AF) (r : LuRoute) : LuOk af r ↔ LuSpace af r ∧ r.labels.getLast? ≠ some 0 := by
  unfold LuOk LuSpace
  constructor
  · rintro ⟨a, b, c, d, e, f⟩; exact ⟨⟨a, b, c, e, f⟩, d⟩
  · rintro ⟨⟨a, b, c, e, f⟩, d⟩; exact ⟨a, b, c, d, e, f⟩

/-! ### non-vacuity -/

/-- IPv6 unicast with link-local next hop; ::/0, a /33, a /127 with a host bit inside the last octet, ::1/128 -/
example : ReachOk (.ipv6Unicast (.v6 42540766411282592856903984951653826561)
    (some (.v6 338288524927261089654018896841347694593))
    [{ pfx := { addr := .v6 0, len := 0 } },
     { pfx := { addr := .v6 42540766411282592856903984951653826560, len := 33 } },
     { pfx := { addr := .v6 42540766411282592856903984951653826562, len := 127 } },
     { pfx := { addr := .v6 1, len := 128 } }]) := by decide

/-- labeled IPv4: labels {1048575, 3}, /0 and /32; labeled IPv6 /63 -/
example : ReachOk (.labeled .inet (some (.v4 16909060))
    [{ labels := [1048575, 3], pfx := { addr := .v4 0, len := 0 } },
     { labels := [16], pfx := { addr := .v4 167837953, len := 32 } }]) := by decide

example : ReachOk (.labeled .inet6 (some (.v6 1))
    [{ labels := [15], pfx := { addr := .v6 42540766411282592856903984951653826560, len := 63 } }]) := by decide

/-- VPNv4 default route with label 0 and a type-1 RD; two labels with a type-2 RD; VPNv6 /60 with the largest
    type-0 RD and the largest label -/
example : ReachOk (.vpn .inet (.asForm 0 0) (.v4 16909060)
    [{ labels := [0], rd := .ipForm 4294967295 65535, pfx := { addr := .v4 0, len := 0 } },
     { labels := [16, 17], rd := .asForm 65536 65535, pfx := { addr := .v4 167837696, len := 16 } }]) := by decide

example : ReachOk (.vpn .inet6 (.asForm 65535 4294967295) (.v6 281470698652420)
    [{ labels := [1048575], rd := .asForm 65535 4294967295,
       pfx := { addr := .v6 42540766411282592856903984951653826560, len := 60 } }]) := by decide

example : UnreachOk (.vpn .inet [{ labels := [524288], rd := .asForm 100 100,
                                   pfx := { addr := .v4 167772160, len := 8 } }]) := by decide

example : UnreachOk (.ipv6Unicast [{ pfx := { addr := .v6 0, len := 0 } },
                                   { pfx := { addr := .v6 42540766411282592856903984951653826560, len := 32 } }]) := by
  decide

/-- and the round trip theorem applies to them: e.g. the VPNv4 value above has a body that decodes back -/
example : ∃ body, parseMpReach false body = .ok (.vpn .inet (.asForm 0 0) (.v4 16909060)
    [{ labels := [0], rd := .ipForm 4294967295 65535, pfx := { addr := .v4 0, len := 0 } }]) :=
  (C07_reach_roundtrip _ (by decide)).elim fun body h => ⟨body, h.2⟩

end Yabgp.Mp

#print axioms Yabgp.Mp.C07_generated_constants
#print axioms Yabgp.Mp.C07_ipv6_unicast_reach
#print axioms Yabgp.Mp.C07_labeled_reach
#print axioms Yabgp.Mp.C07_vpn_reach
#print axioms Yabgp.Mp.C07_reach_roundtrip
#print axioms Yabgp.Mp.C07_ipv6_unicast_unreach
#print axioms Yabgp.Mp.C07_vpn_unreach
#print axioms Yabgp.Mp.C07_unreach_roundtrip
#print axioms Yabgp.Mp.C07_wrapper_header
#print axioms Yabgp.Mp.C07_rd_types
#print axioms Yabgp.Mp.C15_ipv6_prefixes
#print axioms Yabgp.Mp.U6Safe_nil_iff
#print axioms Yabgp.Mp.C15_labeled
#print axioms Yabgp.Mp.C15_vpn
#print axioms Yabgp.Mp.C15_ipv6_prefixes_concat
#print axioms Yabgp.Mp.C15_labeled_concat
#print axioms Yabgp.Mp.C15_vpn_concat
#print axioms Yabgp.Mp.KF_C07_ipv6_two_default_routes
#print axioms Yabgp.Mp.KF_C07_labeled_last_label_zero
#print axioms Yabgp.Mp.KF_C07_labeled_unreach_not_decoded
#print axioms Yabgp.Mp.C07_ipv6_unicast_nlri
#print axioms Yabgp.Mp.C07_labeled_nlri
#print axioms Yabgp.Mp.C07_vpn_nlri
#print axioms Yabgp.Mp.KF_C07_ipv6_unicast_full_false
#print axioms Yabgp.Mp.KF_C07_labeled_full_false
#print axioms Yabgp.Mp.LuOk_iff_space
#print axioms Yabgp.Mp.KF_C07_labeled_unreach_constructed
