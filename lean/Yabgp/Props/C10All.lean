/- C10: per-message statements (Props/C10.lean) and "nothing escapes" over every history (Props/C10b.lean). -/
import Yabgp.Props.C10
import Yabgp.Props.C10b
