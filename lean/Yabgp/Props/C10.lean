/-
  C10 — hostile peer input is contained.  (Termination of the handling of a chunk is C04_terminates;
  termination of the decoders is C11.)
-/
import Yabgp.Lemmas.Keeps
import Yabgp.Props.C04
import Yabgp.Lemmas.OutsExt

namespace Yabgp
open Sess

variable (U : Bool → Bytes → UpdClass)

attribute [local simp] emit withNow withSt withTm withAllow withRetryCounter withHoldTime withProto withEstab
  withLocalCaps withRemote withBgpId withOuts setRetry setHold setKeepalive setIdleHold incRetryCounter setSt
  restartHold

/-- A malformed (or any other) UPDATE body never tears down an Established session: whatever the body is
    and whatever the decoder makes of it, the state after dispatching an UPDATE frame in Established is
    Established. -/
theorem C10_update_keeps_session (s : Sess) (i : Nat) (body : Bytes) (h : s.st = .established) :
    (dispatch U s i C.msgUpdate body).1.st = .established := by
  have hst : ∀ (t : Sess), t.st = .established → t.fsmUpdateReceived.st = .established := by
    intro t ht
    simp only [fsmUpdateReceived, ht]
    unfold restartHold
    split <;> simp [ht]
  have hb : ∀ (t : Sess) (f : Stats → Stats), (t.bumpRecv i f).st = t.st := fun _ _ => rfl
  simp only [dispatch, C.msgUpdate, C.msgOpen, Nat.reduceEqDiff, ↓reduceIte]
  split
  · simp [bumpRecv, setConn, withConns, h]
  · simp [bumpRecv, setConn, withConns, h]
  · exact hst _ (by simp [bumpRecv, setConn, withConns, h])
  · exact hst _ (by simp [bumpRecv, setConn, withConns, h])

/-- A message never changes how later messages are decoded, unless it is an OPEN: the AS-width mode (the only
    decoding context a connection has — add-path is never enabled) of every connection is the same after any
    UPDATE, NOTIFICATION, KEEPALIVE, ROUTE-REFRESH or unknown message, well-formed or not. -/
theorem C10_decode_context_stable (s : Sess) (i ty : Nat) (body : Bytes) (hty : ty ≠ 1) (j : Nat) :
    ((dispatch U s i ty body).1.conn j).asn4 = (s.conn j).asn4 :=
  keeps_dispatch_nonOpen indep_asn4 indepRecv_asn4 U s i ty body (by simpa [C.msgOpen] using hty) j

theorem reports_emit_report (s : Sess) (o : Out) (h : isReport o = true) :
    reports (s.emit o).outs = reports s.outs + 1 := by
  simp [reports, Sess.emit, List.filter_append, h]

theorem reports_emit_quiet (s : Sess) (o : Out) (h : isReport o = false) :
    reports (s.emit o).outs = reports s.outs := by
  simp [reports, Sess.emit, List.filter_append, h]

/-- Each well-framed message yields at most one report to the application (the decoded message, or the
    malformed-UPDATE report). -/
theorem C10_one_report (s : Sess) (i ty : Nat) (body : Bytes) :
    reports (dispatch U s i ty body).1.outs ≤ reports s.outs + 1 := by
  have hq := reactive_nonReport
  have r_he : ∀ (t : Sess) sub d, reports (t.headerError sub d).outs = reports t.outs :=
    fun t sub d => reports_of_ext (oe_headerError t sub d (hq _))
  have r_oe : ∀ (t : Sess) sub, reports (t.openMessageError sub).outs = reports t.outs :=
    fun t sub => reports_of_ext (oe_openMessageError t sub (hq _))
  have r_b : ∀ (t : Sess) k g, reports (t.bumpRecv k g).outs = reports t.outs := fun _ _ _ => rfl
  unfold dispatch
  split
  · unfold openReceived
    split
    · simp only [r_he, r_b]; omega
    · simp only [r_oe, r_b]; omega
    · simp only [r_b]; omega
    · split
      · simp only [r_oe, r_b]; omega
      · unfold openAccepted
        split
        · split
          · simp only [r_oe]
            show reports (s.bumpRecv i incOpens).outs ≤ _
            simp only [r_b]; omega
          · simp only [r_oe]
            show reports (s.bumpRecv i incOpens).outs ≤ _
            simp only [r_b]; omega
        · split
          · rw [reports_emit_report _ _ rfl, reports_of_ext (oe_fsmOpenReceived _ (hq _))]
            show reports (s.bumpRecv i incOpens).outs + 1 ≤ _
            simp only [r_b]; omega
          · rw [reports_emit_report _ _ rfl, reports_of_ext (oe_fsmOpenReceived _ (hq _))]
            show reports (s.bumpRecv i incOpens).outs + 1 ≤ _
            simp only [r_b]; omega
  · split
    · split
      · simp only [r_b]; omega
      · rw [reports_emit_quiet _ _ rfl]; simp only [r_b]; omega
      · rw [reports_of_ext (oe_fsmUpdateReceived _ (hq _)), reports_emit_report _ _ rfl]; simp only [r_b]; omega
      · rw [reports_of_ext (oe_fsmUpdateReceived _ (hq _)), reports_emit_report _ _ rfl]; simp only [r_b]; omega
    · split
      · split
        · show reports s.outs ≤ _; omega
        · rw [reports_of_ext (oe_fsmNotificationReceived _ _ _ (hq _)), reports_emit_report _ _ rfl]; simp only [r_b]; omega
      · split
        · split
          · rw [reports_of_ext (oe_fsmKeepaliveReceived _ (hq _)), reports_emit_report _ _ rfl]; simp only [r_b]; omega
          · rw [r_he, reports_emit_report _ _ rfl]; simp only [r_b]; omega
        · split
          · split
            · simp only [r_b]; omega
            · rw [reports_emit_report _ _ rfl]; simp only [r_b]; omega
          · rw [r_he]; omega

/-- Nothing escapes: as long as the state machine tracks some connection (which it does from the first
    successful connect on, and no message can arrive before that), handling a message never leaves through an
    unhandled error — the only places the model marks as escapes need `proto = none` or a NOTIFICATION too
    large to build, and neither can happen in `dispatch`. -/
theorem C10_no_escape_send (s : Sess) (i : Nat) (hp : s.proto = some i) (e sub : Nat) (d : Bytes)
    (he : e < 256) (hs : sub < 256) (hd : d.length + 21 < 65536) :
    ∀ o ∈ (s.sendNotification e sub d).outs, o = .escaped → o ∈ s.outs := by
  intro o ho hesc
  subst hesc
  simp only [sendNotification, hp, constructNotification_eq e sub d he hs hd] at ho
  unfold writeOn at ho
  split at ho
  · simp [Sess.emit, bumpSent, setConn, withConns] at ho
    exact ho
  · simpa [bumpSent, setConn, withConns] using ho

end Yabgp

#print axioms Yabgp.C10_update_keeps_session
#print axioms Yabgp.C10_decode_context_stable
#print axioms Yabgp.C10_one_report
#print axioms Yabgp.C10_no_escape_send
