/-
  C11 (part b) — the TLV decoders terminate on every input within a bounded amount of work.

  Scope: the container loops of BGP-LS NLRI (nlri/linkstate.py), the BGP-LS attribute (linkstate/**) and BGP
  Prefix-SID (sr/**), see Model/Tlv.lean.  Termination itself is Lean's acceptance of `tlvRun` / `deepSteps`
  (well-founded recursion on the octets left, no fuel); the theorems below bound the work and tie the list of
  loops the model covers to the inventory regenerated from the source (Gen/Loops.lean).
  Property theorems only; helper lemmas in Lemmas/TlvLemmas.lean.
-/
import Yabgp.Lemmas.TlvLemmas
import Yabgp.Gen.Loops

namespace Yabgp
open Yabgp.Tlv

/-! ### the tie to the source: inventory regenerated from the AST = the loops the model covers -/

/-- every loop (while / for / comprehension) of nlri/linkstate.py, linkstate/** and sr/** is in the model's
    coverage list with the same normalised source hash, and the list names nothing that is not in the source:
    a new, changed or vanished loop breaks this obligation -/
theorem gen_loops_covered :
    Gen.Loops.tlvLoops = coveredLoops.map (fun c => (c.id, c.hash)) := by decide

/-- the constant part of every loop's advance, read from its AST, is what the coverage list records -/
theorem gen_loops_advance :
    Gen.Loops.tlvAdvance = coveredLoops.map (fun c => (c.id, c.adv)) := by decide

/-- ... and for the loops modelled by `tlvRun` it is the header size of the instance that covers them -/
def coverOk (c : Covered) : Bool :=
  match c.cover with
  | .tlv n => hdrOfInstance n == some c.adv
  | .finite _ => true

theorem covered_instances_exist : coveredLoops.all coverOk = true := by decide

/-- the registry of BGP-LS attribute TLV classes, the protocol-dependent list and the call conventions -/
theorem gen_ls_registry : Gen.Loops.lsRegistry.map (·.1) = lsRegistered := by decide
theorem gen_ls_special : Gen.Loops.lsSpecial = lsSpecial := by decide
theorem gen_ls_two_arg :
    (Gen.Loops.lsRegistry.filter (fun e => e.2.2 == 2)).map (·.1) = lsTwoArg := by decide
theorem gen_ls_no_unpack :
    (Gen.Loops.lsRegistry.filter (fun e => e.2.2 == 0)).map (·.1) = lsNoUnpack := by decide
theorem gen_psid_registries :
    Gen.Loops.prefixSidRegistry.map (·.1) = prefixSidRegistered ∧
    Gen.Loops.l3ServiceRegistry.map (·.1) = l3ServiceRegistered ∧
    Gen.Loops.sidInformationRegistry.map (·.1) = sidInformationRegistered := by decide

/-! ### work bounds -/

/-- **C11, TLV loops.**  For every loop shape, EVERY body decoder and EVERY byte string: the loop starts at most
    one iteration per octet (sharper: all iterations but possibly the last own `hdr` octets of the input), and
    produces at most one element per iteration. -/
theorem C11_tlv_work_bound {α ε : Type} (sh : Shape) (body : Bytes → Bytes → Except ε (Option α)) (b : Bytes) :
    (tlvRun sh body b).steps ≤ b.length ∧
    sh.hdr * (tlvRun sh body b).steps ≤ b.length + (sh.hdr - 1) ∧
    (tlvRun sh body b).vals.length ≤ (tlvRun sh body b).steps :=
  ⟨tlvRun_steps_le sh body b, tlvRun_steps_bound sh body b, tlvRun_vals_le_steps sh body b⟩

/-- the same for each instance of the code, on the bytes handed to the enclosing decoder (the preamble is
    dropped by a slice, which cannot fail) -/
theorem C11_tlv_work_bound_instances {α ε : Type} (i : Instance) (_hi : i ∈ instances)
    (body : Bytes → Bytes → Except ε (Option α)) (data : Bytes) :
    (i.run body data).steps ≤ data.length ∧ (i.run body data).vals.length ≤ data.length := by
  have h := C11_tlv_work_bound i.shape body (data.drop i.skip)
  have hl : (data.drop i.skip).length ≤ data.length := by simp
  unfold Instance.run
  omega

/-- the header sizes: every iteration of every instance consumes at least two octets -/
theorem C11_tlv_instances_advance : ∀ i ∈ instances, 2 ≤ i.shape.hdr := by decide

/-- **totality.**  Whatever the body decoders do, a run ends in exactly one of three ways: the input was used up,
    1 ≤ k < hdr octets were left over (struct.error), or a body decoder raised; never anything else, and the
    split the harness drives the real decoders with never reports a failure of its own. -/
theorem C11_tlv_total {α ε : Type} (sh : Shape) (body : Bytes → Bytes → Except ε (Option α)) (b : Bytes) :
    (tlvRun sh body b).stop = .done ∨
    (∃ r, (tlvRun sh body b).stop = .short r) ∨
    (∃ h v e, (tlvRun sh body b).stop = .fail h v e ∧ body h v = .error e) := by
  induction hn : b.length using Nat.strongRecOn generalizing b with
  | _ n ih =>
    by_cases hb : b = []
    · subst hb; simp
    · by_cases hs : b.length < sh.hdr
      · rw [tlvRun_short sh body b hb hs]; simp
      · rw [tlvRun_step sh body b (Nat.not_lt.mp hs)]
        cases hbody : body (hdrOf sh b) (valOf sh b) with
        | error e => right; right; exact ⟨_, _, e, rfl, hbody⟩
        | ok x =>
          have hlt := restOf_lt sh b hb
          simpa [Run.push] using ih (restOf sh b).length (by omega) (restOf sh b) rfl

/-- the loop IS "split by the shape, then map the per-TLV decoder over the pairs, stopping at the first that
    raises" - the factorisation the correspondence suite relies on when it maps the REAL per-TLV decoders over
    the model's split -/
theorem C11_tlv_split_then_map {α ε : Type} (sh : Shape) (body : Bytes → Bytes → Except ε (Option α)) (b : Bytes) :
    tlvRun sh body b = walk body (tlvSplit sh b).vals (tlvSplit sh b).stop.cast ∧
    (∀ h v e, (tlvSplit sh b).stop ≠ .fail h v e) :=
  ⟨tlvRun_eq_walk sh body b, fun h v e => tlvSplit_stop_ne_fail sh b h v e⟩

/-- **nesting.**  Counting the iterations of the attribute loop AND of every nested sub-TLV loop reached through
    a registered container (1106 inside 1106 inside …, the only recursion the dispatch allows): still at most one
    per octet, so the recursion depth is bounded by the input as well -/
theorem C11_tlv_nested_work_bound (nest : Bytes → Option Nat) (sh : Shape) (b : Bytes) :
    deepSteps sh nest b ≤ b.length := deepSteps_le sh nest b

theorem C11_ls_attr_nested_work_bound (b : Bytes) : deepSteps tlv22 lsNest b ≤ b.length :=
  deepSteps_le tlv22 lsNest b

/-- `for … in range(start, stop, step)`: as many iterations as the range is long, never more than `stop` -/
theorem C11_range_bound (start stop step n : Nat) (h : rangeLen start stop step = some n) : n ≤ stop := by
  unfold rangeLen at h
  split at h
  · simp at h
  · rename_i hs
    simp only [Option.some.injEq] at h
    subst h
    have hpos : 0 < step := Nat.pos_of_ne_zero hs
    by_cases hz : stop = 0
    · subst hz
      have : (0 - start + step - 1) / step = 0 := Nat.div_eq_of_lt (by omega)
      omega
    · apply Nat.div_le_of_le_mul
      have h1 : stop - 1 ≤ step * (stop - 1) := Nat.le_mul_of_pos_left _ hpos
      have h2 : step * stop = step * (stop - 1) + step := by
        rw [← Nat.mul_succ]; congr 1; omega
      omega

/-! ### non-vacuity: concrete runs (computed by applying the theorems, `decide` does not unfold the recursion) -/

/-- a node-name TLV (1026, "ab") followed by an unknown TLV 9 of length 1 and two stray octets: two iterations
    with an element, a third that finds a short header -/
example :
    tlvRun tlv22 (fun h v => (.ok (some (tlv22.typ h, v)) : Except Unit (Option (Nat × Bytes))))
      (enc [(hdr22 1026 2, [97, 98]), (hdr22 9 1, [7])] ++ [0, 1])
    = { vals := [(1026, [97, 98]), (9, [7])], stop := .short [0, 1], steps := 3 } := by
  rw [tlvRun_enc_append _ _ _ (by intro hv hm; simp at hm; rcases hm with rfl | rfl <;> decide)]
  rw [tlvRun_short _ _ _ (by decide) (by decide)]
  rfl

example : (3 : Nat) ≤ (enc [(hdr22 1026 2, [97, 98]), (hdr22 9 1, ([7] : Bytes))] ++ [0, 1]).length := by decide

end Yabgp

#print axioms Yabgp.gen_loops_covered
#print axioms Yabgp.gen_loops_advance
#print axioms Yabgp.covered_instances_exist
#print axioms Yabgp.gen_ls_registry
#print axioms Yabgp.gen_ls_special
#print axioms Yabgp.gen_ls_two_arg
#print axioms Yabgp.gen_ls_no_unpack
#print axioms Yabgp.gen_psid_registries
#print axioms Yabgp.C11_tlv_work_bound
#print axioms Yabgp.C11_tlv_work_bound_instances
#print axioms Yabgp.C11_tlv_instances_advance
#print axioms Yabgp.C11_tlv_total
#print axioms Yabgp.C11_tlv_split_then_map
#print axioms Yabgp.C11_tlv_nested_work_bound
#print axioms Yabgp.C11_ls_attr_nested_work_bound
#print axioms Yabgp.C11_range_bound
