/-
  C08, second part — the EVPN constructors (Model/Mp/Evpn.lean, Model/Mp/EvfWrap.lean by builder EVF), as repaired
  by fix_9 (Model/Construct/EvpnGuards.lean): whatever they return walks.
-/
import Yabgp.Lemmas.WalkerEvf
import Yabgp.Lemmas.WalkerFlow
import Yabgp.Lemmas.EvfRt

namespace Yabgp
open Walker Evpn

/-- `EVPN.construct(nlri_list)`: a sequence of `type, length, value` entries, every value with the fixed layout of
    its route type (RD 8, ESI 10, tag 4, MAC length 48, IP length 0 | 32 | 128 with that many bits, label
    entries of 3 octets, IP prefix routes of 34 or 58 octets) -/
theorem C08b_evpn_routes (rs : List Route) (b : Bytes) (h : constructRoutesR rs = some b) :
    all evpnItem b = true := by
  unfold constructRoutesR at h
  split at h
  · rename_i hg
    exact (seq_constructRoutes rs hg b h).all
  · simp at h

theorem seq_attrHeader (cfg : Cfg) (code : Nat) (v w : Bytes) (hcode : code = 14 ∨ code = 15)
    (h : Evf.attrHeader code v = .bytes w) (hv : attrValueOk cfg code v = true) : Seq (attrItem cfg) w := by
  unfold Evf.attrHeader at h
  split at h
  · rename_i hlen
    simp only [Evf.CR.bytes.injEq] at h; subst h
    have := seq_attr_ext cfg 0x90 code v (by decide) (by omega) hlen (by decide)
      (by rcases hcode with rfl | rfl <;> decide) hv
    simpa [be8, u8] using this
  · simp at h

/-- MP_REACH_NLRI for (25, 70): one well-formed path attribute -/
theorem C08b_evpn_reach (cfg : Cfg) (nh : Option Evpn.Ip) (rs : List Route) (w : Bytes)
    (h : Evf.constructReachR { nexthop := nh, nlri := .evpn rs } = .bytes w) : Seq (attrItem cfg) w := by
  unfold Evf.constructReachR at h
  split at h
  · rename_i hg
    simp only [Evf.nlriGuard] at hg
    simp only [Evf.constructReach] at h
    cases nh with
    | none => simp at h
    | some a =>
      simp only at h
      cases hp : ipPacked a with
      | none => simp [hp] at h
      | some nb =>
        cases hr : constructRoutes rs with
        | none => simp [hp, hr] at h
        | some nl =>
          simp only [hp, hr] at h
          refine seq_attrHeader cfg 14 _ w (Or.inl rfl) h ?_
          have hnb : nb.length < 256 := by
            have := ipPacked_length a nb hp; split at this <;> omega
          have hok : nlriOk 25 70 nl = true := by
            simp [nlriOk, (seq_constructRoutes rs hg nl hr).all]
          have := mpReachOk_reachValue 25 70 nb nl (by decide) (by decide) hnb hok
          simpa [attrValueOk, Mp.reachValue, Evf.afiL2vpn, Evf.safiEvpn, be8] using this
  · simp at h

/-- MP_UNREACH_NLRI for (25, 70) -/
theorem C08b_evpn_unreach (cfg : Cfg) (rs : List Route) (w : Bytes)
    (h : Evf.constructUnreachR (.evpn rs) = .bytes w) : Seq (attrItem cfg) w := by
  unfold Evf.constructUnreachR at h
  split at h
  · rename_i hg
    simp only [Evf.nlriGuard] at hg
    simp only [Evf.constructUnreach] at h
    cases hr : constructRoutes rs with
    | none => simp [hr] at h
    | some nl =>
      cases nl with
      | nil => simp [hr] at h
      | cons x xs =>
        simp only [hr] at h
        refine seq_attrHeader cfg 15 _ w (Or.inr rfl) h ?_
        have hok : nlriOk 25 70 (x :: xs) = true := by
          simp [nlriOk, (seq_constructRoutes rs hg (x :: xs) hr).all]
        have := mpUnreachOk_unreachValue 25 70 (x :: xs) (by decide) (by decide) hok
        simpa [attrValueOk, Mp.unreachValue, Evf.afiL2vpn, Evf.safiEvpn, be8] using this
  · simp at h

/-! ### IPv4 flow specification (Model/Mp/Flowspec.lean, as repaired by fix_14) -/

/-- `IPv4FlowSpec.construct(value)`: a sequence of flow specifications, each with a 1-octet length below 240 and
    the 2-octet form 0xfnnn from there on, whose components are prefixes of ceil(len/8) octets and operator lists
    of `operator, value of 1 << len octets` items ending - and only ending - with the end-of-list bit -/
theorem C08b_flowspec_rules (rules : List Flowspec.Rule) (b : Bytes) (h : Flowspec.constructRulesR rules = some b) :
    all (flowItem false) b = true := by
  unfold Flowspec.constructRulesR at h
  split at h
  · rename_i hg
    exact (seq_constructRules rules hg b h).all
  · simp at h

/-- MP_REACH_NLRI for (1, 133) -/
theorem C08b_flowspec_reach (cfg : Cfg) (nh : Option Evpn.Ip) (rules : List Flowspec.Rule) (w : Bytes)
    (h : Evf.constructReachR { nexthop := nh, nlri := .flowspec rules } = .bytes w) : Seq (attrItem cfg) w := by
  unfold Evf.constructReachR at h
  split at h
  · rename_i hg
    simp only [Evf.nlriGuard] at hg
    simp only [Evf.constructReach] at h
    have key : ∀ nb : Bytes, nb.length < 256 → ∀ nl, Flowspec.constructRules rules = some nl →
        (if nl = [] then Evf.CR.none'
         else Evf.attrHeader 14 (be16 Evf.afiInet ++ [u8 Evf.safiFlowspec, u8 nb.length] ++ nb ++ [0] ++ nl)) = .bytes w →
        Seq (attrItem cfg) w := by
      intro nb hnb nl hr h'
      split at h'
      · simp at h'
      · refine seq_attrHeader cfg 14 _ w (Or.inl rfl) h' ?_
        have hok : nlriOk 1 133 nl = true := by
          simp [nlriOk, (seq_constructRules rules hg nl hr).all]
        have := mpReachOk_reachValue 1 133 nb nl (by decide) (by decide) hnb hok
        simpa [attrValueOk, Mp.reachValue, Evf.afiInet, Evf.safiFlowspec, be8] using this
    cases hr : Flowspec.constructRules rules with
    | none => cases nh <;> simp [hr] at h <;> (split at h <;> simp at h)
    | some nl =>
      cases nh with
      | none =>
        simp only [hr] at h
        exact key [] (by simp) nl hr (by simpa using h)
      | some a =>
        simp only [hr] at h
        cases hp : ipPacked a with
        | none => simp [hp] at h
        | some nb =>
          simp only [hp] at h
          have hnb : nb.length < 256 := by
            have := ipPacked_length a nb hp; split at this <;> omega
          exact key nb hnb nl hr (by simpa using h)
  · simp at h

/-- MP_UNREACH_NLRI for (1, 133) -/
theorem C08b_flowspec_unreach (cfg : Cfg) (rules : List Flowspec.Rule) (w : Bytes)
    (h : Evf.constructUnreachR (.flowspec rules) = .bytes w) : Seq (attrItem cfg) w := by
  unfold Evf.constructUnreachR at h
  split at h
  · rename_i hg
    simp only [Evf.nlriGuard] at hg
    simp only [Evf.constructUnreach] at h
    split at h
    · simp at h
    · cases hr : Flowspec.constructRules rules with
      | none => simp [hr] at h
      | some nl =>
        simp only [hr] at h
        refine seq_attrHeader cfg 15 _ w (Or.inr rfl) h ?_
        have hok : nlriOk 1 133 nl = true := by
          simp [nlriOk, (seq_constructRules rules hg nl hr).all]
        have := mpUnreachOk_unreachValue 1 133 nl (by decide) (by decide) hok
        simpa [attrValueOk, Mp.unreachValue, Evf.afiInet, Evf.safiFlowspec, be8] using this
  · simp at h

/-- non-vacuity: one route of every type in one MP_REACH_NLRI -/
theorem exists_of_bytes {P : Bytes → Prop} {o : Evf.CR} (hs : (match o with | .bytes _ => true | _ => false) = true)
    (h : ∀ w, o = .bytes w → P w) : ∃ w, o = .bytes w ∧ P w := by
  cases o with
  | bytes w => exact ⟨w, rfl, h w rfl⟩
  | none' => simp at hs
  | raises => simp at hs

set_option maxRecDepth 16000 in
example : ∃ w, Evf.constructReachR
    { nexthop := some { v6 := false, val := 167772161 },
      nlri := .evpn [.t1 (.ip 2886729729 5904) (.t4 16843009 2) 100 [10],
                     .t2 (.asn 64512 7) (.t1 73588229205 5) 108 73588229205 (some { v6 := false, val := 3232235521 }) [0, 16],
                     .t3 (.asn 65536 2) 100 (some { v6 := true, val := 1 }),
                     .t4 (.asn 1 1) (.t3 73588229205 7) none,
                     .t5c (.asn 65536 2) 0 1 { v6 := false, val := 16843008 } 24 { v6 := false, val := 16843009 } [10]] } = .bytes w ∧
    all (attrItem {}) w = true :=
  exists_of_bytes (by decide) (fun w h => (C08b_evpn_reach {} _ _ w h).all)

/-- non-vacuity for flow specifications (the constructor's output for this rule is known from C07b's
    `constructRules_ok`): '&' and '|' items, 1-, 2- and 8-octet values, a prefix of length 0 -/
example : ∃ b, Flowspec.constructRulesR ([[(1, .pfx 0 0), (2, .pfx 167772160 8),
      (5, .expr [[(Op.ge, 80), (Op.le, 90)], [(Op.eq, 65536)]]),
      (10, .expr [[(Op.lt, 300)], [(Op.gt, 4294967295)]])]].map SRule.toRule) = some b ∧ all (flowItem false) b = true := by
  have hc := constructRules_ok [[(1, .pfx 0 0), (2, .pfx 167772160 8),
      (5, .expr [[(Op.ge, 80), (Op.le, 90)], [(Op.eq, 65536)]]),
      (10, .expr [[(Op.lt, 300)], [(Op.gt, 4294967295)]])]] (by decide)
  have hg : ([[(1, SComp.pfx 0 0), (2, .pfx 167772160 8),
      (5, .expr [[(Op.ge, 80), (Op.le, 90)], [(Op.eq, 65536)]]),
      (10, .expr [[(Op.lt, 300)], [(Op.gt, 4294967295)]])]].map SRule.toRule).all Flowspec.ruleGuard = true := by decide
  refine ⟨_, ?_, C08b_flowspec_rules _ _ (by unfold Flowspec.constructRulesR; rw [if_pos hg]; exact hc)⟩
  unfold Flowspec.constructRulesR; rw [if_pos hg]; exact hc

end Yabgp

#print axioms Yabgp.C08b_evpn_routes
#print axioms Yabgp.C08b_evpn_reach
#print axioms Yabgp.C08b_evpn_unreach
#print axioms Yabgp.C08b_flowspec_rules
#print axioms Yabgp.C08b_flowspec_reach
#print axioms Yabgp.C08b_flowspec_unreach
