/-
  C02 — the liveness half, for EVERY reachable state (Props/C02.lean has the safety half and liveness from the resting
  situation only).

  From every state reachable after the agent's start by any sequence of events the environment can produce - refused or
  timed-out connections, resets, protocol errors, malformed or unacceptable messages, timer expiries, operator stops and
  starts - in which the operator has not stopped the peer, there is a COOPERATIVE continuation (the peer drops a
  connection, accepts TCP, sends its valid OPEN and a KEEPALIVE; the clock ticks; due timers fire - nothing else) that
  reaches Established, within one idle-hold period of virtual time, with the hold time negotiated from the
  configuration and the peer's OPEN alone; and the session then stays up under keepalive traffic.

  The only assumption besides the peer's good behaviour is on the CONFIGURATION: the OPEN advertising the configured
  capabilities can be built (`constructOpen … cfg.caps0 = some _`).

  Proof: the reachable-state package `Reach` (Lemmas/LiveReach.lean), then a case analysis on the FSM state:
    Idle, idle-hold armed      wait (Lemmas/LiveWait.lean), then the timer fires, connect, OPEN, KEEPALIVE (Props/C02.lean);
    Idle, idle-hold not armed  a connection we closed is still owed its connectionLost (Heal); its arrival arms the timer;
    Connect                    some connection is live (CL): a pending attempt is accepted by the peer (no time passes),
                               an open one is dropped by the peer, which leads to Idle;
    OpenSent/OpenConfirm/Established  the peer drops the tracked connection (it restarts), which leads to Idle.
-/
import Yabgp.Lemmas.LiveReach
import Yabgp.Lemmas.LiveWait

namespace Yabgp
open Sess

variable (U : Bool → Bytes → UpdClass)

/-- what a well-behaved peer, the clock and due timers do: the peer drops a connection (it restarts), accepts a TCP
    connection, sends its valid OPEN (`body`) or a KEEPALIVE; time passes; a due timer fires.  No refused connection, no
    operator command, no other data. -/
def Cooperative (body : Bytes) : Ev → Prop
  | .lost _ => True
  | .connOk _ => True
  | .chunk _ d => d = wireOf 1 body ∨ d = wireOf 4 []
  | .advance _ => True
  | .fire _ => True
  | _ => False

theorem Cooperative.of_wait {body : Bytes} {e : Ev} (h : WaitEv e) : Cooperative body e := by
  cases e <;> first | trivial | exact h.elim

/-- from `w` a cooperative continuation reaches Established no later than `bound`, with hold time `hold`, on an up,
    tracked connection whose receive buffer is empty -/
def Reaches (body : Bytes) (w : World) (bound hold : Nat) : Prop :=
  ∃ (coop : List Ev) (k : Nat), (∀ e ∈ coop, Cooperative body e) ∧ EnabledRun U w coop ∧
    (run U w coop).sess.st = .established ∧ (run U w coop).sess.now ≤ bound ∧
    (run U w coop).sess.holdTime = hold ∧ Norm (run U w coop).sess k ∧ (run U w coop).rbuf k = []

theorem Reaches.prepend {body : Bytes} {w : World} {bound hold : Nat} (evs : List Ev)
    (hc : ∀ e ∈ evs, Cooperative body e) (hen : EnabledRun U w evs) (h : Reaches U body (run U w evs) bound hold) :
    Reaches U body w bound hold := by
  obtain ⟨coop, k, h1, h2, h3, h4, h5, h6, h7⟩ := h
  refine ⟨evs ++ coop, k, ?_, enabledRun_append U w evs coop hen h2, ?_, ?_, ?_, ?_, ?_⟩
  · intro e he
    rcases List.mem_append.mp he with h | h
    · exact hc e h
    · exact h1 e h
  all_goals rw [run_append]
  · exact h3
  · exact h4
  · exact h5
  · exact h6
  · exact h7

theorem Reaches.mono {body : Bytes} {w : World} {b b' hold : Nat} (h : Reaches U body w b hold) (hb : b ≤ b') :
    Reaches U body w b' hold := by
  obtain ⟨coop, k, h1, h2, h3, h4, h5, h6, h7⟩ := h
  exact ⟨coop, k, h1, h2, h3, Nat.le_trans h4 hb, h5, h6, h7⟩

/-! ### the four moves -/

/-- OpenSent on an up, tracked connection with an empty receive buffer: the peer's OPEN and KEEPALIVE establish the session
    (Props/C02 `heal_from_openSent`, here also: the connection is still the tracked one and its buffer is empty again) -/
theorem reaches_from_openSent (body : Bytes) (m : OpenMsg) (w : World) (k : Nat)
    (hn : Norm w.sess k) (hst : w.sess.st = .openSent) (hrb : w.rbuf k = [])
    (hparse : parseOpen body = .ok m) (has : m.asn = w.sess.cfg.remoteAs) (hh : ¬ (m.holdTime ≠ 0 ∧ m.holdTime < 3))
    (hlen : body.length + 19 ≤ 4096) :
    Reaches U body w w.sess.now (min w.sess.cfg.holdCfg m.holdTime) := by
  have hmain := heal_from_openSent U w.sess w.rbuf k body m hn hst hrb hparse has hh hlen
  -- the same two steps once more, for the connection table and the buffer
  have hn0 : Norm (w.sess.withOuts []) k := hn.withOuts []
  have a3 := C01_open_accepted U hn0 hst body m hparse has hh
  have d3 := dataReceived_one U (w.sess.withOuts []) k 1 body (by omega) hlen hn0.nd a3.1
  have e3 : step U ⟨w.sess, w.rbuf⟩ (.chunk k (wireOf 1 body)) =
      ⟨(dispatch U (w.sess.withOuts []) k 1 body).1, setRbuf w.rbuf k []⟩ := by
    simp only [step, hrb, d3]
  generalize hs3 : (dispatch U (w.sess.withOuts []) k 1 body).1 = s3 at a3 e3
  have hn3 : Norm s3 k := by
    rw [← hs3]; exact norm_dispatch_insess U hn0 k 1 body (by rw [hs3, a3.2.1]; exact Or.inr (Or.inl rfl))
  have hn30 : Norm (s3.withOuts []) k := hn3.withOuts []
  have a4 := (C01_keepalive_msg U hn30).1 a3.2.1
  have hcont4 : (dispatch U (s3.withOuts []) k 4 []).2 = true := by
    simp [dispatch, C.msgOpen, C.msgUpdate, C.msgNotification, C.msgKeepalive]
  have d4 := dataReceived_one U (s3.withOuts []) k 4 [] (by omega) (by simp) hn30.nd hcont4
  have hrb3 : setRbuf w.rbuf k [] k = [] := by simp [setRbuf]
  have e4 : step U ⟨s3, setRbuf w.rbuf k []⟩ (.chunk k (wireOf 4 [])) =
      ⟨(dispatch U (s3.withOuts []) k 4 []).1, setRbuf (setRbuf w.rbuf k []) k []⟩ := by
    simp only [step, hrb3, d4]
  have hn4 : Norm (dispatch U (s3.withOuts []) k 4 []).1 k :=
    norm_dispatch_insess U hn30 k 4 [] (by rw [a4.1]; exact Or.inr (Or.inr rfl))
  refine ⟨[.chunk k (wireOf 1 body), .chunk k (wireOf 4 [])], k, ?_, hmain.1, hmain.2.1, Nat.le_of_eq hmain.2.2.1,
    hmain.2.2.2.1, ?_, ?_⟩
  · intro e he
    simp only [List.mem_cons, List.not_mem_nil, or_false] at he
    rcases he with rfl | rfl
    · exact Or.inl rfl
    · exact Or.inr rfl
  · show Norm (run U ⟨w.sess, w.rbuf⟩ [.chunk k (wireOf 1 body), .chunk k (wireOf 4 [])]).sess k
    simp only [run, e3, e4]; exact hn4
  · show (run U ⟨w.sess, w.rbuf⟩ [.chunk k (wireOf 1 body), .chunk k (wireOf 4 [])]).rbuf k = []
    simp only [run, e3, e4]; simp [setRbuf]

/-- a pending connection attempt is accepted: OpenSent on it, whatever the FSM state was (BGPPeering.buildProtocol /
    connectionMade do not look at it) -/
theorem connOk_to_openSent (s : Sess) (rb : Nat → Bytes) (j : Nat) (wr : Bytes)
    (hlt : j < s.conns.length) (hph : (s.conn j).phase = .connecting) (hnd : (s.conn j).disconnected = false)
    (hw : constructOpen 4 s.cfg.localAs s.cfg.holdCfg (s.bgpId.getD s.cfg.localId) (negotiateCaps s.localCaps s.remote) = some wr) :
    EnabledRun U ⟨s, rb⟩ [.connOk j] ∧ (run U ⟨s, rb⟩ [.connOk j]).rbuf = rb ∧
    (run U ⟨s, rb⟩ [.connOk j]).sess.st = .openSent ∧ Norm (run U ⟨s, rb⟩ [.connOk j]).sess j ∧
    (run U ⟨s, rb⟩ [.connOk j]).sess.now = s.now ∧ (run U ⟨s, rb⟩ [.connOk j]).sess.cfg = s.cfg := by
  have e2 : step U ⟨s, rb⟩ (.connOk j) = ⟨(s.withOuts []).connOk j, rb⟩ := rfl
  have hw2 : (((((((s.withOuts []).setPhase j .connected).withProto (some j)).setSt .connect).withEstab
      (some j)).withBgpId (some ((s.withOuts []).bgpId.getD (s.withOuts []).cfg.localId))).openWire) = some wr := by
    have hst' : ∀ t : Sess, t.setSt .connect = t.withSt .connect := by
      intro t; unfold Sess.setSt; rw [if_neg (by simp)]
    rw [hst']
    show constructOpen 4 s.cfg.localAs s.cfg.holdCfg ((some (s.bgpId.getD s.cfg.localId)).getD 0)
      (negotiateCaps s.localCaps s.remote) = some wr
    exact hw
  have t2 := C01_tcp_connected (s.withOuts []) j wr hlt hw2
  have hcore2 := core_connOk (s.withOuts []) j
  have hup2 := Core.connOk_up (c := core (s.withOuts [])) j (by simp [core]; exact hlt)
    (by rw [core_conn]; show pd (s.conn j) = _; simp [pd, hph, hnd])
  have hnc := now_cfg_connOk (s.withOuts []) j
  generalize (s.withOuts []).connOk j = s2 at t2 e2 hcore2 hnc
  have hn2 : Norm s2 j := by
    apply norm_of_core t2.2.2.1
    rw [hcore2]; exact (hup2 _).2
  refine ⟨⟨?_, trivial⟩, ?_, ?_, ?_, ?_, ?_⟩
  · simp only [enabled, decide_eq_true_eq]
    exact ⟨hlt, hph⟩
  · simp only [run, e2]
  · simp only [run, e2]; exact t2.1
  · simp only [run, e2]; exact hn2
  · simp only [run, e2]; exact hnc.1
  · simp only [run, e2]; exact hnc.2

theorem now_connectionClosed (s : Sess) (p : Option Nat) : (s.connectionClosed p).now = s.now := by
  have hd : (s.dropEstab p).now = s.now := by
    unfold dropEstab
    split
    · split
      · rw [now_setSt]; rfl
      · rfl
    · rfl
  unfold connectionClosed
  split
  · unfold autoStart
    split
    · simp only [↓reduceIte]; exact hd
    · exact hd
  · exact hd

theorem now_connectionFailed (s : Sess) : s.connectionFailed.now = s.now := by
  unfold connectionFailed
  split
  · rw [now_connectionClosed]; simp
  · simp
  · rw [now_connectionClosed]; simp
  · simp
  · simp
  · rfl

theorem now_connLost (s : Sess) (i : Nat) : (s.connLost i).now = s.now := by
  unfold connLost
  split
  · rw [now_connectionClosed]; rfl
  · rw [now_connectionFailed]; rfl

/-- the loss of a connection: no time passes, the automatic-start flag is untouched -/
theorem lost_now_allow (w : World) (i : Nat) :
    (step U w (.lost i)).sess.now = w.sess.now ∧ (step U w (.lost i)).sess.allowAuto = w.sess.allowAuto := by
  refine ⟨now_connLost _ i, ?_⟩
  have h := Core.connLost_allow (core (w.sess.withOuts [])) i
  rw [← core_connLost] at h
  exact h

end Yabgp

namespace Yabgp
open Sess

variable (U : Bool → Bytes → UpdClass)

/-! ### the case analysis -/

section
variable {cfg : Cfg} (body : Bytes) (m : OpenMsg)
  (hcfg : ∃ w0, constructOpen 4 cfg.localAs cfg.holdCfg cfg.localId cfg.caps0 = some w0)
  (hparse : parseOpen body = .ok m) (has : m.asn = cfg.remoteAs) (hh : ¬ (m.holdTime ≠ 0 ∧ m.holdTime < 3))
  (hlen : body.length + 19 ≤ 4096)
include hcfg hparse has hh hlen

/-- Connect (or any state) with an attempt in flight: the peer accepts it, sends OPEN and KEEPALIVE; no time passes -/
theorem reaches_from_connecting (w : World) (hR : Reach cfg w) (j : Nat) (hj : j < w.sess.conns.length)
    (hph : (w.sess.conn j).phase = .connecting) :
    Reaches U body w w.sess.now (min cfg.holdCfg m.holdTime) := by
  obtain ⟨wr, hw⟩ := reach_openWire hR hcfg
  have hnd : (w.sess.conn j).disconnected = false := by
    have := hR.heal.fresh j (by rw [core_conn]; exact hph)
    rw [core_conn] at this; exact this
  have hrb : w.rbuf j = [] := by
    apply Classical.byContradiction
    intro hne
    exact (hR.rb j hne).2 hph
  obtain ⟨h1, h2, h3, h4, h5, h6⟩ := connOk_to_openSent U w.sess w.rbuf j wr hj hph hnd hw
  have hw' : (⟨w.sess, w.rbuf⟩ : World) = w := rfl
  rw [hw'] at h1 h2 h3 h4 h5 h6
  have hr := reaches_from_openSent U body m (run U w [.connOk j]) j h4 h3 (by rw [h2]; exact hrb) hparse
    (by rw [h6, hR.hcfg]; exact has) hh hlen
  rw [h5, h6, hR.hcfg] at hr
  exact Reaches.prepend U [.connOk j] (by intro e he; simp at he; subst he; trivial) h1 hr

/-- Idle, idle-hold timer due: the timer fires, the peer accepts the new attempt, sends OPEN and KEEPALIVE; no time passes -/
theorem reaches_from_idle_due (w1 : World) (hR1 : Reach cfg w1) (D : Nat) (hI1 : IdleArmed w1 D) (hdue : D ≤ w1.sess.now) :
    Reaches U body w1 w1.sess.now (min cfg.holdCfg m.holdTime) := by
  obtain ⟨wr, hw⟩ := reach_openWire hR1 hcfg
  have hto := heal_to_openSent U w1.sess w1.rbuf wr hI1.st hI1.allow ⟨D, hI1.ih, hdue⟩ hw
  have hw' : (⟨w1.sess, w1.rbuf⟩ : World) = w1 := rfl
  rw [hw'] at hto
  obtain ⟨en2, hrb2, hst2, hn2, hnow2, hcfg2, _⟩ := hto
  have hfresh : w1.rbuf w1.sess.conns.length = [] := by
    apply Classical.byContradiction
    intro hne
    exact Nat.lt_irrefl _ (hR1.rb _ hne).1
  have hr := reaches_from_openSent U body m (run U w1 [.fire .idleHold, .connOk w1.sess.conns.length]) w1.sess.conns.length
    hn2 hst2 (by rw [hrb2]; exact hfresh) hparse (by rw [hcfg2, hR1.hcfg]; exact has) hh hlen
  rw [hnow2, hcfg2, hR1.hcfg] at hr
  exact Reaches.prepend U _ (by intro e he; simp at he; rcases he with rfl | rfl <;> trivial) en2 hr

/-- Idle, idle-hold timer armed for `D`: wait until it is due (firing left-over timers on the way), then as above -/
theorem reaches_from_idle_armed (w : World) (hR : Reach cfg w) (D : Nat) (hI : IdleArmed w D) :
    Reaches U body w (max w.sess.now D) (min cfg.holdCfg m.holdTime) := by
  obtain ⟨evs, c1, en1, hI1, hdue, hnow⟩ := wait_for_idle_hold U w D hI
  have hR1 : Reach cfg (run U w evs) := reach_run U evs w hR en1
  have hr := reaches_from_idle_due U body m hcfg hparse has hh hlen (run U w evs) hR1 D hI1 hdue
  exact Reaches.prepend U evs (fun e he => Cooperative.of_wait (c1 e he)) en1 (hr.mono U hnow)

/-- Idle: the idle-hold timer is armed (wait for it), or a connection we closed still owes its connectionLost, whose
    arrival arms the timer -/
theorem reaches_from_idle (w : World) (hR : Reach cfg w) (ha : w.sess.allowAuto = true) (hst : w.sess.st = .idle) :
    Reaches U body w (w.sess.now + 3 * cfg.idleHoldT) (min cfg.holdCfg m.holdTime) := by
  have armed : ∀ (w1 : World), Reach cfg w1 → w1.sess.allowAuto = true → w1.sess.st = .idle →
      ∀ D, w1.sess.tm.idleHold = some D →
      Reaches U body w1 (w1.sess.now + 3 * cfg.idleHoldT) (min cfg.holdCfg m.holdTime) := by
    intro w1 hR1 ha1 hst1 D hD
    have hb := hR1.tb D hD
    rw [hR1.hcfg] at hb
    exact (reaches_from_idle_armed U body m hcfg hparse has hh hlen w1 hR1 D ⟨hst1, ha1, hD⟩).mono U (by omega)
  cases hih : w.sess.tm.idleHold with
  | some D => exact armed w hR ha hst D hih
  | none =>
    rcases hR.heal.idle ha hst with h | h
    · have : w.sess.tm.idleHold.isSome = true := h
      rw [hih] at this; cases this
    · obtain ⟨c, hc, hph, hd⟩ := closeOwed_of_core h
      have hen : enabled w.sess (.lost c) = true := by simp [enabled, hc, hph]
      have hR1 := reach_step U w (.lost c) hen hR
      have hna := lost_now_allow U w c
      have harm := C02_owed_close_arms_idle_hold (w.sess.withOuts []) c hst ha hd
      have hst1 : (step U w (.lost c)).sess.st = .idle := harm.1
      have hih1 : (step U w (.lost c)).sess.tm.idleHold.isSome = true := harm.2
      obtain ⟨D1, hD1⟩ := Option.isSome_iff_exists.mp hih1
      have hr := armed (step U w (.lost c)) hR1 (hna.2.trans ha) hst1 D1 hD1
      rw [hna.1] at hr
      exact Reaches.prepend U [.lost c] (by intro e he; simp at he; subst he; trivial) ⟨hen, trivial⟩ hr

/-- the tracked connection is open (Connect after a failed send_open, OpenSent, OpenConfirm, Established): the peer
    drops it - connection_failed / connection_closed lead to Idle with the idle-hold timer armed -/
theorem reaches_from_tracked (w : World) (hR : Reach cfg w) (ha : w.sess.allowAuto = true) (i : Nat)
    (hp : w.sess.proto = some i) (he : w.sess.estab = some i) (hi : i < w.sess.conns.length)
    (hph : (w.sess.conn i).phase = .connected) (hst : w.sess.st ≠ .idle) :
    Reaches U body w (w.sess.now + 3 * cfg.idleHoldT) (min cfg.holdCfg m.holdTime) := by
  have hen : enabled w.sess (.lost i) = true := by simp [enabled, hi, hph]
  have hR1 := reach_step U w (.lost i) hen hR
  have hna := lost_now_allow U w i
  have hst1 : (step U w (.lost i)).sess.st = .idle := by
    have h := Core.connLost_idle (core (w.sess.withOuts [])) i hp he hst hR.heal.noActive
    rw [← core_connLost] at h
    exact h
  have hr := reaches_from_idle U body m hcfg hparse has hh hlen (step U w (.lost i)) hR1 (hna.2.trans ha) hst1
  rw [hna.1] at hr
  exact Reaches.prepend U [.lost i] (by intro e he; simp at he; subst he; trivial) ⟨hen, trivial⟩ hr

/-- **from every state satisfying the reachable-state package, automatic start allowed** -/
theorem reestablish (w : World) (hR : Reach cfg w) (ha : w.sess.allowAuto = true) :
    Reaches U body w (w.sess.now + 3 * cfg.idleHoldT) (min cfg.holdCfg m.holdTime) := by
  have hlen' : (core w.sess).conns.length = w.sess.conns.length := by simp [core]
  have tracked : ∀ i, i < w.sess.conns.length → (w.sess.conn i).phase = .connected → w.sess.st ≠ .idle →
      Reaches U body w (w.sess.now + 3 * cfg.idleHoldT) (min cfg.holdCfg m.holdTime) := by
    intro i hi hph hst
    have ht := hR.one.tracked i (by rw [hlen']; exact hi) (by rw [core_conn]; exact hph)
    exact reaches_from_tracked U body m hcfg hparse has hh hlen w hR ha i ht.1 ht.2.1 hi hph hst
  have insess : Core.InSess (core w.sess).st → w.sess.st ≠ .idle →
      Reaches U body w (w.sess.now + 3 * cfg.idleHoldT) (min cfg.holdCfg m.holdTime) := by
    intro hs hne
    obtain ⟨i, _, _, hup⟩ := hR.heal.sess hs
    have hu := connUp_of_core hup
    exact tracked i hu.1 hu.2.1 hne
  cases hst : w.sess.st with
  | idle => exact reaches_from_idle U body m hcfg hparse has hh hlen w hR ha hst
  | connect =>
    obtain ⟨j, hj, hl⟩ := hR.cl hst
    rw [hlen'] at hj
    rcases hl with hl | hl
    · rw [core_conn] at hl
      exact (reaches_from_connecting U body m hcfg hparse has hh hlen w hR j hj hl).mono U (by omega)
    · rw [core_conn] at hl
      exact tracked j hj hl (by rw [hst]; simp)
  | active => exact absurd hst hR.heal.noActive
  | openSent => exact insess (Or.inl hst) (by rw [hst]; simp)
  | openConfirm => exact insess (Or.inr (Or.inl hst)) (by rw [hst]; simp)
  | established => exact insess (Or.inr (Or.inr hst)) (by rw [hst]; simp)

end

end Yabgp


namespace Yabgp
open Sess

variable (U : Bool → Bytes → UpdClass)

/-- **C02, liveness: re-establishment from every reachable state.**  After the agent's start (its deferred automatic start,
    or an operator start before it) and ANY sequence `evs` of events the environment can produce - refused or timed-out
    connections, resets, protocol errors, malformed or unacceptable messages, timer expiries in any order, operator stops
    and starts - if the operator has not stopped the peer (`allowAuto`), then there is a continuation `coop` consisting only
    of what a well-behaved peer, the clock and due timers do (`Cooperative`) after which the session is Established, at most
    one idle-hold period (3 ticks per second) of virtual time later, with the hold time min(configured, proposed) - nothing
    of the earlier history enters.  The side condition `hcfg` is about the configuration alone: the OPEN advertising the
    configured capabilities is encodable. -/
theorem C02_reestablishes (cfg : Cfg) (e0 : Ev) (he0 : e0 = .boot ∨ e0 = .manualStart) (evs : List Ev)
    (hen : EnabledRun U (step U (bootWorld cfg) e0) evs)
    (hallow : (run U (bootWorld cfg) (e0 :: evs)).sess.allowAuto = true)
    (hcfg : ∃ w0, constructOpen 4 cfg.localAs cfg.holdCfg cfg.localId cfg.caps0 = some w0)
    (body : Bytes) (m : OpenMsg) (hparse : parseOpen body = .ok m) (has : m.asn = cfg.remoteAs)
    (hh : ¬ (m.holdTime ≠ 0 ∧ m.holdTime < 3)) (hlen : body.length + 19 ≤ 4096) :
    ∃ coop : List Ev,
      (∀ e ∈ coop, Cooperative body e) ∧
      EnabledRun U (run U (bootWorld cfg) (e0 :: evs)) coop ∧
      (run U (run U (bootWorld cfg) (e0 :: evs)) coop).sess.st = .established ∧
      (run U (run U (bootWorld cfg) (e0 :: evs)) coop).sess.now ≤
        (run U (bootWorld cfg) (e0 :: evs)).sess.now + 3 * cfg.idleHoldT ∧
      (run U (run U (bootWorld cfg) (e0 :: evs)) coop).sess.holdTime = min cfg.holdCfg m.holdTime := by
  have hR := reach_of_run U cfg e0 he0 evs hen
  obtain ⟨coop, k, h1, h2, h3, h4, h5, _, _⟩ :=
    reestablish U body m hcfg hparse has hh hlen (run U (bootWorld cfg) (e0 :: evs)) hR hallow
  exact ⟨coop, h1, h2, h3, h4, h5⟩

/-- **…and then stays up.**  The continuation of `C02_reestablishes` ends Established on an up, tracked connection `k` with
    an empty receive buffer, so that (`C02_stays_established`) every further run of keepalive traffic on `k` - our keepalive
    timer, the peer's KEEPALIVEs, the clock - leaves the session Established. -/
theorem C02_reestablishes_and_stays_up (cfg : Cfg) (e0 : Ev) (he0 : e0 = .boot ∨ e0 = .manualStart) (evs : List Ev)
    (hen : EnabledRun U (step U (bootWorld cfg) e0) evs)
    (hallow : (run U (bootWorld cfg) (e0 :: evs)).sess.allowAuto = true)
    (hcfg : ∃ w0, constructOpen 4 cfg.localAs cfg.holdCfg cfg.localId cfg.caps0 = some w0)
    (body : Bytes) (m : OpenMsg) (hparse : parseOpen body = .ok m) (has : m.asn = cfg.remoteAs)
    (hh : ¬ (m.holdTime ≠ 0 ∧ m.holdTime < 3)) (hlen : body.length + 19 ≤ 4096) :
    ∃ (coop : List Ev) (k : Nat),
      (∀ e ∈ coop, Cooperative body e) ∧
      EnabledRun U (run U (bootWorld cfg) (e0 :: evs)) coop ∧
      (run U (run U (bootWorld cfg) (e0 :: evs)) coop).sess.st = .established ∧
      (run U (run U (bootWorld cfg) (e0 :: evs)) coop).sess.now ≤
        (run U (bootWorld cfg) (e0 :: evs)).sess.now + 3 * cfg.idleHoldT ∧
      (run U (run U (bootWorld cfg) (e0 :: evs)) coop).sess.holdTime = min cfg.holdCfg m.holdTime ∧
      ∀ later : List Ev, (∀ e ∈ later, KeepaliveTraffic k e) →
        EnabledRun U (run U (run U (bootWorld cfg) (e0 :: evs)) coop) later →
        (run U (run U (run U (bootWorld cfg) (e0 :: evs)) coop) later).sess.st = .established := by
  have hR := reach_of_run U cfg e0 he0 evs hen
  obtain ⟨coop, k, h1, h2, h3, h4, h5, h6, h7⟩ :=
    reestablish U body m hcfg hparse has hh hlen (run U (bootWorld cfg) (e0 :: evs)) hR hallow
  refine ⟨coop, k, h1, h2, h3, h4, h5, ?_⟩
  intro later hk hl
  exact (C02_stays_established U k later _ h3 h6 h7 hk hl).1

/-! ### non-vacuity -/

/-- the peer's OPEN of the example: version 4, AS 65002, hold time 90, identifier 10.0.0.2, no optional parameters -/
def exBody : Bytes := [4, 0xfd, 0xea, 0, 90, 10, 0, 0, 2, 0]

/-- a history that ends in Idle: the session is established, then the peer sends 19 octets that are not a BGP header -/
def exHistory : List Ev :=
  [.connOk 0, .chunk 0 (wireOf 1 exBody), .chunk 0 (wireOf 4 []), .chunk 0 (List.replicate 19 0)]

/-- the hypotheses of `C02_reestablishes` hold for the example configuration and this history … -/
example : ∃ coop : List Ev,
    (∀ e ∈ coop, Cooperative exBody e) ∧
    EnabledRun exU (run exU (bootWorld exCfg) (.boot :: exHistory)) coop ∧
    (run exU (run exU (bootWorld exCfg) (.boot :: exHistory)) coop).sess.st = .established ∧
    (run exU (run exU (bootWorld exCfg) (.boot :: exHistory)) coop).sess.now ≤
      (run exU (bootWorld exCfg) (.boot :: exHistory)).sess.now + 3 * exCfg.idleHoldT ∧
    (run exU (run exU (bootWorld exCfg) (.boot :: exHistory)) coop).sess.holdTime = min exCfg.holdCfg 90 :=
  C02_reestablishes exU exCfg .boot (Or.inl rfl) exHistory
    ⟨by decide, by decide, by decide, by decide, trivial⟩ (by decide) ⟨_, rfl⟩ exBody
    { version := 4, asn := 65002, holdTime := 90, bgpId := 167772162, caps := {} } (by simp [parseOpen, exBody]) rfl (by decide) (by decide)

/-- … and its conclusion, evaluated: the history leaves the agent Idle with the idle-hold timer armed 90 ticks ahead; the
    cooperative continuation "90 ticks pass, the timer fires, the peer accepts the new connection, sends OPEN and
    KEEPALIVE" is possible event by event and ends Established exactly one idle-hold period later with hold time
    min(180, 90) -/
example :
    let w := run exU (bootWorld exCfg) (.boot :: exHistory)
    let coop : List Ev := [.advance 90, .fire .idleHold, .connOk 1, .chunk 1 (wireOf 1 exBody), .chunk 1 (wireOf 4 [])]
    w.sess.st = .idle ∧ w.sess.allowAuto = true ∧ w.sess.tm.idleHold = some 90 ∧ w.sess.now = 0 ∧
    EnabledRun exU w coop ∧
    (run exU w coop).sess.st = .established ∧ (run exU w coop).sess.now = 90 ∧ (run exU w coop).sess.holdTime = 90 := by
  intro w coop
  refine ⟨by decide, by decide, by decide, by decide, ?_, by decide, by decide, by decide⟩
  exact ⟨by decide, by decide, by decide, by decide, by decide, trivial⟩

/-- a left-over timer in Idle is real: when the connection is lost in OpenSent, FSM.connection_failed re-arms the
    connect-retry timer (and, since fix 582f4ce, cancels the large hold timer), and BGPPeering.connection_closed then sends
    the state machine to Idle - Idle with the connect-retry and the idle-hold timer armed.  The waiting schedule of
    `wait_for_idle_hold` (the clock advances to the first deadline, the left-over connect-retry timer fires and clears
    itself, the idle-hold timer fires) and the peer's good behaviour then re-establish the session. -/
example :
    let w := run exU (bootWorld exCfg) [.boot, .connOk 0, .lost 0]
    let coop : List Ev :=
      [.advance 90, .fire .retry, .fire .idleHold, .connOk 1, .chunk 1 (wireOf 1 exBody), .chunk 1 (wireOf 4 [])]
    w.sess.st = .idle ∧ w.sess.allowAuto = true ∧
    w.sess.tm = { retry := some 90, hold := none, keepalive := none, idleHold := some 90 } ∧
    EnabledRun exU w coop ∧
    (run exU w coop).sess.st = .established ∧ (run exU w coop).sess.now = 90 ∧ (run exU w coop).sess.holdTime = 90 ∧
    (run exU w coop).sess.tm.hold = some (90 + 3 * 90) := by
  intro w coop
  refine ⟨by decide, by decide, by decide, ?_, by decide, by decide, by decide, by decide⟩
  exact ⟨by decide, by decide, by decide, by decide, by decide, by decide, trivial⟩

end Yabgp

#print axioms Yabgp.C02_reestablishes
#print axioms Yabgp.C02_reestablishes_and_stays_up
#print axioms Yabgp.reestablish
#print axioms Yabgp.constructOpen_le
