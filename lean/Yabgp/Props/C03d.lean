/-
  C03, the wait for the peer's OPEN: "while waiting for the peer's OPEN the limit is the fixed 4-minute large hold time".
  In the model that wait is the state OpenSent (ticks of 1/3 s, so 240 s = 3 * C.largeHoldTime = 720 ticks).
    * OpenSent is entered only by a TCP connection coming up, and at that moment the hold deadline is set exactly
      4 minutes ahead (`C03_opensent_entry`);
    * while the state stays OpenSent no event moves that deadline (`C03_opensent_deadline_fixed`);
    * in every reachable OpenSent state the hold timer is the only timer running (`C03_opensent_timers`), hence the only
      timer expiry that can be delivered there is the hold timer's (`C03_opensent_only_hold_ends_the_wait`).
  The proof is one more pass over the actions of Model/Session.lean with the relation `Stay`: if the state is OpenSent
  after an action it was OpenSent before, the hold and the ConnectRetry deadlines are the old ones and the idle-hold
  timer was at most stopped.  Every action except `connOk` satisfies it.
-/
import Yabgp.Props.C01c
import Yabgp.Props.C03
import Yabgp.Props.C03c

namespace Yabgp
open Sess

variable (U : Bool → Bytes → UpdClass)

/-- OpenSent afterwards ⇒ OpenSent before, the hold and ConnectRetry timers untouched, the idle-hold timer not started -/
def Stay (s s' : Sess) : Prop :=
  s'.st = .openSent → s.st = .openSent ∧ s'.tm.hold = s.tm.hold ∧ s'.tm.retry = s.tm.retry ∧
    (s.tm.idleHold = none → s'.tm.idleHold = none)

theorem Stay.of_ne {s s' : Sess} (h : s'.st ≠ .openSent) : Stay s s' := fun hs => absurd hs h

theorem Stay.of_idle {s s' : Sess} (h : s'.st = .idle) : Stay s s' := Stay.of_ne (by rw [h]; simp)

theorem Stay.same {s s' : Sess} (h1 : s'.st = s.st) (h2 : s'.tm = s.tm) : Stay s s' :=
  fun hs => ⟨by rw [← h1]; exact hs, by rw [h2], by rw [h2], fun h => by rw [h2]; exact h⟩

theorem Stay.refl (s : Sess) : Stay s s := Stay.same rfl rfl

theorem Stay.of_tms {s s' : Sess} (h : Tms s s') : Stay s s' := Stay.same h.1 h.2

theorem Stay.trans {a b c : Sess} (h1 : Stay a b) (h2 : Stay b c) : Stay a c := by
  intro hs
  obtain ⟨hb, e1, e2, e3⟩ := h2 hs
  obtain ⟨ha, f1, f2, f3⟩ := h1 hb
  exact ⟨ha, e1.trans f1, e2.trans f2, fun h => e3 (f3 h)⟩

/-- an action satisfying `Stay` does not enter OpenSent -/
theorem Stay.ne {s s' : Sess} (h : Stay s s') (hs : s.st ≠ .openSent) : s'.st ≠ .openSent :=
  fun h' => hs (h h').1

/-! ### helpers and connection events -/

theorem stay_autoStart (s : Sess) (b : Bool) : Stay s (s.autoStart b) := by
  unfold autoStart
  split
  · rename_i hs
    split
    · exact Stay.of_ne (by simp [hs])
    · split
      · apply Stay.of_ne
        rw [(tms_connectTcp _).1]
        simp
      · exact Stay.refl s
  · exact Stay.refl s

theorem stay_dropEstab (s : Sess) (p : Option Nat) : Stay s (s.dropEstab p) := by
  unfold dropEstab
  split
  · split
    · exact Stay.of_idle (by simp)
    · exact Stay.refl s
  · exact Stay.refl s

theorem stay_connectionClosed (s : Sess) (p : Option Nat) : Stay s (s.connectionClosed p) := by
  unfold connectionClosed
  split
  · exact (stay_dropEstab s p).trans (stay_autoStart _ _)
  · exact stay_dropEstab s p

/-- FSM.connection_failed never ends in OpenSent (from OpenSent it goes through Active) -/
theorem stay_connectionFailed (s : Sess) : Stay s s.connectionFailed := by
  unfold connectionFailed
  split
  · exact Stay.of_ne ((stay_connectionClosed _ _).ne (by simp))
  · exact Stay.of_idle (by simp)
  · exact Stay.of_ne ((stay_connectionClosed _ _).ne (by simp))
  · exact Stay.of_idle (by simp)
  · exact Stay.of_idle (by simp)
  · exact Stay.refl s

theorem stay_manualStart (s : Sess) : Stay s s.manualStart := by
  unfold manualStart
  split
  · exact Stay.same rfl rfl
  · apply Stay.of_ne
    rw [st_emit, (tms_connectTcp _).1]
    simp
  · exact Stay.same rfl rfl

theorem stay_manualStop (s : Sess) : Stay s s.manualStop := Stay.of_idle (by simp [manualStop])

theorem stay_connFail (s : Sess) (c : Nat) : Stay s (s.connFail c) := by
  unfold connFail
  split
  · exact Stay.trans (b := ((s.withPending none).setPhase c .closed).emit .hConnFailed) (Stay.same rfl rfl)
      (stay_connectionFailed _)
  · exact Stay.same rfl rfl

theorem stay_connLost (s : Sess) (c : Nat) : Stay s (s.connLost c) := by
  unfold connLost
  split
  · exact Stay.trans (b := (s.setPhase c .closed).emit (.hConnLost c)) (Stay.same rfl rfl) (stay_connectionClosed _ _)
  · exact Stay.trans (b := (s.setPhase c .closed).emit (.hConnLost c)) (Stay.same rfl rfl) (stay_connectionFailed _)

/-! ### timer events -/

theorem stay_fireRetry (s : Sess) : Stay s s.fireRetry := by
  unfold fireRetry
  split
  · rename_i hs
    apply Stay.of_ne
    rw [(tms_connectTcp _).1]
    simp [hs]
  · rename_i hs
    apply Stay.of_ne
    rw [(tms_connectTcp _).1]
    simp [hs]
  · rename_i hs
    exact Stay.of_ne (by simp [hs])
  · exact Stay.of_idle (by simp)

theorem stay_fireHold (s : Sess) : Stay s s.fireHold := by
  unfold fireHold
  split
  · exact Stay.of_idle (by simp)
  · exact Stay.of_idle (by simp)
  · exact Stay.of_idle (by simp)
  · exact Stay.of_idle (by simp)
  · exact Stay.of_idle (by simp)
  · rename_i h; exact Stay.of_idle (by simpa using h)

/-- the keepalive-timer expiry in OpenSent (excluded in reachable states by `C01_no_stale_timers`) only clears itself -/
theorem stay_fireKeepalive (s : Sess) : Stay s s.fireKeepalive := by
  unfold fireKeepalive
  split
  · rename_i hs
    split <;> exact Stay.of_ne (by simp [hs])
  · rename_i hs
    split <;> exact Stay.of_ne (by simp [hs])
  · exact Stay.of_idle (by simp)
  · exact Stay.of_idle (by simp)
  · exact fun hs => ⟨hs, rfl, rfl, fun h => h⟩

theorem stay_fireIdleHold (s : Sess) : Stay s s.fireIdleHold := by
  have h1 : Stay s (s.setIdleHold none) := fun hs => ⟨hs, rfl, rfl, fun _ => rfl⟩
  unfold fireIdleHold
  split
  · exact h1.trans (stay_autoStart _ _)
  · exact h1

/-! ### received data -/

/-- one frame: OPEN leaves OpenSent (OpenConfirm or Idle), KEEPALIVE / UPDATE / NOTIFICATION end in Idle there, a
    ROUTE-REFRESH and the frames that are skipped touch neither the state nor a timer -/
theorem stay_dispatch (s : Sess) (i ty : Nat) (body : Bytes) : Stay s (dispatch U s i ty body).1 := by
  have hbump : ∀ g, Stay s (s.bumpRecv i g) := fun g => Stay.same rfl rfl
  have hemit : ∀ g o, Stay s ((s.bumpRecv i g).emit o) := fun g o => Stay.same rfl rfl
  unfold dispatch
  split
  · unfold openReceived
    split
    · exact Stay.of_idle (by simp)
    · exact Stay.of_idle (by simp)
    · exact hbump _
    · split
      · exact Stay.of_idle (by simp)
      · unfold openAccepted
        split
        · split <;> exact Stay.of_idle (by simp)
        · split
          · apply Stay.of_ne
            rw [st_emit, st_fsmOpenReceived]
            split <;> simp
          · apply Stay.of_ne
            rw [st_emit, st_fsmOpenReceived]
            split <;> simp
  · split
    · split
      · exact hbump _
      · exact hemit _ _
      · apply Stay.of_ne
        rw [st_fsmUpdateReceived]
        split <;> simp
      · apply Stay.of_ne
        rw [st_fsmUpdateReceived]
        split <;> simp
    · split
      · split
        · exact Stay.refl s
        · exact Stay.of_idle (st_fsmNotificationReceived _ _ _)
      · split
        · split
          · apply Stay.of_ne
            rw [st_fsmKeepaliveReceived]
            split <;> simp
          · exact Stay.of_idle (by simp)
        · split
          · split
            · exact hbump _
            · exact hemit _ _
          · exact Stay.of_idle (by simp)

theorem stay_parseBuffer (s : Sess) (i : Nat) (buf : Bytes) : Stay s (parseBuffer U s i buf).1 := by
  unfold parseBuffer
  split
  · exact Stay.refl s
  · split
    · exact Stay.refl s
    · exact Stay.of_idle (by simp)
    · exact Stay.of_idle (by simp)
    · split <;> exact stay_dispatch U _ _ _ _

theorem stay_drain (i : Nat) : ∀ (f : Nat) (s : Sess) (buf : Bytes), Stay s (drain U f s i buf).1 := by
  intro f
  induction f with
  | zero => intro s buf; exact Stay.refl s
  | succ f ih =>
    intro s buf
    have hp := stay_parseBuffer U s i buf
    simp only [drain]
    cases hr : (parseBuffer U s i buf).2 with
    | none => exact hp
    | some rest => exact hp.trans (ih _ rest)

/-- every event except a connection coming up -/
theorem stay_step (w : World) (e : Ev) (h : ∀ c, e ≠ .connOk c) : Stay (w.sess.withOuts []) (step U w e).sess := by
  cases e with
  | boot => exact stay_autoStart _ _
  | manualStart => exact stay_manualStart _
  | manualStop => exact stay_manualStop _
  | connOk c => exact absurd rfl (h c)
  | connFail c => exact stay_connFail _ c
  | lost c => exact stay_connLost _ c
  | advance dt => exact Stay.same rfl rfl
  | chunk c d =>
    simp only [step, dataReceived]
    exact stay_drain U c _ _ _
  | fire t =>
    cases t with
    | retry => exact stay_fireRetry _
    | hold => exact stay_fireHold _
    | keepalive => exact stay_fireKeepalive _
    | idleHold => exact stay_fireIdleHold _

/-! ### a connection comes up -/

/-- FSM.connection_made entered in Connect: if it ends in OpenSent (the OPEN went out) the hold deadline is the large
    hold time ahead and the two reconnection timers are stopped -/
theorem connectionMade_openSent {t : Sess} (ht : t.st = .connect) (h : t.connectionMade.st = .openSent) :
    t.connectionMade.tm.hold = some (t.now + 3 * C.largeHoldTime) ∧ t.connectionMade.tm.retry = none ∧
      t.connectionMade.tm.idleHold = none := by
  have hs := tms_sendOpen ((t.setRetry none).setIdleHold none)
  revert h
  unfold connectionMade
  split
  · intro _
    simp [hs.2]
  · intro h
    rw [hs.1] at h
    simp [ht] at h

theorem connOk_openSent (s : Sess) (c : Nat) (h : (s.connOk c).st = .openSent) :
    (s.connOk c).tm.hold = some (s.now + 3 * C.largeHoldTime) ∧ (s.connOk c).tm.retry = none ∧
      (s.connOk c).tm.idleHold = none := by
  unfold connOk at h ⊢
  have hn : (((((s.setPhase c .connected).withProto (some c)).setSt .connect).withEstab (some c)).withBgpId
      (some (s.bgpId.getD s.cfg.localId))).now = s.now := by
    simp [withBgpId, withEstab, withProto, setPhase]
  have := connectionMade_openSent (by simp [withBgpId, withEstab]) h
  rw [hn] at this
  exact this

/-! ### the statements -/

/-- **OpenSent is entered only by a TCP connection coming up, and at that moment the hold deadline is set exactly
    4 minutes (3 * 240 ticks) ahead.**  No hypothesis on the state. -/
theorem C03_opensent_entry (w : World) (e : Ev) :
    w.sess.st ≠ .openSent → (step U w e).sess.st = .openSent →
      (∃ c, e = .connOk c) ∧ (step U w e).sess.tm.hold = some (w.sess.now + 3 * C.largeHoldTime) := by
  intro hne hos
  by_cases hc : ∃ c, e = .connOk c
  · refine ⟨hc, ?_⟩
    obtain ⟨c, rfl⟩ := hc
    exact (connOk_openSent (w.sess.withOuts []) c hos).1
  · exact absurd ((stay_step U w e (fun c h => hc ⟨c, h⟩)) hos).1 hne

/-- **While the agent waits for the peer's OPEN nothing moves the 4-minute deadline.**  `Heal` / `One` (reachable-state
    invariants of C02 / C12) with `enabled` exclude the one event for which the model would set a new deadline: a second
    connection attempt succeeding while a tracked connection is up. -/
theorem C03_opensent_deadline_fixed (w : World) (e : Ev) (hen : enabled w.sess e = true)
    (hh : Core.Heal (core w.sess)) (ho : Core.One (core w.sess)) :
    w.sess.st = .openSent → (step U w e).sess.st = .openSent → (step U w e).sess.tm.hold = w.sess.tm.hold := by
  intro hs hos
  by_cases hc : ∃ c, e = .connOk c
  · obtain ⟨c, rfl⟩ := hc
    simp only [enabled, decide_eq_true_eq] at hen
    have hq := quiet_of_connecting hh ho (c := c) hen.1 hen.2
    rw [hs] at hq
    simp at hq
  · exact ((stay_step U w e (fun c h => hc ⟨c, h⟩)) hos).2.1

/-- the same without the invariants, for every event other than `connOk` (enabled or not) -/
theorem C03_opensent_deadline_fixed' (w : World) (e : Ev) (hc : ∀ c, e ≠ .connOk c) :
    (step U w e).sess.st = .openSent →
      w.sess.st = .openSent ∧ (step U w e).sess.tm.hold = w.sess.tm.hold ∧ (step U w e).sess.tm.retry = w.sess.tm.retry := by
  intro hos
  have h := (stay_step U w e hc) hos
  exact ⟨h.1, h.2.1, h.2.2.1⟩

/-- in OpenSent the reconnection timers are stopped and the hold timer is running -/
def OsInv (s : Sess) : Prop :=
  s.st = .openSent → s.tm.retry = none ∧ s.tm.idleHold = none ∧ s.tm.hold ≠ none

/-- preserved by every event, enabled or not -/
theorem osInv_step (w : World) (e : Ev) (h : OsInv w.sess) : OsInv (step U w e).sess := by
  intro hos
  by_cases hc : ∃ c, e = .connOk c
  · obtain ⟨c, rfl⟩ := hc
    obtain ⟨h1, h2, h3⟩ := connOk_openSent (w.sess.withOuts []) c hos
    refine ⟨h2, h3, ?_⟩
    show ((w.sess.withOuts []).connOk c).tm.hold ≠ none
    rw [h1]; simp
  · obtain ⟨hs, e1, e2, e3⟩ := (stay_step U w e (fun c h => hc ⟨c, h⟩)) hos
    obtain ⟨g1, g2, g3⟩ := h hs
    exact ⟨e2.trans g1, e3 g2, by rw [e1]; exact g3⟩

theorem osInv_run (evs : List Ev) : ∀ (w : World), OsInv w.sess → OsInv (run U w evs).sess := by
  induction evs with
  | nil => intro w h; exact h
  | cons e r ih => intro w h; exact ih _ (osInv_step U w e h)

/-- `OsInv` in every state reachable by any event list from boot -/
theorem osInv_reachable (cfg : Cfg) (evs : List Ev) : OsInv (run U (bootWorld cfg) evs).sess :=
  osInv_run U evs _ (fun h => by simp [bootWorld, boot] at h)

/-- **In every reachable OpenSent state the hold timer is the only timer running**: ConnectRetry, keepalive and idle-hold
    timers do not exist, the hold timer does.  (`EnabledRun` is needed for the keepalive timer only -
    `C01_no_stale_timers`; the other three conjuncts hold after any event list.) -/
theorem C03_opensent_timers (cfg : Cfg) (e0 : Ev) (he0 : e0 = .boot ∨ e0 = .manualStart) (evs : List Ev)
    (hen : EnabledRun U (step U (bootWorld cfg) e0) evs) :
    let s := (run U (bootWorld cfg) (e0 :: evs)).sess
    s.st = .openSent → s.tm.retry = none ∧ s.tm.keepalive = none ∧ s.tm.idleHold = none ∧ s.tm.hold ≠ none := by
  intro s hs
  have hk := (C01_no_stale_timers U cfg e0 he0 evs hen).2 hs
  obtain ⟨h1, h2, h3⟩ := osInv_reachable U cfg (e0 :: evs) hs
  exact ⟨h1, hk, h2, h3⟩

/-- stated on the events: **the only timer expiry that can end the wait for the peer's OPEN is the hold timer's** -/
theorem C03_opensent_only_hold_ends_the_wait (cfg : Cfg) (e0 : Ev) (he0 : e0 = .boot ∨ e0 = .manualStart) (evs : List Ev)
    (hen : EnabledRun U (step U (bootWorld cfg) e0) evs) :
    let s := (run U (bootWorld cfg) (e0 :: evs)).sess
    s.st = .openSent → ∀ t, enabled s (.fire t) = true → t = .hold := by
  intro s hs t ht
  have h := C03_opensent_timers U cfg e0 he0 evs hen hs
  have h1 : s.tm.retry = none := h.1
  have h2 : s.tm.keepalive = none := h.2.1
  have h3 : s.tm.idleHold = none := h.2.2.1
  cases t with
  | hold => rfl
  | retry => simp only [enabled, timerOf] at ht; rw [h1] at ht; simp at ht
  | keepalive => simp only [enabled, timerOf] at ht; rw [h2] at ht; simp at ht
  | idleHold => simp only [enabled, timerOf] at ht; rw [h3] at ht; simp at ht

/-! ### non-vacuity (example session of Props/C01.lean: connection 0 up at tick 0, OPEN sent) -/

/-- a ROUTE-REFRESH message (IPv4 unicast): counted, not handed to the FSM -/
def exRouteRefresh : Bytes := marker ++ [0, 23, 5, 0, 1, 0, 1]

/-- OpenSent is reached by `connOk` from a state that is not OpenSent; the hold deadline is 720 ticks = 240 s ahead of
    tick 0 and no other timer runs -/
example :
    (step exU (bootWorld exCfg) .boot).sess.st ≠ .openSent ∧ (step exU (bootWorld exCfg) .boot).sess.now = 0 ∧
    exOpenSent.sess.st = .openSent ∧ exOpenSent.sess.tm.hold = some 720 ∧ 3 * C.largeHoldTime = 720 ∧
    exOpenSent.sess.tm.retry = none ∧ exOpenSent.sess.tm.keepalive = none ∧ exOpenSent.sess.tm.idleHold = none := by
  refine ⟨by decide, by decide, by decide, by decide, by decide, by decide, by decide, by decide⟩

/-- events that are enabled in OpenSent and keep the state and the deadline: a KEEPALIVE cut short followed by nothing
    (an incomplete frame), a ROUTE-REFRESH followed by the beginning of a KEEPALIVE, a clock advance, an operator start -/
example :
    enabled exOpenSent.sess (.chunk 0 (exKeepalive.take 18)) = true ∧
    (step exU exOpenSent (.chunk 0 (exKeepalive.take 18))).sess.st = .openSent ∧
    (step exU exOpenSent (.chunk 0 (exKeepalive.take 18))).sess.tm.hold = some 720 ∧
    enabled exOpenSent.sess (.chunk 0 (exRouteRefresh ++ exKeepalive.take 5)) = true ∧
    (step exU exOpenSent (.chunk 0 (exRouteRefresh ++ exKeepalive.take 5))).sess.st = .openSent ∧
    (step exU exOpenSent (.chunk 0 (exRouteRefresh ++ exKeepalive.take 5))).sess.tm.hold = some 720 ∧
    (step exU exOpenSent (.chunk 0 (exRouteRefresh ++ exKeepalive.take 5))).sess.outs = [.hRouteRefresh 0 1 0 1 5] ∧
    enabled exOpenSent.sess (.advance 10) = true ∧
    (step exU exOpenSent (.advance 10)).sess.st = .openSent ∧
    (step exU exOpenSent (.advance 10)).sess.tm.hold = some 720 ∧
    (step exU exOpenSent .manualStart).sess.st = .openSent ∧
    (step exU exOpenSent .manualStart).sess.tm.hold = some 720 := by
  refine ⟨by decide, by decide, by decide, by decide, by decide, by decide, by decide, by decide, by decide, by decide,
    by decide, by decide⟩

/-- a complete KEEPALIVE (with or without garbage after it) is an FSM error in OpenSent: the wait ends in Idle and the
    hold timer is stopped - the deadline is not moved, it is gone with the state -/
example :
    (step exU exOpenSent (.chunk 0 (exKeepalive ++ [1, 2, 3]))).sess.st = .idle ∧
    (step exU exOpenSent (.chunk 0 (exKeepalive ++ [1, 2, 3]))).sess.tm.hold = none := by
  refine ⟨by decide, by decide⟩

/-- the clock can be advanced up to the deadline and no further; then the hold timer fires and the wait ends -/
example :
    enabled exOpenSent.sess (.advance 720) = true ∧ enabled exOpenSent.sess (.advance 721) = false ∧
    enabled (step exU exOpenSent (.advance 720)).sess (.fire .hold) = true ∧
    (step exU (step exU exOpenSent (.advance 720)) (.fire .hold)).sess.st = .idle := by
  refine ⟨by decide, by decide, by decide, by decide⟩

/-- the hypotheses of `C03_opensent_timers` are met by the example run -/
example : EnabledRun exU (step exU (bootWorld exCfg) .boot) [.connOk 0] := ⟨by decide, trivial⟩

end Yabgp

#print axioms Yabgp.C03_opensent_entry
#print axioms Yabgp.C03_opensent_deadline_fixed
#print axioms Yabgp.C03_opensent_deadline_fixed'
#print axioms Yabgp.osInv_step
#print axioms Yabgp.C03_opensent_timers
#print axioms Yabgp.C03_opensent_only_hold_ends_the_wait
