/-
  C12 — at most one TCP connection or connection attempt to the peer at any time.
  Proved here: (1) for every event and every state, every BGP message the agent writes goes to the connection its
  state machine tracks (`FSM.protocol`); (2) `C12_at_most_one`: in EVERY state reachable after the agent's start - any
  peer behaviour, any timer order, any operator stop/start, connect-retry times below or above the TCP timeout - at
  most one connection is live (attempt in flight or open), every open connection is the tracked one (none is left open
  and unreferenced), and the attempt in flight is the one the peering remembers (so that it can give it up).
  (2) became true with the repair recorded as `fixed: property=C12 …` (the peering now keeps the connector of the
  attempt in flight and gives it up before starting another one and at manual stop); the three histories that were
  known findings before the repair are kept below as regression theorems.
-/
import Yabgp.Props.C18
import Yabgp.Lemmas.OutsExt
import Yabgp.Lemmas.OneConn
import Yabgp.Props.C02

namespace Yabgp
open Sess

variable (U : Bool → Bytes → UpdClass)

/-- "a write goes to connection `p`" as a predicate on outputs -/
def ToTracked (p : Option Nat) (o : Out) : Prop := ∀ c b, o = .write c b → p = some c

theorem toTracked_reactive (p : Option Nat) : Reactive (ToTracked p) p := by
  refine ⟨?_, ?_, ?_, ?_⟩
  · intro i b hp c b' h; cases h; exact hp
  · intro i c b h; cases h
  · intro c b h; cases h
  · intro c b h; cases h

theorem toTracked_nonwrite {p : Option Nat} {o : Out} (h : ∀ c b, o ≠ .write c b) : ToTracked p o :=
  fun c b e => absurd e (h c b)

/-- all outputs the action appended are tracked writes or not writes at all, and the tracked connection is the same -/
structure WT (s s' : Sess) : Prop where
  ext : OutsExt (ToTracked s.proto) s s'
  proto : s'.proto = s.proto

theorem WT.refl (s : Sess) : WT s s := ⟨OutsExt.refl _ s, rfl⟩
theorem WT.trans {a b c : Sess} (h1 : WT a b) (h2 : WT b c) : WT a c :=
  ⟨h1.ext.trans (h1.proto ▸ h2.ext), h2.proto.trans h1.proto⟩

theorem WT.of_frm {s s' : Sess} (f : Frm 0 s s') (e : OutsExt (ToTracked s.proto) s s') : WT s s' := ⟨e, f.proto⟩

theorem wt_emit (s : Sess) (o : Out) (h : ∀ c b, o ≠ .write c b) : WT s (s.emit o) :=
  ⟨OutsExt.emit s o (toTracked_nonwrite h), rfl⟩
theorem wt_same {s s' : Sess} (ho : s'.outs = s.outs) (hp : s'.proto = s.proto) : WT s s' := ⟨OutsExt.of_same ho, hp⟩

theorem wt_setSt (s : Sess) (v : St) : WT s (s.setSt v) := WT.of_frm (frm_setSt 0 s v) (oe_setSt s v (toTracked_reactive _))
theorem wt_closeConn (s : Sess) : WT s s.closeConn := WT.of_frm (frm_closeConn 0 s) (oe_closeConn s (toTracked_reactive _))
theorem wt_errorClose (s : Sess) : WT s s.errorClose := WT.of_frm (frm_errorClose 0 s) (oe_errorClose s (toTracked_reactive _))
theorem wt_sendNotification (s : Sess) (e sub : Nat) (d : Bytes) : WT s (s.sendNotification e sub d) :=
  WT.of_frm (frm_sendNotification 0 s e sub d) (oe_sendNotification s e sub d (toTracked_reactive _))
theorem wt_sendKeepalive (s : Sess) : WT s s.sendKeepalive :=
  WT.of_frm (frm_sendKeepalive 0 s) (oe_sendKeepalive s (toTracked_reactive _))
theorem wt_headerError (s : Sess) (sub : Nat) (d : Bytes) : WT s (s.headerError sub d) :=
  WT.of_frm (frm_headerError 0 s sub d) (oe_headerError s sub d (toTracked_reactive _))
theorem wt_openMessageError (s : Sess) (sub : Nat) : WT s (s.openMessageError sub) :=
  WT.of_frm (frm_openMessageError 0 s sub) (oe_openMessageError s sub (toTracked_reactive _))
theorem wt_fsmOpenReceived (s : Sess) : WT s s.fsmOpenReceived :=
  WT.of_frm (frm_fsmOpenReceived 0 s) (oe_fsmOpenReceived s (toTracked_reactive _))
theorem wt_fsmKeepaliveReceived (s : Sess) : WT s s.fsmKeepaliveReceived :=
  WT.of_frm (frm_fsmKeepaliveReceived 0 s) (oe_fsmKeepaliveReceived s (toTracked_reactive _))
theorem wt_fsmUpdateReceived (s : Sess) : WT s s.fsmUpdateReceived :=
  WT.of_frm (frm_fsmUpdateReceived 0 s) (oe_fsmUpdateReceived s (toTracked_reactive _))
theorem wt_fsmNotificationReceived (s : Sess) (e sub : Nat) : WT s (s.fsmNotificationReceived e sub) :=
  WT.of_frm (frm_fsmNotificationReceived 0 s e sub) (oe_fsmNotificationReceived s e sub (toTracked_reactive _))

theorem wt_bumpRecv (s : Sess) (i : Nat) (g : Stats → Stats) : WT s (s.bumpRecv i g) := wt_same rfl rfl
theorem wt_withRemote (s : Sess) (v : CapaDict) : WT s (s.withRemote v) := wt_same rfl rfl
theorem wt_withHoldTime (s : Sess) (v : Nat) : WT s (s.withHoldTime v) := wt_same rfl rfl
theorem wt_setAsn4 (s : Sess) (i : Nat) : WT s (s.setAsn4 i) := wt_same rfl rfl
theorem wt_setRetry (s : Sess) (v : Option Nat) : WT s (s.setRetry v) := wt_same rfl rfl
theorem wt_setHold (s : Sess) (v : Option Nat) : WT s (s.setHold v) := wt_same rfl rfl
theorem wt_setKeepalive (s : Sess) (v : Option Nat) : WT s (s.setKeepalive v) := wt_same rfl rfl
theorem wt_setIdleHold (s : Sess) (v : Option Nat) : WT s (s.setIdleHold v) := wt_same rfl rfl
theorem wt_withTm (s : Sess) (v : Timers) : WT s (s.withTm v) := wt_same rfl rfl
theorem wt_withAllow (s : Sess) (v : Bool) : WT s (s.withAllow v) := wt_same rfl rfl
theorem wt_withRetryCounter (s : Sess) (v : Nat) : WT s (s.withRetryCounter v) := wt_same rfl rfl
theorem wt_incRetryCounter (s : Sess) : WT s s.incRetryCounter := wt_same rfl rfl
theorem wt_withEstab (s : Sess) (v : Option Nat) : WT s (s.withEstab v) := wt_same rfl rfl
theorem wt_setPhase (s : Sess) (i : Nat) (p : Phase) : WT s (s.setPhase i p) := wt_same rfl rfl
theorem wt_bumpSent (s : Sess) (i : Nat) (g : Stats → Stats) : WT s (s.bumpSent i g) := wt_same rfl rfl
theorem wt_withNow (s : Sess) (v : Nat) : WT s (s.withNow v) := wt_same rfl rfl

theorem wt_openAccepted (s : Sess) (i : Nat) (m : OpenMsg) : WT s (s.openAccepted i m).1 := by
  unfold openAccepted
  split
  · split
    · exact ((wt_withRemote s _).trans (wt_setAsn4 _ i)).trans (wt_openMessageError _ _)
    · exact (wt_withRemote s _).trans (wt_openMessageError _ _)
  · split
    · exact ((((wt_withRemote s _).trans (wt_setAsn4 _ i)).trans (wt_withHoldTime _ _)).trans (wt_fsmOpenReceived _)).trans
        (wt_emit _ _ (by intro c b h; cases h))
    · exact (((wt_withRemote s _).trans (wt_withHoldTime _ _)).trans (wt_fsmOpenReceived _)).trans
        (wt_emit _ _ (by intro c b h; cases h))

theorem wt_openReceived (s : Sess) (i : Nat) (body : Bytes) : WT s (s.openReceived i body).1 := by
  unfold openReceived
  split
  · exact (wt_bumpRecv s i _).trans (wt_headerError _ _ _)
  · exact (wt_bumpRecv s i _).trans (wt_openMessageError _ _)
  · exact wt_bumpRecv s i _
  · split
    · exact (wt_bumpRecv s i _).trans (wt_openMessageError _ _)
    · exact (wt_bumpRecv s i _).trans (wt_openAccepted _ i _)

theorem wt_dispatch (s : Sess) (i ty : Nat) (body : Bytes) : WT s (dispatch U s i ty body).1 := by
  unfold dispatch
  split
  · exact wt_openReceived s i body
  · split
    · split
      · exact wt_bumpRecv s i _
      · exact (wt_bumpRecv s i _).trans (wt_emit _ _ (by intro c b h; cases h))
      · exact ((wt_bumpRecv s i _).trans (wt_emit _ _ (by intro c b h; cases h))).trans (wt_fsmUpdateReceived _)
      · exact ((wt_bumpRecv s i _).trans (wt_emit _ _ (by intro c b h; cases h))).trans (wt_fsmUpdateReceived _)
    · split
      · split
        · exact WT.refl s
        · exact ((wt_bumpRecv s i _).trans (wt_emit _ _ (by intro c b h; cases h))).trans (wt_fsmNotificationReceived _ _ _)
      · split
        · split
          · exact ((wt_bumpRecv s i _).trans (wt_emit _ _ (by intro c b h; cases h))).trans (wt_fsmKeepaliveReceived _)
          · exact ((wt_bumpRecv s i _).trans (wt_emit _ _ (by intro c b h; cases h))).trans (wt_headerError _ _ _)
        · split
          · split
            · exact wt_bumpRecv s i _
            · exact (wt_bumpRecv s i _).trans (wt_emit _ _ (by intro c b h; cases h))
          · exact wt_headerError s _ _

theorem wt_parseBuffer (s : Sess) (i : Nat) (buf : Bytes) : WT s (parseBuffer U s i buf).1 := by
  unfold parseBuffer
  split
  · exact WT.refl s
  · split
    · exact WT.refl s
    · exact wt_headerError s _ _
    · exact wt_headerError s _ _
    · split <;> exact wt_dispatch U s i _ _

theorem wt_drain (i : Nat) : ∀ (f : Nat) (s : Sess) (buf : Bytes), WT s (drain U f s i buf).1 := by
  intro f
  induction f with
  | zero => intro s buf; exact WT.refl s
  | succ f ih =>
    intro s buf
    simp only [drain]
    cases hp : (parseBuffer U s i buf).2 with
    | none => exact wt_parseBuffer U s i buf
    | some rest => exact (wt_parseBuffer U s i buf).trans (ih _ rest)

theorem wt_abortPending (s : Sess) : WT s s.abortPending := wt_same (by simp) (by simp)
theorem wt_withPending (s : Sess) (v : Option Nat) : WT s (s.withPending v) := wt_same rfl rfl

theorem wt_connectTcp (s : Sess) : WT s s.connectTcp := by
  unfold connectTcp; split
  · exact (((wt_abortPending s).trans
      (wt_same rfl rfl : WT s.abortPending (s.abortPending.withConns (s.abortPending.conns ++ [({} : Conn)])))).trans
      (wt_emit _ (.connect s.abortPending.conns.length) (by intro c b h; cases h))).trans (wt_withPending _ _)
  · exact wt_abortPending s

theorem wt_autoStart (s : Sess) (b : Bool) : WT s (s.autoStart b) := by
  unfold autoStart
  split
  · split
    · exact wt_setIdleHold s _
    · split
      · exact (((wt_incRetryCounter s).trans (wt_setRetry _ _)).trans (wt_setSt _ _)).trans (wt_connectTcp _)
      · exact WT.refl s
  · exact WT.refl s

theorem wt_dropEstab (s : Sess) (p : Option Nat) : WT s (s.dropEstab p) := by
  unfold dropEstab
  split
  · split
    · exact (wt_withEstab s none).trans (wt_setSt _ _)
    · exact WT.refl s
  · exact WT.refl s

theorem wt_connectionClosed (s : Sess) (p : Option Nat) : WT s (s.connectionClosed p) := by
  unfold connectionClosed
  split
  · exact (wt_dropEstab s p).trans (wt_autoStart _ _)
  · exact wt_dropEstab s p

theorem wt_connectionFailed (s : Sess) : WT s s.connectionFailed := by
  unfold connectionFailed
  split
  · exact (((wt_setRetry s none).trans (wt_closeConn _)).trans (wt_setSt _ _)).trans (wt_connectionClosed _ _)
  · exact (wt_setRetry s _).trans (wt_setSt _ _)
  · exact ((((wt_closeConn s).trans (wt_setRetry _ _)).trans (wt_setHold _ _)).trans (wt_setSt _ _)).trans (wt_connectionClosed _ _)
  · exact wt_errorClose s
  · exact wt_errorClose s
  · exact WT.refl s

/-- BGP.send_open writes to the tracked connection -/
theorem wt_sendOpen (s : Sess) : WT s s.sendOpen.1 := by
  unfold sendOpen
  cases hp : s.proto with
  | none => exact WT.refl s
  | some i =>
    cases hw : s.openWire with
    | none => exact wt_same rfl rfl
    | some w =>
      simp only
      have h1 : WT s (s.withLocalCaps (negotiateCaps s.localCaps s.remote)) := wt_same rfl rfl
      have h2 : WT (s.withLocalCaps (negotiateCaps s.localCaps s.remote))
          ((s.withLocalCaps (negotiateCaps s.localCaps s.remote)).writeOn i w) := by
        refine ⟨oe_writeOn _ i w hp (toTracked_reactive _), ?_⟩
        unfold writeOn; split <;> rfl
      exact ((h1.trans h2).trans (wt_bumpSent _ i incOpens)).trans
        (wt_emit _ (.hSendOpen i s.cfg.localAs s.cfg.holdCfg (s.bgpId.getD 0)) (by intro c b h; cases h))

end Yabgp

namespace Yabgp
open Sess

variable (U : Bool → Bytes → UpdClass)

theorem wt_connectionMade (s : Sess) : WT s s.connectionMade := by
  unfold connectionMade
  split
  · exact ((((wt_setRetry s none).trans (wt_setIdleHold _ none)).trans (wt_sendOpen _)).trans (wt_setHold _ _)).trans (wt_setSt _ _)
  · exact ((wt_setRetry s none).trans (wt_setIdleHold _ none)).trans (wt_sendOpen _)

theorem wt_manualStop (s : Sess) : WT s s.manualStop := by
  unfold manualStop
  have h1 : WT s (if s.st = .established then s.sendNotification C.errCease 0 [] else s) := by
    split
    · exact wt_sendNotification s _ _ _
    · exact WT.refl s
  exact ((((((h1.trans (wt_withTm _ _)).trans (wt_closeConn _)).trans (wt_withRetryCounter _ _)).trans (wt_withAllow _ _)).trans
    (wt_setSt _ _)).trans (wt_abortPending _)).trans (wt_emit _ .retStop (by intro c b h; cases h))

theorem wt_manualStart (s : Sess) : WT s s.manualStart := by
  unfold manualStart
  split
  · exact wt_emit s _ (by intro c b h; cases h)
  · exact ((((wt_withAllow s true).trans (wt_setRetry _ _)).trans (wt_setSt _ _)).trans (wt_connectTcp _)).trans
      (wt_emit _ (.retStart 1) (by intro c b h; cases h))
  · exact wt_emit s _ (by intro c b h; cases h)

theorem wt_fireRetry (s : Sess) : WT s s.fireRetry := by
  unfold fireRetry
  split
  · exact (((wt_setRetry s none).trans (wt_closeConn _)).trans (wt_setRetry _ _)).trans (wt_connectTcp _)
  · exact (((wt_setRetry s none).trans (wt_closeConn _)).trans (wt_setRetry _ _)).trans (wt_connectTcp _)
  · exact wt_setRetry s none
  · exact ((wt_setRetry s none).trans (wt_sendNotification _ _ _ _)).trans (wt_errorClose _)

theorem wt_fireHold (s : Sess) : WT s s.fireHold := by
  unfold fireHold
  have hx : WT s ((((s.setHold none).sendNotification C.errHold 0 []).setRetry none).errorClose.setSt .idle) :=
    ((((wt_setHold s none).trans (wt_sendNotification _ _ _ _)).trans (wt_setRetry _ _)).trans (wt_errorClose _)).trans (wt_setSt _ _)
  have hy : WT s ((s.setHold none).errorClose) := (wt_setHold s none).trans (wt_errorClose _)
  split
  · exact hx
  · exact hx
  · exact hx
  · exact hy
  · exact hy
  · exact wt_setHold s none

theorem wt_fireKeepalive (s : Sess) : WT s s.fireKeepalive := by
  unfold fireKeepalive
  have hk : WT s ((s.setKeepalive none).sendKeepalive) := (wt_setKeepalive s none).trans (wt_sendKeepalive _)
  have hy : WT s ((s.setKeepalive none).errorClose) := (wt_setKeepalive s none).trans (wt_errorClose _)
  split
  · split
    · exact hk.trans (wt_setKeepalive _ _)
    · exact hk
  · split
    · exact hk.trans (wt_setKeepalive _ _)
    · exact hk
  · exact hy
  · exact hy
  · exact wt_setKeepalive s none

theorem wt_fireIdleHold (s : Sess) : WT s s.fireIdleHold := by
  unfold fireIdleHold
  split
  · exact (wt_setIdleHold s none).trans (wt_autoStart _ _)
  · exact wt_setIdleHold s none

/-- from `WT` of a whole step (which starts with empty outputs) to the statement about its writes -/
theorem writes_of_wt {s0 s' : Sess} (h0 : s0.outs = []) (h : WT s0 s') :
    ∀ c b, Out.write c b ∈ s'.outs → s'.proto = some c := by
  intro c b hm
  obtain ⟨ext, e, p⟩ := h.ext
  rw [e, h0] at hm
  simp only [List.nil_append] at hm
  rw [h.proto]
  exact p _ hm c b rfl

/-- Every message the agent sends goes to the connection its state machine is tracking: for EVERY state and EVERY
    event, each BGP message written during the handling of the event is written to the connection that
    `FSM.protocol` designates when the handling ends. -/
theorem C12_writes_to_tracked (w : World) (e : Ev) (c : Nat) (b : Bytes)
    (h : Out.write c b ∈ (step U w e).sess.outs) : (step U w e).sess.proto = some c := by
  have h0 : (w.sess.withOuts []).outs = [] := rfl
  cases e with
  | boot => exact writes_of_wt h0 (wt_autoStart _ _) c b h
  | manualStart => exact writes_of_wt h0 (wt_manualStart _) c b h
  | manualStop => exact writes_of_wt h0 (wt_manualStop _) c b h
  | connOk k =>
    -- the connection becomes the tracked one before anything is written
    simp only [step, connOk] at h ⊢
    have hpre : ((((((w.sess.withOuts []).setPhase k .connected).withProto (some k)).setSt .connect).withEstab (some k)).withBgpId
        (some ((w.sess.withOuts []).bgpId.getD (w.sess.withOuts []).cfg.localId))).outs = [] := by
      unfold Sess.setSt
      rw [if_neg (by simp)]
      rfl
    exact writes_of_wt hpre (wt_connectionMade _) c b h
  | connFail k =>
    simp only [step, connFail] at h ⊢
    by_cases hp : (w.sess.withOuts []).pending = some k
    · rw [if_pos hp] at h ⊢
      exact writes_of_wt h0 ((((wt_withPending _ none).trans (wt_setPhase _ k .closed)).trans
        (wt_emit _ .hConnFailed (by intro c b h; cases h))).trans (wt_connectionFailed _)) c b h
    · rw [if_neg hp] at h ⊢
      exact writes_of_wt h0 (wt_setPhase _ k .closed) c b h
  | chunk k d => exact writes_of_wt h0 (wt_drain U k _ _ _) c b h
  | lost k =>
    simp only [step, connLost] at h ⊢
    split at h
    · rename_i hd
      rw [if_pos hd]
      exact writes_of_wt h0 (((wt_setPhase _ k .closed).trans (wt_emit _ (.hConnLost k) (by intro c b h; cases h))).trans
        (wt_connectionClosed _ _)) c b h
    · rename_i hd
      rw [if_neg hd]
      exact writes_of_wt h0 (((wt_setPhase _ k .closed).trans (wt_emit _ (.hConnLost k) (by intro c b h; cases h))).trans
        (wt_connectionFailed _)) c b h
  | advance dt => exact writes_of_wt h0 (wt_withNow _ _) c b h
  | fire t =>
    cases t with
    | retry => exact writes_of_wt h0 (wt_fireRetry _) c b h
    | hold => exact writes_of_wt h0 (wt_fireHold _) c b h
    | keepalive => exact writes_of_wt h0 (wt_fireKeepalive _) c b h
    | idleHold => exact writes_of_wt h0 (wt_fireIdleHold _) c b h

/-- number of connections that are live: an attempt in flight or an open connection -/
def liveCount (s : Sess) : Nat :=
  (s.conns.filter fun c => c.phase = .connecting ∨ c.phase = .connected).length

/-- the three histories after which two attempts were in flight before the repair (former known findings): one now -/
theorem C12_regression_start_while_attempt_pending :
    liveCount (run exU (bootWorld exCfg) [.boot, .manualStop, .manualStart]).sess = 1 := by decide

theorem C12_regression_retry_while_attempt_pending :
    liveCount (run exU (bootWorld exCfg) [.boot, .advance 90, .fire .retry]).sess = 1 := by decide

theorem C12_regression_idlehold_after_late_connection_lost :
    liveCount (run exU (bootWorld exCfg)
      [.boot, .connOk 0, .chunk 0 exKeepalive, .advance 90, .fire .idleHold, .lost 0, .advance 90, .fire .idleHold]).sess = 1 := by
  decide

end Yabgp

namespace Yabgp
open Sess

variable (U : Bool → Bytes → UpdClass)

/-! ### at most one live connection -/

theorem one_first (cfg : Cfg) (e0 : Ev) (he0 : e0 = .boot ∨ e0 = .manualStart) :
    Core.One (core (step U (bootWorld cfg) e0).sess) ∧ Core.Pend (core (step U (bootWorld cfg) e0).sess) := by
  have hn : Core.NoLive (core ((boot cfg).withOuts [])).abortPending := by
    intro j hj; simp [core, boot, withOuts, Core.abortPending] at hj
  have hp0 : Core.Pend (core ((boot cfg).withOuts [])) := by
    intro j hj; simp [core, boot, withOuts] at hj
  rcases he0 with rfl | rfl
  · simp only [step, bootWorld]
    rw [core_autoStart]
    have e : (core ((boot cfg).withOuts [])).autoStart false =
        (((core ((boot cfg).withOuts [])).setRetry true).withSt .connect).connectTcp := by
      simp [Core.autoStart, core, boot, withOuts]
    rw [e]
    exact ⟨Core.one_connectTcp (c := ((core ((boot cfg).withOuts [])).setRetry true).withSt .connect) hn,
      Core.pend_connectTcp (c := ((core ((boot cfg).withOuts [])).setRetry true).withSt .connect) (hp0.of_conns rfl rfl)⟩
  · simp only [step, bootWorld]
    rw [core_manualStart]
    have e : (core ((boot cfg).withOuts [])).manualStart =
        ((((core ((boot cfg).withOuts [])).withAllow true).setRetry true).withSt .connect).connectTcp := by
      simp [Core.manualStart, core, boot, withOuts]
    rw [e]
    exact ⟨Core.one_connectTcp (c := (((core ((boot cfg).withOuts [])).withAllow true).setRetry true).withSt .connect) hn,
      Core.pend_connectTcp (c := (((core ((boot cfg).withOuts [])).withAllow true).setRetry true).withSt .connect) (hp0.of_conns rfl rfl)⟩

theorem one_step (w : World) (e : Ev) (hen : enabled w.sess e = true)
    (h : Core.One (core w.sess)) (hp : Core.Pend (core w.sess)) (hh : Core.Heal (core w.sess)) :
    Core.One (core (step U w e).sess) ∧ Core.Pend (core (step U w e).sess) :=
  let r := core_step_inv U (fun c => (Core.One c ∧ Core.Pend c) ∧ Core.Heal c)
    (fun c hc o ho => ⟨⟨Core.one_frameOutcome hc.1.1 o ho, Core.pend_frameOutcome hc.1.2 o ho⟩, Core.heal_frameOutcome hc.2 o ho⟩) w e hen
    (fun hc he o ho => ⟨Core.one_stepOutcome hc.1.1 hc.1.2 hc.2 e he o ho, Core.heal_stepOutcome hc.2 e he o ho⟩)
    ⟨⟨h, hp⟩, hh⟩
  r.1

theorem one_run (evs : List Ev) : ∀ (w : World), Core.One (core w.sess) → Core.Pend (core w.sess) → Core.Heal (core w.sess) →
    EnabledRun U w evs → Core.One (core (run U w evs).sess) ∧ Core.Pend (core (run U w evs).sess) := by
  induction evs with
  | nil => intro w h hp _ _; exact ⟨h, hp⟩
  | cons e r ih =>
    intro w h hp hh hc
    have := one_step U w e hc.1 h hp hh
    exact ih _ this.1 this.2 (heal_step U w e hc.1 hh) hc.2

theorem filter_length_le_one {α : Type} (p : α → Bool) : ∀ (l : List α),
    (∀ i j (hi : i < l.length) (hj : j < l.length), p l[i] = true → p l[j] = true → i = j) → (l.filter p).length ≤ 1
  | [], _ => by simp
  | x :: r, h => by
    have hr : ∀ i j (hi : i < r.length) (hj : j < r.length), p r[i] = true → p r[j] = true → i = j := by
      intro i j hi hj pi pj
      have := h (i + 1) (j + 1) (by simp; omega) (by simp; omega) (by simpa using pi) (by simpa using pj)
      omega
    have ih := filter_length_le_one p r hr
    by_cases hx : p x = true
    · have hnone : r.filter p = [] := by
        rw [List.filter_eq_nil_iff]
        intro y hy hpy
        obtain ⟨k, hk, rfl⟩ := List.getElem_of_mem hy
        have := h 0 (k + 1) (by simp) (by simp; omega) (by simpa using hx) (by simpa using hpy)
        omega
      simp [List.filter_cons, hx, hnone]
    · simp [List.filter_cons, hx]; exact ih

/-- **At most one connection or attempt, none left open and unreferenced** - in every state reachable after the agent's
    start by any sequence of events the environment can produce. -/
theorem C12_at_most_one (cfg : Cfg) (e0 : Ev) (he0 : e0 = .boot ∨ e0 = .manualStart) (evs : List Ev)
    (hc : EnabledRun U (step U (bootWorld cfg) e0) evs) :
    liveCount (run U (bootWorld cfg) (e0 :: evs)).sess ≤ 1 ∧
    (∀ j, j < (run U (bootWorld cfg) (e0 :: evs)).sess.conns.length →
      ((run U (bootWorld cfg) (e0 :: evs)).sess.conn j).phase = .connected →
      (run U (bootWorld cfg) (e0 :: evs)).sess.proto = some j) ∧
    (∀ j, j < (run U (bootWorld cfg) (e0 :: evs)).sess.conns.length →
      ((run U (bootWorld cfg) (e0 :: evs)).sess.conn j).phase = .connecting →
      (run U (bootWorld cfg) (e0 :: evs)).sess.pending = some j) := by
  have h0 := one_first U cfg e0 he0
  have hboth := one_run U evs _ h0.1 h0.2 (heal_first U cfg e0 he0) hc
  have hrun : run U (bootWorld cfg) (e0 :: evs) = run U (step U (bootWorld cfg) e0) evs := rfl
  rw [hrun]
  generalize (run U (step U (bootWorld cfg) e0) evs).sess = s at hboth
  obtain ⟨hone, hpend⟩ := hboth
  have hlen : (core s).conns.length = s.conns.length := by simp [core]
  refine ⟨?_, ?_, ?_⟩
  · unfold liveCount
    apply filter_length_le_one
    intro i j hi hj pi pj
    have li : Core.Live (core s) i := by
      unfold Core.Live; rw [core_conn]
      have : s.conn i = s.conns[i] := by simp [Sess.conn, List.getD_eq_getElem?_getD, hi]
      simpa [pd, this] using pi
    have lj : Core.Live (core s) j := by
      unfold Core.Live; rw [core_conn]
      have : s.conn j = s.conns[j] := by simp [Sess.conn, List.getD_eq_getElem?_getD, hj]
      simpa [pd, this] using pj
    exact hone.one i j (by rw [hlen]; exact hi) (by rw [hlen]; exact hj) li lj
  · intro j hj hph
    have := hone.tracked j (by rw [hlen]; exact hj) (by rw [core_conn]; exact hph)
    exact this.1
  · intro j hj hph
    exact hpend j (by rw [hlen]; exact hj) (by rw [core_conn]; exact hph)

end Yabgp

#print axioms Yabgp.C12_writes_to_tracked
#print axioms Yabgp.C12_regression_start_while_attempt_pending
#print axioms Yabgp.C12_at_most_one
