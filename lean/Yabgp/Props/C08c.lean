/-
  C08, third part — constructor models of the construct-only families (Model/Construct/SrtePmsi.lean):
  SR policy NLRI inside MP_REACH_NLRI / MP_UNREACH_NLRI, PMSI tunnel attribute.  Whatever they return walks.
-/
import Yabgp.Lemmas.WalkerLemmas
import Yabgp.Lemmas.WalkerTunnel
import Yabgp.Lemmas.WalkerFlow
import Yabgp.Model.Construct.SrtePmsi
import Yabgp.Gen.AttrFlags

namespace Yabgp
open Walker Mp Construct

theorem packedOk_length (a : Ip) (b : Bytes) (h : packedOk a = some b) : b.length = 4 ∨ b.length = 16 := by
  cases a with
  | v4 n => simp only [packedOk] at h; split at h <;> simp at h; subst h; simp
  | v6 n => simp only [packedOk] at h; split at h <;> simp at h; subst h; simp

/-- the SR policy NLRI: 96 bits = distinguisher 4, color 4, IPv4 endpoint 4 -/
theorem srte_item (n : SrteNlri) (b : Bytes) (h : constructSrte n = some b) : Seq (srteItem 1) b := by
  unfold constructSrte at h
  split at h
  · split at h
    · simp only [Option.some.injEq] at h; subst h
      rename_i _ e _ _
      have hl : (be32 n.distinguisher ++ be32 n.color ++ be32 e).length = 12 := by simp
      refine Seq.single (by simp [be8]) (fun rest => ?_)
      rw [hl]
      simp only [be8, List.cons_append, List.nil_append, srteItem]
      have h96 : (u8 (12 * 8)).toNat = 96 := rfl
      rw [h96, if_neg (by decide : ¬ (1 : Nat) = 2), if_pos rfl]
      exact skip_eq _ _ (by simp)
    · simp at h
  · simp at h

/-- MP_REACH_NLRI (1, 73) -/
theorem C08c_srte_reach (cfg : Cfg) (nh : Option Ip) (n : SrteNlri) (w : Bytes)
    (h : constructSrteReach nh n = .ok w) : Seq (attrItem cfg) w := by
  unfold constructSrteReach at h
  cases nh with
  | none => simp at h
  | some a =>
    simp only at h
    cases hp : packedOk a with
    | none => simp [hp] at h
    | some nb =>
      cases hn : constructSrte n with
      | none => simp [hp, hn] at h
      | some nl =>
        simp only [hp, hn] at h
        refine seq_attrWrap cfg 14 _ w (Or.inl rfl) h ?_
        have hnb : nb.length < 256 := by rcases packedOk_length a nb hp with e | e <;> omega
        have hok : nlriOk 1 73 nl = true := by simp [nlriOk, (srte_item n nl hn).all]
        have := mpReachOk_reachValue 1 73 nb nl (by decide) (by decide) hnb hok
        simpa [attrValueOk, Mp.reachValue, constructSrteReach.reachValue'] using this

/-- MP_UNREACH_NLRI (1, 73) -/
theorem C08c_srte_unreach (cfg : Cfg) (wd : Option SrteNlri) (w : Bytes)
    (h : constructSrteUnreach wd = .ok w) : Seq (attrItem cfg) w := by
  unfold constructSrteUnreach at h
  cases wd with
  | none => simp at h
  | some n =>
    simp only at h
    cases hn : constructSrte n with
    | none => simp [hn] at h
    | some nl =>
      simp only [hn] at h
      refine seq_attrWrap cfg 15 _ w (Or.inr rfl) h ?_
      have hok : nlriOk 1 73 nl = true := by simp [nlriOk, (srte_item n nl hn).all]
      have := mpUnreachOk_unreachValue 1 73 nl (by decide) (by decide) hok
      simpa [attrValueOk, Mp.unreachValue] using this

/-- PMSI tunnel attribute: flags of an optional transitive attribute, flags 1, type 1, label 3, and for the
    one tunnel type the code can construct (6, ingress replication) an address of 4 or 16 octets -/
theorem C08c_pmsi (cfg : Cfg) (o : Overlay) (leaf ty : Nat) (label : Option Nat) (tid : Option Ip) (w : Bytes)
    (h : constructPmsi o leaf ty label tid = some w) : Seq (attrItem cfg) w := by
  unfold constructPmsi at h
  cases label with
  | none => simp at h
  | some l =>
  cases tid with
  | none => simp at h
  | some t =>
    simp only at h
    cases hl : constructPmsiLabel o l with
    | none => simp [hl] at h
    | some lb =>
      cases ht : packedOk t with
      | none => simp [hl, ht] at h
      | some tb =>
        simp only [hl, ht] at h
        split at h
        · rename_i hc
          obtain ⟨hleaf, rfl⟩ := hc
          simp only [Option.some.injEq] at h; subst h
          have hlb : lb.length = 3 := by
            cases o <;> simp only [constructPmsiLabel, low24] at hl
            · split at hl <;> simp at hl; subst hl; simp
            · split at hl <;> simp at hl; subst hl; simp
            · simp at hl
          have htb := packedOk_length t tb ht
          have hlen : (be8 leaf ++ be8 6 ++ lb ++ tb).length = 5 + tb.length := by simp [hlb]; omega
          refine seq_attr_short cfg 0xC0 22 _ (by decide) (by decide) (by rw [hlen]; omega) (by decide) (by decide) ?_
          have g1 : (be8 leaf ++ be8 6 ++ lb ++ tb).getD 1 0 = u8 6 := by simp [be8]
          have h6 : (u8 6).toNat = 6 := rfl
          simp only [attrValueOk, pmsiOk, g1, h6, hlen]
          rcases htb with e | e <;> simp [e]
        · simp at h

/-- tunnel encapsulation attribute (SR policy): flags of an optional transitive attribute with extended length,
    2-octet attribute length, one tunnel TLV (type 15, 2-octet length) whose value is a sequence of sub-TLVs -
    1-octet length below type 128, 2-octet length from 128 on - each with the fixed size of its type, segment
    lists being a reserved octet and a sequence of weight / segment sub-TLVs of fixed size (every kind the
    constructor has a branch for: MPLS label, IPv4 node, interface + IPv4 node, IPv4 local + remote address,
    each with and without SID) -/
theorem C08c_tunnel (cfg : Cfg) (p : Tunnel.Policy) (w : Bytes) (h : Tunnel.constructTunnel p = some w) :
    Seq (attrItem cfg) w := by
  unfold Tunnel.constructTunnel at h
  cases hv : Tunnel.policyValue p with
  | none => simp [hv] at h
  | some v =>
    simp only [hv] at h
    split at h
    · rename_i hlen
      simp only [Option.some.injEq] at h; subst h
      have hsub := (seq_policyValue p v hv).all
      have htl : all (tlv22 tunnelOk) (be16 15 ++ be16 v.length ++ v) = true := by
        have h2 := u16_split v.length (by omega)
        have : Seq (tlv22 tunnelOk) (be16 15 ++ be16 v.length ++ v) := by
          refine Seq.single (by simp [be16]) (fun r => ?_)
          have h15 : (u8 (15 / 256)).toNat * 256 + (u8 15).toNat = 15 := rfl
          simp only [be16, List.cons_append, List.nil_append, tlv22, h15, h2, List.take_left', List.drop_left',
            tunnelOk, ↓reduceIte, hsub]
          simp
        exact this.all
      have := seq_attr_ext cfg 0xD0 23 (be16 15 ++ be16 v.length ++ v) (by decide) (by decide)
        (by simp; omega) (by decide) (by decide) (by simp only [attrValueOk]; simpa using htl)
      have e : (be16 15 ++ be16 v.length ++ v).length = v.length + 4 := by simp; omega
      rw [e] at this
      simpa [be8, u8] using this
    · simp at h

/-- IPv6 flow specification (construct-only, as repaired by fix_11): MP_REACH_NLRI for (2, 133) - every flow
    specification with its 1- or 2-octet length, prefix components `length, offset, ceil((length-offset)/8) octets`,
    operator lists ending with the end-of-list bit -/
theorem C08c_flowspec6_reach (cfg : Cfg) (nh : Option Ip) (rules : List Flow6.Rule6) (w : Bytes)
    (h : Flow6.constructReach6 nh rules = .ok w) : Seq (attrItem cfg) w := by
  unfold Flow6.constructReach6 at h
  cases hn : Flow6.nexthopBytes nh with
  | none => simp [hn] at h
  | some nb =>
    cases hr : Flow6.constructRules6 rules with
    | none => simp [hn, hr] at h
    | some nl =>
      simp only [hn, hr] at h
      split at h
      · simp at h
      · refine seq_attrWrap cfg 14 _ w (Or.inl rfl) h ?_
        have hnb : nb.length < 256 := by
          cases nh with
          | none => simp [Flow6.nexthopBytes] at hn; subst hn; simp
          | some a =>
            cases a with
            | v4 n => simp only [Flow6.nexthopBytes] at hn; split at hn <;> simp at hn; subst hn; simp
            | v6 n => simp only [Flow6.nexthopBytes] at hn; split at hn <;> simp at hn; subst hn; simp
        have hok : nlriOk 2 133 nl = true := by
          simp [nlriOk, (seq_constructRules6 rules nl hr).all]
        have := mpReachOk_reachValue 2 133 nb nl (by decide) (by decide) hnb hok
        simpa [attrValueOk, Mp.reachValue] using this

/-- the constants the models hard-code are the ones of the source -/
theorem C08c_generated_constants :
    [Gen.Attr.PMSITunnel_FLAG, Gen.Attr.PMSITunnel_ID, Gen.Attr.MpReachNLRI_FLAG, Gen.Attr.MpReachNLRI_ID,
     Gen.Attr.MpUnReachNLRI_FLAG, Gen.Attr.MpUnReachNLRI_ID, Gen.Attr.TunnelEncaps_FLAG, Gen.Attr.TunnelEncaps_ID]
    = [0xC0, 22, 0x90, 14, 0x90, 15, 0xD0, 23] := by decide

/-! non-vacuity -/

example : ∃ w, constructSrteReach (some (.v4 167772161)) { distinguisher := 0, color := 100, endpoint := .v4 167772169 } = .ok w ∧
    all (attrItem {}) w = true :=
  exists_of_ok (by decide) (fun w h => (C08c_srte_reach {} _ _ w h).all)

example : ∃ w, constructPmsi .vni 0 6 (some 10000) (some (.v4 67372036)) = some w ∧ all (attrItem {}) w = true :=
  exists_of_isSome (by decide) (fun w h => (C08c_pmsi {} _ _ _ _ _ w h).all)

set_option maxRecDepth 16000 in
example : ∃ w, Tunnel.constructTunnel
    { enc := some .new, k12 := some 100, k13 := some 25102, k14 := some 1, k15 := some 200,
      k129 := some [112, 111, 108], k6 := some (.endpoint 300 (some false) (.v4 16843009)),
      k128 := some [{ weight := some 10,
                      segs := some [.mpls { label := 2000 },
                                    .v4node (.v4 167837953) (some { label := 3000, tc := some 0, s := some 0, ttl := some 255 }),
                                    .v4node (.v4 167837953) none,
                                    .v4index 7 (.v4 167837953) none, .v4index 7 (.v4 167837953) (some { label := 16 }),
                                    .v4addr (.v4 1) (.v4 2) none, .v4addr (.v4 1) (.v4 2) (some { label := 17, s := some 1 }),
                                    .other 4] }] } = some w ∧ all (attrItem {}) w = true :=
  exists_of_isSome (by decide) (fun w h => (C08c_tunnel {} _ w h).all)

end Yabgp

#print axioms Yabgp.C08c_tunnel
#print axioms Yabgp.C08c_flowspec6_reach
#print axioms Yabgp.C08c_srte_reach
#print axioms Yabgp.C08c_srte_unreach
#print axioms Yabgp.C08c_pmsi
#print axioms Yabgp.C08c_generated_constants
