/-
  C15 (part b) — the TLV list decoders are compositional, an unknown TLV between known ones changes nothing for
  the others, and the BGP-LS attribute decodes the same wherever it stands in the attribute list.

  Scope: BGP-LS NLRIs, descriptors, node-descriptor sub-TLVs, BGP-LS attribute TLVs and their nested sub-TLVs,
  Prefix-SID TLVs / sub-TLVs / sub-sub-TLVs, SR range entries and the fixed-stride lists (Model/Tlv.lean).
  All theorems are parametric in the per-TLV body decoder, so they cover every registered and every future TLV
  type at once.  Property theorems only; helper lemmas in Lemmas/TlvLemmas.lean and Lemmas/TlvOrder.lean.
-/
import Yabgp.Lemmas.TlvLemmas
import Yabgp.Lemmas.TlvOrder

namespace Yabgp
open Yabgp.Tlv

/-- a well-formed encoding for a loop shape and body decoder: a concatenation of whole TLVs (header of the
    shape's size, value exactly as long as the length field says) on each of which the body decoder succeeds -/
def Tlv.WellFormed {α ε : Type} (sh : Shape) (body : Bytes → Bytes → Except ε (Option α)) (a : Bytes) : Prop :=
  ∃ items : List (Bytes × Bytes),
    Whole sh items ∧ (∀ hv ∈ items, ∃ x, body hv.1 hv.2 = .ok x) ∧ a = enc items

/-- **general form**: whole TLVs in front of ANY byte string (well-formed or not, bodies decoding or not): the loop
    decodes them one by one and then behaves on the rest exactly as it would on the rest alone -/
theorem C15_tlv_append_general {α ε : Type} (sh : Shape) (body : Bytes → Bytes → Except ε (Option α))
    (items : List (Bytes × Bytes)) (hw : Whole sh items) (b : Bytes) :
    tlvRun sh body (enc items ++ b) = walkThen body items (tlvRun sh body b) :=
  tlvRun_enc_append sh body items hw b

/-- **C15, TLV containers.**  For well-formed `a` and ANY `b`: decoding `a ++ b` gives the elements of `a` followed
    by the elements of `b`, ends the way `b` alone ends (so errors of `b` are reported identically), and `a` alone
    decodes without error. -/
theorem C15_tlv_append {α ε : Type} (sh : Shape) (body : Bytes → Bytes → Except ε (Option α)) (a b : Bytes)
    (ha : WellFormed sh body a) :
    (tlvRun sh body a).stop = .done ∧
    (tlvRun sh body (a ++ b)).vals = (tlvRun sh body a).vals ++ (tlvRun sh body b).vals ∧
    (tlvRun sh body (a ++ b)).stop = (tlvRun sh body b).stop ∧
    (tlvRun sh body (a ++ b)).steps = (tlvRun sh body a).steps + (tlvRun sh body b).steps := by
  obtain ⟨items, hw, hok, rfl⟩ := ha
  have h1 := tlvRun_enc_append sh body items hw b
  have h2 := tlvRun_enc_append sh body items hw []
  rw [walkThen_ok body items hok] at h1 h2
  simp only [List.append_nil, tlvRun_nil] at h2
  rw [h1, h2]
  simp only [Nat.add_zero, and_self]

/-- both sides well-formed: the concatenation is well-formed again (so the statement iterates to k-tuples) -/
theorem C15_tlv_wellformed_append {α ε : Type} (sh : Shape) (body : Bytes → Bytes → Except ε (Option α))
    (a b : Bytes) (ha : WellFormed sh body a) (hb : WellFormed sh body b) : WellFormed sh body (a ++ b) := by
  obtain ⟨xs, hwx, hokx, rfl⟩ := ha
  obtain ⟨ys, hwy, hoky, rfl⟩ := hb
  refine ⟨xs ++ ys, hwx.append hwy, ?_, (enc_append xs ys).symm⟩
  intro hv hm
  rcases List.mem_append.mp hm with h | h
  · exact hokx hv h
  · exact hoky hv h

/-- **a TLV inserted between well-formed `a` and anything**: the others decode to what they decoded to before;
    the inserted TLV contributes exactly its own element (`x = none`: nothing, when the loop skips the type) -/
theorem C15_tlv_insert {α ε : Type} (sh : Shape) (body : Bytes → Bytes → Except ε (Option α)) (a b h u : Bytes)
    (x : Option α) (ha : WellFormed sh body a)
    (hh : h.length = sh.hdr) (hl : sh.len h = u.length) (hx : body h u = .ok x) :
    (tlvRun sh body (a ++ (h ++ u) ++ b)).vals = (tlvRun sh body a).vals ++ x.toList ++ (tlvRun sh body b).vals ∧
    (tlvRun sh body (a ++ (h ++ u) ++ b)).stop = (tlvRun sh body b).stop := by
  have hu : WellFormed sh body (h ++ u) :=
    ⟨[(h, u)], by intro hv hm; simp at hm; subst hm; exact ⟨hh, hl⟩,
      by intro hv hm; simp at hm; subst hm; exact ⟨x, hx⟩, by simp⟩
  have hau := C15_tlv_wellformed_append sh body a (h ++ u) ha hu
  obtain ⟨_, v1, s1, _⟩ := C15_tlv_append sh body (a ++ (h ++ u)) b hau
  obtain ⟨_, v2, _, _⟩ := C15_tlv_append sh body a (h ++ u) ha
  have h3 : (tlvRun sh body (h ++ u)).vals = x.toList := by
    have := tlvRun_item sh body h u [] hh hl
    simp only [List.append_nil, hx, tlvRun_nil] at this
    rw [this]; simp [Run.push]
  rw [v1, v2, h3, s1]
  simp

/-! ### the instances -/

/-- every instance of the code: the bytes after the instance's preamble compose -/
theorem C15_instance_append {α ε : Type} (i : Instance) (_hi : i ∈ instances)
    (body : Bytes → Bytes → Except ε (Option α)) (pre a b : Bytes)
    (hp : pre.length = i.skip) (ha : WellFormed i.shape body a) :
    (i.run body (pre ++ a)).stop = .done ∧
    (i.run body (pre ++ (a ++ b))).vals = (i.run body (pre ++ a)).vals ++ (tlvRun i.shape body b).vals ∧
    (i.run body (pre ++ (a ++ b))).stop = (tlvRun i.shape body b).stop := by
  unfold Instance.run
  rw [← hp, List.drop_left, List.drop_left]
  obtain ⟨h1, h2, h3, _⟩ := C15_tlv_append i.shape body a b ha
  exact ⟨h1, h2, h3⟩

/-- **BGP-LS attribute** (LinkState.unpack): a TLV of a type no class is registered for, between well-formed
    TLVs and anything: rendered as `{'type': t, 'value': hex}`, the others unchanged - for every registry, every
    protocol id and every family of registered decoders -/
theorem C15_ls_attr_unknown_between {α ε : Type} (registered : List Nat) (pro : Option Nat)
    (plain : Nat → Bytes → Except ε α) (withPro : Nat → Bytes → Option Nat → Except ε α)
    (unknown : Nat → Bytes → α) (a b u : Bytes) (t : Nat)
    (ht : t < 65536) (hu : u.length < 65536) (hreg : t ∉ registered)
    (ha : WellFormed tlv22 (lsBody registered pro plain withPro unknown) a) :
    (lsUnpack registered pro plain withPro unknown (a ++ (hdr22 t u.length ++ u) ++ b)).vals =
      (lsUnpack registered pro plain withPro unknown a).vals ++ [unknown t u] ++
      (lsUnpack registered pro plain withPro unknown b).vals ∧
    (lsUnpack registered pro plain withPro unknown (a ++ (hdr22 t u.length ++ u) ++ b)).stop =
      (lsUnpack registered pro plain withPro unknown b).stop := by
  have hx : lsBody registered pro plain withPro unknown (hdr22 t u.length) u = .ok (some (unknown t u)) := by
    simp [lsBody, lsCall, tlv22_typ t u.length ht, hreg]
  have := C15_tlv_insert tlv22 (lsBody registered pro plain withPro unknown) a b (hdr22 t u.length) u
    (some (unknown t u)) ha (hdr22_length _ _) (tlv22_len t u.length hu) hx
  simpa [lsUnpack] using this

/-- the same TLV decodes the same in front, in the middle or at the end: the protocol id and the registry are the
    only context a BGP-LS attribute TLV sees (nothing is carried from one iteration to the next) -/
theorem C15_ls_attr_append {α ε : Type} (registered : List Nat) (pro : Option Nat)
    (plain : Nat → Bytes → Except ε α) (withPro : Nat → Bytes → Option Nat → Except ε α)
    (unknown : Nat → Bytes → α) (a b : Bytes)
    (ha : WellFormed tlv22 (lsBody registered pro plain withPro unknown) a) :
    (lsUnpack registered pro plain withPro unknown (a ++ b)).vals =
      (lsUnpack registered pro plain withPro unknown a).vals ++
      (lsUnpack registered pro plain withPro unknown b).vals ∧
    (lsUnpack registered pro plain withPro unknown (a ++ b)).stop =
      (lsUnpack registered pro plain withPro unknown b).stop := by
  obtain ⟨_, h2, h3, _⟩ := C15_tlv_append tlv22 (lsBody registered pro plain withPro unknown) a b ha
  exact ⟨h2, h3⟩

/-- **BGP-LS NLRI list** (BGPLS.parse): an NLRI of an unknown type between well-formed NLRIs and anything is
    skipped - the list is the one decoded without it -/
theorem C15_nlri_unknown_skipped {α ε : Type} (parseNlri : Nat → Bytes → Except ε α) (a b u : Bytes) (t : Nat)
    (ht : t < 65536) (hu : u.length < 65536) (hk : t ∉ nlriKnown)
    (ha : WellFormed tlv22 (nlriBody parseNlri) a) :
    (tlvRun tlv22 (nlriBody parseNlri) (a ++ (hdr22 t u.length ++ u) ++ b)).vals =
      (tlvRun tlv22 (nlriBody parseNlri) (a ++ b)).vals ∧
    (tlvRun tlv22 (nlriBody parseNlri) (a ++ (hdr22 t u.length ++ u) ++ b)).stop =
      (tlvRun tlv22 (nlriBody parseNlri) (a ++ b)).stop := by
  have hx : nlriBody parseNlri (hdr22 t u.length) u = .ok none := by
    simp [nlriBody, tlv22_typ t u.length ht, hk]
  obtain ⟨v1, s1⟩ := C15_tlv_insert tlv22 (nlriBody parseNlri) a b (hdr22 t u.length) u none ha
    (hdr22_length _ _) (tlv22_len t u.length hu) hx
  obtain ⟨_, v2, s2, _⟩ := C15_tlv_append tlv22 (nlriBody parseNlri) a b ha
  rw [v1, s1, v2, s2]; simp

/-- **registry-dispatched loops without try/except** (BGPPrefixSID.unpack, SRv6L3Service.unpack,
    SRv6SIDInformation.unpack, and the nested sub-TLV loops of 1106/1107/1108/1162): a TLV whose type is not
    registered, between well-formed TLVs and anything -/
theorem C15_reg_unknown_between {α ε : Type} (sh : Shape) (registered : List Nat)
    (dec : Nat → Bytes → Except ε α) (unknown : Nat → Bytes → α) (a b h u : Bytes)
    (hh : h.length = sh.hdr) (hl : sh.len h = u.length) (hreg : sh.typ h ∉ registered)
    (ha : WellFormed sh (regBody sh registered dec unknown) a) :
    (tlvRun sh (regBody sh registered dec unknown) (a ++ (h ++ u) ++ b)).vals =
      (tlvRun sh (regBody sh registered dec unknown) a).vals ++ [unknown (sh.typ h) u] ++
      (tlvRun sh (regBody sh registered dec unknown) b).vals ∧
    (tlvRun sh (regBody sh registered dec unknown) (a ++ (h ++ u) ++ b)).stop =
      (tlvRun sh (regBody sh registered dec unknown) b).stop := by
  have hx : regBody sh registered dec unknown h u = .ok (some (unknown (sh.typ h) u)) := by
    simp [regBody, hreg]
  simpa using C15_tlv_insert sh (regBody sh registered dec unknown) a b h u _ ha hh hl hx

/-- the Prefix-SID attribute itself: any type other than 5 -/
theorem C15_prefix_sid_unknown_between {α ε : Type} (dec : Nat → Bytes → Except ε α) (unknown : Nat → Bytes → α)
    (a b u : Bytes) (t : Nat) (ht : t < 256) (hu : u.length < 65536) (h5 : t ≠ 5)
    (ha : WellFormed tlv12 (regBody tlv12 prefixSidRegistered dec unknown) a) :
    (tlvRun tlv12 (regBody tlv12 prefixSidRegistered dec unknown) (a ++ (hdr12 t u.length ++ u) ++ b)).vals =
      (tlvRun tlv12 (regBody tlv12 prefixSidRegistered dec unknown) a).vals ++ [unknown t u] ++
      (tlvRun tlv12 (regBody tlv12 prefixSidRegistered dec unknown) b).vals := by
  have := (C15_reg_unknown_between tlv12 prefixSidRegistered dec unknown a b (hdr12 t u.length) u
    (hdr12_length _ _) (tlv12_len t u.length hu)
    (by rw [tlv12_typ t u.length ht]; simp [prefixSidRegistered, h5]) ha).1
  rwa [tlv12_typ t u.length ht] at this

/-- **node descriptors** (BGPLS.parse_node_descriptor) build a dict: reading any key from the dict of `a ++ b` gives
    the value from `b` when `b` assigns the key, else the value from `a` -/
theorem C15_node_descriptor_dict {κ β ε : Type} [DecidableEq κ]
    (body : Bytes → Bytes → Except ε (Option (κ × β))) (a b : Bytes) (k : κ)
    (ha : WellFormed tlv22 body a) :
    pyGet k (tlvRun tlv22 body (a ++ b)).vals =
      match pyGet k (tlvRun tlv22 body b).vals with
      | some w => some w
      | none => pyGet k (tlvRun tlv22 body a).vals := by
  rw [(C15_tlv_append tlv22 body a b ha).2.1, pyGet_append]
  cases pyGet k (tlvRun tlv22 body b).vals <;> rfl

/-! ### the BGP-LS attribute inside the attribute list: position is irrelevant -/

/-- **attribute order, BGP-LS part** (Update.parse_attributes as repaired, `if bgpls_attr is not None`).
    For an attribute list with distinct type codes that contains a LINK_STATE attribute with value `b`: whatever
    stands before and after it - in particular whether MP_REACH_NLRI comes earlier or later - the result is an
    error exactly when LinkState.unpack fails on `b` with the protocol id of the list's MP_REACH_NLRI, and otherwise
    the dictionary maps 29 to that decoding and every other code to what it maps to without the BGP-LS attribute. -/
theorem C15_ls_attr_position_irrelevant {β γ ε : Type} (lsDec : Option Nat → Bytes → Except ε γ)
    (pre post : List (Item β)) (b : Bytes)
    (hn : ((pre ++ Item.linkState b :: post).map Item.code).Nodup) :
    match lsDec (proOf (pre ++ post)) b with
    | .ok g =>
        ∃ d, parseAttrsLs false lsDec (pre ++ Item.linkState b :: post) = .ok d ∧
          pyGet 29 d = some (.ls g) ∧
          ∀ k, k ≠ 29 → pyGet k d = pyGet k ((pre ++ post).filterMap (plainOf (γ := γ)))
    | .error e =>
        ∃ part, parseAttrsLs false lsDec (pre ++ Item.linkState b :: post) = .error (e, part) :=
  parseAttrsLs_position lsDec pre post b hn

/-- ... and the right-hand sides do not depend on the order of the other attributes either: for two lists with
    distinct codes that are permutations of each other, protocol id and every dictionary read agree -/
theorem C15_ls_attr_context_perm {β γ : Type} (xs ys : List (Item β)) (hp : xs.Perm ys)
    (hn : (xs.map Item.code).Nodup) :
    proOf xs = proOf ys ∧
    ∀ k, pyGet k (xs.filterMap (plainOf (γ := γ))) = pyGet k (ys.filterMap (plainOf (γ := γ))) :=
  ⟨proOf_perm xs ys hp hn, fun k => pyGet_plain_perm xs ys hp hn k⟩

/-- KNOWN FINDING witness (the code BEFORE the repair, `if bgpls_attr:`): an empty BGP-LS attribute is decoded to
    `{29: []}` when MP_REACH_NLRI (with a protocol id) precedes it and silently dropped when it follows -/
theorem KF_C15_empty_ls_attr_depends_on_order :
    (parseAttrsLs (β := Unit) (ε := Unit) true (fun _ _ => .ok ([] : List Nat))
        [.mpReach () (some 2), .linkState []]).toOption.map (pyGet 29)
      = some (some (.ls []))
    ∧ (parseAttrsLs (β := Unit) (ε := Unit) true (fun _ _ => .ok ([] : List Nat))
        [.linkState [], .mpReach () (some 2)]).toOption.map (pyGet 29)
      = some none := by
  constructor <;> rfl

/-! ### non-vacuity -/

/-- two whole TLVs (node name 1026 "ab", an unknown type 9) are well-formed for a body that accepts everything,
    and for the BGP-LS attribute body with an empty registry -/
example : WellFormed tlv22 (fun h v => (.ok (some (tlv22.typ h, v)) : Except Unit (Option (Nat × Bytes))))
    (enc [(hdr22 1026 2, [97, 98]), (hdr22 9 1, [7])]) :=
  ⟨_, by intro hv hm; simp at hm; rcases hm with rfl | rfl <;> decide,
    by intro hv hm; exact ⟨_, rfl⟩, rfl⟩

example : WellFormed tlv22
    (lsBody (ε := Unit) [] none (fun _ _ => .error ()) (fun _ _ _ => .error ()) (fun t v => (t, v)))
    (enc [(hdr22 1026 2, [97, 98]), (hdr22 9 1, [7])]) :=
  ⟨_, by intro hv hm; simp at hm; rcases hm with rfl | rfl <;> decide,
    by intro hv hm; simp at hm; rcases hm with rfl | rfl <;> exact ⟨_, rfl⟩, rfl⟩

/-- the hypothesis of the order theorem is met by [ORIGIN, LINK_STATE, MP_REACH(pro 2), MED] -/
example : (([Item.other 1 (), Item.linkState [4, 2, 0, 0], Item.mpReach () (some 2), Item.other 4 ()]).map
    Item.code).Nodup := by decide

end Yabgp

#print axioms Yabgp.C15_tlv_append_general
#print axioms Yabgp.C15_tlv_append
#print axioms Yabgp.C15_tlv_wellformed_append
#print axioms Yabgp.C15_tlv_insert
#print axioms Yabgp.C15_instance_append
#print axioms Yabgp.C15_ls_attr_unknown_between
#print axioms Yabgp.C15_ls_attr_append
#print axioms Yabgp.C15_nlri_unknown_skipped
#print axioms Yabgp.C15_reg_unknown_between
#print axioms Yabgp.C15_prefix_sid_unknown_between
#print axioms Yabgp.C15_node_descriptor_dict
#print axioms Yabgp.C15_ls_attr_position_irrelevant
#print axioms Yabgp.C15_ls_attr_context_perm
#print axioms Yabgp.KF_C15_empty_ls_attr_depends_on_order
