/-
  C06 — UPDATE encode/decode round trip for IPv4 unicast and the standard attributes.
  Property theorems only (helper lemmas live in Yabgp/Lemmas).
-/
import Yabgp.Lemmas.UpdateRt

namespace Yabgp

/-- the messages C06 quantifies over: any combination of withdrawn and announced prefixes (every
    length 0..32, network form) and of the supported standard attributes with in-range values, in the
    given AS-width mode; attribute type codes are distinct because the input is a dictionary -/
structure ValidMsg (asn4 addpath : Bool) (m : UpdMsg) : Prop where
  attrs : ∀ kv ∈ m.attr, kv.1 ∈ constructCodes ∧ AttrOk asn4 kv.1 kv.2
  nodup : (keys m.attr).Nodup
  nlri : ∀ p ∈ m.nlri, PfxOk addpath p
  withdraw : ∀ p ∈ m.withdraw, PfxOk addpath p

theorem slice_mid {p x s : Bytes} {i j : Nat} (hi : i = p.length) (hj : j = p.length + x.length) :
    slice (p ++ x ++ s) i j = x := by
  subst hi; subst hj
  unfold slice
  rw [List.take_left' (l₁ := p ++ x) (by simp)]
  exact List.drop_left' rfl

/-- decoding the body of a constructed UPDATE returns exactly the prefixes and attribute values
    given, nothing more and nothing less, and flags no error -/
theorem C06_roundtrip_body (asn4 addpath : Bool) (m : UpdMsg) (body : Bytes)
    (hv : ValidMsg asn4 addpath m) (hc : constructUpdateBody asn4 addpath m = some body) :
    parseUpdate asn4 addpath body =
      some { withdraw := m.withdraw, nlri := m.nlri, attr := m.attr, subError := none } := by
  unfold constructUpdateBody at hc
  cases ha : constructAttributes asn4 m.attr with
  | none => simp [ha] at hc
  | some a =>
  cases hn : constructPrefixV4 addpath m.nlri with
  | none => simp [ha, hn] at hc
  | some n =>
  cases hw : constructPrefixV4 addpath m.withdraw with
  | none => simp [ha, hn, hw] at hc
  | some w =>
  simp only [ha, hn, hw, Option.bind_eq_bind, Option.bind_some, Option.pure_def] at hc
  split at hc
  · rename_i hlen
    simp only [Option.some.injEq] at hc
    subst hc
    have hW := parsePrefixList_enc_all addpath m.withdraw w hv.withdraw hw
    have hN := parsePrefixList_enc_all addpath m.nlri n hv.nlri hn
    have hA := attrLoop_roundtrip asn4 m.attr [] a hv.attrs (by simpa [keys] using hv.nodup) ha
    have e1 : slice (be16 w.length ++ w ++ be16 a.length ++ a ++ n) 0 2 = be16 w.length := by
      simp [slice, be16]
    have e2 : slice (be16 w.length ++ w ++ be16 a.length ++ a ++ n) (w.length + 2) (w.length + 4)
        = be16 a.length := by
      have := slice_mid (p := be16 w.length ++ w) (x := be16 a.length) (s := a ++ n)
        (i := w.length + 2) (j := w.length + 4) (by simp; omega) (by simp; omega)
      simpa [List.append_assoc] using this
    have e3 : slice (be16 w.length ++ w ++ be16 a.length ++ a ++ n) 2 (w.length + 2) = w := by
      have := slice_mid (p := be16 w.length) (x := w) (s := be16 a.length ++ a ++ n)
        (i := 2) (j := w.length + 2) (by simp) (by simp; omega)
      simpa [List.append_assoc] using this
    have e4 : slice (be16 w.length ++ w ++ be16 a.length ++ a ++ n) (w.length + 4) (w.length + 4 + a.length)
        = a := by
      have := slice_mid (p := be16 w.length ++ w ++ be16 a.length) (x := a) (s := n)
        (i := w.length + 4) (j := w.length + 4 + a.length) (by simp; omega) (by simp; omega)
      simpa [List.append_assoc] using this
    have e5 : (be16 w.length ++ w ++ be16 a.length ++ a ++ n).drop (w.length + 4 + a.length) = n := by
      apply List.drop_left'
      simp; omega
    unfold parseUpdate
    simp only [e1, e2, e3, e4, e5, unpackH_be16 hlen.1, unpackH_be16 hlen.2, hW, hN]
    simp only [parseAttributes, hA]
    rfl
  · simp at hc

end Yabgp

namespace Yabgp

/-- the whole message: the header carries the true size and type 2, and the body decodes back -/
theorem C06_roundtrip (asn4 addpath : Bool) (m : UpdMsg) (wire : Bytes)
    (hv : ValidMsg asn4 addpath m) (hc : constructUpdate asn4 addpath m = some wire) :
    ∃ body, wire = marker ++ be16 (body.length + 19) ++ be8 2 ++ body ∧ wire.length = body.length + 19 ∧
      parseUpdate asn4 addpath body =
        some { withdraw := m.withdraw, nlri := m.nlri, attr := m.attr, subError := none } := by
  unfold constructUpdate at hc
  cases hb : constructUpdateBody asn4 addpath m with
  | none => simp [hb] at hc
  | some body =>
    simp only [hb, Option.bind_eq_bind, Option.bind_some, constructHeader, C.msgUpdate] at hc
    split at hc
    · simp only [Option.some.injEq] at hc
      refine ⟨body, hc.symm, ?_, C06_roundtrip_body asn4 addpath m body hv hb⟩
      rw [← hc]; simp [marker]; omega
    · simp at hc

/-- non-vacuity: a concrete message with attributes, an announcement of 10.0.0.0/8, 0.0.0.0/0 and a
    withdrawal meets the hypotheses, and the constructor accepts it -/
example : ValidMsg false false
    { attr := [(1, .origin 0), (2, .asPath [(2, [65001, 1])]), (3, .nextHop 16843009), (8, .community [4294967041])],
      nlri := [{ addr := 167772160, len := 8 }, { addr := 0, len := 0 }],
      withdraw := [{ addr := 3232235776, len := 24 }] } := by
  constructor
  · intro kv hkv
    simp at hkv
    rcases hkv with rfl | rfl | rfl | rfl <;> simp [constructCodes, AttrOk, SegOk, asnOk]
  · decide
  · intro p hp; simp at hp; rcases hp with rfl | rfl <;> simp [PfxOk]
  · intro p hp; simp at hp; subst hp; simp [PfxOk]

example : (constructUpdate false false
    { attr := [(1, .origin 0), (2, .asPath [(2, [65001, 1])]), (3, .nextHop 16843009), (8, .community [4294967041])],
      nlri := [{ addr := 167772160, len := 8 }, { addr := 0, len := 0 }],
      withdraw := [{ addr := 3232235776, len := 24 }] }).isSome = true := by decide

end Yabgp

#print axioms Yabgp.C06_roundtrip
#print axioms Yabgp.C06_roundtrip_body
