import Yabgp.Model.Pmsi
import Yabgp.Model.Construct.SrtePmsi
import Yabgp.Lemmas.EvfRt

namespace Yabgp
open Yabgp.Mp Yabgp.Pmsi Yabgp.Construct

/-- the decoder guesses the family from the magnitude: an IPv6 address comes back as one only from 2^32 on -/
def FamilyKept : Ip → Prop
  | .v4 _ => True
  | .v6 n => p32 ≤ n

/-- the label fits the field it is written to: 20 bits (shifted by 4), 24 bits for a VNI -/
def LabelFits : Overlay → Nat → Prop
  | .mpls, l => l < 1048576
  | .vni, l => l < 16777216
  | .unsupported, _ => True

theorem labelOf_be24 (evpn : Bool) (x : Nat) (hx : x < 16777216) (d : Bytes) (f t : UInt8) :
    parse evpn (f :: t :: (be24 x ++ d)) =
      (parseTunnelId t.toNat d).map (fun tid => ⟨f.toNat, t.toNat, if evpn then x else x / 16, tid⟩) := by
  simp only [be24, List.cons_append, List.nil_append, parse, labelOf, u8_toNat_mod]
  have : x / 65536 % 256 * 65536 + x / 256 % 256 * 256 + x % 256 = x := by omega
  rw [this]
  cases parseTunnelId t.toNat d <;> rfl

theorem tunnelId_packed (a : Ip) (tb : Bytes) (h : packedOk a = some tb)
    (hfam : FamilyKept a) :
    parseTunnelId 6 tb = some (.ip a) := by
  unfold parseTunnelId
  simp only [show (6 : Nat) ≠ 0 by decide, if_false, if_true]
  cases a with
  | v4 n =>
    simp only [packedOk] at h
    split at h
    · rename_i hn
      simp only [Option.some.injEq] at h
      subst h
      have hne : be32 n ≠ [] := by simp [be32]
      have hv : beVal (be32 n) = n := by
        rw [be32_eq_beN]; exact beVal_beN_lt (by unfold p32 at hn; omega)
      simp [intOfBytes, hne, hv, ipOfInt, hn]
    · cases h
  | v6 n =>
    simp only [packedOk] at h
    split at h
    · rename_i hn
      simp only [Option.some.injEq] at h
      subst h
      have hne : beN 16 n ≠ [] := beN_ne_nil (by decide)
      have hv : beVal (beN 16 n) = n := beVal_beN_lt (by unfold p128 at hn; omega)
      have h32 : ¬ n < p32 := by simp only [FamilyKept] at hfam; omega
      simp [intOfBytes, hne, hv, ipOfInt, hn, h32]
    · cases h

/-- **PMSI round trip** (decoder model after constructor model): what `PMSITunnel.construct` writes for an ingress-replication
    tunnel (type 6, the only type it can write) is decoded back to the same flag, type, label and address, with the label read
    the way it was written (`<< 4` for MPLS, as it is for a VXLAN / NVGRE overlay) - provided the label fits its field
    (20 bits, 24 for a VNI; the constructor silently keeps the low 24 bits of a larger one) and the address is not an IPv6
    address below 2^32 (the decoder guesses the family from the magnitude, see the example in Props/C11p.lean). -/
theorem C11_pmsi_roundtrip (o : Overlay) (leaf l : Nat) (a : Ip) (w : Bytes)
    (hc : constructPmsi o leaf 6 (some l) (some a) = some w)
    (hl : LabelFits o l) (hfam : FamilyKept a) :
    parse (o == .vni) (w.drop 3) = some ⟨leaf, 6, l, .ip a⟩ := by
  unfold constructPmsi at hc
  simp only at hc
  cases hlb : constructPmsiLabel o l with
  | none => simp [hlb] at hc
  | some lb =>
    cases htb : packedOk a with
    | none => simp [hlb, htb] at hc
    | some tb =>
      simp only [hlb, htb] at hc
      split at hc
      · rename_i hleaf
        simp only [Option.some.injEq] at hc
        subst hc
        have htid := tunnelId_packed a tb htb hfam
        cases o with
        | unsupported => simp [constructPmsiLabel] at hlb
        | mpls =>
          simp only [constructPmsiLabel, low24] at hlb
          split at hlb
          · simp only [Option.some.injEq] at hlb
            subst hlb
            simp only [be8, List.cons_append, List.nil_append, List.drop_succ_cons, List.drop_zero]
            have := labelOf_be24 false (l * 16) (by simp only [LabelFits] at hl; omega) tb (u8 leaf) (u8 6)
            have hb : (Overlay.mpls == Overlay.vni) = false := by decide
            rw [hb]
            rw [this]
            have h6 : (u8 6).toNat = 6 := u8_toNat (by decide)
            rw [h6, htid, u8_toNat hleaf.1]
            simp
          · cases hlb
        | vni =>
          simp only [constructPmsiLabel, low24] at hlb
          split at hlb
          · simp only [Option.some.injEq] at hlb
            subst hlb
            simp only [be8, List.cons_append, List.nil_append, List.drop_succ_cons, List.drop_zero]
            have := labelOf_be24 true l (by simpa only [LabelFits] using hl) tb (u8 leaf) (u8 6)
            have hb : (Overlay.vni == Overlay.vni) = true := by decide
            rw [hb]
            rw [this]
            have h6 : (u8 6).toNat = 6 := u8_toNat (by decide)
            rw [h6, htid, u8_toNat hleaf.1]
            simp
          · cases hlb
      · cases hc

example : constructPmsi .mpls 1 6 (some 1000) (some (.v4 3232238090)) = some ([0xC0, 22, 9, 1, 6, 0, 0x3e, 0x80, 192, 168, 10, 10]) ∧
    LabelFits .mpls 1000 ∧ FamilyKept (.v4 3232238090) :=
  ⟨by decide, by simp [LabelFits], trivial⟩

end Yabgp
#print axioms Yabgp.C11_pmsi_roundtrip
