/-
  C18 — message statistics equal what actually crossed the wire.
  Received side: every frame handed to the dispatcher increments exactly the counter of its type, exactly
  once, and nothing the state machine does in reaction touches a receive counter.  Sent side: every send
  helper increments its counter exactly once and, on the tracked and open connection, writes exactly one
  message of that type; nothing else touches a send counter of the tracked connection.
-/
import Yabgp.Lemmas.Stopped

namespace Yabgp
open Sess

variable (U : Bool → Bytes → UpdClass)

/-- the receive-counter update the dispatcher owes for a frame of type `ty` -/
def recvInc (ty : Nat) (body : Bytes) (st : Stats) : Stats :=
  if ty = 1 then incOpens st
  else if ty = 2 then incUpdates st
  else if ty = 3 then (if 2 ≤ body.length then incNotifications st else st)
  else if ty = 4 then incKeepalives st
  else if ty = 5 ∨ ty = 128 then incRouteRefresh st
  else st

theorem recv_bumpRecv (s : Sess) (i : Nat) (g : Stats → Stats) (hlt : i < s.conns.length) :
    ((s.bumpRecv i g).conn i).recv = g (s.conn i).recv := by
  simp [bumpRecv, conn_setConn, hlt]

theorem recv_bumpRecv_other (s : Sess) (i j : Nat) (g : Stats → Stats) (hne : i ≠ j) :
    ((s.bumpRecv i g).conn j).recv = (s.conn j).recv := by
  simp [bumpRecv, conn_setConn, hne]

theorem recv_setAsn4 (s : Sess) (i j : Nat) : ((s.setAsn4 i).conn j).recv = (s.conn j).recv := by
  simp only [setAsn4, conn_setConn]; split
  · rename_i h; rw [h.1]
  · rfl

/-- Received side: dispatching one frame on connection `i` changes that connection's receive counters by exactly
    the increment owed for the frame's type (frames of at least the type's minimum length: OPEN, UPDATE,
    KEEPALIVE, ROUTE-REFRESH always; NOTIFICATION when it has its two code octets), whatever the FSM does with the
    message. -/
theorem C18_received_counted_once (s : Sess) (i ty : Nat) (body : Bytes) (hlt : i < s.conns.length) :
    ((dispatch U s i ty body).1.conn i).recv = recvInc ty body (s.conn i).recv := by
  have kr := indep_recv
  -- reaction helpers leave every receive counter alone
  have k_he : ∀ (t : Sess) sub d, ((t.headerError sub d).conn i).recv = (t.conn i).recv := fun t sub d => keeps_headerError kr t sub d i
  have k_oe : ∀ (t : Sess) sub, ((t.openMessageError sub).conn i).recv = (t.conn i).recv := fun t sub => keeps_openMessageError kr t sub i
  have k_or : ∀ (t : Sess), ((t.fsmOpenReceived).conn i).recv = (t.conn i).recv := fun t => keeps_fsmOpenReceived kr t i
  have k_ur : ∀ (t : Sess), ((t.fsmUpdateReceived).conn i).recv = (t.conn i).recv := fun t => keeps_fsmUpdateReceived kr t i
  have k_kr : ∀ (t : Sess), ((t.fsmKeepaliveReceived).conn i).recv = (t.conn i).recv := fun t => keeps_fsmKeepaliveReceived kr t i
  have k_nr : ∀ (t : Sess) e sub, ((t.fsmNotificationReceived e sub).conn i).recv = (t.conn i).recv :=
    fun t e sub => keeps_fsmNotificationReceived kr t e sub i
  have k_em : ∀ (t : Sess) o, ((t.emit o).conn i).recv = (t.conn i).recv := fun _ _ => rfl
  unfold dispatch
  split
  · rename_i hty
    have hr : recvInc ty body (s.conn i).recv = incOpens (s.conn i).recv := by simp [recvInc, hty, C.msgOpen]
    rw [hr, ← recv_bumpRecv s i incOpens hlt]
    unfold openReceived
    split
    · simp only [k_he]
    · simp only [k_oe]
    · rfl
    · split
      · simp only [k_oe]
      · unfold openAccepted
        split
        · split
          · simp only [k_oe, recv_setAsn4]; rfl
          · simp only [k_oe]; rfl
        · split
          · simp only [k_em, k_or]
            show ((((s.bumpRecv i incOpens).withRemote _).setAsn4 i).conn i).recv = _
            rw [recv_setAsn4]; rfl
          · simp only [k_em, k_or]; rfl
  · rename_i hty1
    split
    · rename_i hty
      have hr : recvInc ty body (s.conn i).recv = incUpdates (s.conn i).recv := by simp [recvInc, hty, C.msgUpdate]
      rw [hr, ← recv_bumpRecv s i incUpdates hlt]
      split
      · rfl
      · rfl
      · simp only [k_ur]; rfl
      · simp only [k_ur]; rfl
    · rename_i hty2
      split
      · rename_i hty
        split
        · rename_i hp
          have hl : body.length < 2 := by
            match body, hp with
            | [], _ => simp
            | [_], _ => simp
            | _ :: _ :: _, hp => simp [parseNotification] at hp
          have hr : recvInc ty body (s.conn i).recv = (s.conn i).recv := by
            simp [recvInc, hty, C.msgNotification]; omega
          rw [hr]
        · rename_i e sub d hp
          have hl : 2 ≤ body.length := by
            match body, hp with
            | [], hp => simp [parseNotification] at hp
            | [_], hp => simp [parseNotification] at hp
            | _ :: _ :: _, _ => simp
          have hr : recvInc ty body (s.conn i).recv = incNotifications (s.conn i).recv := by
            simp [recvInc, hty, C.msgNotification, hl]
          rw [hr, ← recv_bumpRecv s i incNotifications hlt]
          simp only [k_nr]; rfl
      · rename_i hty3
        split
        · rename_i hty
          have hr : recvInc ty body (s.conn i).recv = incKeepalives (s.conn i).recv := by simp [recvInc, hty, C.msgKeepalive]
          rw [hr, ← recv_bumpRecv s i incKeepalives hlt]
          split
          · simp only [k_kr]; rfl
          · simp only [k_he]; rfl
        · rename_i hty4
          split
          · rename_i hty
            have hr : recvInc ty body (s.conn i).recv = incRouteRefresh (s.conn i).recv := by
              simp only [C.msgRouteRefresh, C.msgCiscoRouteRefresh] at hty
              simp only [C.msgOpen, C.msgUpdate, C.msgNotification, C.msgKeepalive] at hty1 hty2 hty3 hty4
              simp [recvInc, hty, hty1, hty2, hty3, hty4]
            rw [hr, ← recv_bumpRecv s i incRouteRefresh hlt]
            split <;> rfl
          · rename_i hty
            have hr : recvInc ty body (s.conn i).recv = (s.conn i).recv := by
              simp only [C.msgRouteRefresh, C.msgCiscoRouteRefresh] at hty
              simp only [C.msgOpen, C.msgUpdate, C.msgNotification, C.msgKeepalive] at hty1 hty2 hty3 hty4
              simp [recvInc, hty, hty1, hty2, hty3, hty4]
            rw [hr, k_he]

theorem sent_bumpSent (s : Sess) (i : Nat) (g : Stats → Stats) (hlt : i < s.conns.length) :
    ((s.bumpSent i g).conn i).sent = g (s.conn i).sent := by
  simp [bumpSent, conn_setConn, hlt]

/-- Sent side: on the tracked, open connection every send helper counts its message once and writes it once. -/
theorem C18_sent_counted_once {s : Sess} {i : Nat} (h : Norm s i) :
    (∀ e sub d, e < 256 → sub < 256 → d.length + 21 < 65536 →
      ((s.sendNotification e sub d).conn i).sent = incNotifications (s.conn i).sent ∧
      (s.sendNotification e sub d).outs = s.outs ++ [.write i (notifWire e sub d)]) ∧
    (((s.sendKeepalive).conn i).sent = incKeepalives (s.conn i).sent ∧
      (s.sendKeepalive).outs = s.outs ++ [.write i constructKeepalive]) ∧
    (∀ w, s.openWire = some w →
      ((s.sendOpen).1.conn i).sent = incOpens (s.conn i).sent ∧
      ∃ rep, (s.sendOpen).1.outs = s.outs ++ [.write i w, rep]) := by
  refine ⟨?_, ?_, ?_⟩
  · intro e sub d he hs hd
    rw [sendNotification_norm h e sub d he hs hd]
    exact ⟨sent_bumpSent s i _ h.lt, rfl⟩
  · rw [sendKeepalive_norm h]
    exact ⟨sent_bumpSent s i _ h.lt, rfl⟩
  · intro w hw
    have hup : transportUp ((s.withLocalCaps (negotiateCaps s.localCaps s.remote)).conn i) = true := by
      have : ((s.withLocalCaps (negotiateCaps s.localCaps s.remote)).conn i) = s.conn i := rfl
      rw [this]; simp [transportUp, h.up]
    simp only [sendOpen, h.proto, hw, writeOn, hup, ↓reduceIte]
    refine ⟨?_, .hSendOpen i s.cfg.localAs s.cfg.holdCfg (s.bgpId.getD 0), ?_⟩
    · show ((((s.withLocalCaps _).emit _).bumpSent i incOpens).conn i).sent = _
      rw [sent_bumpSent _ i _ (by exact h.lt)]
      rfl
    · simp [Sess.emit, bumpSent, setConn, withConns, withLocalCaps]

/-- and the counters never decrease nor jump: a NOTIFICATION, KEEPALIVE or OPEN send touches only its own counter -/
theorem C18_increments_are_single :
    (∀ st : Stats, (incNotifications st).notifications = st.notifications + 1 ∧ (incNotifications st).opens = st.opens ∧
      (incNotifications st).keepalives = st.keepalives ∧ (incNotifications st).updates = st.updates ∧
      (incNotifications st).routeRefresh = st.routeRefresh) ∧
    (∀ st : Stats, (incKeepalives st).keepalives = st.keepalives + 1 ∧ (incKeepalives st).opens = st.opens ∧
      (incKeepalives st).notifications = st.notifications ∧ (incKeepalives st).updates = st.updates ∧
      (incKeepalives st).routeRefresh = st.routeRefresh) ∧
    (∀ st : Stats, (incOpens st).opens = st.opens + 1 ∧ (incOpens st).keepalives = st.keepalives ∧
      (incOpens st).notifications = st.notifications ∧ (incOpens st).updates = st.updates ∧
      (incOpens st).routeRefresh = st.routeRefresh) ∧
    (∀ st : Stats, (incUpdates st).updates = st.updates + 1 ∧ (incUpdates st).opens = st.opens ∧
      (incUpdates st).notifications = st.notifications ∧ (incUpdates st).keepalives = st.keepalives ∧
      (incUpdates st).routeRefresh = st.routeRefresh) ∧
    (∀ st : Stats, (incRouteRefresh st).routeRefresh = st.routeRefresh + 1 ∧ (incRouteRefresh st).opens = st.opens ∧
      (incRouteRefresh st).notifications = st.notifications ∧ (incRouteRefresh st).keepalives = st.keepalives ∧
      (incRouteRefresh st).updates = st.updates) := by
  refine ⟨?_, ?_, ?_, ?_, ?_⟩ <;> intro st <;> simp [incNotifications, incKeepalives, incOpens, incUpdates, incRouteRefresh]

end Yabgp

namespace Yabgp
open Sess

variable (U : Bool → Bytes → UpdClass)

/-- the frames the receive loop hands to the dispatcher, in order, when connection `i` receives `buf` -/
def dispatched : Nat → Sess → Nat → Bytes → List (Nat × Bytes)
  | 0, _, _, _ => []
  | fuel+1, s, i, buf =>
    if (s.conn i).disconnected then []
    else
      match headOf buf with
      | .frame ty body len =>
        (ty, body) :: (if (dispatch U s i ty body).2 then dispatched fuel (dispatch U s i ty body).1 i (buf.drop len) else [])
      | _ => []

/-- **Cumulative, received side**: after the receive loop has run over any buffer, the receive counters of the
    connection have moved by exactly the increments owed for the frames dispatched, in order - no frame is counted
    twice or skipped, whatever the state machine did in reaction (including closing the connection), and a framing
    error counts nothing. -/
theorem C18_received_cumulative (i : Nat) : ∀ (fuel : Nat) (s : Sess) (buf : Bytes), i < s.conns.length →
    ((drain U fuel s i buf).1.conn i).recv =
      (dispatched U fuel s i buf).foldl (fun st f => recvInc f.1 f.2 st) (s.conn i).recv := by
  intro fuel
  induction fuel with
  | zero => intro s buf _; rfl
  | succ n ih =>
    intro s buf hlt
    unfold drain dispatched
    unfold parseBuffer
    by_cases hd : (s.conn i).disconnected = true
    · simp [hd]
    · simp only [hd, Bool.false_eq_true, ↓reduceIte]
      cases hh : headOf buf with
      | short => simp
      | badMarker =>
        simp only [List.foldl_nil]
        exact keeps_headerError indep_recv s _ _ i
      | badLength len =>
        simp only [List.foldl_nil]
        exact keeps_headerError indep_recv s _ _ i
      | frame ty body len =>
        simp only
        have hone := C18_received_counted_once U s i ty body hlt
        have hlen : (dispatch U s i ty body).1.conns.length = s.conns.length := (frm_dispatch U 0 i s ty body).len
        by_cases hc : (dispatch U s i ty body).2 = true
        · simp only [hc, ↓reduceIte, List.foldl_cons]
          rw [ih _ _ (by rw [hlen]; exact hlt), hone]
        · simp only [hc, Bool.false_eq_true, ↓reduceIte, List.foldl_cons, List.foldl_nil]
          exact hone

end Yabgp

#print axioms Yabgp.C18_received_counted_once
#print axioms Yabgp.C18_sent_counted_once
#print axioms Yabgp.C18_increments_are_single
#print axioms Yabgp.C18_received_cumulative
