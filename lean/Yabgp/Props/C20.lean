/-
  C20 — the on-disk message log stays well-formed and gap-free across rotation, restart and crash.
  Property theorems only (helper lemmas live in Yabgp/Lemmas/MsgLogLemmas.lean).

  Model: Yabgp/Model/MsgLog.lean (default_handler.py as repaired by "fix: recover the message log after a crash
  ..."), specification: the audit of Yabgp/Spec/LogSpec.lean, read from the model's directory through
  Model/MsgLogView.lean.  All statements are for EVERY rotation threshold and EVERY list of operations
  (clock ticks, events of any type and size, size checks, crashes at any byte offset of a write, restarts, in
  any order, starting from the empty directory).
  The `KF_` theorems show on shortest histories that the start-up code of the pinned tree (restartOrig)
  violates the property in the three ways the repair addresses.
-/
import Yabgp.Lemmas.MsgLogLemmas

namespace Yabgp
open MsgLog

/-- The invariant behind C20 holds after every history: files in name order, every line a record, numbers
    1, 2, 3, ... across the files, unterminated bytes only at the end of the newest file and only while no
    handler runs, the running handler's next number = number of lines + 1 and its file is the newest. -/
theorem C20_invariant (maxSize : Nat) (ops : List Op) : SInv (run maxSize MsgLog.empty ops) :=
  sinv_run maxSize ops MsgLog.empty sinv_empty

/-- The audit holds after every history: reading the files in the order of their names, every line is one
    complete record, the sequence numbers are 1, 2, 3, ... with no gap and no repetition across rotations,
    restarts and crashes, and bytes without a newline exist only as the fragment a crash left at the end of
    the newest file while no handler is running. -/
theorem C20_gapfree (maxSize : Nat) (ops : List Op) :
    LogSpec.audit (view (run maxSize MsgLog.empty ops).fs) (run maxSize MsgLog.empty ops).h.isSome = true :=
  audit_of_sinv (C20_invariant maxSize ops)

/-- A start never refuses because of the handler's own log: after every history (ending in a crash at any
    offset or not) a start succeeds, and the directory it leaves passes the audit for a running handler. -/
theorem C20_restart_total (maxSize : Nat) (ops : List Op) :
    (step maxSize (run maxSize MsgLog.empty ops) .restart).refused = false ∧
    (step maxSize (run maxSize MsgLog.empty ops) .restart).h.isSome = true ∧
    LogSpec.audit (view (step maxSize (run maxSize MsgLog.empty ops) .restart).fs) true = true := by
  obtain ⟨h1, _, h3, h4⟩ := restart_spec _ (C20_invariant maxSize ops)
  refine ⟨h4, h3, ?_⟩
  have := audit_of_sinv h1
  unfold auditWorld at this
  rw [h3] at this
  exact this

/-- Recovery neither reuses nor skips a number: after a start the handler's next number is the number of
    complete records on the disk plus one, it appends to the newest file, and no file ends in bytes
    without a newline (so the next record is on a line of its own). -/
theorem C20_recovery_next_number (maxSize : Nat) (ops : List Op) (h : Handler)
    (hh : (step maxSize (run maxSize MsgLog.empty ops) .restart).h = some h) :
    h.seq = (allLines (run maxSize MsgLog.empty ops).fs).length + 1 ∧
    (∀ f ∈ (step maxSize (run maxSize MsgLog.empty ops) .restart).fs, f.tail = none) ∧
    (step maxSize (run maxSize MsgLog.empty ops) .restart).fs.getLast?.map (·.name) = some h.cur ∧
    allLines (step maxSize (run maxSize MsgLog.empty ops) .restart).fs = allLines (run maxSize MsgLog.empty ops).fs := by
  obtain ⟨h1, h2, _, _⟩ := restart_spec _ (C20_invariant maxSize ops)
  have hr := h1.run h hh
  refine ⟨?_, hr.1, hr.2.2, h2⟩
  have := hr.2.1
  rw [h2] at this
  exact this

/-- Every reported event appends exactly one line, a complete record carrying the next number, and nothing
    else changes in the log: in any reachable state with a running handler. -/
theorem C20_event_one_line (maxSize : Nat) (ops : List Op) (ty plen : Nat) (h : Handler)
    (hh : (run maxSize MsgLog.empty ops).h = some h) :
    allLines (step maxSize (run maxSize MsgLog.empty ops) (.event ty plen)).fs
      = allLines (run maxSize MsgLog.empty ops).fs ++
          [.record { seq := (allLines (run maxSize MsgLog.empty ops).fs).length + 1, ty := ty,
                     len := plen + digits ((allLines (run maxSize MsgLog.empty ops).fs).length + 1) }] := by
  have := (step_spec maxSize _ (.event ty plen) (C20_invariant maxSize ops)).2.1
  rw [this, hh]
  simp [emit]

/-- the log a history must leave behind, computed from the history alone: one record per event reported while
    a handler runs (and per write that a crash let through completely), numbered consecutively; nothing for
    ticks, size checks, restarts, torn writes, or events while no handler runs -/
def reported : Bool → Nat → List Op → List Line
  | _, _, [] => []
  | alive, n, op :: ops => emit alive n op ++ reported (aliveAfter alive op) (n + (emit alive n op).length) ops

theorem reported_from (maxSize : Nat) : ∀ (ops : List Op) (w : World), SInv w →
    allLines (run maxSize w ops).fs = allLines w.fs ++ reported w.h.isSome (allLines w.fs).length ops := by
  intro ops
  induction ops with
  | nil => intro w _; simp [run, reported]
  | cons op r ih =>
    intro w hw
    obtain ⟨h1, h2, h3⟩ := step_spec maxSize w op hw
    simp only [run, reported]
    rw [ih _ h1, h2, h3, List.length_append, List.append_assoc]

/-- The log is exactly the reported history: after every history the lines on disk, read across all files in
    name order, are precisely the records of the events that were reported, in order - no line is lost by a
    rotation or a recovery, none is duplicated, nothing else is ever written. -/
theorem C20_log_is_history (maxSize : Nat) (ops : List Op) :
    allLines (run maxSize MsgLog.empty ops).fs = reported false 0 ops := by
  have := reported_from maxSize ops MsgLog.empty sinv_empty
  simpa [MsgLog.empty, allLines] using this

/-! ### non-vacuity -/

/-- a history with two rotations, a torn write, a recovery and further events: three files, five records,
    the torn fragment gone, the handler continues with 6 -/
example :
    run 100 MsgLog.empty
      [.restart, .event 1 70, .tick 1, .event 2 70, .rotateCheck, .tick 1, .event 2 70, .event 2 70, .rotateCheck,
       .crash 2 70 17, .restart, .event 3 40, .rotateCheck]
    = { fs := [{ name := 0, lines := [.record ⟨1, 1, 71⟩, .record ⟨2, 2, 71⟩], tail := none },
               { name := 1, lines := [.record ⟨3, 2, 71⟩, .record ⟨4, 2, 71⟩], tail := none },
               { name := 2, lines := [.record ⟨5, 3, 41⟩], tail := none }],
        clock := 2, h := some { seq := 6, cur := 2 }, refused := false } := by decide

/-- before the restart the torn fragment is on the disk (17 bytes after the last newline of the newest file) -/
example :
    (run 100 MsgLog.empty
      [.restart, .event 1 70, .tick 1, .event 2 70, .rotateCheck, .tick 1, .event 2 70, .event 2 70, .rotateCheck,
       .crash 2 70 17]).fs.map (fun f => (f.name, tailBytes f.tail))
    = [(0, 0), (1, 0), (2, 17)] := by decide

/-- the audit is not trivially true: it rejects a repeated number, a gap, a broken line, a torn fragment under a
    running handler and a torn fragment in an older file -/
example : LogSpec.audit [⟨0, [.record 1, .record 2], 0⟩, ⟨1, [.record 1], 0⟩] true = false := by decide
example : LogSpec.audit [⟨0, [.record 1, .record 3], 0⟩] true = false := by decide
example : LogSpec.audit [⟨0, [.record 1, .broken], 0⟩] false = false := by decide
example : LogSpec.audit [⟨0, [.record 1], 4⟩] true = false := by decide
example : LogSpec.audit [⟨0, [.record 1], 4⟩, ⟨1, [], 0⟩] false = false := by decide
example : LogSpec.audit [⟨1, [.record 3], 0⟩, ⟨0, [.record 1, .record 2], 0⟩] true = true := by decide

/-- the model's start-up CAN refuse (sys.exit): on a directory the handler did not write -/
example : (restart { fs := [{ name := 0, lines := [.junk 10], tail := none }], clock := 5, h := none, refused := false }).refused
    = true := by decide

/-! ### the start-up code of the pinned tree violates the property (known findings, repaired by the fix) -/

/-- a crash in the middle of a write (5 bytes of the record arrived): the pinned start-up ends in sys.exit() -/
theorem KF_C20_orig_torn_tail_refuses :
    (runOrig 1000 MsgLog.empty [.restart, .crash 2 60 5, .restart]).refused = true ∧
    (run 1000 MsgLog.empty [.restart, .crash 2 60 5, .restart]).refused = false := by decide

/-- a restart right after a rotation (the newest file is empty): the pinned start-up begins again at 1 -/
theorem KF_C20_orig_empty_newest_reuses :
    auditWorld (runOrig 1 MsgLog.empty [.restart, .tick 1, .event 2 60, .rotateCheck, .restart, .event 2 60]) = false ∧
    allLines (runOrig 1 MsgLog.empty [.restart, .tick 1, .event 2 60, .rotateCheck, .restart, .event 2 60]).fs
      = [.record ⟨1, 2, 61⟩, .record ⟨1, 2, 61⟩] ∧
    allLines (run 1 MsgLog.empty [.restart, .tick 1, .event 2 60, .rotateCheck, .restart, .event 2 60]).fs
      = [.record ⟨1, 2, 61⟩, .record ⟨2, 2, 61⟩] := by decide

/-- the whole JSON text arrived but its newline did not: the pinned start-up accepts it and the next record
    lands on the same line -/
theorem KF_C20_orig_missing_newline_joins :
    auditWorld (runOrig 1000 MsgLog.empty [.restart, .crash 2 60 61, .restart, .event 2 60]) = false ∧
    allLines (runOrig 1000 MsgLog.empty [.restart, .crash 2 60 61, .restart, .event 2 60]).fs = [.junk 122] ∧
    allLines (run 1000 MsgLog.empty [.restart, .crash 2 60 61, .restart, .event 2 60]).fs = [.record ⟨1, 2, 61⟩] := by
  decide

end Yabgp

#print axioms Yabgp.C20_invariant
#print axioms Yabgp.C20_gapfree
#print axioms Yabgp.C20_restart_total
#print axioms Yabgp.C20_recovery_next_number
#print axioms Yabgp.C20_event_one_line
#print axioms Yabgp.C20_log_is_history
#print axioms Yabgp.KF_C20_orig_torn_tail_refuses
#print axioms Yabgp.KF_C20_orig_empty_newest_reuses
#print axioms Yabgp.KF_C20_orig_missing_newline_joins
