/-
  C11 for the PMSI tunnel decoder (Model/Pmsi.lean, straight-line code: termination is by construction, the theorems
  say exactly WHEN it raises - every such exception is caught by Update.parse_attributes - and what it returns).
-/
import Yabgp.Model.Pmsi

namespace Yabgp
open Yabgp.Mp Yabgp.Pmsi

/-- the tunnel identifier decoder raises exactly for tunnel type 6 with no octets or a value of 2^128 or more -/
theorem C11_pmsi_tunnel_id_raises_iff (t : Nat) (d : Bytes) :
    parseTunnelId t d = none ↔ t = 6 ∧ (d = [] ∨ p128 ≤ beVal d) := by
  unfold parseTunnelId
  by_cases h0 : t = 0
  · subst h0; simp
  · rw [if_neg h0]
    by_cases h6 : t = 6
    · subst h6
      simp only [if_true, true_and]
      unfold intOfBytes
      by_cases hd : d = []
      · simp [hd]
      · rw [if_neg hd]
        simp only [hd, false_or]
        unfold ipOfInt
        by_cases h32 : beVal d < p32
        · have : beVal d < p128 := by unfold p32 at h32; unfold p128; omega
          simp [h32]; omega
        · rw [if_neg h32]
          by_cases h128 : beVal d < p128
          · simp [h128]
          · simp [h128]; omega
    · rw [if_neg h6]; simp [h6]

/-- **C11 (PMSI)**: the exact set of values on which `PMSITunnel.parse` raises: fewer than the five fixed octets, or
    tunnel type 6 with an empty identifier or one of 2^128 or more.  On every other value it returns. -/
theorem C11_pmsi_raises_iff (evpn : Bool) (v : Bytes) :
    parse evpn v = none ↔
      v.length < 5 ∨ ((v.getD 1 0).toNat = 6 ∧ (v.length = 5 ∨ p128 ≤ beVal (v.drop 5))) := by
  match v with
  | [] => simp [parse]
  | [_] => simp [parse]
  | [_, _] => simp [parse]
  | [_, _, _] => simp [parse]
  | [_, _, _, _] => simp [parse]
  | f :: t :: a :: b :: c :: d =>
    have key := C11_pmsi_tunnel_id_raises_iff t.toNat d
    simp only [parse, List.length_cons, List.drop_succ_cons, List.drop_zero, List.getD_cons_succ, List.getD_cons_zero]
    cases hp : parseTunnelId t.toNat d with
    | none =>
      have := key.mp hp
      simp only [true_iff]
      right
      refine ⟨this.1, ?_⟩
      rcases this.2 with h | h
      · left; simp [h]
      · right; exact h
    | some tid =>
      simp only [reduceCtorEq, false_iff]
      intro h
      rcases h with h | ⟨h6, h⟩
      · omega
      · have : parseTunnelId t.toNat d = none := key.mpr ⟨h6, by
          rcases h with h | h
          · left; exact List.eq_nil_of_length_eq_zero (by omega)
          · right; exact h⟩
        rw [this] at hp; cases hp

/-- what it returns: the first two octets as they are, the 24 label bits (shifted by 4 unless EVPN overlay), and for
    every tunnel type other than 0 and 6 the text 'not supported' whatever follows -/
theorem C11_pmsi_fields (evpn : Bool) (f t a b c : UInt8) (d : Bytes) (r : Val)
    (h : parse evpn (f :: t :: a :: b :: c :: d) = some r) :
    r.leaf = f.toNat ∧ r.ttype = t.toNat ∧ r.label = labelOf evpn a b c ∧
    (t.toNat = 0 → r.tid = .absent) ∧ (t.toNat ≠ 0 → t.toNat ≠ 6 → r.tid = .notSupported) := by
  simp only [parse] at h
  cases hp : parseTunnelId t.toNat d with
  | none => rw [hp] at h; cases h
  | some tid =>
    rw [hp] at h
    simp only [Option.some.injEq] at h
    subst h
    refine ⟨rfl, rfl, rfl, ?_, ?_⟩
    · intro h0; simp [parseTunnelId, h0] at hp; exact hp.symm
    · intro h0 h6; simp [parseTunnelId, h0, h6] at hp; exact hp.symm

/-- the decoder never looks at the length of the identifier: a 16-octet (IPv6) identifier below 2^32 comes back as an
    IPv4 address - transcribed as the code is, and compared with the code by the `decoders` suite -/
example : parse false ([0, 6, 0, 1, 0x01] ++ zeros 15 ++ [1]) = some ⟨0, 6, 16, .ip (.v4 1)⟩ := by decide

example : parse true [1, 0, 0, 0, 100] = some ⟨1, 0, 100, .absent⟩ := by decide
example : parse false [0, 6, 0, 0, 0] = none := by decide
example : parse false [0, 7, 0, 0, 0, 9, 9] = some ⟨0, 7, 0, .notSupported⟩ := by decide

end Yabgp

#print axioms Yabgp.C11_pmsi_tunnel_id_raises_iff
#print axioms Yabgp.C11_pmsi_raises_iff
#print axioms Yabgp.C11_pmsi_fields
