/-
  C07 (part b) - multiprotocol NLRI round trip for EVPN route types 1-4 and IPv4 flow specifications inside
  MP_REACH_NLRI / MP_UNREACH_NLRI, and the C15 compositionality of the EVPN route list and of the flowspec
  rule / component lists.  Property theorems only (helper lemmas live in Yabgp/Lemmas/EvfRt.lean).

  The models are those of the code AFTER the repairs fix_1 .. fix_6 (ESI type 3 width, address family by field
  size, '&' items, value widths, prefix length 0, extended NLRI length).  What the code still does not do is
  stated as `KF_flowspec_component_not_encoded` below.
-/
import Yabgp.Lemmas.EvfRt

namespace Yabgp
open Yabgp.Evpn Yabgp.Flowspec Yabgp.Evf

/-! ## EVPN -/

/-- route type 1 (Ethernet auto-discovery): every RD type 0/1/2, every ESI type 0..5, any tag, any non-empty
    label stack of 20-bit labels - construct succeeds and the value decodes back to exactly itself -/
theorem C07_evpn_t1 (rd : Rd) (esi : Esi) (tag : Nat) (label : List Nat) (h : RouteOk (.t1 rd esi tag label)) :
    ∃ w, constructRouteValue (.t1 rd esi tag label) = some w ∧ decodeRoute 1 w = .ok (.t1 rd esi tag label) := by
  obtain ⟨w, hc, _, hp⟩ := t1_rt rd esi tag label h
  exact ⟨w, hc, by simp [decodeRoute, hp]⟩

/-- route type 2 (MAC/IP advertisement): any 48-bit MAC, IP absent / IPv4 / IPv6 (every 128-bit value), 0..n labels -/
theorem C07_evpn_t2 (rd : Rd) (esi : Esi) (tag mac : Nat) (ip : Option Ip) (label : List Nat)
    (h : RouteOk (.t2 rd esi tag mac ip label)) :
    ∃ w, constructRouteValue (.t2 rd esi tag mac ip label) = some w ∧
      decodeRoute 2 w = .ok (.t2 rd esi tag mac ip label) := by
  obtain ⟨w, hc, _, hp⟩ := t2_rt rd esi tag mac ip label h
  exact ⟨w, hc, by simp [decodeRoute, hp]⟩

/-- route type 3 (inclusive multicast Ethernet tag) -/
theorem C07_evpn_t3 (rd : Rd) (tag : Nat) (ip : Option Ip) (h : RouteOk (.t3 rd tag ip)) :
    ∃ w, constructRouteValue (.t3 rd tag ip) = some w ∧ decodeRoute 3 w = .ok (.t3 rd tag ip) := by
  obtain ⟨w, hc, _, hp⟩ := t3_rt rd tag ip h
  exact ⟨w, hc, by simp [decodeRoute, hp]⟩

/-- route type 4 (Ethernet segment) -/
theorem C07_evpn_t4 (rd : Rd) (esi : Esi) (ip : Option Ip) (h : RouteOk (.t4 rd esi ip)) :
    ∃ w, constructRouteValue (.t4 rd esi ip) = some w ∧ decodeRoute 4 w = .ok (.t4 rd esi ip) := by
  obtain ⟨w, hc, _, hp⟩ := t4_rt rd esi ip h
  exact ⟨w, hc, by simp [decodeRoute, hp]⟩

/-- route type 5 (IP prefix) is encoded and decoded by the code, but not symmetrically: `construct` takes the ESI as
    a number (and packs it as an IEEE-754 double), `parse` returns an ESI dict, and derives the width of prefix and
    gateway from the total length (11 or 35 octets).  It decodes back exactly in this corner: ESI 0 (read back as
    `{type: 0, value: 0}`), prefix and gateway of one family, exactly one label.  (Outside the property text, which
    names route types 1-4; stated for completeness.) -/
theorem C07_evpn_t5 (rd : Rd) (tag plen l : Nat) (pfx gw : Ip) (hrd : RdOk rd) (htag : tag < 4294967296)
    (hplen : plen < 256) (hp : IpOk pfx) (hg : IpOk gw) (hfam : pfx.v6 = gw.v6) (hl : l < 1048576) :
    ∃ w, constructRouteValue (.t5c rd 0 tag pfx plen gw [l]) = some w ∧
      decodeRoute 5 w = .ok (.t5 rd (.t0 0) tag pfx plen gw [l]) := by
  obtain ⟨w, hc, hp⟩ := t5_rt rd tag plen l pfx gw hrd htag hplen hp hg hfam hl
  exact ⟨w, hc, by simp [decodeRoute, hp]⟩

/-- C15, EVPN route list, compositional form: for any list of in-range routes `EVPN.construct` succeeds, and its
    output in front of ANY octets decodes to those routes followed by whatever the rest decodes to (and raises
    exactly when the rest does) -/
theorem C15_evpn_routes (rs : List Route) (hok : ∀ r ∈ rs, RouteOk r) :
    ∃ w, constructRoutes rs = some w ∧ w.length = routesLen rs ∧
      ∀ rest, parseRoutes (w ++ rest) = (parseRoutes rest).map (rs ++ ·) :=
  parseRoutes_list rs hok

/-- hence the round trip of a whole route list (1..n routes of any mix of types 1-4) -/
theorem C07_evpn_routes (rs : List Route) (hok : ∀ r ∈ rs, RouteOk r) :
    ∃ w, constructRoutes rs = some w ∧ w.length = routesLen rs ∧ parseRoutes w = some rs := by
  obtain ⟨w, hc, hl, hp⟩ := parseRoutes_list rs hok
  refine ⟨w, hc, hl, ?_⟩
  have := hp []
  simpa [parseRoutes_nil] using this

/-- C15: an entry of a route type the decoder does not know (any type octet other than 1..5, any body that fits
    the length octet), in front of anything, changes nothing -/
theorem C15_evpn_unknown_type (t : Nat) (body rest : Bytes) (ht : t < 256) (hb : body.length < 256)
    (hu : t ∉ [1, 2, 3, 4, 5]) :
    parseRoutes (u8 t :: u8 body.length :: (body ++ rest)) = parseRoutes rest :=
  parseRoutes_unknown t body rest ht hb hu

/-- C15: what the loop does with one entry depends on that entry only - for ANY type and ANY body -/
theorem C15_evpn_entry (t : Nat) (body rest : Bytes) (ht : t < 256) (hb : body.length < 256) :
    parseRoutes (u8 t :: u8 body.length :: (body ++ rest)) =
      match decodeRoute t body with
      | .err => none
      | .skip => parseRoutes rest
      | .ok r => (parseRoutes rest).map (r :: ·) :=
  parseRoutes_tlv t body rest ht hb

/-- MP_REACH_NLRI, afi/safi (25, 70): IPv4 or IPv6 next hop (every value), 0..n routes that fit one attribute -
    construct succeeds, the attribute carries the right header, and its value decodes back to exactly the next hop
    and the routes -/
theorem C07_evpn_reach (nh : Ip) (rs : List Route) (hnh : IpOk nh) (hok : ∀ r ∈ rs, RouteOk r)
    (hfit : routesLen rs < 65000) :
    ∃ body, constructReach { nexthop := some nh, nlri := .evpn rs } = .bytes ([0x90, 14] ++ be16 body.length ++ body) ∧
      parseReach body = .ok { nexthop := some nh, nlri := .evpn rs } := by
  obtain ⟨nb, hnb, hnl, hpn⟩ := ipPacked_rt nh hnh
  obtain ⟨nl, hr, hl, hp⟩ := C07_evpn_routes rs hok
  obtain ⟨e1, e2, e3⟩ := reach_fields afiL2vpn safiEvpn nb nl (by decide) (by decide) (by omega)
  refine ⟨be16 afiL2vpn ++ [u8 safiEvpn, u8 nb.length] ++ nb ++ [0] ++ nl, ?_, ?_⟩
  · simp only [constructReach, hnb, hr, attrHeader]
    rw [if_pos (by simp only [List.length_append, List.length_cons, List.length_nil, be16_length]; omega)]
    rfl
  · simp only [parseReach, e1, e2, e3, hpn, hp, and_self, ↓reduceIte]

/-- MP_UNREACH_NLRI, afi/safi (25, 70): 1..n routes -/
theorem C07_evpn_unreach (rs : List Route) (hok : ∀ r ∈ rs, RouteOk r) (hne : rs ≠ [])
    (hfit : routesLen rs < 65000) :
    ∃ body, constructUnreach (.evpn rs) = .bytes ([0x90, 15] ++ be16 body.length ++ body) ∧
      parseUnreach body = .ok (.evpn rs) := by
  obtain ⟨nl, hr, hl, hp⟩ := C07_evpn_routes rs hok
  obtain ⟨e1, e2⟩ := unreach_fields afiL2vpn safiEvpn nl (by decide) (by decide)
  have hnn : nl ≠ [] := by
    intro hh
    obtain ⟨r, rs', rfl⟩ := List.exists_cons_of_ne_nil hne
    rw [hh] at hl
    simp [routesLen] at hl
    omega
  obtain ⟨x, xs, hx⟩ := List.exists_cons_of_ne_nil hnn
  refine ⟨be16 afiL2vpn ++ [u8 safiEvpn] ++ nl, ?_, ?_⟩
  · simp only [constructUnreach, hr]
    rw [hx]
    simp only [attrHeader]
    rw [← hx, if_pos (by simp only [List.length_append, List.length_cons, List.length_nil, be16_length]; omega)]
    rfl
  · simp only [parseUnreach, e1, e2, hp, and_self, ↓reduceIte]

end Yabgp

namespace Yabgp
open Yabgp.Evpn Yabgp.Flowspec Yabgp.Evf Yabgp.Text

/-! ## IPv4 flow specification -/

/-- numeric operator lists: for every expression - a non-empty OR (`|`) of non-empty AND-groups (`&`) of
    comparisons `=`, `<`, `>`, `<=`, `>=` with values below 2^64 (1, 2, 4 or 8 octets) - `construct_operators`
    accepts its text, and decoding the octets (in front of ANYTHING) gives back exactly that text and stops
    right behind them -/
theorem C07_flowspec_operators (e : Expr) (h : ExprOk e) :
    ∃ b, constructOperators (exprText e) = some b ∧
      ∀ T, ∃ l, parseOperators (b ++ T) = some (l, b.length + 1) ∧ opsToStr [] l = exprText e :=
  ⟨encExpr e, constructOperators_expr e h,
   fun T => ⟨pairsExpr e, parseOperators_expr e h T, opsToStr_expr e h⟩⟩

/-- prefix components: every length 0..32, every address in network form -/
theorem C07_flowspec_prefix (a l : Nat) (hl : l ≤ 32) (ha : a < 4294967296) (hn : a % 2 ^ (32 - l) = 0) (rest : Bytes) :
    ∃ b, constructPrefix a l = some b ∧ parsePrefix (b ++ rest) = some (.pfx a l, b.length) := by
  obtain ⟨hc, hlen, hp⟩ := parsePrefix_enc a l rest (netform_FsPfxOk hl ha hn)
  exact ⟨_, hc, by simpa [hlen] using hp⟩

/-- one flow specification: for every structured value in range (distinct component types among 1, 2 - prefixes -
    and 3, 4, 5, 6, 7, 8, 10, 11 - numeric expressions), `construct_nlri` writes `ruleBytes`, and
    `IPv4FlowSpec.parse` of those octets returns a dict with exactly the given value under every key -/
theorem C07_flowspec_rule (r : SRule) (h : SRuleOk r) :
    constructRuleBody r.toRule = some (ruleBytes r) ∧
    ∃ d, parseRule [] (ruleBytes r) = some d ∧ ∀ t, dictGet d t = dictGet r.toRule t := by
  obtain ⟨hb, _, hp, hg⟩ := rule_rt r h
  exact ⟨hb, _, hp, hg⟩

/-- C15, component list, compositional form: the components of a flow specification in front of ANY octets put
    their values into the dict (in the order of `allTypes`) and decoding continues behind them -/
theorem C15_flowspec_components (r : SRule) (h : SRuleOk r) (acc : Rule) (rest : Bytes) :
    parseRule acc (ruleBytes r ++ rest) = parseRule (collect r.toRule acc allTypes) rest :=
  (rule_rt r h).2.1 acc rest

/-- C15: what the loop does with one component depends on that component only - for ANY component decoder result -/
theorem C15_flowspec_component (acc : Rule) (t : Nat) (ht : t < 256) (body rest : Bytes) (c : Comp)
    (h : parseComp t (body ++ rest) = some (c, body.length)) :
    parseRule acc (u8 t :: (body ++ rest)) = parseRule (dictSet acc t c) rest :=
  parseRule_comp acc t ht body rest c h

/-- C15, list of flow specifications, compositional form (1-octet lengths and 2-octet lengths 0xfnnn) -/
theorem C15_flowspec_rules (rs : List SRule) (h : ∀ r ∈ rs, FsOk r) (rest : Bytes) :
    constructRules (rs.map SRule.toRule) = some (rs.flatMap nlriBytes) ∧
    parseRules (rs.flatMap nlriBytes ++ rest) = (parseRules rest).map (rs.map (fun r => ordered r.toRule) ++ ·) :=
  ⟨constructRules_ok rs h, parseRules_list rs h rest⟩

theorem C07_flowspec_rules (rs : List SRule) (h : ∀ r ∈ rs, FsOk r) :
    parseRules (rs.flatMap nlriBytes) = some (rs.map fun r => ordered r.toRule) := by
  have := parseRules_list rs h []
  simpa [parseRules_nil] using this

/-- MP_REACH_NLRI, afi/safi (1, 133): next hop absent, IPv4 or IPv6; 1..n flow specifications -/
theorem C07_flowspec_reach (nh : Option Ip) (rs : List SRule) (hnh : OptIpOk nh) (h : ∀ r ∈ rs, FsOk r)
    (hne : rs ≠ []) (hfit : (rs.flatMap nlriBytes).length < 65000) :
    ∃ body, constructReach { nexthop := nh, nlri := .flowspec (rs.map SRule.toRule) } =
        .bytes ([0x90, 14] ++ be16 body.length ++ body) ∧
      parseReach body = .ok { nexthop := nh, nlri := .flowspec (rs.map fun r => ordered r.toRule) } := by
  have hnl := constructRules_ok rs h
  have hp := C07_flowspec_rules rs h
  have hnn : rs.flatMap nlriBytes ≠ [] := by
    obtain ⟨r, rs', rfl⟩ := List.exists_cons_of_ne_nil hne
    simp only [List.flatMap_cons]
    intro hh
    have h1 := (List.append_eq_nil_iff.mp hh).1
    unfold nlriBytes at h1
    split at h1 <;> simp [be16] at h1
  cases nh with
  | none =>
    obtain ⟨e1, e2, e3⟩ := reach_fields afiInet safiFlowspec [] (rs.flatMap nlriBytes) (by decide) (by decide) (by simp)
    refine ⟨be16 afiInet ++ [u8 safiFlowspec, u8 0] ++ [] ++ [0] ++ rs.flatMap nlriBytes, ?_, ?_⟩
    · simp only [constructReach, hnl, hnn, ↓reduceIte, attrHeader, List.length_nil]
      rw [if_pos (by simp only [List.length_append, List.length_cons, List.length_nil, be16_length]; omega)]
      rfl
    · simp only [List.length_nil, Nat.add_zero] at e1 e2 e3
      simp only [parseReach, e1, e2, e3, hp]
      simp [afiInet, afiL2vpn, safiFlowspec]
  | some ip =>
    obtain ⟨nb, hnb, hnl4, hpn⟩ := ipPacked_rt ip hnh
    obtain ⟨e1, e2, e3⟩ := reach_fields afiInet safiFlowspec nb (rs.flatMap nlriBytes) (by decide) (by decide) (by omega)
    refine ⟨be16 afiInet ++ [u8 safiFlowspec, u8 nb.length] ++ nb ++ [0] ++ rs.flatMap nlriBytes, ?_, ?_⟩
    · simp only [constructReach, hnb, hnl, hnn, ↓reduceIte, attrHeader]
      rw [if_pos (by simp only [List.length_append, List.length_cons, List.length_nil, be16_length]; omega)]
      rfl
    · have hnbne : nb ≠ [] := by intro hh; rw [hh] at hnl4; simp at hnl4
      obtain ⟨x, xs, hx⟩ := List.exists_cons_of_ne_nil hnbne
      simp only [parseReach, e1, e2, e3, hp]
      rw [hx]
      simp only [afiInet, afiL2vpn, safiFlowspec]
      rw [← hx, hpn]
      simp

/-- MP_UNREACH_NLRI, afi/safi (1, 133) -/
theorem C07_flowspec_unreach (rs : List SRule) (h : ∀ r ∈ rs, FsOk r) (hne : rs ≠ [])
    (hfit : (rs.flatMap nlriBytes).length < 65000) :
    ∃ body, constructUnreach (.flowspec (rs.map SRule.toRule)) = .bytes ([0x90, 15] ++ be16 body.length ++ body) ∧
      parseUnreach body = .ok (.flowspec (rs.map fun r => ordered r.toRule)) := by
  have hnl := constructRules_ok rs h
  have hp := C07_flowspec_rules rs h
  obtain ⟨e1, e2⟩ := unreach_fields afiInet safiFlowspec (rs.flatMap nlriBytes) (by decide) (by decide)
  refine ⟨be16 afiInet ++ [u8 safiFlowspec] ++ rs.flatMap nlriBytes, ?_, ?_⟩
  · have : rs.map SRule.toRule ≠ [] := by simpa using hne
    simp only [constructUnreach, this, ↓reduceIte, hnl, attrHeader]
    rw [if_pos (by simp only [List.length_append, List.length_cons, List.length_nil, be16_length]; omega)]
    rfl
  · simp only [parseUnreach, e1, e2, hp]
    simp [afiInet, afiL2vpn, safiFlowspec]

end Yabgp

namespace Yabgp
open Yabgp.Evpn Yabgp.Flowspec Yabgp.Evf Yabgp.Text

/-! ## what the code still does not do (known finding), and non-vacuity -/

/-- KNOWN FINDING (flowspec components 9 = TCP flags and 12 = fragment are decoded but never encoded):
    `construct_nlri` silently drops such a component, so `{5: '=80', 9: '=40'}` is sent - and decodes - as
    `{5: '=80'}`.  Witness on the model; the same input is replayed on the real code by the suite `evf`. -/
theorem KF_flowspec_component_not_encoded :
    ∃ b d, constructRuleBody [(5, .ops (exprText [[(Op.eq, 80)]])), (9, .ops (exprText [[(Op.eq, 40)]]))] = some b ∧
      parseRule [] b = some d ∧ dictGet d 9 = none ∧ dictGet d 5 = some (.ops (exprText [[(Op.eq, 80)]])) := by
  have hok : SRuleOk [(5, .expr [[(Op.eq, 80)]])] := by decide
  obtain ⟨hb, _, hp, hg⟩ := rule_rt _ hok
  refine ⟨_, _, ?_, hp, ?_, ?_⟩
  · rw [← hb]
    simp [constructRuleBody, pfxTypes, opTypes, constructPfxComp, constructOpComp, dictGet, SRule.toRule, SComp.toComp]
  · rw [hg]; simp [SRule.toRule, dictGet]
  · rw [hg]; simp [SRule.toRule, dictGet, SComp.toComp]

/-- non-vacuity: routes of every type with an ESI of type 3 whose local discriminator is 1 (the value that
    raised before fix_1), an IPv6 address below 2^32 (decoded as IPv4 before fix_2), label 0 and label 2^20-1 -/
example : RouteOk (.t1 (.asn 65535 4294967295) (.t3 0x001122334455 1) 4294967295 [0, 1048575]) := by decide
example : RouteOk (.t2 (.ip 2886795267 2) (.t1 0x4c1fccec1773 2609) 108 0x001122334455 (some ⟨true, 1⟩) [0]) := by decide
example : RouteOk (.t3 (.asn 65536 65535) 100 (some ⟨false, 3232235521⟩)) := by decide
example : RouteOk (.t4 (.ip 0 0) (.t5 4294967295 4294967295) none) := by decide

example : routesLen [.t1 (.asn 65535 4294967295) (.t3 0x001122334455 1) 4294967295 [0, 1048575],
                     .t2 (.ip 2886795267 2) (.t1 0x4c1fccec1773 2609) 108 0x001122334455 (some ⟨true, 1⟩) [0]] < 65000 := by
  decide

/-- non-vacuity for flow specifications: '&' and '|' items (dropped before fix_3), a value that needs 4 octets but
    only 3 significant ones (raised before fix_4), a prefix of length 0 (raised before fix_5) -/
example : FsOk [(1, .pfx 0 0), (2, .pfx 167772160 8),
                (5, .expr [[(Op.ge, 80), (Op.le, 90)], [(Op.eq, 65536)]]), (10, .expr [[(Op.lt, 300)], [(Op.gt, 4294967295)]])] := by
  decide

end Yabgp

#print axioms Yabgp.C07_evpn_t1
#print axioms Yabgp.C07_evpn_t2
#print axioms Yabgp.C07_evpn_t3
#print axioms Yabgp.C07_evpn_t4
#print axioms Yabgp.C07_evpn_t5
#print axioms Yabgp.C07_evpn_routes
#print axioms Yabgp.C07_evpn_reach
#print axioms Yabgp.C07_evpn_unreach
#print axioms Yabgp.C15_evpn_routes
#print axioms Yabgp.C15_evpn_unknown_type
#print axioms Yabgp.C15_evpn_entry
#print axioms Yabgp.C07_flowspec_operators
#print axioms Yabgp.C07_flowspec_prefix
#print axioms Yabgp.C07_flowspec_rule
#print axioms Yabgp.C07_flowspec_rules
#print axioms Yabgp.C07_flowspec_reach
#print axioms Yabgp.C07_flowspec_unreach
#print axioms Yabgp.C15_flowspec_components
#print axioms Yabgp.C15_flowspec_component
#print axioms Yabgp.C15_flowspec_rules
#print axioms Yabgp.KF_flowspec_component_not_encoded
