/-
  C03, deadlines move only for the right reason.
  The invariant `TimInv` of Props/C03.lean bounds the two session deadlines (KEEPALIVE due by now + H/3, hold deadline
  by now + H) but it would survive an event that keeps pushing a deadline later.  This file closes that gap with
  one-step statements over `step`: while the session stays in OpenConfirm / Established
    * the keepalive deadline is replaced by the keepalive-timer expiry only, which writes a KEEPALIVE and schedules
      the next one exactly H/3 later;
    * the hold deadline is replaced only by a chunk in which a KEEPALIVE or an UPDATE was handed to the FSM, and then
      it is exactly H after that moment;
    * every other event leaves both deadlines (and the negotiated hold time) alone, and the clock never passes a
      pending deadline.
  Time unit: ticks of 1/3 s, so H seconds = 3 * holdTime ticks and H/3 seconds = holdTime ticks.
-/
import Yabgp.Props.C01c
import Yabgp.Props.C03
import Yabgp.Props.C18b

namespace Yabgp
open Sess

variable (U : Bool → Bytes → UpdClass)

/-- a KEEPALIVE message written to connection i -/
def kaWritten (outs : List Out) : Prop := ∃ i, Out.write i constructKeepalive ∈ outs

/-- the step reported an arrival that restarts the hold timer: a KEEPALIVE or an UPDATE (well-formed or malformed) was
    handed to the FSM.  (`dispatch` calls `fsmKeepaliveReceived` only after `.hKeepalive`, `fsmUpdateReceived` only after
    `.hUpdate` / `.hUpdateError`; an UPDATE whose decoding raises, or whose family is outside the model (`.unmodelled`),
    is counted and skipped without reaching the FSM, so it is NOT an arrival here.) -/
def arrivalReported (outs : List Out) : Prop :=
  ∃ o ∈ outs, (∃ c, o = .hKeepalive c) ∨ (∃ c a b, o = .hUpdate c a b) ∨ (∃ c b, o = .hUpdateError c b)

theorem arrivalReported_append {l : List Out} (h : arrivalReported l) (m : List Out) : arrivalReported (l ++ m) := by
  obtain ⟨o, ho, hp⟩ := h
  exact ⟨o, List.mem_append_left m ho, hp⟩

/-! ### events other than received data: `Keep` -/

/-- if the session is up afterwards it was up before, with the same hold time, clock and session deadlines -/
def Keep (s s' : Sess) : Prop :=
  inSession s'.st → inSession s.st ∧ s'.holdTime = s.holdTime ∧ s'.now = s.now ∧
    s'.tm.keepalive = s.tm.keepalive ∧ s'.tm.hold = s.tm.hold

theorem Keep.of_not_session {s s' : Sess} (h : ¬ inSession s'.st) : Keep s s' := fun hs => absurd hs h

theorem Keep.of_idle {s s' : Sess} (h : s'.st = .idle) : Keep s s' :=
  Keep.of_not_session (by rw [h]; exact not_inSession_idle)

theorem Keep.of_outer {s s' : Sess} (o : Outer s s') : Keep s s' := by
  intro hs
  rcases o.st with h | h
  · exact ⟨by rw [← h]; exact hs, o.hold, o.now, o.ka, o.hd⟩
  · exact absurd hs h

theorem Keep.refl (s : Sess) : Keep s s := fun hs => ⟨hs, rfl, rfl, rfl, rfl⟩

theorem Keep.trans {a b c : Sess} (h1 : Keep a b) (h2 : Keep b c) : Keep a c := by
  intro hs
  obtain ⟨hb, e1, e2, e3, e4⟩ := h2 hs
  obtain ⟨ha, f1, f2, f3, f4⟩ := h1 hb
  exact ⟨ha, e1.trans f1, e2.trans f2, e3.trans f3, e4.trans f4⟩

theorem not_inSession_of_outer {a b : Sess} (o : Outer a b) (h : ¬ inSession a.st) : ¬ inSession b.st := by
  rcases o.st with e | e
  · rw [e]; exact h
  · exact e

theorem keep_connectionFailed (s : Sess) : Keep s s.connectionFailed := by
  unfold connectionFailed
  split
  · exact Keep.of_not_session (not_inSession_of_outer (outer_connectionClosed _ _) (by simp [inSession]))
  · exact Keep.of_idle (by simp)
  · exact Keep.of_not_session (not_inSession_of_outer (outer_connectionClosed _ _) (by simp [inSession]))
  · exact Keep.of_idle (by simp)
  · exact Keep.of_idle (by simp)
  · exact Keep.refl s

theorem keep_manualStart (s : Sess) : Keep s s.manualStart := by
  unfold manualStart
  split
  · exact Keep.of_outer ⟨Or.inl rfl, rfl, rfl, rfl, rfl⟩
  · apply Keep.of_not_session
    have h := (tms_connectTcp ((((s.withAllow true).setRetry (some s.retryDeadline)).setSt .connect))).1
    rw [st_emit, h]
    simp [inSession]
  · exact Keep.of_outer ⟨Or.inl rfl, rfl, rfl, rfl, rfl⟩

theorem keep_manualStop (s : Sess) : Keep s s.manualStop := Keep.of_idle (by simp [manualStop])

theorem keep_connOk (s : Sess) (c : Nat) : Keep s (s.connOk c) := by
  simp only [connOk, connectionMade]
  split
  · exact Keep.of_not_session (by simp [inSession])
  · apply Keep.of_not_session
    rw [(tms_sendOpen _).1]
    simp [inSession, withBgpId, withEstab]

theorem keep_connFail (s : Sess) (c : Nat) : Keep s (s.connFail c) := by
  unfold connFail
  split
  · exact Keep.trans (b := ((s.withPending none).setPhase c .closed).emit .hConnFailed)
      (Keep.of_outer ⟨Or.inl rfl, rfl, rfl, rfl, rfl⟩) (keep_connectionFailed _)
  · exact Keep.of_outer ⟨Or.inl rfl, rfl, rfl, rfl, rfl⟩

theorem keep_connLost (s : Sess) (c : Nat) : Keep s (s.connLost c) := by
  unfold connLost
  split
  · exact Keep.trans (b := (s.setPhase c .closed).emit (.hConnLost c))
      (Keep.of_outer ⟨Or.inl rfl, rfl, rfl, rfl, rfl⟩) (Keep.of_outer (outer_connectionClosed _ _))
  · exact Keep.trans (b := (s.setPhase c .closed).emit (.hConnLost c))
      (Keep.of_outer ⟨Or.inl rfl, rfl, rfl, rfl, rfl⟩) (keep_connectionFailed _)

theorem keep_fireRetry (s : Sess) : Keep s s.fireRetry := by
  have key : Keep s ((((s.setRetry none).closeConn).setRetry (some s.retryDeadline)).connectTcp) :=
    Keep.trans (b := ((s.setRetry none).closeConn).setRetry (some s.retryDeadline))
      (Keep.of_outer ⟨Or.inl (by simp), by simp, by simp, by simp, by simp⟩) (Keep.of_outer (outer_connectTcp _))
  unfold fireRetry
  split
  · exact key
  · exact key
  · exact Keep.of_outer ⟨Or.inl rfl, rfl, rfl, rfl, rfl⟩
  · exact Keep.of_idle (by simp)

theorem keep_fireHold (s : Sess) : Keep s s.fireHold := by
  unfold fireHold
  split
  · exact Keep.of_idle (by simp)
  · exact Keep.of_idle (by simp)
  · exact Keep.of_idle (by simp)
  · exact Keep.of_idle (by simp)
  · exact Keep.of_idle (by simp)
  · rename_i h; exact Keep.of_idle (by simpa using h)

theorem keep_fireIdleHold (s : Sess) : Keep s s.fireIdleHold := by
  unfold fireIdleHold
  split
  · exact Keep.trans (b := s.setIdleHold none) (Keep.of_outer ⟨Or.inl rfl, rfl, rfl, rfl, rfl⟩)
      (Keep.of_outer (outer_autoStart _ _))
  · exact Keep.of_outer ⟨Or.inl rfl, rfl, rfl, rfl, rfl⟩

/-- the keepalive-timer expiry touches neither the hold deadline nor the hold time, the clock or the state -/
theorem fireKeepalive_session {s : Sess} (hs : inSession s.st) :
    (s.fireKeepalive).st = s.st ∧ (s.fireKeepalive).holdTime = s.holdTime ∧ (s.fireKeepalive).now = s.now ∧
    (s.fireKeepalive).tm.hold = s.tm.hold := by
  rcases hs with h | h <;>
  · simp only [fireKeepalive, h]
    split <;> simp [h]

/-- every event except received data, a clock advance and the keepalive expiry -/
theorem keep_step (w : World) (e : Ev) (h1 : e ≠ .fire .keepalive) (h2 : ∀ c d, e ≠ .chunk c d) (h3 : ∀ dt, e ≠ .advance dt) :
    Keep (w.sess.withOuts []) (step U w e).sess := by
  cases e with
  | boot => exact Keep.of_outer (outer_autoStart _ _)
  | manualStart => exact keep_manualStart _
  | manualStop => exact keep_manualStop _
  | connOk c => exact keep_connOk _ c
  | connFail c => exact keep_connFail _ c
  | lost c => exact keep_connLost _ c
  | advance dt => exact absurd rfl (h3 dt)
  | chunk c d => exact absurd rfl (h2 c d)
  | fire t =>
    cases t with
    | retry => exact keep_fireRetry _
    | hold => exact keep_fireHold _
    | keepalive => exact absurd rfl h1
    | idleHold => exact keep_fireIdleHold _

/-! ### received data: `Acc`, carried through the frames of one chunk -/

/-- from `s` to `s'` by frames of one chunk: OpenSent is not entered, and if the session is up afterwards it was up
    before with the same hold time, clock and keepalive deadline, the outputs were only extended, and the hold deadline
    is the old one or - an arrival having been reported - exactly H after the (unchanged) present moment -/
structure Acc (s s' : Sess) : Prop where
  nos : s'.st ≠ .openSent
  keep : inSession s'.st → inSession s.st ∧ s'.holdTime = s.holdTime ∧ s'.now = s.now ∧
    s'.tm.keepalive = s.tm.keepalive ∧ (∃ l, s'.outs = s.outs ++ l) ∧
    (s'.tm.hold = s.tm.hold ∨
      (arrivalReported s'.outs ∧ s'.tm.hold = some (s.now + 3 * s.holdTime) ∧ 0 < s.holdTime))

theorem Acc.of_idle {s s' : Sess} (h : s'.st = .idle) : Acc s s' :=
  ⟨by rw [h]; simp, fun hs => absurd hs (by rw [h]; exact not_inSession_idle)⟩

theorem Acc.same {s s' : Sess} (hs : s.st ≠ .openSent) (h1 : s'.st = s.st) (h2 : s'.holdTime = s.holdTime)
    (h3 : s'.now = s.now) (h4 : s'.tm = s.tm) (h5 : ∃ l, s'.outs = s.outs ++ l) : Acc s s' :=
  ⟨by rw [h1]; exact hs, fun hi => ⟨by rw [← h1]; exact hi, h2, h3, by rw [h4], h5, Or.inl (by rw [h4])⟩⟩

theorem Acc.refl {s : Sess} (hs : s.st ≠ .openSent) : Acc s s := Acc.same hs rfl rfl rfl rfl ⟨[], by simp⟩

theorem Acc.trans {a b c : Sess} (h1 : Acc a b) (h2 : Acc b c) : Acc a c := by
  refine ⟨h2.nos, fun hs => ?_⟩
  obtain ⟨hb, e1, e2, e3, ⟨l2, e4⟩, e5⟩ := h2.keep hs
  obtain ⟨ha, f1, f2, f3, ⟨l1, f4⟩, f5⟩ := h1.keep hb
  refine ⟨ha, e1.trans f1, e2.trans f2, e3.trans f3, ⟨l1 ++ l2, by rw [e4, f4, List.append_assoc]⟩, ?_⟩
  rcases e5 with e5 | ⟨r, e5, p⟩
  · rcases f5 with f5 | ⟨r, f5, p⟩
    · exact Or.inl (e5.trans f5)
    · exact Or.inr ⟨by rw [e4]; exact arrivalReported_append r _, e5.trans f5, p⟩
  · exact Or.inr ⟨r, by rw [e5, f1, f2], by rw [← f1]; exact p⟩

theorem acc_restartHold {t : Sess} (hs : t.st ≠ .openSent) (ha : arrivalReported t.outs) : Acc t t.restartHold := by
  unfold restartHold
  split
  · rename_i hh
    refine ⟨by simpa using hs, fun hi => ⟨by simpa using hi, rfl, rfl, rfl, ⟨[], by simp [setHold, withTm]⟩,
      Or.inr ⟨ha, by simp [holdTicks], by omega⟩⟩⟩
  · exact Acc.refl hs

theorem acc_setSt_established {t : Sess} (hi : inSession t.st) : Acc t (t.setSt .established) := by
  refine ⟨by simp, fun _ => ⟨hi, by simp, by simp, by simp, ?_, Or.inl (by simp)⟩⟩
  unfold setSt
  split
  · exact ⟨[.hEstablished], rfl⟩
  · exact ⟨[], by simp [withSt]⟩

theorem acc_fsmKeepaliveReceived {t : Sess} (hs : t.st ≠ .openSent) (ha : arrivalReported t.outs) :
    Acc t t.fsmKeepaliveReceived := by
  by_cases h1 : t.st = .openConfirm
  · have : t.fsmKeepaliveReceived = t.restartHold.setSt .established := by simp [fsmKeepaliveReceived, h1]
    rw [this]
    exact (acc_restartHold hs ha).trans (acc_setSt_established (by simp [inSession, h1]))
  · by_cases h2 : t.st = .established
    · have : t.fsmKeepaliveReceived = t.restartHold := by simp [fsmKeepaliveReceived, h2]
      rw [this]; exact acc_restartHold hs ha
    · apply Acc.of_idle
      rw [st_fsmKeepaliveReceived, if_neg (by simp [h1, h2])]

theorem acc_fsmUpdateReceived {t : Sess} (hs : t.st ≠ .openSent) (ha : arrivalReported t.outs) :
    Acc t t.fsmUpdateReceived := by
  by_cases h2 : t.st = .established
  · have : t.fsmUpdateReceived = t.restartHold := by simp [fsmUpdateReceived, h2]
    rw [this]; exact acc_restartHold hs ha
  · apply Acc.of_idle
    rw [st_fsmUpdateReceived, if_neg h2]

/-- one frame, handled in a state that is not OpenSent: the session is not entered, and if it is still up afterwards the
    hold deadline was either left alone or restarted by a KEEPALIVE / UPDATE handed to the FSM -/
theorem acc_dispatch {s : Sess} (hs : s.st ≠ .openSent) (i ty : Nat) (body : Bytes) : Acc s (dispatch U s i ty body).1 := by
  have hbump : ∀ g, Acc s (s.bumpRecv i g) := fun g => Acc.same hs rfl rfl rfl rfl ⟨[], by simp [bumpRecv, setConn, withConns]⟩
  have hemit : ∀ g o, Acc s ((s.bumpRecv i g).emit o) := fun g o => Acc.same hs rfl rfl rfl rfl ⟨[o], rfl⟩
  unfold dispatch
  split
  · unfold openReceived
    split
    · exact Acc.of_idle (by simp)
    · exact Acc.of_idle (by simp)
    · exact hbump _
    · split
      · exact Acc.of_idle (by simp)
      · unfold openAccepted
        split
        · split <;> exact Acc.of_idle (by simp)
        · split
          · apply Acc.of_idle
            rw [st_emit, st_fsmOpenReceived, if_neg (by simpa using hs)]
          · apply Acc.of_idle
            rw [st_emit, st_fsmOpenReceived, if_neg (by simpa using hs)]
  · split
    · split
      · exact hbump _
      · exact hemit _ _
      · exact (hemit incUpdates (.hUpdateError i body)).trans
          (acc_fsmUpdateReceived (by simpa using hs) ⟨.hUpdateError i body, by simp [Sess.emit], Or.inr (Or.inr ⟨_, _, rfl⟩)⟩)
      · exact (hemit incUpdates (.hUpdate i (s.conn i).asn4 body)).trans
          (acc_fsmUpdateReceived (by simpa using hs) ⟨.hUpdate i (s.conn i).asn4 body, by simp [Sess.emit], Or.inr (Or.inl ⟨_, _, _, rfl⟩)⟩)
    · split
      · split
        · exact Acc.refl hs
        · exact Acc.of_idle (st_fsmNotificationReceived _ _ _)
      · split
        · split
          · exact (hemit incKeepalives (.hKeepalive i)).trans
              (acc_fsmKeepaliveReceived (by simpa using hs) ⟨.hKeepalive i, by simp [Sess.emit], Or.inl ⟨_, rfl⟩⟩)
          · exact Acc.of_idle (by simp)
        · split
          · split
            · exact hbump _
            · exact hemit _ _
          · exact Acc.of_idle (by simp)

theorem acc_parseBuffer {s : Sess} (hs : s.st ≠ .openSent) (i : Nat) (buf : Bytes) : Acc s (parseBuffer U s i buf).1 := by
  unfold parseBuffer
  split
  · exact Acc.refl hs
  · split
    · exact Acc.refl hs
    · exact Acc.of_idle (by simp)
    · exact Acc.of_idle (by simp)
    · split <;> exact acc_dispatch U hs _ _ _

theorem acc_drain (i : Nat) : ∀ (f : Nat) (s : Sess) (buf : Bytes), s.st ≠ .openSent → Acc s (drain U f s i buf).1 := by
  intro f
  induction f with
  | zero => intro s buf hs; exact Acc.refl hs
  | succ f ih =>
    intro s buf hs
    have hp := acc_parseBuffer U hs i buf
    simp only [drain]
    cases hr : (parseBuffer U s i buf).2 with
    | none => exact hp
    | some rest => exact hp.trans (ih _ rest hp.nos)

theorem inSession_ne_openSent {q : St} (h : inSession q) : q ≠ .openSent := by
  rcases h with h | h <;> simp [h]

/-- a chunk received while the session is up -/
theorem acc_chunk (w : World) (c : Nat) (d : Bytes) (hs : inSession w.sess.st) :
    Acc (w.sess.withOuts []) (step U w (.chunk c d)).sess := by
  simp only [step, dataReceived]
  exact acc_drain U c _ _ _ (inSession_ne_openSent hs)

/-! ### the statements -/

/-- **While the session lasts the pending KEEPALIVE deadline is only ever replaced by the keepalive timer expiring**, at
    which moment a KEEPALIVE is written and the next one is scheduled exactly H/3 later.  In particular a received
    KEEPALIVE (or anything else) does not push the agent's own KEEPALIVE back.
    `Heal` (reachable-state invariant of C02: in a session state the tracked connection is up) is what makes the write
    happen; `TimInv` (Props/C03.lean, holds in every reachable state) excludes a keepalive timer running with H = 0. -/
theorem C03_keepalive_deadline_moves_only_when_sent (w : World) (e : Ev) (hen : enabled w.sess e = true)
    (hh : Core.Heal (core w.sess)) (ht : TimInv w.sess) :
    inSession w.sess.st → inSession (step U w e).sess.st → (step U w e).sess.tm.keepalive ≠ w.sess.tm.keepalive →
      e = .fire .keepalive ∧ kaWritten (step U w e).sess.outs ∧
      (step U w e).sess.tm.keepalive = some (w.sess.now + w.sess.holdTime) := by
  intro hs hs' hne
  by_cases hk : e = .fire .keepalive
  · subst hk
    refine ⟨rfl, ?_⟩
    have hh0 : Core.Heal (core (w.sess.withOuts [])) := hh
    obtain ⟨i, hn⟩ := norm_of_heal hh0 (by
      rcases hs with h | h
      · exact Or.inr (Or.inl h)
      · exact Or.inr (Or.inr h))
    obtain ⟨ho, _, hka, _⟩ := C01_keepalive_timer_expires hn (show (w.sess.withOuts []).st = .openConfirm ∨ _ from hs)
    have hpos : 0 < w.sess.holdTime := by
      rcases Nat.eq_zero_or_pos w.sess.holdTime with h0 | h0
      · have := ((ht hs).2 h0).1
        simp [enabled, timerOf, this] at hen
      · exact h0
    have hka' : (step U w (.fire .keepalive)).sess.tm.keepalive = some (w.sess.now + w.sess.holdTime) := by
      show ((w.sess.withOuts []).fireKeepalive).tm.keepalive = _
      rw [hka]
      exact if_pos hpos
    refine ⟨⟨i, ?_⟩, hka'⟩
    show _ ∈ ((w.sess.withOuts []).fireKeepalive).outs
    rw [ho]
    simp [withOuts]
  · exfalso
    apply hne
    cases e with
    | advance dt => rfl
    | chunk c d => exact ((acc_chunk U w c d hs).keep hs').2.2.2.1
    | boot => exact ((keep_step U w _ hk (by simp) (by simp)) hs').2.2.2.1
    | manualStart => exact ((keep_step U w _ hk (by simp) (by simp)) hs').2.2.2.1
    | manualStop => exact ((keep_step U w _ hk (by simp) (by simp)) hs').2.2.2.1
    | connOk c => exact ((keep_step U w _ hk (by simp) (by simp)) hs').2.2.2.1
    | connFail c => exact ((keep_step U w _ hk (by simp) (by simp)) hs').2.2.2.1
    | lost c => exact ((keep_step U w _ hk (by simp) (by simp)) hs').2.2.2.1
    | fire t => exact ((keep_step U w _ hk (by simp) (by simp)) hs').2.2.2.1

/-- **While the session lasts the hold deadline is only ever replaced when a KEEPALIVE or an UPDATE arrived**, and then it
    is exactly H after that moment (H > 0).  No hypothesis on the state is needed. -/
theorem C03_hold_deadline_moves_only_on_arrival (w : World) (e : Ev) :
    inSession w.sess.st → inSession (step U w e).sess.st → (step U w e).sess.tm.hold ≠ w.sess.tm.hold →
      (∃ c d, e = .chunk c d) ∧ arrivalReported (step U w e).sess.outs ∧
      (step U w e).sess.tm.hold = some (w.sess.now + 3 * w.sess.holdTime) ∧ 0 < w.sess.holdTime := by
  intro hs hs' hne
  cases e with
  | chunk c d =>
    refine ⟨⟨c, d, rfl⟩, ?_⟩
    rcases ((acc_chunk U w c d hs).keep hs').2.2.2.2.2 with h | h
    · exact absurd h hne
    · exact h
  | advance dt => exact absurd rfl hne
  | boot => exact absurd ((keep_step U w _ (by simp) (by simp) (by simp)) hs').2.2.2.2 hne
  | manualStart => exact absurd ((keep_step U w _ (by simp) (by simp) (by simp)) hs').2.2.2.2 hne
  | manualStop => exact absurd ((keep_step U w _ (by simp) (by simp) (by simp)) hs').2.2.2.2 hne
  | connOk c => exact absurd ((keep_step U w _ (by simp) (by simp) (by simp)) hs').2.2.2.2 hne
  | connFail c => exact absurd ((keep_step U w _ (by simp) (by simp) (by simp)) hs').2.2.2.2 hne
  | lost c => exact absurd ((keep_step U w _ (by simp) (by simp) (by simp)) hs').2.2.2.2 hne
  | fire t =>
    by_cases hk : t = .keepalive
    · subst hk
      exact absurd (fireKeepalive_session (s := w.sess.withOuts []) hs).2.2.2 hne
    · exact absurd ((keep_step U w _ (by simpa using hk) (by simp) (by simp)) hs').2.2.2.2 hne

/-- every event that is neither the keepalive expiry nor received data leaves both session deadlines where they are -/
theorem C03_deadlines_fixed_by_other_events (w : World) (e : Ev) (h1 : e ≠ .fire .keepalive) (h2 : ∀ c d, e ≠ .chunk c d) :
    inSession w.sess.st → inSession (step U w e).sess.st →
      (step U w e).sess.tm.keepalive = w.sess.tm.keepalive ∧ (step U w e).sess.tm.hold = w.sess.tm.hold := by
  intro _ hs'
  by_cases h3 : ∃ dt, e = .advance dt
  · obtain ⟨dt, rfl⟩ := h3
    exact ⟨rfl, rfl⟩
  · have hk := (keep_step U w e h1 h2 (fun dt h => h3 ⟨dt, h⟩)) hs'
    exact ⟨hk.2.2.2.1, hk.2.2.2.2⟩

/-- the negotiated hold time is fixed while the session lasts (a second OPEN is an FSM error) -/
theorem C03_hold_time_fixed_in_session (w : World) (e : Ev) :
    inSession w.sess.st → inSession (step U w e).sess.st → (step U w e).sess.holdTime = w.sess.holdTime := by
  intro hs hs'
  cases e with
  | chunk c d => exact ((acc_chunk U w c d hs).keep hs').2.1
  | advance dt => rfl
  | boot => exact ((keep_step U w _ (by simp) (by simp) (by simp)) hs').2.1
  | manualStart => exact ((keep_step U w _ (by simp) (by simp) (by simp)) hs').2.1
  | manualStop => exact ((keep_step U w _ (by simp) (by simp) (by simp)) hs').2.1
  | connOk c => exact ((keep_step U w _ (by simp) (by simp) (by simp)) hs').2.1
  | connFail c => exact ((keep_step U w _ (by simp) (by simp) (by simp)) hs').2.1
  | lost c => exact ((keep_step U w _ (by simp) (by simp) (by simp)) hs').2.1
  | fire t =>
    by_cases hk : t = .keepalive
    · subst hk
      exact (fireKeepalive_session (s := w.sess.withOuts []) hs).2.1
    · exact ((keep_step U w _ (by simpa using hk) (by simp) (by simp)) hs').2.1

/-- the clock never passes a pending deadline: time can only advance up to the earliest running timer, which then has
    to fire before time moves on.  With `C03_keepalive_deadline_moves_only_when_sent` (the keepalive deadline stays put
    until it fires, and is then set H/3 later) and `C01_keepalive_timer_expires` (firing writes a KEEPALIVE):
    consecutive KEEPALIVEs of the agent are at most H/3 apart. -/
theorem C03_clock_never_passes_a_deadline (s : Sess) (dt : Nat) (h : enabled s (.advance dt) = true) :
    ∀ d ∈ allTimers s.tm, s.now + dt ≤ d := by
  simp only [enabled, Bool.decide_and, Bool.and_eq_true, decide_eq_true_eq, List.all_eq_true] at h
  exact h.2

/-- the two session deadlines in particular -/
theorem C03_clock_never_passes_session_deadlines (s : Sess) (dt : Nat) (h : enabled s (.advance dt) = true) :
    (∀ d, s.tm.keepalive = some d → s.now + dt ≤ d) ∧ (∀ d, s.tm.hold = some d → s.now + dt ≤ d) := by
  have key := C03_clock_never_passes_a_deadline s dt h
  constructor
  · intro d hd; exact key d (by simp [allTimers, hd])
  · intro d hd; exact key d (by simp [allTimers, hd])

/-! ### non-vacuity (example session of Props/C01.lean: H = 90 s, Established at tick 0, keepalive due at 90, hold at 270) -/

/-- Established, clock advanced to the keepalive deadline: the expiry is enabled, changes the keepalive deadline
    (90 → 180 = now + H/3), writes a KEEPALIVE to connection 0 and leaves the hold deadline alone -/
example :
    let w := step exU exEstablished (.advance 90)
    enabled exEstablished.sess (.advance 90) = true ∧ enabled w.sess (.fire .keepalive) = true ∧
    w.sess.st = .established ∧ (step exU w (.fire .keepalive)).sess.st = .established ∧
    w.sess.now = 90 ∧ w.sess.holdTime = 90 ∧
    w.sess.tm.keepalive = some 90 ∧ (step exU w (.fire .keepalive)).sess.tm.keepalive = some 180 ∧
    Out.write 0 constructKeepalive ∈ (step exU w (.fire .keepalive)).sess.outs ∧
    (step exU w (.fire .keepalive)).sess.tm.hold = w.sess.tm.hold := by
  intro w
  refine ⟨by decide, by decide, by decide, by decide, by decide, by decide, by decide, by decide, by decide, by decide⟩

/-- Established at tick 30: a received KEEPALIVE changes the hold deadline (270 → 300 = now + H), is reported, and does
    not touch the keepalive deadline -/
example :
    let w := step exU exEstablished (.advance 30)
    enabled w.sess (.chunk 0 exKeepalive) = true ∧
    w.sess.st = .established ∧ (step exU w (.chunk 0 exKeepalive)).sess.st = .established ∧
    w.sess.tm.hold = some 270 ∧ (step exU w (.chunk 0 exKeepalive)).sess.tm.hold = some 300 ∧
    Out.hKeepalive 0 ∈ (step exU w (.chunk 0 exKeepalive)).sess.outs ∧
    (step exU w (.chunk 0 exKeepalive)).sess.tm.keepalive = w.sess.tm.keepalive := by
  intro w
  refine ⟨by decide, by decide, by decide, by decide, by decide, by decide, by decide⟩

/-- the hypotheses of the first theorem are met there -/
example : inSession exEstablished.sess.st ∧ TimInv exEstablished.sess :=
  ⟨Or.inr (by decide), C03_contract_holds exU exCfg _⟩

end Yabgp

#print axioms Yabgp.C03_keepalive_deadline_moves_only_when_sent
#print axioms Yabgp.C03_hold_deadline_moves_only_on_arrival
#print axioms Yabgp.C03_deadlines_fixed_by_other_events
#print axioms Yabgp.C03_clock_never_passes_a_deadline
#print axioms Yabgp.C03_hold_time_fixed_in_session
#print axioms Yabgp.C03_clock_never_passes_session_deadlines
