/-
  C13 — operator stop is final until operator start.
  Base theorems (Lemmas/Stopped.lean): `C13_stop_state` (whatever the state: Idle, all timers stopped, automatic start
  forbidden), `C13_quiet_step` / `C13_quiet` (from the stopped situation no event but an operator start makes the agent
  write a message or start a connection attempt), `C13_start` (start from the stopped situation connects at once and
  re-enables automatic recovery), `C01_manual_stop` (Cease iff Established), `C01_manual_start_ignored`.
  This file closes the gap the base theorems left open (their precondition "no attempt pending and no connection
  open"): in EVERY reachable state a manual stop leads to the stopped situation - the tracked connection is closed
  and the attempt in flight is given up (repaired defect C13-pending-attempt-adopted) - hence the quiet period holds
  after a manual stop issued in any reachable state, for every continuation.
-/
import Yabgp.Lemmas.Stopped
import Yabgp.Props.C12

namespace Yabgp
open Sess

variable (U : Bool → Bytes → UpdClass)

theorem Core.quiet_manualStop {c : Core} (h : Core.One c) (hp : Core.Pend c) :
    ∀ j, j < c.manualStop.conns.length → (c.manualStop.conn j).1 = .closing ∨ (c.manualStop.conn j).1 = .closed := by
  have h1 : Core.One ((((c.withTm false false).closeConn).withAllow false).withSt .idle) :=
    Core.one_after_close (c := c.withTm false false) ⟨h.one, h.tracked⟩ rfl
  have p1 : Core.Pend ((((c.withTm false false).closeConn).withAllow false).withSt .idle) :=
    (Core.pend_closeConn (c := c.withTm false false) (hp.of_conns rfl rfl)).of_conns rfl rfl
  have hnc := Core.noConnecting_abortPending p1
  intro j hj
  have hj' : j < ((((c.withTm false false).closeConn).withAllow false).withSt .idle).abortPending.conns.length := hj
  have hncj := hnc j hj'
  have hnotconn : (c.manualStop.conn j).1 ≠ .connected := by
    intro hc
    have hs := (Core.shrunk_abortPending ((((c.withTm false false).closeConn).withAllow false).withSt .idle)).2 j (Or.inr hc)
    have hcc : ((((c.withTm false false).closeConn).withAllow false).withSt .idle).conn j = (c.withTm false false).closeConn.conn j := rfl
    rw [Core.len_abortPending] at hj'
    exact Core.noConnected_closeConn (c := c.withTm false false) ⟨h.one, h.tracked⟩ j hj' (by rw [← hcc, ← hs.2]; exact hc)
  have hnotcing : (c.manualStop.conn j).1 ≠ .connecting := hncj
  cases hph : (c.manualStop.conn j).1 with
  | connecting => exact absurd hph hnotcing
  | connected => exact absurd hph hnotconn
  | closing => exact Or.inl rfl
  | closed => exact Or.inr rfl

/-- **Manual stop in any reachable state leads to the stopped situation**: Idle, no timer, automatic start forbidden,
    and every connection closed or being closed - the one in flight included. -/
theorem C13_stop_reaches_stopped (cfg : Cfg) (e0 : Ev) (he0 : e0 = .boot ∨ e0 = .manualStart) (evs : List Ev)
    (hen : EnabledRun U (step U (bootWorld cfg) e0) evs) :
    Stopped (step U (run U (bootWorld cfg) (e0 :: evs)) .manualStop).sess := by
  have h0 := one_first U cfg e0 he0
  have hboth := one_run U evs _ h0.1 h0.2 (heal_first U cfg e0 he0) hen
  have hrun : run U (bootWorld cfg) (e0 :: evs) = run U (step U (bootWorld cfg) e0) evs := rfl
  rw [hrun]
  generalize (run U (step U (bootWorld cfg) e0) evs) = w at hboth
  have hst := C13_stop_state (w.sess.withOuts [])
  refine ⟨hst.2.2, hst.1, hst.2.1, ?_⟩
  intro j hj
  have hj2 : j < (w.sess.withOuts []).manualStop.conns.length := hj
  have hcore : core (w.sess.withOuts []).manualStop = (core w.sess).manualStop := core_manualStop _
  have hq := Core.quiet_manualStop hboth.1 hboth.2 j (by
    rw [← hcore]; simpa [core] using hj2)
  rw [← hcore, core_conn] at hq
  exact hq

/-- **The quiet period, in full**: stop in any reachable state, then any continuation the environment can produce
    without an operator start: no BGP message is written, no connection attempt is made, and the peer stays stopped. -/
theorem C13_final (cfg : Cfg) (e0 : Ev) (he0 : e0 = .boot ∨ e0 = .manualStart) (evs cont : List Ev)
    (hen : EnabledRun U (step U (bootWorld cfg) e0) evs)
    (hne : ∀ e ∈ cont, e ≠ .manualStart)
    (hcont : EnabledRun U (step U (run U (bootWorld cfg) (e0 :: evs)) .manualStop) cont) :
    Stopped (run U (step U (run U (bootWorld cfg) (e0 :: evs)) .manualStop) cont).sess ∧
    ∀ o ∈ runOuts U (step U (run U (bootWorld cfg) (e0 :: evs)) .manualStop) cont, isNoise o = false :=
  C13_quiet U cont _ (C13_stop_reaches_stopped U cfg e0 he0 evs hen) hne hcont

/-- non-vacuity: stop while the first attempt is in flight, then the peer "accepts": not an event any more -/
example : Stopped (step exU (run exU (bootWorld exCfg) [.boot]) .manualStop).sess :=
  C13_stop_reaches_stopped exU exCfg .boot (Or.inl rfl) [] trivial

end Yabgp

#print axioms Yabgp.C13_stop_reaches_stopped
#print axioms Yabgp.C13_final
