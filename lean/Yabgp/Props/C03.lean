/-
  C03 — hold and keepalive timers keep exactly the negotiated contract.
  The per-event statements (KEEPALIVE sent and the timer re-armed at now + H/3; NOTIFICATION (4,0) + close on
  hold expiry; the hold timer restarted to now + H by every KEEPALIVE / UPDATE; timers set from
  min(configured, proposed) when the peer's OPEN is accepted; the 4-minute limit in OpenSent) are
  C01_keepalive_timer_expires, C01_hold_timer_expires, C01_keepalive_msg, C01_update_msg, C01_open_accepted and
  C01_tcp_connected.  This file adds the invariant that ties them together for EVERY schedule: in every state
  reachable by any event sequence, while the session is in OpenConfirm or Established, a KEEPALIVE is due within
  H/3 and the hold deadline lies within H — or, for H = 0, neither timer exists.
-/
import Yabgp.Lemmas.TmLemmas
import Yabgp.Props.C01

namespace Yabgp
open Sess

variable (U : Bool → Bytes → UpdClass)

/-- the timer is running and due no later than `bound` -/
def dueBy (t : Option Nat) (bound : Nat) : Prop :=
  match t with
  | some d => d ≤ bound
  | none => False

@[simp] theorem dueBy_some (d b : Nat) : dueBy (some d) b ↔ d ≤ b := Iff.rfl
@[simp] theorem dueBy_none (b : Nat) : dueBy none b ↔ False := Iff.rfl

theorem dueBy_mono {t : Option Nat} {a b : Nat} (h : dueBy t a) (hab : a ≤ b) : dueBy t b := by
  cases t <;> simp_all; omega

/-- the timer contract, as a state invariant (time in ticks of 1/3 s: H seconds = 3H ticks, H/3 seconds = H ticks) -/
def TimInv (s : Sess) : Prop :=
  (s.st = .openConfirm ∨ s.st = .established) →
    (0 < s.holdTime → dueBy s.tm.keepalive (s.now + s.holdTime) ∧ dueBy s.tm.hold (s.now + 3 * s.holdTime)) ∧
    (s.holdTime = 0 → s.tm.keepalive = none ∧ s.tm.hold = none)

theorem TimInv.of_not_session {s : Sess} (h : ¬ (s.st = .openConfirm ∨ s.st = .established)) : TimInv s :=
  fun hs => absurd hs h

theorem TimInv.of_idle {s : Sess} (h : s.st = .idle) : TimInv s :=
  TimInv.of_not_session (by simp [h])

/-- same FSM state, timers, hold time and clock ⇒ same invariant -/
theorem TimInv.of_core {s s' : Sess} (h : TimInv s) (h1 : s'.st = s.st) (h2 : s'.tm = s.tm) (h3 : s'.holdTime = s.holdTime)
    (h4 : s'.now = s.now) : TimInv s' := by
  unfold TimInv at *; rw [h1, h2, h3, h4]; exact h

theorem timInv_restartHold {s : Sess} (h : TimInv s) : TimInv s.restartHold := by
  unfold TimInv at *
  intro hs
  have hs' : s.st = .openConfirm ∨ s.st = .established := by simpa using hs
  obtain ⟨h1, h2⟩ := h hs'
  unfold restartHold
  split
  · rename_i hh
    simp only [tm_setHold, holdTime_setHold, holdTicks]
    refine ⟨fun _ => ⟨(h1 (by omega)).1, by simp [setHold, withTm]⟩, fun h0 => absurd h0 hh⟩
  · rename_i hh
    have h0 : s.holdTime = 0 := by omega
    exact ⟨fun hp => by omega, fun _ => h2 h0⟩

theorem timInv_setSt_established {s : Sess} (h : TimInv s) (hs : s.st = .openConfirm ∨ s.st = .established) :
    TimInv (s.setSt .established) := by
  unfold TimInv at *
  intro _
  simpa using h hs

theorem timInv_fsmKeepaliveReceived {s : Sess} (h : TimInv s) : TimInv s.fsmKeepaliveReceived := by
  by_cases hs : s.st = .openConfirm ∨ s.st = .established
  · rcases hs with h1 | h1
    · have : s.fsmKeepaliveReceived = s.restartHold.setSt .established := by simp [fsmKeepaliveReceived, h1]
      rw [this]
      exact timInv_setSt_established (timInv_restartHold h) (by simp [h1])
    · have : s.fsmKeepaliveReceived = s.restartHold := by simp [fsmKeepaliveReceived, h1]
      rw [this]; exact timInv_restartHold h
  · apply TimInv.of_idle
    rw [st_fsmKeepaliveReceived, if_neg hs]

theorem timInv_fsmUpdateReceived {s : Sess} (h : TimInv s) : TimInv s.fsmUpdateReceived := by
  by_cases hs : s.st = .established
  · have : s.fsmUpdateReceived = s.restartHold := by simp [fsmUpdateReceived, hs]
    rw [this]; exact timInv_restartHold h
  · apply TimInv.of_idle
    rw [st_fsmUpdateReceived, if_neg hs]

/-- FSM.open_received establishes the contract from the freshly negotiated hold time -/
theorem timInv_fsmOpenReceived (s : Sess) : TimInv s.fsmOpenReceived := by
  by_cases hs : s.st = .openSent
  · unfold TimInv
    intro _
    simp only [fsmOpenReceived, hs]
    split
    · rename_i hh
      simp [kaTicks, holdTicks]
      omega
    · rename_i hh
      simp
      omega
  · apply TimInv.of_idle
    rw [st_fsmOpenReceived, if_neg hs]

end Yabgp

namespace Yabgp
open Sess

variable (U : Bool → Bytes → UpdClass)

theorem timInv_dispatch {s : Sess} (h : TimInv s) (i ty : Nat) (body : Bytes) :
    TimInv (dispatch U s i ty body).1 := by
  have hbump : ∀ g, TimInv (s.bumpRecv i g) := fun g => h.of_core rfl rfl rfl rfl
  unfold dispatch
  split
  · unfold openReceived
    split
    · exact TimInv.of_idle (by simp)
    · exact TimInv.of_idle (by simp)
    · exact hbump _
    · split
      · exact TimInv.of_idle (by simp)
      · unfold openAccepted
        split
        · split <;> exact TimInv.of_idle (by simp)
        · split
          · exact (timInv_fsmOpenReceived _).of_core rfl rfl rfl rfl
          · exact (timInv_fsmOpenReceived _).of_core rfl rfl rfl rfl
  · split
    · split
      · exact hbump _
      · exact (hbump incUpdates).of_core rfl rfl rfl rfl
      · exact timInv_fsmUpdateReceived ((hbump incUpdates).of_core rfl rfl rfl rfl)
      · exact timInv_fsmUpdateReceived ((hbump incUpdates).of_core rfl rfl rfl rfl)
    · split
      · split
        · exact h
        · exact TimInv.of_idle (st_fsmNotificationReceived _ _ _)
      · split
        · split
          · exact timInv_fsmKeepaliveReceived ((hbump incKeepalives).of_core rfl rfl rfl rfl)
          · exact TimInv.of_idle (by simp)
        · split
          · split
            · exact hbump _
            · exact (hbump incRouteRefresh).of_core rfl rfl rfl rfl
          · exact TimInv.of_idle (by simp)

theorem timInv_parseBuffer {s : Sess} (h : TimInv s) (i : Nat) (buf : Bytes) :
    TimInv (parseBuffer U s i buf).1 := by
  unfold parseBuffer
  split
  · exact h
  · split
    · exact h
    · exact TimInv.of_idle (by simp)
    · exact TimInv.of_idle (by simp)
    · split <;> exact timInv_dispatch U h _ _ _

theorem timInv_drain (i : Nat) : ∀ (f : Nat) (s : Sess) (buf : Bytes), TimInv s → TimInv (drain U f s i buf).1 := by
  intro f
  induction f with
  | zero => intro s buf h; exact h
  | succ f ih =>
    intro s buf h
    simp only [drain]
    cases hp : (parseBuffer U s i buf).2 with
    | none => exact timInv_parseBuffer U h i buf
    | some rest => exact ih _ rest (timInv_parseBuffer U h i buf)

def inSession (q : St) : Prop := q = .openConfirm ∨ q = .established

/-- the step left the session states, or it kept the state, the negotiated hold time, the clock and the two
    session timers -/
structure Outer (s s' : Sess) : Prop where
  st : s'.st = s.st ∨ ¬ inSession s'.st
  hold : s'.holdTime = s.holdTime
  now : s'.now = s.now
  ka : s'.tm.keepalive = s.tm.keepalive
  hd : s'.tm.hold = s.tm.hold

theorem Outer.refl (s : Sess) : Outer s s := ⟨Or.inl rfl, rfl, rfl, rfl, rfl⟩
theorem Outer.trans {a b c : Sess} (h1 : Outer a b) (h2 : Outer b c) : Outer a c := by
  refine ⟨?_, h2.hold.trans h1.hold, h2.now.trans h1.now, h2.ka.trans h1.ka, h2.hd.trans h1.hd⟩
  rcases h2.st with h | h
  · rcases h1.st with h' | h'
    · exact Or.inl (h.trans h')
    · exact Or.inr (by rw [h]; exact h')
  · exact Or.inr h

theorem TimInv.of_outer {s s' : Sess} (h : TimInv s) (o : Outer s s') : TimInv s' := by
  rcases o.st with hst | hst
  · unfold TimInv at *
    rw [hst, o.hold, o.now, o.ka, o.hd]; exact h
  · exact TimInv.of_not_session hst

theorem outer_of_st {s s' : Sess} (h : ¬ inSession s'.st) (h2 : s'.holdTime = s.holdTime) (h3 : s'.now = s.now)
    (h4 : s'.tm.keepalive = s.tm.keepalive) (h5 : s'.tm.hold = s.tm.hold) : Outer s s' := ⟨Or.inr h, h2, h3, h4, h5⟩

theorem outer_abortPending (s : Sess) : Outer s s.abortPending :=
  ⟨Or.inl (by simp), by simp, by simp, by simp, by simp⟩

theorem outer_connectTcp (s : Sess) : Outer s s.connectTcp := by
  unfold connectTcp; split
  · refine (outer_abortPending s).trans ⟨Or.inl rfl, rfl, rfl, rfl, rfl⟩
  · exact outer_abortPending s

theorem outer_autoStart (s : Sess) (b : Bool) : Outer s (s.autoStart b) := by
  unfold autoStart
  split
  · split
    · exact ⟨Or.inl rfl, rfl, rfl, rfl, rfl⟩
    · split
      · refine Outer.trans ?_ (outer_connectTcp _)
        exact ⟨Or.inr (by simp [inSession]), by simp, by simp, by simp, by simp⟩
      · exact Outer.refl s
  · exact Outer.refl s

theorem outer_dropEstab (s : Sess) (p : Option Nat) : Outer s (s.dropEstab p) := by
  unfold dropEstab
  split
  · split
    · exact ⟨Or.inr (by simp [inSession]), by simp [withEstab], by simp [withEstab], by simp [withEstab], by simp [withEstab]⟩
    · exact Outer.refl s
  · exact Outer.refl s

theorem outer_connectionClosed (s : Sess) (p : Option Nat) : Outer s (s.connectionClosed p) := by
  unfold connectionClosed
  split
  · exact (outer_dropEstab s p).trans (outer_autoStart _ _)
  · exact outer_dropEstab s p

theorem not_inSession_idle : ¬ inSession St.idle := by simp [inSession]

theorem timInv_connectionFailed {s : Sess} (h : TimInv s) : TimInv s.connectionFailed := by
  unfold connectionFailed
  split
  · refine TimInv.of_outer (s := ((s.setRetry none).closeConn).setSt .idle) (TimInv.of_idle (by simp)) (outer_connectionClosed _ _)
  · exact TimInv.of_idle (by simp)
  · refine TimInv.of_outer (s := (((s.closeConn).setRetry (some s.retryDeadline)).setHold none).setSt .active)
      (TimInv.of_not_session (by simp)) (outer_connectionClosed _ _)
  · exact TimInv.of_idle (by simp)
  · exact TimInv.of_idle (by simp)
  · exact h

theorem timInv_fireKeepalive_session {s : Sess} (h : TimInv s) (hst : inSession s.st) :
    TimInv (if s.holdTime > 0 then ((s.setKeepalive none).sendKeepalive).setKeepalive (some (s.now + s.kaTicks))
            else (s.setKeepalive none).sendKeepalive) := by
  obtain ⟨h1, h2⟩ := h hst
  unfold TimInv
  split
  · rename_i hh
    intro _
    have hb := h1 hh
    simp only [tm_setKeepalive, tm_sendKeepalive, holdTime_setKeepalive, holdTime_sendKeepalive, now_setKeepalive,
      now_sendKeepalive, kaTicks]
    refine ⟨fun _ => ⟨by simp, by simpa using hb.2⟩, fun h0 => by omega⟩
  · rename_i hh
    intro _
    have h00 : s.holdTime = 0 := by omega
    have hb := h2 h00
    simp only [tm_setKeepalive, tm_sendKeepalive, holdTime_setKeepalive, holdTime_sendKeepalive, now_setKeepalive,
      now_sendKeepalive]
    refine ⟨fun hp => by omega, fun _ => ⟨trivial, hb.2⟩⟩

/-- the invariant is preserved by every event, enabled or not -/
theorem timInv_step (w : World) (e : Ev) (h : TimInv w.sess) : TimInv (step U w e).sess := by
  have h0 : TimInv (w.sess.withOuts []) := h.of_core rfl rfl rfl rfl
  cases e with
  | boot => exact h0.of_outer (outer_autoStart _ _)
  | manualStart =>
    simp only [step, manualStart]
    split
    · exact h0.of_core rfl rfl rfl rfl
    · refine TimInv.of_outer (s := (((w.sess.withOuts []).withAllow true).setRetry (some (w.sess.withOuts []).retryDeadline)).setSt .connect)
        (TimInv.of_not_session (by simp)) ((outer_connectTcp _).trans ⟨Or.inl rfl, rfl, rfl, rfl, rfl⟩)
    · exact h0.of_core rfl rfl rfl rfl
  | manualStop => exact TimInv.of_idle (by simp [step, manualStop])
  | connOk c =>
    simp only [step, connOk, connectionMade]
    split
    · exact TimInv.of_not_session (by simp)
    · apply TimInv.of_not_session
      have : ((((((((w.sess.withOuts []).setPhase c .connected).withProto (some c)).setSt .connect).withEstab (some c)).withBgpId
          (some ((w.sess.withOuts []).bgpId.getD (w.sess.withOuts []).cfg.localId))).setRetry none).setIdleHold none).sendOpen.1.st
          = .connect := by
        unfold sendOpen; split
        · simp [withProto, withEstab, withBgpId]
        · split <;> simp [withProto, withEstab, withBgpId, withLocalCaps]
      rw [this]; simp
  | connFail c =>
    simp only [step, connFail]
    split
    · exact timInv_connectionFailed (h0.of_core rfl rfl rfl rfl)
    · exact h0.of_core rfl rfl rfl rfl
  | chunk c d =>
    simp only [step, dataReceived]
    exact timInv_drain U c _ _ _ h0
  | lost c =>
    simp only [step, connLost]
    split
    · exact TimInv.of_outer (h0.of_core (s' := ((w.sess.withOuts []).setPhase c .closed).emit (.hConnLost c)) rfl rfl rfl rfl)
        (outer_connectionClosed _ _)
    · exact timInv_connectionFailed (h0.of_core rfl rfl rfl rfl)
  | advance dt =>
    simp only [step]
    unfold TimInv at h ⊢
    intro hs
    obtain ⟨h1, h2⟩ := h hs
    refine ⟨fun hp => ?_, h2⟩
    have hb := h1 hp
    exact ⟨dueBy_mono hb.1 (show w.sess.now + w.sess.holdTime ≤ w.sess.now + dt + w.sess.holdTime by omega),
           dueBy_mono hb.2 (show w.sess.now + 3 * w.sess.holdTime ≤ w.sess.now + dt + 3 * w.sess.holdTime by omega)⟩
  | fire t =>
    cases t with
    | retry =>
      simp only [step, fireRetry]
      split
      · exact TimInv.of_outer (s := (((w.sess.withOuts []).setRetry none).closeConn).setRetry (some (w.sess.withOuts []).retryDeadline))
          (h0.of_outer ⟨Or.inl (by simp), by simp, by simp, by simp, by simp⟩) (outer_connectTcp _)
      · exact TimInv.of_outer (s := (((w.sess.withOuts []).setRetry none).closeConn).setRetry (some (w.sess.withOuts []).retryDeadline))
          (h0.of_outer ⟨Or.inl (by simp), by simp, by simp, by simp, by simp⟩) (outer_connectTcp _)
      · exact h0.of_outer ⟨Or.inl rfl, rfl, rfl, rfl, rfl⟩
      · exact TimInv.of_idle (by simp)
    | hold =>
      simp only [step, fireHold]
      split
      · exact TimInv.of_idle (by simp)
      · exact TimInv.of_idle (by simp)
      · exact TimInv.of_idle (by simp)
      · exact TimInv.of_idle (by simp)
      · exact TimInv.of_idle (by simp)
      · exact TimInv.of_not_session (by simp [*])
    | keepalive =>
      simp only [step, fireKeepalive]
      split
      · rename_i hst
        exact timInv_fireKeepalive_session h0 (Or.inl hst)
      · rename_i hst
        exact timInv_fireKeepalive_session h0 (Or.inr hst)
      · exact TimInv.of_idle (by simp)
      · exact TimInv.of_idle (by simp)
      · rename_i hst1 hst2 hst3 hst4
        exact TimInv.of_not_session (by
          show ¬ ((w.sess.withOuts []).st = .openConfirm ∨ (w.sess.withOuts []).st = .established)
          intro hc; rcases hc with hc | hc
          · exact hst1 hc
          · exact hst2 hc)
    | idleHold =>
      simp only [step, fireIdleHold]
      split
      · exact TimInv.of_outer (h0.of_outer (s' := (w.sess.withOuts []).setIdleHold none) ⟨Or.inl rfl, rfl, rfl, rfl, rfl⟩)
          (outer_autoStart _ _)
      · exact h0.of_outer (s' := (w.sess.withOuts []).setIdleHold none) ⟨Or.inl rfl, rfl, rfl, rfl, rfl⟩

/-- the timer contract holds in every state reachable by any sequence of events from boot, for every
    configuration and every update decoder: all peer arrival schedules, bursts, same-instant orders of an
    expiry and an arrival, any number of sessions. -/
theorem C03_contract_holds (cfg : Cfg) (evs : List Ev) : TimInv (run U (bootWorld cfg) evs).sess := by
  have gen : ∀ (evs : List Ev) (w : World), TimInv w.sess → TimInv (run U w evs).sess := by
    intro evs
    induction evs with
    | nil => intro w h; exact h
    | cons e r ih => intro w h; exact ih _ (timInv_step U w e h)
  exact gen evs _ (TimInv.of_idle rfl)

end Yabgp

#print axioms Yabgp.C03_contract_holds
