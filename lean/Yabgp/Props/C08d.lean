/-
  C08, fourth part — the extended-communities constructor (Model/ExtComm.lean by builder XC) as repaired by fix_5
  (Model/Construct/ExtCommGuard.lean): whatever it returns is one well-formed EXTENDED COMMUNITIES attribute whose
  value is a whole number of 8-octet communities.
-/
import Yabgp.Lemmas.WalkerLemmas
import Yabgp.Model.Construct.ExtCommGuard

namespace Yabgp
open Walker ExtComm

theorem constructBodyR_length (items : List Item) : ∀ b, constructBodyR items = some b → b.length % 8 = 0 := by
  induction items with
  | nil => intro b h; simp [constructBodyR] at h; subst h; rfl
  | cons i r ih =>
    intro b h
    simp only [constructBodyR] at h
    cases h1 : constructOneR i with
    | none => simp [h1] at h
    | some a =>
      cases h2 : constructBodyR r with
      | none => simp [h1, h2] at h
      | some c =>
        simp [h1, h2] at h; subst h
        have hc := ih c h2
        have ha : a.length = 0 ∨ a.length = 8 := by
          unfold constructOneR at h1
          split at h1
          · split at h1
            · simp only [Option.some.injEq] at h1; subst h1; assumption
            · simp at h1
          · simp at h1
        simp only [List.length_append]
        omega

theorem C08d_extcomm (cfg : Cfg) (items : List Item) (w : Bytes) (h : constructR items = .ok w) :
    Seq (attrItem cfg) w := by
  unfold constructR at h
  cases hb : constructBodyR items with
  | none => simp [hb] at h
  | some body =>
    cases body with
    | nil => simp [hb] at h
    | cons x xs =>
      simp only [hb] at h
      split at h
      · rename_i hlen
        simp only [COut.ok.injEq] at h; subst h
        have hl := constructBodyR_length items (x :: xs) hb
        exact seq_attr_short cfg C.fExtCommunity C.tExtCommunity (x :: xs) (by decide) (by decide) hlen (by decide)
          (by decide) (by simp only [attrValueOk, C.tExtCommunity]; simpa using hl)
      · simp at h

end Yabgp

#print axioms Yabgp.C08d_extcomm
