/-
  C01 — the session state machine follows the RFC 4271 §8 profile (active-only speaker, single
  connection regime).  One theorem per RFC event; each states, for every session state the event can
  occur in, the state reported afterwards, the messages emitted (NOTIFICATION code and sub-code, OPEN,
  KEEPALIVE) and the decision to close.  `Norm s i` is the single-connection situation: the state
  machine tracks connection `i`, which is up.
-/
import Yabgp.Lemmas.StLemmas
import Yabgp.Props.C04

namespace Yabgp
open Sess

variable (U : Bool → Bytes → UpdClass)

attribute [local simp] emit withNow withSt withTm withAllow withRetryCounter withHoldTime withProto withEstab
  withLocalCaps withRemote withBgpId withOuts setRetry setHold setKeepalive setIdleHold incRetryCounter setSt
  restartHold

/-- the observable reaction to a protocol error: exactly one NOTIFICATION (code, sub-code, data) written to the
    tracked connection, then the close; state Idle; hold/keepalive/connect-retry timers stopped and the
    idle-hold (restart) timer running -/
structure ErrorReaction (s s' : Sess) (i e sub : Nat) (d : Bytes) : Prop where
  outs : s'.outs = s.outs ++ [.write i (notifWire e sub d), .lose i]
  st : s'.st = .idle
  tm : s'.tm = { retry := none, hold := none, keepalive := none, idleHold := some s.idleDeadline }

/-- the reaction "drop the connection silently": no message, close, Idle, restart timer running -/
structure SilentClose (s s' : Sess) (i : Nat) : Prop where
  outs : s'.outs = s.outs ++ [.lose i]
  st : s'.st = .idle
  tm : s'.tm = { retry := none, hold := none, keepalive := none, idleHold := some s.idleDeadline }

theorem errorReaction_of_norm {s : Sess} {i : Nat} (h : Norm s i) (e sub : Nat) (d : Bytes)
    (he : e < 256) (hs : sub < 256) (hd : d.length + 21 < 65536) :
    ErrorReaction s ((s.sendNotification e sub d).errorClose) i e sub d := by
  rw [sendNotification_norm h e sub d he hs hd, errorClose_norm ((h.bumpSent i _).emit _)]
  constructor <;> simp [setPhase, setDisconnected, bumpSent, setConn, withConns, idleDeadline]

theorem silentClose_of_norm {s : Sess} {i : Nat} (h : Norm s i) : SilentClose s s.errorClose i := by
  rw [errorClose_norm h]
  constructor <;> simp [setPhase, setDisconnected, setConn, withConns]

/-! ### timer events (RFC events 9, 10, 11, 13) -/

/-- Event 10, HoldTimer_Expires: in OpenSent, OpenConfirm and Established the agent sends NOTIFICATION
    Hold Timer Expired (4, 0), closes and goes to Idle; the event is ignored in Idle. -/
theorem C01_hold_timer_expires {s : Sess} {i : Nat} (h : Norm s i) :
    (s.st = .openSent ∨ s.st = .openConfirm ∨ s.st = .established →
      (s.fireHold).outs = s.outs ++ [.write i (notifWire 4 0 []), .lose i] ∧ (s.fireHold).st = .idle) ∧
    (s.st = .idle → (s.fireHold).outs = s.outs ∧ (s.fireHold).st = .idle) := by
  constructor
  · intro hst
    have key := errorReaction_of_norm ((h.setHold none)) 4 0 [] (by decide) (by decide) (by decide)
    have hn2 : Norm (((s.setHold none).sendNotification C.errHold 0 []).setRetry none) i := by
      rw [sendNotification_norm (h.setHold none) _ _ _ (by decide) (by decide) (by decide)]
      exact (((h.setHold none).bumpSent i _).emit _).setRetry none
    have hfire : s.fireHold = ((((s.setHold none).sendNotification C.errHold 0 []).setRetry none).errorClose).setSt .idle := by
      rcases hst with h1 | h1 | h1 <;> simp [fireHold, h1]
    rw [hfire]
    rw [errorClose_norm hn2, sendNotification_norm (h.setHold none) _ _ _ (by decide) (by decide) (by decide)]
    constructor <;> simp [setPhase, setDisconnected, bumpSent, setConn, withConns, C.errHold]
  · intro hst
    simp [fireHold, hst]

end Yabgp

namespace Yabgp
open Sess

variable (U : Bool → Bytes → UpdClass)

attribute [local simp] emit withNow withSt withTm withAllow withRetryCounter withHoldTime withProto withEstab
  withLocalCaps withRemote withBgpId withOuts setRetry setHold setKeepalive setIdleHold incRetryCounter setSt
  restartHold withConns C.errFsm C.errHold C.errCease C.errOpen C.errHdr

/-- Event 11, KeepaliveTimer_Expires: in OpenConfirm and Established a KEEPALIVE is sent on the tracked
    connection and the timer restarted (iff the hold time is not zero); state unchanged. -/
theorem C01_keepalive_timer_expires {s : Sess} {i : Nat} (h : Norm s i)
    (hst : s.st = .openConfirm ∨ s.st = .established) :
    (s.fireKeepalive).outs = s.outs ++ [.write i constructKeepalive] ∧ (s.fireKeepalive).st = s.st ∧
    (s.fireKeepalive).tm.keepalive = (if s.holdTime > 0 then some (s.now + s.holdTime) else none) ∧
    (s.fireKeepalive).tm.hold = s.tm.hold := by
  have hk := sendKeepalive_norm (h.setKeepalive none)
  rcases hst with h1 | h1 <;>
  · simp only [fireKeepalive, h1]
    split <;> (rw [hk]; simp [bumpSent, setConn, withConns, kaTicks, *])

/-- Event 9, ConnectRetryTimer_Expires, in OpenSent / OpenConfirm / Established: FSM error — NOTIFICATION
    (5, 0), close, Idle. -/
theorem C01_connect_retry_expires_in_session {s : Sess} {i : Nat} (h : Norm s i)
    (hst : s.st = .openSent ∨ s.st = .openConfirm ∨ s.st = .established) :
    (s.fireRetry).outs = s.outs ++ [.write i (notifWire 5 0 []), .lose i] ∧ (s.fireRetry).st = .idle := by
  have key := errorReaction_of_norm (h.setRetry none) 5 0 [] (by decide) (by decide) (by decide)
  have : s.fireRetry = ((s.setRetry none).sendNotification C.errFsm 0 []).errorClose := by
    rcases hst with h1 | h1 | h1 <;> simp [fireRetry, h1]
  rw [this]
  exact ⟨by simpa using key.outs, key.st⟩

/-- Event 9 in Connect: the timer is restarted and a new TCP connection is initiated, state stays Connect;
    in Idle the event is ignored. -/
theorem C01_connect_retry_expires_connect (s : Sess) (hp : s.proto = none) :
    (s.st = .connect → (s.fireRetry).outs = s.outs ++ [.connect s.conns.length] ∧ (s.fireRetry).st = .connect ∧
      (s.fireRetry).tm.retry = some (s.now + 3 * s.cfg.retryT)) ∧
    (s.st = .idle → (s.fireRetry).outs = s.outs ∧ (s.fireRetry).st = .idle) := by
  constructor
  · intro hst
    have e : ((s.setRetry none).closeConn).setRetry (some s.retryDeadline) = (s.setRetry none).setRetry (some s.retryDeadline) := by
      simp [closeConn, hp, setRetry, withTm]
    simp only [fireRetry, hst, e, connectTcp]
    rw [if_pos (by simp [hst])]
    simp [retryDeadline, setRetry, withTm, Sess.emit, withConns, withPending, hst]
  · intro hst
    simp [fireRetry, hst]

/-- Events 1 / 3 / 13 in Idle (ManualStart, AutomaticStart at boot, IdleHoldTimer_Expires with automatic start
    allowed): the ConnectRetryTimer is started, a TCP connection is initiated, state Connect. -/
theorem C01_start_from_idle (s : Sess) (hst : s.st = .idle) :
    ((s.manualStart).st = .connect ∧ (s.manualStart).outs = s.outs ++ [.connect s.conns.length, .retStart 1] ∧
      (s.manualStart).tm.retry = some (s.now + 3 * s.cfg.retryT) ∧ (s.manualStart).allowAuto = true) ∧
    (s.allowAuto = true →
      (s.fireIdleHold).st = .connect ∧ (s.fireIdleHold).outs = s.outs ++ [.connect s.conns.length] ∧
      (s.fireIdleHold).tm.retry = some (s.now + 3 * s.cfg.retryT) ∧
      (s.autoStart false).st = .connect ∧ (s.autoStart false).outs = s.outs ++ [.connect s.conns.length]) := by
  constructor
  · simp only [manualStart, hst, connectTcp]
    rw [if_pos (by simp [Sess.setSt])]
    simp [retryDeadline, Sess.setSt, setRetry, withTm, Sess.emit, withConns, withPending, withSt, withAllow]
  · intro ha
    simp only [fireIdleHold, autoStart, hst, ha, connectTcp, st_setIdleHold, ↓reduceIte, Bool.false_eq_true]
    have hal : (s.setIdleHold none).allowAuto = true := ha
    simp only [hal, ↓reduceIte]
    refine ⟨?_, ?_, ?_, ?_, ?_⟩
    · rw [if_pos (by simp [Sess.setSt])]; simp [Sess.setSt, Sess.emit, withConns, withPending, withSt]
    · rw [if_pos (by simp [Sess.setSt])]
      simp [Sess.setSt, Sess.emit, withConns, withPending, withSt, setIdleHold, withTm, setRetry, incRetryCounter, withRetryCounter]
    · rw [if_pos (by simp [Sess.setSt])]
      simp [Sess.setSt, Sess.emit, withConns, withPending, withSt, setIdleHold, withTm, setRetry, incRetryCounter, withRetryCounter, retryDeadline]
    · rw [if_pos (by simp [Sess.setSt])]; simp [Sess.setSt, Sess.emit, withConns, withPending, withSt]
    · rw [if_pos (by simp [Sess.setSt])]
      simp [Sess.setSt, Sess.emit, withConns, withPending, withSt, withTm, setRetry, incRetryCounter, withRetryCounter]

/-- ManualStart is ignored while a session is up or being set up. -/
theorem C01_manual_start_ignored (s : Sess) (hst : s.st ≠ .idle) :
    (s.manualStart).st = s.st ∧ (s.manualStart).tm = s.tm ∧ (s.manualStart).conns = s.conns ∧
    ∃ v, (s.manualStart).outs = s.outs ++ [.retStart v] := by
  cases h : s.st <;> simp_all [manualStart]

/-- Event 2, ManualStop: from Established a Cease NOTIFICATION is sent first; in every state with a live
    tracked connection the connection is closed, all timers are stopped, automatic restart is forbidden
    and the state is Idle. -/
theorem C01_manual_stop {s : Sess} {i : Nat} (h : Norm s i) :
    (s.st = .established →
      (s.manualStop).outs = s.outs ++ [.write i (notifWire 6 0 []), .lose i, .retStop]) ∧
    (s.st ≠ .established → (s.manualStop).outs = s.outs ++ [.lose i, .retStop]) ∧
    (s.manualStop).st = .idle ∧ (s.manualStop).tm = {} ∧ (s.manualStop).allowAuto = false := by
  refine ⟨?_, ?_, ?_⟩
  · intro hst
    simp only [manualStop, hst, ↓reduceIte]
    rw [sendNotification_norm h _ _ _ (by decide) (by decide) (by decide)]
    rw [closeConn_norm (((h.bumpSent i _).emit _).withTm {})]
    simp [setPhase, setDisconnected, bumpSent, setConn, withConns, C.errCease]
  · intro hst
    simp only [manualStop, hst, ↓reduceIte]
    rw [closeConn_norm (h.withTm {})]
    simp [setPhase, setDisconnected, setConn, withConns]
  · by_cases hst : s.st = .established
    · simp only [manualStop, hst, ↓reduceIte]
      rw [sendNotification_norm h _ _ _ (by decide) (by decide) (by decide)]
      rw [closeConn_norm (((h.bumpSent i _).emit _).withTm {})]
      simp [setPhase, setDisconnected, bumpSent, setConn, withConns]
    · simp only [manualStop, hst, ↓reduceIte]
      rw [closeConn_norm (h.withTm {})]
      simp [setPhase, setDisconnected, setConn, withConns]

end Yabgp

namespace Yabgp
open Sess

variable (U : Bool → Bytes → UpdClass)

attribute [local simp] emit withNow withSt withTm withAllow withRetryCounter withHoldTime withProto withEstab
  withLocalCaps withRemote withBgpId withOuts setRetry setHold setKeepalive setIdleHold incRetryCounter setSt
  restartHold withConns C.errFsm C.errHold C.errCease C.errOpen C.errHdr

/-! ### connection events (RFC events 16/17, 18) -/

theorem connectionMade_ok (t : Sess) (i : Nat) (w : Bytes) (hp : t.proto = some i)
    (hph : (t.conn i).phase = .connected) (hw : t.openWire = some w) :
    (t.connectionMade).st = .openSent ∧
    (t.connectionMade).outs = t.outs ++ [.write i w, .hSendOpen i t.cfg.localAs t.cfg.holdCfg (t.bgpId.getD 0)] ∧
    (t.connectionMade).proto = some i ∧
    (t.connectionMade).tm.hold = some (t.now + 3 * 240) ∧ (t.connectionMade).tm.retry = none := by
  have hw' : ((t.setRetry none).setIdleHold none).openWire = some w := hw
  have hp' : ((t.setRetry none).setIdleHold none).proto = some i := hp
  have hup : transportUp ((((t.setRetry none).setIdleHold none).withLocalCaps
      (negotiateCaps ((t.setRetry none).setIdleHold none).localCaps ((t.setRetry none).setIdleHold none).remote)).conn i) = true := by
    have : ((((t.setRetry none).setIdleHold none).withLocalCaps
      (negotiateCaps ((t.setRetry none).setIdleHold none).localCaps ((t.setRetry none).setIdleHold none).remote)).conn i)
        = t.conn i := rfl
    rw [this]; simp [transportUp, hph]
  simp only [connectionMade, sendOpen, hp', hw']
  simp only [writeOn, hup, ↓reduceIte]
  simp [bumpSent, setConn, C.largeHoldTime, hp]

/-- Events 16/17, the TCP connection is established (state Connect): the ConnectRetryTimer is stopped, our OPEN
    is sent on the new connection, which becomes the tracked one, the hold timer is set to the large value
    (4 minutes) and the state is OpenSent. -/
theorem C01_tcp_connected (s : Sess) (i : Nat) (w : Bytes) (hlt : i < s.conns.length)
    (hw : (((((s.setPhase i .connected).withProto (some i)).setSt .connect).withEstab (some i)).withBgpId
            (some (s.bgpId.getD s.cfg.localId))).openWire = some w) :
    (s.connOk i).st = .openSent ∧
    (s.connOk i).outs = s.outs ++ [.write i w, .hSendOpen i s.cfg.localAs s.cfg.holdCfg (s.bgpId.getD s.cfg.localId)] ∧
    (s.connOk i).proto = some i ∧
    (s.connOk i).tm.hold = some (s.now + 3 * 240) ∧ (s.connOk i).tm.retry = none := by
  have hph : ((((((s.setPhase i .connected).withProto (some i)).setSt .connect).withEstab (some i)).withBgpId
            (some (s.bgpId.getD s.cfg.localId))).conn i).phase = .connected := by
    have : ((((((s.setPhase i .connected).withProto (some i)).setSt .connect).withEstab (some i)).withBgpId
            (some (s.bgpId.getD s.cfg.localId))).conn i) = (s.setPhase i .connected).conn i := by
      simp only [Sess.setSt]; split <;> rfl
    rw [this]; simp [setPhase, conn_setConn, hlt]
  have hp : (((((s.setPhase i .connected).withProto (some i)).setSt .connect).withEstab (some i)).withBgpId
            (some (s.bgpId.getD s.cfg.localId))).proto = some i := by
    simp only [Sess.setSt]; split <;> rfl
  have := connectionMade_ok _ i w hp hph hw
  unfold connOk
  refine ⟨this.1, ?_, this.2.2.1, ?_, this.2.2.2.2⟩
  · rw [this.2.1]; simp [setPhase, setConn]
  · rw [this.2.2.2.1]; simp [setPhase, setConn]

/-- Event 18 while the attempt is pending (state Connect, nothing tracked yet): the ConnectRetryTimer is
    stopped, the state is Idle and, automatic start being allowed, the restart (idle-hold) timer runs. -/
theorem C01_tcp_fails_connect (s : Sess) (i : Nat) (hst : s.st = .connect) (hp : s.proto = none)
    (ha : s.allowAuto = true) (hpend : s.pending = some i) :
    (s.connFail i).st = .idle ∧ (s.connFail i).outs = s.outs ++ [.hConnFailed] ∧
    (s.connFail i).tm.retry = none ∧ (s.connFail i).tm.idleHold = some (s.now + 3 * s.cfg.idleHoldT) := by
  simp [connFail, hpend, connectionFailed, setPhase, setConn, hst, closeConn, hp, connectionClosed, dropEstab, ha,
    autoStart, idleDeadline, withPending]

end Yabgp

namespace Yabgp
open Sess

variable (U : Bool → Bytes → UpdClass)

attribute [local simp] emit withNow withSt withTm withAllow withRetryCounter withHoldTime withProto withEstab
  withLocalCaps withRemote withBgpId withOuts setRetry setHold setKeepalive setIdleHold incRetryCounter setSt
  restartHold withConns C.errFsm C.errHold C.errCease C.errOpen C.errHdr

theorem closeConn_closed {s : Sess} {i : Nat} (hp : s.proto = some i) (hph : (s.conn i).phase = .closed) :
    s.closeConn = s.withRetryCounter 0 := by
  simp [closeConn, hp, closeOn, hph]

/-- Event 18 in a session (the peer closes the tracked connection, or it breaks): no message; Idle; the restart
    (idle-hold) timer is running, automatic start being allowed. -/
theorem C01_tcp_fails_in_session {s : Sess} {i : Nat} (h : Norm s i) (he : s.estab = some i) (ha : s.allowAuto = true)
    (hst : s.st = .openSent ∨ s.st = .openConfirm ∨ s.st = .established) :
    (s.connLost i).st = .idle ∧ (s.connLost i).outs = s.outs ++ [.hConnLost i] ∧
    (s.connLost i).tm.idleHold = some (s.now + 3 * s.cfg.idleHoldT) := by
  have hph : (((s.setPhase i .closed).emit (.hConnLost i)).conn i).phase = .closed := by
    show ((s.setPhase i .closed).conn i).phase = .closed
    simp [setPhase, conn_setConn, h.lt]
  have hp : ((s.setPhase i .closed).emit (.hConnLost i)).proto = some i := h.proto
  simp only [connLost, h.nd, Bool.false_eq_true, ↓reduceIte]
  rcases hst with h1 | h1 | h1
  · have hst' : ((s.setPhase i .closed).emit (.hConnLost i)).st = .openSent := h1
    simp only [connectionFailed, hst']
    rw [closeConn_closed hp hph]
    simp [connectionClosed, dropEstab, setPhase, setConn, he, ha, autoStart, idleDeadline, h.proto]
  · have hst' : ((s.setPhase i .closed).emit (.hConnLost i)).st = .openConfirm := h1
    simp only [connectionFailed, hst', errorClose]
    have hph2 : ((((s.setPhase i .closed).emit (.hConnLost i)).withTm
        { retry := none, hold := none, keepalive := none,
          idleHold := some ((s.setPhase i .closed).emit (.hConnLost i)).idleDeadline }).conn i).phase = .closed := hph
    rw [closeConn_closed (by exact hp) hph2]
    simp [setPhase, setConn, idleDeadline]
  · have hst' : ((s.setPhase i .closed).emit (.hConnLost i)).st = .established := h1
    simp only [connectionFailed, hst', errorClose]
    have hph2 : ((((s.setPhase i .closed).emit (.hConnLost i)).withTm
        { retry := none, hold := none, keepalive := none,
          idleHold := some ((s.setPhase i .closed).emit (.hConnLost i)).idleDeadline }).conn i).phase = .closed := hph
    rw [closeConn_closed (by exact hp) hph2]
    simp [setPhase, setConn, idleDeadline]

end Yabgp

namespace Yabgp
open Sess

variable (U : Bool → Bytes → UpdClass)

attribute [local simp] emit withNow withSt withTm withAllow withRetryCounter withHoldTime withProto withEstab
  withLocalCaps withRemote withBgpId withOuts setRetry setHold setKeepalive setIdleHold incRetryCounter setSt
  restartHold withConns C.errFsm C.errHold C.errCease C.errOpen C.errHdr

/-! ### message events (RFC events 19, 21, 22, 24–27) -/

theorem ErrorReaction.of_bumpRecv {s s' : Sess} {i j e sub : Nat} {d : Bytes} {g : Stats → Stats}
    (h : ErrorReaction (s.bumpRecv j g) s' i e sub d) : ErrorReaction s s' i e sub d :=
  ⟨h.outs, h.st, h.tm⟩

theorem SilentClose.of_bumpRecv {s s' : Sess} {i j : Nat} {g : Stats → Stats}
    (h : SilentClose (s.bumpRecv j g) s' i) : SilentClose s s' i := ⟨h.outs, h.st, h.tm⟩

theorem openAccepted_ok {t : Sess} {i : Nat} (hn0 : Norm t i) (hst : t.st = .openSent) (m : OpenMsg)
    (hh : ¬ (m.holdTime ≠ 0 ∧ m.holdTime < 3)) :
    (t.openAccepted i m).2 = true ∧
    (t.openAccepted i m).1.st = .openConfirm ∧
    (t.openAccepted i m).1.holdTime = min t.cfg.holdCfg m.holdTime ∧
    (t.openAccepted i m).1.outs = t.outs ++ [.write i constructKeepalive, .hOpen i m] ∧
    (t.openAccepted i m).1.tm.retry = none ∧
    (if min t.cfg.holdCfg m.holdTime > 0 then
       (t.openAccepted i m).1.tm.keepalive = some (t.now + min t.cfg.holdCfg m.holdTime) ∧
       (t.openAccepted i m).1.tm.hold = some (t.now + 3 * min t.cfg.holdCfg m.holdTime)
     else (t.openAccepted i m).1.tm.keepalive = none ∧ (t.openAccepted i m).1.tm.hold = none) := by
  -- the state in which FSM.open_received runs
  have key : ∀ (u : Sess), Norm u i → u.st = .openSent →
      (u.fsmOpenReceived).st = .openConfirm ∧
      (u.fsmOpenReceived).outs = u.outs ++ [.write i constructKeepalive] ∧
      (u.fsmOpenReceived).tm.retry = none ∧ (u.fsmOpenReceived).holdTime = u.holdTime ∧
      (if u.holdTime > 0 then (u.fsmOpenReceived).tm.keepalive = some (u.now + u.holdTime) ∧
          (u.fsmOpenReceived).tm.hold = some (u.now + 3 * u.holdTime)
       else (u.fsmOpenReceived).tm.keepalive = none ∧ (u.fsmOpenReceived).tm.hold = none) := by
    intro u hn ht
    simp only [fsmOpenReceived, ht]
    have hk := sendKeepalive_norm (hn.setRetry none)
    split <;> (rw [hk]; simp [bumpSent, setConn, kaTicks, holdTicks, *])
  have hpre : ∃ pre : Sess, Norm pre i ∧ pre.st = t.st ∧ pre.outs = t.outs ∧ pre.now = t.now ∧
      t.openAccepted i m = (((pre.withHoldTime (min t.cfg.holdCfg m.holdTime)).fsmOpenReceived).emit (.hOpen i m), true) := by
    unfold openAccepted
    rw [if_neg hh]
    split
    · refine ⟨(t.withRemote m.caps).setAsn4 i, ?_, ?_, ?_, ?_, rfl⟩
      · have hb := hn0.withRemote m.caps
        refine ⟨hb.proto, by simp [setAsn4, setConn]; exact hb.lt, ?_, ?_⟩
        · simp only [setAsn4, conn_setConn]; split
          · exact hb.up
          · exact hb.up
        · simp only [setAsn4, conn_setConn]; split
          · exact hb.nd
          · exact hb.nd
      · rfl
      · rfl
      · rfl
    · exact ⟨t.withRemote m.caps, hn0.withRemote m.caps, rfl, rfl, rfl, rfl⟩
  obtain ⟨pre, hn, e1, e2, e3, e4⟩ := hpre
  obtain ⟨k1, k2, k3, k4, k5⟩ := key (pre.withHoldTime (min t.cfg.holdCfg m.holdTime)) (hn.withHoldTime _) (e1.trans hst)
  rw [e4]
  refine ⟨rfl, k1, k4, ?_, k3, ?_⟩
  · show ((pre.withHoldTime _).fsmOpenReceived.outs ++ [Out.hOpen i m]) = _
    rw [k2]
    show (pre.outs ++ [Out.write i constructKeepalive]) ++ [Out.hOpen i m] = _
    rw [e2]; simp
  · have hnow : (pre.withHoldTime (min t.cfg.holdCfg m.holdTime)).now = t.now := e3
    have hht : (pre.withHoldTime (min t.cfg.holdCfg m.holdTime)).holdTime = min t.cfg.holdCfg m.holdTime := rfl
    rw [hnow, hht] at k5
    exact k5

/-- Event 19 in OpenSent, a valid OPEN (version 4, the configured peer AS, hold time not 1 or 2): our KEEPALIVE is
    sent, the session hold time becomes min(configured, proposed), the hold and keepalive timers are started
    iff that is not zero, the OPEN is reported to the application once, and the state is OpenConfirm. -/
theorem C01_open_accepted {s : Sess} {i : Nat} (h : Norm s i) (hst : s.st = .openSent) (body : Bytes) (m : OpenMsg)
    (hparse : parseOpen body = .ok m) (has : m.asn = s.cfg.remoteAs) (hh : ¬ (m.holdTime ≠ 0 ∧ m.holdTime < 3)) :
    (dispatch U s i 1 body).2 = true ∧
    (dispatch U s i 1 body).1.st = .openConfirm ∧
    (dispatch U s i 1 body).1.holdTime = min s.cfg.holdCfg m.holdTime ∧
    (dispatch U s i 1 body).1.outs = s.outs ++ [.write i constructKeepalive, .hOpen i m] ∧
    (dispatch U s i 1 body).1.tm.retry = none ∧
    (if min s.cfg.holdCfg m.holdTime > 0 then
       (dispatch U s i 1 body).1.tm.keepalive = some (s.now + min s.cfg.holdCfg m.holdTime) ∧
       (dispatch U s i 1 body).1.tm.hold = some (s.now + 3 * min s.cfg.holdCfg m.holdTime)
     else (dispatch U s i 1 body).1.tm.keepalive = none ∧ (dispatch U s i 1 body).1.tm.hold = none) := by
  have has' : ¬ s.cfg.remoteAs ≠ m.asn := by simp [has]
  have hd : dispatch U s i 1 body = (s.bumpRecv i incOpens).openAccepted i m := by
    simp only [dispatch, C.msgOpen, ↓reduceIte, openReceived, hparse, if_neg has']
  rw [hd]
  exact openAccepted_ok (h.bumpRecv i incOpens) hst m hh

end Yabgp

namespace Yabgp
open Sess

variable (U : Bool → Bytes → UpdClass)

attribute [local simp] emit withNow withSt withTm withAllow withRetryCounter withHoldTime withProto withEstab
  withLocalCaps withRemote withBgpId withOuts setRetry setHold setKeepalive setIdleHold incRetryCounter setSt
  restartHold withConns C.errFsm C.errHold C.errCease C.errOpen C.errHdr

/-- Events 21 / 22 on an OPEN, in every state with a live tracked connection: a malformed OPEN is answered with
    NOTIFICATION (1, sub) resp. (2, sub) as the decoder classified it; a wrong peer AS with (2, 2); an
    unacceptable hold time (1 or 2) with (2, 6); then the connection is closed and the state is Idle. -/
theorem C01_open_rejected {s : Sess} {i : Nat} (h : Norm s i) (body : Bytes) :
    (∀ sub, parseOpen body = .error (.hdr sub) → sub < 256 →
      ErrorReaction s (dispatch U s i 1 body).1 i 1 sub [] ∧ (dispatch U s i 1 body).2 = false) ∧
    (∀ sub, parseOpen body = .error (.open sub) → sub < 256 →
      ErrorReaction s (dispatch U s i 1 body).1 i 2 sub [] ∧ (dispatch U s i 1 body).2 = false) ∧
    (∀ m, parseOpen body = .ok m → m.asn ≠ s.cfg.remoteAs →
      ErrorReaction s (dispatch U s i 1 body).1 i 2 2 [] ∧ (dispatch U s i 1 body).2 = false) ∧
    (∀ m, parseOpen body = .ok m → m.asn = s.cfg.remoteAs → (m.holdTime = 1 ∨ m.holdTime = 2) →
      ErrorReaction s (dispatch U s i 1 body).1 i 2 6 [] ∧ (dispatch U s i 1 body).2 = false) := by
  have hb := h.bumpRecv i incOpens
  refine ⟨?_, ?_, ?_, ?_⟩
  · intro sub hp hs
    have hd : dispatch U s i 1 body = ((s.bumpRecv i incOpens).headerError sub [], false) := by
      simp only [dispatch, C.msgOpen, ↓reduceIte, openReceived, hp]
    rw [hd]
    exact ⟨(errorReaction_of_norm hb 1 sub [] (by decide) hs (by decide)).of_bumpRecv, rfl⟩
  · intro sub hp hs
    have hd : dispatch U s i 1 body = ((s.bumpRecv i incOpens).openMessageError sub, false) := by
      simp only [dispatch, C.msgOpen, ↓reduceIte, openReceived, hp]
    rw [hd]
    exact ⟨(errorReaction_of_norm hb 2 sub [] (by decide) hs (by decide)).of_bumpRecv, rfl⟩
  · intro m hp hne
    have hne' : s.cfg.remoteAs ≠ m.asn := fun e => hne e.symm
    have hd : dispatch U s i 1 body = ((s.bumpRecv i incOpens).openMessageError C.openBadPeerAs, false) := by
      simp only [dispatch, C.msgOpen, ↓reduceIte, openReceived, hp]
      rw [if_pos hne']
    rw [hd]
    exact ⟨(errorReaction_of_norm hb 2 2 [] (by decide) (by decide) (by decide)).of_bumpRecv, rfl⟩
  · intro m hp has hh
    have has' : ¬ s.cfg.remoteAs ≠ m.asn := by simp [has]
    have hh' : m.holdTime ≠ 0 ∧ m.holdTime < 3 := by omega
    have hd : dispatch U s i 1 body = (s.bumpRecv i incOpens).openAccepted i m := by
      simp only [dispatch, C.msgOpen, ↓reduceIte, openReceived, hp]
      rw [if_neg has']
    rw [hd]
    unfold openAccepted
    rw [if_pos hh']
    split
    · have hn : Norm (((s.bumpRecv i incOpens).withRemote m.caps).setAsn4 i) i := by
        have hb2 := hb.withRemote m.caps
        refine ⟨hb2.proto, by simp [setAsn4, setConn]; exact hb2.lt, ?_, ?_⟩
        · simp only [setAsn4, conn_setConn]; split
          · exact hb2.up
          · exact hb2.up
        · simp only [setAsn4, conn_setConn]; split
          · exact hb2.nd
          · exact hb2.nd
      have := errorReaction_of_norm hn 2 6 [] (by decide) (by decide) (by decide)
      exact ⟨⟨this.outs, this.st, this.tm⟩, rfl⟩
    · have := errorReaction_of_norm (hb.withRemote m.caps) 2 6 [] (by decide) (by decide) (by decide)
      exact ⟨⟨this.outs, this.st, this.tm⟩, rfl⟩

/-- Event 19 outside OpenSent (OpenConfirm, Established): FSM error — NOTIFICATION (5, 0), close, Idle. -/
theorem C01_open_unexpected {s : Sess} {i : Nat} (h : Norm s i) (hst : s.st = .openConfirm ∨ s.st = .established)
    (body : Bytes) (m : OpenMsg) (hparse : parseOpen body = .ok m) (has : m.asn = s.cfg.remoteAs)
    (hh : ¬ (m.holdTime ≠ 0 ∧ m.holdTime < 3)) :
    ∃ s' : Sess, (dispatch U s i 1 body).1 = s'.emit (.hOpen i m) ∧
      s'.outs = s.outs ++ [.write i (notifWire 5 0 []), .lose i] ∧ s'.st = .idle := by
  have has' : ¬ s.cfg.remoteAs ≠ m.asn := by simp [has]
  have hd : dispatch U s i 1 body = (s.bumpRecv i incOpens).openAccepted i m := by
    simp only [dispatch, C.msgOpen, ↓reduceIte, openReceived, hparse]
    rw [if_neg has']
  rw [hd]
  have hb := h.bumpRecv i incOpens
  have key : ∀ (u : Sess), Norm u i → (u.st = .openConfirm ∨ u.st = .established) →
      u.fsmOpenReceived = (u.sendNotification C.errFsm 0 []).errorClose := by
    intro u _ hu
    rcases hu with h1 | h1 <;> simp [fsmOpenReceived, h1]
  unfold openAccepted
  rw [if_neg hh]
  split
  · have hn : Norm ((((s.bumpRecv i incOpens).withRemote m.caps).setAsn4 i).withHoldTime
        (min (s.bumpRecv i incOpens).cfg.holdCfg m.holdTime)) i := by
      refine ((?_ : Norm (((s.bumpRecv i incOpens).withRemote m.caps).setAsn4 i) i)).withHoldTime _
      have hb2 := hb.withRemote m.caps
      refine ⟨hb2.proto, by simp [setAsn4, setConn]; exact hb2.lt, ?_, ?_⟩
      · simp only [setAsn4, conn_setConn]; split
        · exact hb2.up
        · exact hb2.up
      · simp only [setAsn4, conn_setConn]; split
        · exact hb2.nd
        · exact hb2.nd
    refine ⟨_, rfl, ?_, ?_⟩
    · rw [key _ hn hst]
      exact (errorReaction_of_norm hn 5 0 [] (by decide) (by decide) (by decide)).outs
    · rw [key _ hn hst]
      exact (errorReaction_of_norm hn 5 0 [] (by decide) (by decide) (by decide)).st
  · have hn : Norm (((s.bumpRecv i incOpens).withRemote m.caps).withHoldTime
        (min (s.bumpRecv i incOpens).cfg.holdCfg m.holdTime)) i := (hb.withRemote m.caps).withHoldTime _
    refine ⟨_, rfl, ?_, ?_⟩
    · rw [key _ hn hst]
      exact (errorReaction_of_norm hn 5 0 [] (by decide) (by decide) (by decide)).outs
    · rw [key _ hn hst]
      exact (errorReaction_of_norm hn 5 0 [] (by decide) (by decide) (by decide)).st

end Yabgp

namespace Yabgp
open Sess

variable (U : Bool → Bytes → UpdClass)

attribute [local simp] emit withNow withSt withTm withAllow withRetryCounter withHoldTime withProto withEstab
  withLocalCaps withRemote withBgpId withOuts setRetry setHold setKeepalive setIdleHold incRetryCounter setSt
  restartHold withConns C.errFsm C.errHold C.errCease C.errOpen C.errHdr

/-- Event 26, KEEPALIVE: OpenConfirm → Established (reported to the application), the hold timer restarted iff the
    hold time is not zero; Established → hold timer restarted, nothing else; OpenSent → FSM error (5, 0), Idle. -/
theorem C01_keepalive_msg {s : Sess} {i : Nat} (h : Norm s i) :
    (s.st = .openConfirm →
      (dispatch U s i 4 []).1.st = .established ∧
      (dispatch U s i 4 []).1.outs = s.outs ++ [.hKeepalive i, .hEstablished] ∧
      (dispatch U s i 4 []).1.tm.hold = (if s.holdTime ≠ 0 then some (s.now + 3 * s.holdTime) else s.tm.hold) ∧
      (dispatch U s i 4 []).1.tm.keepalive = s.tm.keepalive) ∧
    (s.st = .established →
      (dispatch U s i 4 []).1.st = .established ∧ (dispatch U s i 4 []).1.outs = s.outs ++ [.hKeepalive i] ∧
      (dispatch U s i 4 []).1.tm.hold = (if s.holdTime ≠ 0 then some (s.now + 3 * s.holdTime) else s.tm.hold) ∧
      (dispatch U s i 4 []).1.tm.keepalive = s.tm.keepalive) ∧
    (s.st = .openSent →
      (dispatch U s i 4 []).1.outs = s.outs ++ [.hKeepalive i, .write i (notifWire 5 0 []), .lose i] ∧
      (dispatch U s i 4 []).1.st = .idle) := by
  have hd : dispatch U s i 4 [] = (((s.bumpRecv i incKeepalives).emit (.hKeepalive i)).fsmKeepaliveReceived, true) := by
    simp [dispatch, C.msgOpen, C.msgUpdate, C.msgNotification, C.msgKeepalive]
  rw [hd]
  refine ⟨?_, ?_, ?_⟩
  · intro hst
    simp only [fsmKeepaliveReceived]
    have : ((s.bumpRecv i incKeepalives).emit (.hKeepalive i)).st = .openConfirm := hst
    simp only [this]
    by_cases hh : s.holdTime = 0 <;> simp [Sess.restartHold, bumpRecv, setConn, holdTicks, hst, hh]
  · intro hst
    simp only [fsmKeepaliveReceived]
    have : ((s.bumpRecv i incKeepalives).emit (.hKeepalive i)).st = .established := hst
    simp only [this]
    by_cases hh : s.holdTime = 0 <;> simp [Sess.restartHold, bumpRecv, setConn, holdTicks, hst, hh]
  · intro hst
    simp only [fsmKeepaliveReceived]
    have : ((s.bumpRecv i incKeepalives).emit (.hKeepalive i)).st = .openSent := hst
    simp only [this]
    have hn := (h.bumpRecv i incKeepalives).emit (.hKeepalive i)
    have key := errorReaction_of_norm hn 5 0 [] (by decide) (by decide) (by decide)
    exact ⟨by simpa [bumpRecv, setConn] using key.outs, key.st⟩

/-- a KEEPALIVE with a body is a header error: NOTIFICATION (1, 2), close, Idle -/
theorem C01_keepalive_bad_length {s : Sess} {i : Nat} (h : Norm s i) (body : Bytes) (hb : body ≠ []) :
    (dispatch U s i 4 body).1.outs = s.outs ++ [.hKeepalive i, .write i (notifWire 1 2 []), .lose i] ∧
    (dispatch U s i 4 body).1.st = .idle ∧ (dispatch U s i 4 body).2 = false := by
  have hd : dispatch U s i 4 body = (((s.bumpRecv i incKeepalives).emit (.hKeepalive i)).headerError C.hdrBadLen [], false) := by
    simp [dispatch, C.msgOpen, C.msgUpdate, C.msgNotification, C.msgKeepalive, hb]
  rw [hd]
  have hn := (h.bumpRecv i incKeepalives).emit (.hKeepalive i)
  have key := errorReaction_of_norm hn 1 2 [] (by decide) (by decide) (by decide)
  exact ⟨by simpa [bumpRecv, setConn, headerError, C.hdrBadLen] using key.outs, key.st, rfl⟩

/-- Event 27, UPDATE: in Established the session stays up whatever the body is (C10) and the hold timer is
    restarted iff the hold time is not zero; in OpenSent and OpenConfirm it is an FSM error (5, 0) → Idle. -/
theorem C01_update_msg {s : Sess} {i : Nat} (h : Norm s i) (body : Bytes) (hc : U (s.conn i).asn4 body ≠ .unmodelled) :
    (s.st = .established →
      (dispatch U s i 2 body).1.st = .established ∧
      (dispatch U s i 2 body).1.tm.keepalive = s.tm.keepalive ∧
      (U (s.conn i).asn4 body ≠ .raises →
        (dispatch U s i 2 body).1.tm.hold = (if s.holdTime ≠ 0 then some (s.now + 3 * s.holdTime) else s.tm.hold))) ∧
    ((s.st = .openSent ∨ s.st = .openConfirm) → U (s.conn i).asn4 body ≠ .raises →
      (dispatch U s i 2 body).1.st = .idle ∧
      ∃ rep, (dispatch U s i 2 body).1.outs = s.outs ++ [rep, .write i (notifWire 5 0 []), .lose i]) := by
  constructor
  · intro hst
    simp only [dispatch, C.msgOpen, C.msgUpdate, Nat.reduceEqDiff, ↓reduceIte]
    cases hu : U (s.conn i).asn4 body with
    | raises => simp [bumpRecv, setConn, hst]
    | unmodelled => exact absurd hu hc
    | malformed =>
      simp only [fsmUpdateReceived]
      have : (((s.bumpRecv i incUpdates).emit (.hUpdateError i body))).st = .established := hst
      simp only [this]
      by_cases hh : s.holdTime = 0 <;> simp [Sess.restartHold, bumpRecv, setConn, holdTicks, hst, hh]
    | good =>
      simp only [fsmUpdateReceived]
      have : (((s.bumpRecv i incUpdates).emit (.hUpdate i (s.conn i).asn4 body))).st = .established := hst
      simp only [this]
      by_cases hh : s.holdTime = 0 <;> simp [Sess.restartHold, bumpRecv, setConn, holdTicks, hst, hh]
  · intro hst hr
    simp only [dispatch, C.msgOpen, C.msgUpdate, Nat.reduceEqDiff, ↓reduceIte]
    have key : ∀ (u : Sess), Norm u i → u.st = s.st →
        u.fsmUpdateReceived = (u.sendNotification C.errFsm 0 []).errorClose := by
      intro u _ hu
      rcases hst with h1 | h1 <;> simp [fsmUpdateReceived, hu, h1]
    cases hu : U (s.conn i).asn4 body with
    | raises => exact absurd hu hr
    | unmodelled => exact absurd hu hc
    | malformed =>
      have hn := (h.bumpRecv i incUpdates).emit (.hUpdateError i body)
      simp only
      rw [key _ hn rfl]
      have k := errorReaction_of_norm hn 5 0 [] (by decide) (by decide) (by decide)
      exact ⟨k.st, .hUpdateError i body, by simpa [bumpRecv, setConn] using k.outs⟩
    | good =>
      have hn := (h.bumpRecv i incUpdates).emit (.hUpdate i (s.conn i).asn4 body)
      simp only
      rw [key _ hn rfl]
      have k := errorReaction_of_norm hn 5 0 [] (by decide) (by decide) (by decide)
      exact ⟨k.st, .hUpdate i (s.conn i).asn4 body, by simpa [bumpRecv, setConn] using k.outs⟩

end Yabgp

namespace Yabgp
open Sess

variable (U : Bool → Bytes → UpdClass)

attribute [local simp] emit withNow withSt withTm withAllow withRetryCounter withHoldTime withProto withEstab
  withLocalCaps withRemote withBgpId withOuts setRetry setHold setKeepalive setIdleHold incRetryCounter setSt
  restartHold withConns C.errFsm C.errHold C.errCease C.errOpen C.errHdr

/-- Events 24 / 25, NOTIFICATION received in a session: no NOTIFICATION is sent back, the connection is closed,
    the state is Idle.  (A version-error NOTIFICATION in OpenSent / OpenConfirm only stops the
    ConnectRetryTimer; every other case also stops hold / keepalive and arms the restart timer.) -/
theorem C01_notification_msg {s : Sess} {i : Nat} (h : Norm s i) (e sub : UInt8) (d : Bytes)
    (hst : s.st = .openSent ∨ s.st = .openConfirm ∨ s.st = .established) :
    (dispatch U s i 3 (e :: sub :: d)).1.st = .idle ∧
    (dispatch U s i 3 (e :: sub :: d)).1.outs = s.outs ++ [.hNotification i d, .lose i] ∧
    (dispatch U s i 3 (e :: sub :: d)).2 = true := by
  have hd : dispatch U s i 3 (e :: sub :: d) =
      (((s.bumpRecv i incNotifications).emit (.hNotification i d)).fsmNotificationReceived e.toNat sub.toNat, true) := by
    simp [dispatch, C.msgOpen, C.msgUpdate, C.msgNotification, parseNotification]
  rw [hd]
  have hn := (h.bumpRecv i incNotifications).emit (.hNotification i d)
  have hsil := silentClose_of_norm hn
  refine ⟨?_, ?_, rfl⟩
  · simp only [fsmNotificationReceived]
    split
    · rcases hst with h1 | h1 | h1
      · have : ((s.bumpRecv i incNotifications).emit (.hNotification i d)).st = .openSent := h1
        simp only [this]
        rw [closeConn_norm (((hn.setRetry none).setHold none).setKeepalive none)]
        simp
      · have : ((s.bumpRecv i incNotifications).emit (.hNotification i d)).st = .openConfirm := h1
        simp only [this]
        rw [closeConn_norm (((hn.setRetry none).setHold none).setKeepalive none)]
        simp
      · have : ((s.bumpRecv i incNotifications).emit (.hNotification i d)).st = .established := h1
        simp only [this]
        exact hsil.st
    · have : ((s.bumpRecv i incNotifications).emit (.hNotification i d)).st ≠ .idle := by
        show s.st ≠ .idle
        rcases hst with h1 | h1 | h1 <;> simp [h1]
      rw [if_pos this]
      exact hsil.st
  · simp only [fsmNotificationReceived]
    split
    · rcases hst with h1 | h1 | h1
      · have : ((s.bumpRecv i incNotifications).emit (.hNotification i d)).st = .openSent := h1
        simp only [this]
        rw [closeConn_norm (((hn.setRetry none).setHold none).setKeepalive none)]
        simp [setPhase, setDisconnected, setConn, bumpRecv]
      · have : ((s.bumpRecv i incNotifications).emit (.hNotification i d)).st = .openConfirm := h1
        simp only [this]
        rw [closeConn_norm (((hn.setRetry none).setHold none).setKeepalive none)]
        simp [setPhase, setDisconnected, setConn, bumpRecv]
      · have : ((s.bumpRecv i incNotifications).emit (.hNotification i d)).st = .established := h1
        simp only [this]
        simpa [bumpRecv, setConn] using hsil.outs
    · have : ((s.bumpRecv i incNotifications).emit (.hNotification i d)).st ≠ .idle := by
        show s.st ≠ .idle
        rcases hst with h1 | h1 | h1 <;> simp [h1]
      rw [if_pos this]
      simpa [bumpRecv, setConn] using hsil.outs

/-- ROUTE-REFRESH (RFC 2918, both type codes) is reported to the application and is not an FSM event. -/
theorem C01_route_refresh_msg (s : Sess) (i : Nat) (ty : Nat) (hty : ty = 5 ∨ ty = 128) (a b r sf : UInt8) :
    (dispatch U s i ty [a, b, r, sf]).1.st = s.st ∧ (dispatch U s i ty [a, b, r, sf]).1.tm = s.tm ∧
    (dispatch U s i ty [a, b, r, sf]).1.outs = s.outs ++ [.hRouteRefresh i (a.toNat * 256 + b.toNat) r.toNat sf.toNat ty] := by
  rcases hty with rfl | rfl <;>
    simp [dispatch, C.msgOpen, C.msgUpdate, C.msgNotification, C.msgKeepalive, C.msgRouteRefresh,
      C.msgCiscoRouteRefresh, parseRouteRefresh, bumpRecv, setConn]

end Yabgp

namespace Yabgp
open Sess

variable (U : Bool → Bytes → UpdClass)

theorem ite_st_ne {c : Prop} [Decidable c] {x y z : St} (hx : x ≠ z) (hy : y ≠ z) : (if c then x else y) ≠ z := by
  split <;> assumption

theorem ite_st_left {c : Prop} [Decidable c] {x y z : St} (hy : y ≠ z) (h : (if c then x else y) = z) : c := by
  by_cases hc : c
  · exact hc
  · rw [if_neg hc] at h; exact absurd h hy

/-- Established is entered by no message other than a KEEPALIVE received in OpenConfirm. -/
theorem C01_established_only_via_keepalive (s : Sess) (i ty : Nat) (body : Bytes)
    (h : (dispatch U s i ty body).1.st = .established) :
    s.st = .established ∨ (s.st = .openConfirm ∧ ty = 4 ∧ body = []) := by
  unfold dispatch at h
  split at h
  · -- OPEN: never ends in Established
    unfold openReceived at h
    split at h
    · simp at h
    · simp at h
    · simp at h; exact Or.inl h
    · split at h
      · simp at h
      · unfold openAccepted at h
        split at h
        · split at h <;> simp at h
        · split at h <;> (simp [st_fsmOpenReceived] at h; exact absurd h (ite_st_ne (by decide) (by decide)))
  · split at h
    · split at h
      · simp at h; exact Or.inl h
      · simp at h; exact Or.inl h
      · simp [st_fsmUpdateReceived] at h; exact Or.inl (ite_st_left (by decide) h)
      · simp [st_fsmUpdateReceived] at h; exact Or.inl (ite_st_left (by decide) h)
    · split at h
      · split at h
        · exact Or.inl h
        · simp [st_fsmNotificationReceived] at h
      · split at h
        · rename_i hty
          split at h
          · rename_i hb
            simp [st_fsmKeepaliveReceived] at h
            rcases ite_st_left (by decide) h with hh | hh
            · exact Or.inr ⟨hh, by simpa [C.msgKeepalive] using hty, hb⟩
            · exact Or.inl hh
          · simp at h
        · split at h
          · split at h
            · simp at h; exact Or.inl h
            · simp at h; exact Or.inl h
          · simp at h

/-- OpenConfirm is entered by no message other than an OPEN received in OpenSent that passed every check
    (decodable, version 4, the configured peer AS, hold time not 1 or 2). -/
theorem C01_openconfirm_only_via_open (s : Sess) (i ty : Nat) (body : Bytes)
    (h : (dispatch U s i ty body).1.st = .openConfirm) :
    s.st = .openConfirm ∨
    (s.st = .openSent ∧ ty = 1 ∧ ∃ m, parseOpen body = .ok m ∧ m.asn = s.cfg.remoteAs ∧ ¬ (m.holdTime ≠ 0 ∧ m.holdTime < 3)) := by
  unfold dispatch at h
  split at h
  · rename_i hty
    unfold openReceived at h
    split at h
    · simp at h
    · simp at h
    · simp at h; exact Or.inl h
    · rename_i m hp
      split at h
      · simp at h
      · rename_i has
        unfold openAccepted at h
        split at h
        · split at h <;> simp at h
        · rename_i hh
          have hst : s.st = .openSent := by
            split at h <;> (simp [st_fsmOpenReceived] at h; exact ite_st_left (by decide) h)
          exact Or.inr ⟨hst, by simpa [C.msgOpen] using hty, m, hp, (Classical.not_not.mp has).symm, hh⟩
  · split at h
    · split at h
      · simp at h; exact Or.inl h
      · simp at h; exact Or.inl h
      · simp [st_fsmUpdateReceived] at h; exact absurd h (ite_st_ne (by decide) (by decide))
      · simp [st_fsmUpdateReceived] at h; exact absurd h (ite_st_ne (by decide) (by decide))
    · split at h
      · split at h
        · exact Or.inl h
        · simp [st_fsmNotificationReceived] at h
      · split at h
        · split at h
          · simp [st_fsmKeepaliveReceived] at h; exact absurd h (ite_st_ne (by decide) (by decide))
          · simp at h
        · split at h
          · split at h
            · simp at h; exact Or.inl h
            · simp at h; exact Or.inl h
          · simp at h

end Yabgp

#print axioms Yabgp.C01_hold_timer_expires
#print axioms Yabgp.C01_keepalive_timer_expires
#print axioms Yabgp.C01_connect_retry_expires_in_session
#print axioms Yabgp.C01_connect_retry_expires_connect
#print axioms Yabgp.C01_start_from_idle
#print axioms Yabgp.C01_manual_start_ignored
#print axioms Yabgp.C01_manual_stop
#print axioms Yabgp.C01_tcp_connected
#print axioms Yabgp.C01_tcp_fails_connect
#print axioms Yabgp.C01_tcp_fails_in_session
#print axioms Yabgp.C01_open_accepted
#print axioms Yabgp.C01_open_rejected
#print axioms Yabgp.C01_open_unexpected
#print axioms Yabgp.C01_keepalive_msg
#print axioms Yabgp.C01_keepalive_bad_length
#print axioms Yabgp.C01_update_msg
#print axioms Yabgp.C01_notification_msg
#print axioms Yabgp.C01_route_refresh_msg
#print axioms Yabgp.C01_established_only_via_keepalive
#print axioms Yabgp.C01_openconfirm_only_via_open

/-! ### non-vacuity: the hypotheses of the theorems above are met by reachable states -/
namespace Yabgp
open Sess

def exCfg : Cfg :=
  { localAs := 65001, remoteAs := 65002, holdCfg := 180, retryT := 30, idleHoldT := 30, localId := 167772161,
    caps0 := { afiSafi := some [(1, 1)], routeRefresh := true, fourBytesAs := true } }

/-- peer OPEN: version 4, AS 65002, hold 90, id 10.0.0.2, no optional parameters (29-octet message) -/
def exOpen : Bytes := marker ++ [0, 29, 1, 4, 0xfd, 0xea, 0, 90, 10, 0, 0, 2, 0]
def exKeepalive : Bytes := marker ++ [0, 19, 4]
def exU : Bool → Bytes → UpdClass := fun _ _ => .malformed

def exOpenSent : World := run exU (bootWorld exCfg) [.boot, .connOk 0]
def exOpenConfirm : World := run exU (bootWorld exCfg) [.boot, .connOk 0, .chunk 0 exOpen]
def exEstablished : World := run exU (bootWorld exCfg) [.boot, .connOk 0, .chunk 0 exOpen, .chunk 0 exKeepalive]

example : exOpenSent.sess.st = .openSent ∧ exOpenSent.sess.proto = some 0 ∧
    (exOpenSent.sess.conn 0).phase = .connected ∧ (exOpenSent.sess.conn 0).disconnected = false ∧
    0 < exOpenSent.sess.conns.length := by decide
example : exOpenConfirm.sess.st = .openConfirm ∧ exOpenConfirm.sess.holdTime = 90 ∧
    exOpenConfirm.sess.tm.hold = some 270 ∧ exOpenConfirm.sess.tm.keepalive = some 90 := by decide
example : exEstablished.sess.st = .established ∧ exEstablished.sess.proto = some 0 ∧
    (exEstablished.sess.conn 0).phase = .connected ∧ (exEstablished.sess.conn 0).disconnected = false := by decide

end Yabgp
