/-
  C10, over whole histories: NOTHING ESCAPES.  After the agent's start, whatever the environment does - connection results,
  any bytes from the peer in any segmentation (malformed headers, unacceptable OPENs, messages in the wrong state, UPDATEs the
  decoder rejects or chokes on), timer expiries, operator commands - no step of the run produces the marker `Out.escaped`,
  which is how the model represents a Python exception leaving a Twisted callback (a NOTIFICATION that cannot be built, a
  send with no protocol object).  Props/C10.lean has the per-message statements; "after any input still in session or closed
  with the reconnect scheduled" is `C02_never_stuck` (Props/C02.lean), which holds for every history as well.

  Proof: the relation `NE` (Lemmas/NoEscape*.lean) is preserved by every action when the send helpers are called with the
  tracked connection up, which the reachable-state invariants Heal / One provide at every call site; the sub-codes
  Open.parse raises are single octets (`parseOpen_err`), so every NOTIFICATION answering a bad OPEN can be built.
-/
import Yabgp.Props.C18b
import Yabgp.Props.C10
import Yabgp.Lemmas.NoEscape2

namespace Yabgp
open Sess

variable (U : Bool → Bytes → UpdClass)

theorem ne_drain (c : Nat) : ∀ (fuel : Nat) (s : Sess) (buf : Bytes), s.proto = some c → c < s.conns.length →
    ((s.conn c).disconnected = false → (s.conn c).phase = .connected) → NE s (drain U fuel s c buf).1 := by
  intro fuel
  induction fuel with
  | zero => intro s buf _ _ _; exact NE.refl _
  | succ n ih =>
    intro s buf hp hlt hup
    have hb := ne_parseBuffer U hp hlt hup buf
    have hf := parseBuffer_frm U s c buf
    simp only [drain]
    cases hr : (parseBuffer U s c buf).2 with
    | none => exact hb
    | some rest =>
      refine hb.trans (ih _ rest (hf.proto.trans hp) (by rw [hf.len]; exact hlt) ?_)
      intro hd
      have hd0 : (s.conn c).disconnected = false := by
        cases h : (s.conn c).disconnected with
        | false => rfl
        | true => rw [hf.mono h] at hd; cases hd
      rcases hf.phase with h | h
      · rw [h]; exact hup hd0
      · rw [h] at hd; cases hd

theorem ne_manualStop {s : Sess} (hs : s.st = .established → ∃ i, Norm s i) : NE s s.manualStop := by
  unfold manualStop
  have hq : ∀ t : Sess, NE t (((((((t.withTm {}).closeConn).withRetryCounter 0).withAllow false).setSt .idle).abortPending).emit .retStop) :=
    fun t => ((((((ne_withTm t _).trans (ne_closeConn _)).trans (ne_withRetryCounter _ _)).trans
      (ne_withAllow _ _)).trans (ne_setSt _ _)).trans (ne_abortPending _)).trans (ne_emit _ _ rfl)
  split
  · rename_i h
    obtain ⟨i, hn⟩ := hs h
    exact (ne_sendNotification hn _ _ _ (by decide) (by decide) (by decide)).trans (hq _).bal
  · exact (hq _).bal

theorem ne_fireRetry {s : Sess} (hs : InSession s → ∃ i, Norm s i) : NE s s.fireRetry := by
  unfold fireRetry
  split
  · exact ((((ne_setRetry s _).trans (ne_closeConn _)).trans (ne_setRetry _ _)).trans (ne_connectTcp _)).bal
  · exact ((((ne_setRetry s _).trans (ne_closeConn _)).trans (ne_setRetry _ _)).trans (ne_connectTcp _)).bal
  · exact (ne_setRetry s _).bal
  · rename_i h1 h2 h3
    have : InSession s := by
      unfold InSession
      cases hst : s.st <;> simp_all
    obtain ⟨i, hn⟩ := hs this
    exact ((ne_setRetry s _).bal.trans
      (ne_sendNotification (hn.setRetry _) _ _ _ (by decide) (by decide) (by decide))).trans (ne_errorClose _).bal

theorem ne_fireHold {s : Sess} (hs : InSession s → ∃ i, Norm s i) : NE s s.fireHold := by
  have key : InSession s → NE s (((((s.setHold none).sendNotification C.errHold 0 []).setRetry none).errorClose).setSt .idle) := by
    intro h
    obtain ⟨i, hn⟩ := hs h
    exact (((ne_setHold s _).bal.trans
      (ne_sendNotification (hn.setHold _) _ _ _ (by decide) (by decide) (by decide))).trans
      (((ne_setRetry _ _).trans (ne_errorClose _)).trans (ne_setSt _ _)).bal)
  unfold fireHold
  split
  · rename_i h; exact key (Or.inl h)
  · rename_i h; exact key (Or.inr (Or.inl h))
  · rename_i h; exact key (Or.inr (Or.inr h))
  · exact ((ne_setHold s _).trans (ne_errorClose _)).bal
  · exact ((ne_setHold s _).trans (ne_errorClose _)).bal
  · exact (ne_setHold s _).bal

theorem ne_fireKeepalive {s : Sess} (hs : InSession s → ∃ i, Norm s i) : NE s s.fireKeepalive := by
  have key : InSession s → NE s (if s.holdTime > 0 then ((s.setKeepalive none).sendKeepalive).setKeepalive (some (s.now + s.kaTicks))
      else (s.setKeepalive none).sendKeepalive) := by
    intro h
    obtain ⟨i, hn⟩ := hs h
    split
    · exact ((ne_setKeepalive s _).bal.trans (ne_sendKeepalive (hn.setKeepalive _))).trans (ne_setKeepalive _ _).bal
    · exact (ne_setKeepalive s _).bal.trans (ne_sendKeepalive (hn.setKeepalive _))
  unfold fireKeepalive
  split
  · rename_i h; exact key (Or.inr (Or.inl h))
  · rename_i h; exact key (Or.inr (Or.inr h))
  · exact ((ne_setKeepalive s _).trans (ne_errorClose _)).bal
  · exact ((ne_setKeepalive s _).trans (ne_errorClose _)).bal
  · exact (ne_setKeepalive s _).bal

theorem ne_connOk (s : Sess) (i : Nat) (hlt : i < s.conns.length) : NE s (s.connOk i) := by
  unfold connOk connectionMade
  generalize ht : (((((s.setPhase i .connected).withProto (some i)).setSt .connect).withEstab (some i)).withBgpId
      (some (s.bgpId.getD s.cfg.localId))) = t
  have hq : NE s t := by
    rw [← ht]
    exact ((((ne_setPhase s _ _).trans (ne_withProto _ _)).trans (ne_setSt _ _)).trans (ne_withEstab _ _)).trans
      (ne_withBgpId _ _)
  have hq2 : NE t ((t.setRetry none).setIdleHold none) := (ne_setRetry t _).trans (ne_setIdleHold _ _)
  have hst : ∀ (u : Sess) (v : St), (u.setSt v).proto = u.proto ∧ (u.setSt v).conns = u.conns := by
    intro u v; unfold setSt; split <;> exact ⟨rfl, rfl⟩
  have hp : ((t.setRetry none).setIdleHold none).proto = some i := by
    rw [← ht]
    show ((((s.setPhase i .connected).withProto (some i)).setSt .connect)).proto = some i
    rw [(hst _ _).1]; rfl
  have hc : ((t.setRetry none).setIdleHold none).conns = (s.setPhase i .connected).conns := by
    rw [← ht]
    show ((((s.setPhase i .connected).withProto (some i)).setSt .connect)).conns = _
    rw [(hst _ _).2]; rfl
  have hlt' : i < ((t.setRetry none).setIdleHold none).conns.length := by
    rw [hc]; simpa [setPhase] using hlt
  have hup : transportUp (((t.setRetry none).setIdleHold none).conn i) = true := by
    have : ((t.setRetry none).setIdleHold none).conn i = (s.setPhase i .connected).conn i := by
      simp only [conn, hc]
    rw [this]
    simp [setPhase, conn_setConn, hlt, transportUp]
  have hb := ne_sendOpen ((t.setRetry none).setIdleHold none)
  split
  · exact (hq.trans hq2).bal.trans (hb.trans ((ne_setHold _ _).trans (ne_setSt _ _)).bal)
  · exact (hq.trans hq2).bal.trans hb

/-- what the reachable-state invariants give at the call sites of the send helpers -/
theorem norm_of_heal' {s : Sess} (h : Core.Heal (core s)) (hs : InSession s) : ∃ i, Norm s i := by
  have hst : (core s).st = s.st := rfl
  obtain ⟨i, hp, _, hup⟩ := h.sess (by
    rcases hs with h | h | h
    · exact Or.inl (by rw [hst, h])
    · exact Or.inr (Or.inl (by rw [hst, h]))
    · exact Or.inr (Or.inr (by rw [hst, h])))
  exact ⟨i, norm_of_core hp hup⟩

/-- **One step is balanced**, in every state satisfying the reachable-state invariants. -/
theorem ne_step (w : World) (e : Ev) (hen : enabled w.sess e = true)
    (hh : Core.Heal (core w.sess)) (ho : Core.One (core w.sess)) : NE (w.sess.withOuts []) (step U w e).sess := by
  have hh0 : Core.Heal (core (w.sess.withOuts [])) := hh
  have hins : InSession (w.sess.withOuts []) → ∃ i, Norm (w.sess.withOuts []) i := norm_of_heal hh0
  cases e with
  | boot => exact (ne_autoStart _ _).bal
  | manualStart => exact (ne_manualStart _).bal
  | manualStop => exact ne_manualStop (fun h => hins (Or.inr (Or.inr h)))
  | connOk c =>
    simp only [enabled, decide_eq_true_eq, Bool.and_eq_true] at hen
    exact ne_connOk _ c hen.1
  | connFail c => exact (ne_connFail _ _).bal
  | lost c => exact (ne_connLost _ _).bal
  | advance dt => exact (ne_withNow _ _).bal
  | fire t =>
    cases t with
    | retry => exact ne_fireRetry hins
    | hold => exact ne_fireHold hins
    | keepalive => exact ne_fireKeepalive hins
    | idleHold => exact (ne_fireIdleHold _).bal
  | chunk c d =>
    simp only [enabled, decide_eq_true_eq, Bool.and_eq_true] at hen
    have hlen : (core w.sess).conns.length = w.sess.conns.length := by simp [core]
    have htr := ho.tracked c (by rw [hlen]; exact hen.1) (by rw [core_conn]; exact hen.2)
    simp only [step, dataReceived]
    exact ne_drain U c _ (w.sess.withOuts []) _ htr.1 hen.1 (fun _ => hen.2)


theorem no_escape_run (evs : List Ev) : ∀ (w : World), Core.Heal (core w.sess) → Core.One (core w.sess) → Core.Pend (core w.sess) →
    EnabledRun U w evs → ∀ o ∈ runOuts U w evs, isEsc o = false := by
  induction evs with
  | nil => intro w _ _ _ _ o ho; simp [runOuts] at ho
  | cons e r ih =>
    intro w hh ho hp hen o hmem
    simp only [runOuts, List.mem_append] at hmem
    rcases hmem with h | h
    · obtain ⟨l, hl, hne⟩ := ne_step U w e hen.1 hh ho
      have h0 : (w.sess.withOuts []).outs = [] := rfl
      rw [h0, List.nil_append] at hl
      rw [hl] at h
      exact hne o h
    · have hop := one_step U w e hen.1 ho hp hh
      exact ih (step U w e) (heal_step U w e hen.1 hh) hop.1 hop.2 hen.2 o h

/-- **C10, nothing escapes, every history.** -/
theorem C10_never_escapes (cfg : Cfg) (e0 : Ev) (he0 : e0 = .boot ∨ e0 = .manualStart) (evs : List Ev)
    (hen : EnabledRun U (step U (bootWorld cfg) e0) evs) :
    Out.escaped ∉ runOuts U (bootWorld cfg) (e0 :: evs) := by
  intro hmem
  have h0 := one_first U cfg e0 he0
  have hh0 := heal_first U cfg e0 he0
  simp only [runOuts, List.mem_append] at hmem
  rcases hmem with h | h
  · have hfirst : NE ((bootWorld cfg).sess.withOuts []) (step U (bootWorld cfg) e0).sess := by
      rcases he0 with rfl | rfl
      · exact ne_autoStart _ _
      · exact ne_manualStart _
    obtain ⟨l, hl, hne⟩ := hfirst
    have hz : ((bootWorld cfg).sess.withOuts []).outs = [] := rfl
    rw [hz, List.nil_append] at hl
    rw [hl] at h
    have := hne _ h
    simp [isEsc] at this
  · have := no_escape_run U evs _ hh0 h0.1 h0.2 hen _ h
    simp [isEsc] at this

/-- **At most one report per message, cumulative over a chunk**: after the receive loop has run over any buffer, the
    number of reports handed to the application (decoded message or malformed-UPDATE report) grew by at most the number of
    frames the loop dispatched - whatever the frames were and whatever the state machine did in reaction. -/
theorem C10_reports_le_frames (i : Nat) : ∀ (fuel : Nat) (s : Sess) (buf : Bytes),
    reports (drain U fuel s i buf).1.outs ≤ reports s.outs + (dispatched U fuel s i buf).length := by
  intro fuel
  induction fuel with
  | zero => intro s buf; simp [drain, dispatched]
  | succ n ih =>
    intro s buf
    have hq := reactive_nonReport
    have r_he : ∀ (t : Sess) sub d, reports (t.headerError sub d).outs = reports t.outs :=
      fun t sub d => reports_of_ext (oe_headerError t sub d (hq _))
    unfold drain dispatched
    unfold parseBuffer
    by_cases hd : (s.conn i).disconnected = true
    · simp [hd]
    · simp only [hd, Bool.false_eq_true, ↓reduceIte]
      cases hh : headOf buf with
      | short => simp
      | badMarker => simp only [List.length_nil, Nat.add_zero]; rw [r_he]; exact Nat.le_refl _
      | badLength len => simp only [List.length_nil, Nat.add_zero]; rw [r_he]; exact Nat.le_refl _
      | frame ty body len =>
        simp only
        have hone := C10_one_report U s i ty body
        by_cases hc : (dispatch U s i ty body).2 = true
        · simp only [hc, ↓reduceIte, List.length_cons]
          have := ih (dispatch U s i ty body).1 (buf.drop len)
          omega
        · simp only [hc, Bool.false_eq_true, ↓reduceIte, List.length_cons, List.length_nil]
          omega

/-- non-vacuity: a history with a header error, an unacceptable OPEN and a message in the wrong state is enabled event by
    event, and it does make the agent send NOTIFICATIONs (so the send helpers were exercised) -/
example :
    let cfg : Cfg := { localAs := 65001, remoteAs := 65002, holdCfg := 180, retryT := 30, idleHoldT := 30, localId := 1, caps0 := {} }
    let evs : List Ev := [.connOk 0, .chunk 0 (List.replicate 19 0)]
    EnabledRun (fun _ _ => .good) (step (fun _ _ => .good) (bootWorld cfg) .boot) evs ∧
    wcount (runOuts (fun _ _ => .good) (bootWorld cfg) (.boot :: evs)) 0 3 = 1 := by
  intro cfg evs
  exact ⟨⟨by decide, by decide, trivial⟩, by decide⟩

end Yabgp

#print axioms Yabgp.C10_never_escapes
#print axioms Yabgp.C10_reports_le_frames
