/-
  C16 — the REST control surface is authenticated and state-gated; sends are faithful.

  "Every REST endpoint that reveals or changes peer state rejects a request without valid credentials with 401 and no
   effect.  Endpoints that send BGP messages do nothing and report failure unless the session is Established, and a
   send reported successful has put exactly the requested message (plus only the documented default LOCAL_PREF on iBGP
   sessions) - and only it - on the wire of the current connection."

  Property theorems only (helper lemmas: Lemmas/RestLemmas.lean, Lemmas/RestInv.lean).  The theorems quantify over
  `genRoutes`, the url_map with the decorator chain of every view REGENERATED from /repo on every run
  (Gen/Routes.lean, harness/gen_routes.py): the table parts are closed by `decide` over that table, so a dropped or
  re-ordered decorator, a new rule, a rule that turns Flask's OPTIONS answer off or another authentication callback
  breaks a named obligation here.  Interpretive decisions (DESIGN Appendix C): for a method the rule does not accept
  werkzeug's 405 is admitted, and so is Flask's automatic, empty 200 answer to OPTIONS - both are given before any view
  code runs and reveal and change nothing; for every other request the answer without valid credentials is 401.
  Valid credentials = the configured user name and password (the code as repaired by
  `fix: a non-ASCII password … is answered 401`).
-/
import Yabgp.Gen.Routes
import Yabgp.Lemmas.RestLemmas
import Yabgp.Lemmas.RestInv
import Yabgp.Props.C06

namespace Yabgp
open Rest Sess RestInv

/-- a generated route record as the model reads it -/
def C16.ofGen (g : Gen.Routes.Route) : Route := ⟨g.rule, g.methods, g.autoOptions, g.decorators, g.view⟩

/-- the live url_map of yabgp.api.app with the decorator chains of yabgp/api/v1.py, as regenerated on this run -/
def C16.genRoutes : List Route := Gen.Routes.routes.map C16.ofGen

open C16

/-! ### obligations over the generated table -/

/-- the route table the model (and the driver) carries is the generated one -/
theorem C16_routes_agree : genRoutes = Rest.routes := by decide

/-- the wrappers found around every live view function are exactly the decorators written below the route decorator,
    in that order, and no decorator is written above a route decorator (where it would never run) -/
theorem C16_chain_as_installed : ∀ g ∈ Gen.Routes.routes, g.live = g.decorators ∧ g.ineffective = [] := by decide

/-- every rule under /v1/peer/ leaves OPTIONS to Flask and has `login_required` as its outermost decorator -/
theorem C16_auth_table : ∀ r ∈ genRoutes, underPeer r = true →
    r.autoOptions = true ∧ (r.decorators.map Deco.ofName).head? = some .loginRequired := by decide

/-- every view that sends a BGP message is behind `makesure_peer_establish` (and behind `login_required`) -/
theorem C16_gate_table : ∀ r ∈ genRoutes, (View.ofName r.view).isSend = true →
    underPeer r = true ∧ Deco.makesureEstablished ∈ r.decorators.map Deco.ofName := by decide

/-- the model knows every view and every decorator of the rules under /v1/peer/ -/
theorem C16_known_table : ∀ r ∈ genRoutes, underPeer r = true →
    View.ofName r.view ≠ .unknown ∧ Deco.unknown ∉ r.decorators.map Deco.ofName := by decide

/-- the authentication object is an HTTPBasicAuth whose only callback is `verify_password = verify_pw` -/
theorem C16_auth_config :
    Gen.Routes.authCallbacks = [("verify_password", "verify_pw")] ∧
    Gen.Routes.authLive = [("class", "HTTPBasicAuth"), ("scheme", "Basic"), ("get_password", "default_get_password"),
                           ("verify_password", "verify_pw"), ("hash_password", "")] := by decide

/-! ### C16_auth -/

/-- Every rule under /v1/peer/, every method, every request whose Authorization header does not carry the configured
    user and password, every session state: the session state and the outputs are untouched, and the answer is 401 -
    except 405 when the rule does not accept the method and Flask's own empty 200 to OPTIONS. -/
theorem C16_auth (rc : RestCfg) (r : Route) (hr : r ∈ genRoutes) (hp : underPeer r = true)
    (req : Request) (s : Sess) (hc : validCreds rc req.auth = false) :
    (handle rc r req s).2 = s ∧
    (if req.method ∉ r.methods then (handle rc r req s).1.status = 405
     else if req.method = "OPTIONS" then (handle rc r req s).1 = ok .empty
     else (handle rc r req s).1.status = 401) := by
  obtain ⟨hauto, hhead⟩ := C16_auth_table r hr hp
  cases hds : r.decorators.map Deco.ofName with
  | nil => simp [hds] at hhead
  | cons d ds =>
    simp only [hds, List.head?_cons, Option.some.injEq] at hhead
    subst hhead
    unfold handle
    by_cases hm : req.method ∈ r.methods
    · simp only [hm, not_true_eq_false, if_false]
      by_cases ho : req.method = "OPTIONS"
      · simp [ho, hauto]
      · simp only [ho, false_and, if_false, hds, chain_login_rejects rc ds _ req s ho hc, stripHead_snd,
          stripHead_status, and_self]
    · simp only [hm, not_false_eq_true, if_true, stripHead_snd, stripHead_status, and_self]

/-- the same, spelled out for a method the rule accepts (other than OPTIONS): 401, nothing revealed, nothing changed -/
theorem C16_auth_401 (rc : RestCfg) (r : Route) (hr : r ∈ genRoutes) (hp : underPeer r = true)
    (req : Request) (s : Sess) (hc : validCreds rc req.auth = false)
    (hm : req.method ∈ r.methods) (ho : req.method ≠ "OPTIONS") :
    handle rc r req s = (⟨401, if req.method = "HEAD" then .empty else .unauthorized⟩, s) := by
  obtain ⟨hauto, hhead⟩ := C16_auth_table r hr hp
  cases hds : r.decorators.map Deco.ofName with
  | nil => simp [hds] at hhead
  | cons d ds =>
    simp only [hds, List.head?_cons, Option.some.injEq] at hhead
    subst hhead
    unfold handle
    simp only [hm, not_true_eq_false, if_false, ho, false_and, hds, chain_login_rejects rc ds _ req s ho hc]
    unfold stripHead
    split <;> rfl

/-- what counts as valid: exactly the configured pair, with a non-empty user name -/
theorem C16_valid_iff (rc : RestCfg) (a : Option (String × String)) :
    validCreds rc a = true ↔ ∃ u p, a = some (u, p) ∧ u ≠ "" ∧ u = rc.user ∧ p = rc.password := by
  cases a with
  | none => simp [validCreds]
  | some up =>
    obtain ⟨u, p⟩ := up
    constructor
    · intro h
      simp only [validCreds, decide_eq_true_eq] at h
      exact ⟨u, p, rfl, h.1, h.2.1, h.2.2⟩
    · rintro ⟨u', p', he, h1, h2, h3⟩
      cases he
      simp only [validCreds, decide_eq_true_eq]
      exact ⟨h1, h2, h3⟩

/-! ### C16_gate -/

/-- A send endpoint asked while the session is not Established - whatever the credentials, method and body - does
    nothing (session state and outputs unchanged) and does not report success. -/
theorem C16_gate (rc : RestCfg) (r : Route) (hr : r ∈ genRoutes) (hsend : (View.ofName r.view).isSend = true)
    (req : Request) (s : Sess) (hs : s.st ≠ .established) :
    (handle rc r req s).2 = s ∧ (handle rc r req s).1.success = false := by
  obtain ⟨_, hg⟩ := C16_gate_table r hr hsend
  unfold handle
  split
  · simp only [stripHead_snd, true_and]
    cases hx : (stripHead req (⟨405, .error⟩, s)).1.success with
    | false => rfl
    | true => have := stripHead_success req _ hx; rw [this] at hx; simp at hx
  · split
    · simp
    · have h := chain_gate rc _ (View.ofName r.view) req s hg hs
      refine ⟨by rw [stripHead_snd]; exact h.1, ?_⟩
      cases hx : (stripHead req (runChain rc (r.decorators.map Deco.ofName) (View.ofName r.view) req s)).1.success with
      | false => rfl
      | true => have := stripHead_success req _ hx; rw [this] at hx; rw [h.2] at hx; cases hx

/-- No endpoint under /v1/peer/ puts anything on a transport while the session is not Established (manual stop sends
    its NOTIFICATION only in Established; manual start only opens a connection). -/
theorem C16_no_write_unless_established (rc : RestCfg) (r : Route) (hr : r ∈ genRoutes)
    (req : Request) (s : Sess) (hs : s.st ≠ .established) :
    OutsExt NotWrite s (handle rc r req s).2 := by
  unfold handle
  split
  · rw [stripHead_snd]; exact OutsExt.refl _ s
  · split
    · exact OutsExt.refl _ s
    · rw [stripHead_snd]
      by_cases hsend : (View.ofName r.view).isSend = true
      · obtain ⟨_, hg⟩ := C16_gate_table r hr hsend
        rw [(chain_gate rc _ (View.ofName r.view) req s hg hs).1]
        exact OutsExt.refl _ s
      · rcases chain_cases rc (View.ofName r.view) req s (r.decorators.map Deco.ofName) with h | h
        · rw [h.1]
          rcases runView_state (View.ofName r.view) req s (by simpa using hsend) with e | e | e
          · rw [e]; exact OutsExt.refl _ s
          · rw [e]; exact ne_manualStart s
          · rw [e]; exact ne_manualStop s hs
        · rw [h.1]; exact OutsExt.refl _ s

/-! ### C16_faithful -/

/-- what a request asks a send view to put on the wire, in session state `s` whose tracked connection is `i` -/
def C16.Requested (s : Sess) (i : Nat) (req : Request) : View → Bytes → Prop
  | .sendUpdate, w => ∃ o, req.body = .obj o ∧
      constructUpdate (s.conn i).asn4 false (requestedUpdate s.cfg o) = some w
  | .sendRouteRefresh, w => ∃ o a sf ty l, req.body = .obj o ∧ o.afi = some a ∧ o.safi = some sf ∧
      rrType s.remote = some ty ∧ s.remote.afiSafi = some l ∧ (a, sf) ∈ l ∧
      constructRouteRefresh ty a (o.res.getD 0) sf = some w
  | .sendBinUpdate, w => ∃ o, req.body = .obj o ∧ o.bin = .bytes w
  | _, _ => False

/-- the only change a successful send makes to the session besides the write: its counter -/
def C16.counted (s : Sess) (i : Nat) : View → Sess
  | .sendUpdate => s.bumpSent i incUpdates
  | .sendRouteRefresh => s.bumpSent i incRouteRefresh
  | .sendBinUpdate => s.bumpSent i incUpdates
  | _ => s

/-- A send endpoint that reports success, on a session whose tracked connection `i` is up: the request carried valid
    credentials, the session is Established, and the whole effect is ONE transport write, on the tracked connection,
    of exactly the requested message - `Update.construct` of the JSON message with LOCAL_PREF 100 appended iff the
    session is iBGP and no attribute 5 was given; the ROUTE-REFRESH for the given family with the type the peer
    advertised; the octets of `binary_data` (zero octets: nothing is written) - plus the message counter. -/
theorem C16_faithful (rc : RestCfg) (r : Route) (hr : r ∈ genRoutes) (hsend : (View.ofName r.view).isSend = true)
    (req : Request) (s : Sess) (i : Nat) (hn : Norm s i)
    (hok : (handle rc r req s).1.success = true) :
    validCreds rc req.auth = true ∧ s.st = .established ∧ s.proto = some i ∧
    ∃ w, Requested s i req (View.ofName r.view) w ∧
      (handle rc r req s).2 = (if w = [] then s else counted (s.emit (.write i w)) i (View.ofName r.view)) ∧
      (handle rc r req s).2.outs = (if w = [] then s.outs else s.outs ++ [.write i w]) := by
  obtain ⟨hpeer, hg⟩ := C16_gate_table r hr hsend
  obtain ⟨hauto, hhead⟩ := C16_auth_table r hr hpeer
  have hlogin : Deco.loginRequired ∈ r.decorators.map Deco.ofName := by
    cases hds : r.decorators.map Deco.ofName with
    | nil => simp [hds] at hhead
    | cons d ds => simp only [hds, List.head?_cons, Option.some.injEq] at hhead; simp [hhead]
  unfold handle at hok ⊢
  by_cases hm : req.method ∈ r.methods
  · simp only [hm, not_true_eq_false, if_false] at hok ⊢
    by_cases ho : req.method = "OPTIONS"
    · simp [ho, hauto] at hok
    · simp only [ho, false_and, if_false] at hok ⊢
      have hst := stripHead_success req _ hok
      rw [hst] at hok ⊢
      rcases chain_cases rc (View.ofName r.view) req s (r.decorators.map Deco.ofName) with h | h
      · obtain ⟨hrun, hl, he⟩ := h
        have hv : validCreds rc req.auth = true := by
          rcases hl hlogin with h1 | h1
          · exact absurd h1 ho
          · exact h1
        refine ⟨hv, he hg, hn.proto, ?_⟩
        rw [hrun] at hok ⊢
        cases hview : View.ofName r.view <;> simp only [hview, View.isSend, Bool.false_eq_true] at hsend
        · -- send/route-refresh
          simp only [hview, runView] at hok ⊢
          obtain ⟨o, a, sf, ty, l, w, hb, ha, hsf, hty, hl', hmem, hc, hres⟩ := viewSendRouteRefresh_success hn hok
          have hw : w ≠ [] := by
            unfold constructRouteRefresh constructHeader at hc
            split at hc
            · split at hc
              · simp only [Option.some.injEq] at hc; rw [← hc]; simp [marker]
              · simp at hc
            · simp at hc
          refine ⟨w, ⟨o, a, sf, ty, l, hb, ha, hsf, hty, hl', hmem, hc⟩, ?_, ?_⟩
          · rw [hres]; simp [hw, counted]
          · rw [hres]; simp [hw, bumpSent, setConn, withConns, emit]
        · -- send/update
          simp only [hview, runView] at hok ⊢
          obtain ⟨o, w, hb, hc, hres⟩ := viewSendUpdate_success hn hok
          have hw : w ≠ [] := by
            unfold constructUpdate constructHeader at hc
            cases hbody : constructUpdateBody (s.conn i).asn4 false (requestedUpdate s.cfg o) with
            | none => simp [hbody] at hc
            | some body =>
              simp only [hbody, Option.bind_eq_bind, Option.bind_some] at hc
              split at hc
              · simp only [Option.some.injEq] at hc; rw [← hc]; simp [marker]
              · simp at hc
          refine ⟨w, ⟨o, hb, hc⟩, ?_, ?_⟩
          · rw [hres]; simp [hw, counted]
          · rw [hres]; simp [hw, bumpSent, setConn, withConns, emit]
        · -- send/bin_update
          simp only [hview, runView] at hok ⊢
          obtain ⟨o, b, hb, hbin, hres⟩ := viewSendBinUpdate_success hn hok
          refine ⟨b, ⟨o, hb, hbin⟩, ?_, ?_⟩
          · rw [hres]; by_cases hbe : b = [] <;> simp [hbe, counted]
          · rw [hres]; by_cases hbe : b = [] <;> simp [hbe, emit, bumpSent, setConn, withConns]
      · rw [h.2] at hok; cases hok
  · simp only [hm, not_false_eq_true, if_true] at hok
    have hst := stripHead_success req _ hok
    rw [hst] at hok
    simp at hok

/-- "only the documented default": the attribute list handed to the encoder is the one given, or - exactly when the
    session is iBGP, attributes were given and none of them is LOCAL_PREF - the one given followed by LOCAL_PREF 100 -/
theorem C16_default_local_pref (cfg : Cfg) (attr : List (Nat × AttrVal)) :
    (withDefaultLocalPref cfg attr = attr ++ [(5, .localPref 100)] ∧
        attr ≠ [] ∧ dictGet attr 5 = none ∧ cfg.remoteAs = cfg.localAs) ∨
    (withDefaultLocalPref cfg attr = attr ∧
        ¬ (attr ≠ [] ∧ dictGet attr 5 = none ∧ cfg.remoteAs = cfg.localAs)) := by
  unfold withDefaultLocalPref
  by_cases h : attr ≠ [] ∧ dictGet attr C.tLocalPref = none ∧ cfg.remoteAs = cfg.localAs
  · left; rw [if_pos h]; exact ⟨rfl, h⟩
  · right; rw [if_neg h]; exact ⟨rfl, h⟩

/-- Together with C06: for a message of the C06 space the octets a successful send/update wrote are a well-formed
    UPDATE that decodes to exactly the prefixes given and exactly the attributes given plus the default above. -/
theorem C16_faithful_decodes (rc : RestCfg) (r : Route) (hr : r ∈ genRoutes)
    (hview : View.ofName r.view = .sendUpdate) (req : Request) (s : Sess) (i : Nat) (hn : Norm s i)
    (hok : (handle rc r req s).1.success = true) (o : JObj) (hb : req.body = .obj o)
    (hvalid : ValidMsg (s.conn i).asn4 false (requestedUpdate s.cfg o)) :
    ∃ body, (handle rc r req s).2.outs = s.outs ++ [.write i (marker ++ be16 (body.length + 19) ++ be8 2 ++ body)] ∧
      parseUpdate (s.conn i).asn4 false body =
        some { withdraw := o.withdraw, nlri := o.nlri, attr := withDefaultLocalPref s.cfg o.attr, subError := none } := by
  have hsend : (View.ofName r.view).isSend = true := by rw [hview]; rfl
  obtain ⟨_, _, _, w, hreq, _, houts⟩ := C16_faithful rc r hr hsend req s i hn hok
  rw [hview] at hreq
  obtain ⟨o', hb', hc⟩ := hreq
  rw [hb] at hb'
  cases hb'
  obtain ⟨body, hw, _, hparse⟩ := C06_roundtrip _ _ _ w hvalid hc
  have hne : w ≠ [] := by rw [hw]; simp [marker]
  refine ⟨body, ?_, ?_⟩
  · rw [houts, if_neg hne, hw]
  · simpa [requestedUpdate] using hparse

/-! ### the tracked connection of an Established session is up (so that C16_faithful applies) -/

/-- every state reachable from boot by enabled environment events and REST requests -/
inductive C16.Reach (U : Bool → Bytes → UpdClass) (rc : RestCfg) (cfg : Cfg) : World → Prop
  | boot : Reach U rc cfg (bootWorld cfg)
  | ev (w : World) (e : Ev) : Reach U rc cfg w → enabled w.sess e = true → Reach U rc cfg (step U w e)
  | rest (w : World) (r : Route) (req : Request) : Reach U rc cfg w → r ∈ genRoutes →
      Reach U rc cfg (restStep rc r req w).2

/-- the invariant of Lemmas/RestInv.lean holds in every reachable state -/
theorem C16_reach_inv (U : Bool → Bytes → UpdClass) (rc : RestCfg) (cfg : Cfg) (w : World)
    (h : Reach U rc cfg w) : SessInv w.sess := by
  induction h with
  | boot => exact sessInv_boot cfg
  | ev w e _ hen ih => exact sessInv_step U w e hen ih
  | rest w r req _ _ ih => exact sessInv_handle rc r req _ (sessInv_withOuts ih [])

/-- In every reachable state in which the session is Established (or OpenSent / OpenConfirm) the state machine tracks
    a connection that exists, is connected and has not been closed by us. -/
theorem C16_established_tracked (U : Bool → Bytes → UpdClass) (rc : RestCfg) (cfg : Cfg) (w : World)
    (h : Reach U rc cfg w) (hs : w.sess.st = .established) : ∃ i, Norm w.sess i :=
  (C16_reach_inv U rc cfg w h).norm (Or.inr (Or.inr hs))

/-- C16_faithful for every reachable state, without any hypothesis on the connection -/
theorem C16_faithful_reachable (U : Bool → Bytes → UpdClass) (rc : RestCfg) (cfg : Cfg) (w : World)
    (h : Reach U rc cfg w) (r : Route) (hr : r ∈ genRoutes) (hsend : (View.ofName r.view).isSend = true)
    (req : Request) (hok : (restStep rc r req w).1.success = true) :
    ∃ i wire, w.sess.proto = some i ∧ (w.sess.conn i).phase = .connected ∧
      Requested (w.sess.withOuts []) i req (View.ofName r.view) wire ∧
      (restStep rc r req w).2.sess.outs = (if wire = [] then [] else [.write i wire]) := by
  have hest : w.sess.st = .established := by
    by_cases hs : (w.sess.withOuts []).st = .established
    · exact hs
    · exact absurd hok (by rw [show (restStep rc r req w).1 = (handle rc r req (w.sess.withOuts [])).1 from rfl,
        (C16_gate rc r hr hsend req _ hs).2]; simp)
  obtain ⟨i, hn⟩ := C16_established_tracked U rc cfg w h hest
  have hn' : Norm (w.sess.withOuts []) i := hn.withOuts []
  obtain ⟨_, _, hp, wire, hreq, _, houts⟩ := C16_faithful rc r hr hsend req _ i hn' hok
  refine ⟨i, wire, hp, hn.up, hreq, ?_⟩
  show (handle rc r req (w.sess.withOuts [])).2.outs = _
  rw [houts]
  by_cases hw : wire = [] <;> simp [hw, withOuts]

/-! ### non-vacuity -/
namespace C16Ex

/-- an iBGP session brought to Established by the shortest history (boot, connection up, OPEN, KEEPALIVE) -/
def cfg : Cfg :=
  { localAs := 65010, remoteAs := 65010, holdCfg := 180, retryT := 30, idleHoldT := 30, localId := 167772161,
    caps0 := { afiSafi := some [(1, 1)], routeRefresh := true, fourBytesAs := true } }

/-- peer OPEN: version 4, AS 65010, hold 90, id 10.0.0.2, no optional parameters -/
def peerOpen : Bytes := marker ++ [0, 29, 1, 4, 0xfd, 0xf2, 0, 90, 10, 0, 0, 2, 0]
def keepalive : Bytes := marker ++ [0, 19, 4]
def U : Bool → Bytes → UpdClass := fun _ _ => .good
def openConfirm : World := run U (bootWorld cfg) [.boot, .connOk 0, .chunk 0 peerOpen]
def established : World := run U (bootWorld cfg) [.boot, .connOk 0, .chunk 0 peerOpen, .chunk 0 keepalive]

def rc : RestCfg := ⟨"admin", "admin"⟩
def sendRoute : Route :=
  ⟨"/v1/peer/<peer_ip>/send/update", ["OPTIONS", "POST"], true,
    ["login_required", "log_request", "makesure_peer_establish"], "send_update_message"⟩
def body : JObj :=
  { attr := [(1, .origin 0), (2, .asPath [(2, [65010])]), (3, .nextHop 167772161)],
    nlri := [{ addr := 167837696, len := 16 }] }
def req (auth : Option (String × String)) : Request := { method := "POST", auth := auth, body := .obj body }

example : sendRoute ∈ genRoutes ∧ underPeer sendRoute = true ∧ (View.ofName sendRoute.view).isSend = true := by
  decide

example : established.sess.st = .established ∧ established.sess.proto = some 0 ∧
    (established.sess.conn 0).phase = .connected ∧ (established.sess.conn 0).disconnected = false ∧
    0 < established.sess.conns.length := by decide

/-- the hypotheses of C16_faithful are met: right credentials in Established give success -/
example : (handle rc sendRoute (req (some ("admin", "admin"))) (established.sess.withOuts [])).1.success = true := by
  decide

/-- … and what went out is one UPDATE on connection 0 with LOCAL_PREF 100 appended (iBGP, attribute 5 not given) -/
example : (handle rc sendRoute (req (some ("admin", "admin"))) (established.sess.withOuts [])).2.outs =
      [.write 0 (marker ++ be16 51 ++ [2] ++ [0, 0] ++ be16 25 ++
        [0x40, 1, 1, 0] ++ [0x40, 2, 4, 2, 1, 0xfd, 0xf2] ++ [0x40, 3, 4, 10, 0, 0, 1] ++ [0x40, 5, 4, 0, 0, 0, 100] ++
        [16, 10, 1])] := by decide

/-- the hypothesis of C16_auth is met: a wrong password is not valid; the answer is 401 and nothing else -/
example : handle rc sendRoute (req (some ("admin", "nimda"))) established.sess = (⟨401, .unauthorized⟩, established.sess) :=
  C16_auth_401 rc sendRoute (by decide) (by decide) _ _ (by decide) (by decide) (by decide)

/-- the hypothesis of C16_gate is met: right credentials, but the session is only OpenConfirm -/
example : openConfirm.sess.st = .openConfirm := by decide
example : (handle rc sendRoute (req (some ("admin", "admin"))) openConfirm.sess).1 = refused .peerState := by decide

/-- `established` is a reachable state in the sense of `Reach` -/
example : Reach U rc cfg established := by
  have h0 : Reach U rc cfg (bootWorld cfg) := Reach.boot
  have h1 := Reach.ev _ Ev.boot h0 (by decide)
  have h2 := Reach.ev _ (Ev.connOk 0) h1 (by decide)
  have h3 := Reach.ev _ (Ev.chunk 0 peerOpen) h2 (by decide)
  exact Reach.ev _ (Ev.chunk 0 keepalive) h3 (by decide)

end C16Ex

end Yabgp

#print axioms Yabgp.C16_routes_agree
#print axioms Yabgp.C16_chain_as_installed
#print axioms Yabgp.C16_auth_table
#print axioms Yabgp.C16_gate_table
#print axioms Yabgp.C16_known_table
#print axioms Yabgp.C16_auth_config
#print axioms Yabgp.C16_auth
#print axioms Yabgp.C16_auth_401
#print axioms Yabgp.C16_valid_iff
#print axioms Yabgp.C16_gate
#print axioms Yabgp.C16_no_write_unless_established
#print axioms Yabgp.C16_faithful
#print axioms Yabgp.C16_default_local_pref
#print axioms Yabgp.C16_faithful_decodes
#print axioms Yabgp.C16_reach_inv
#print axioms Yabgp.C16_established_tracked
#print axioms Yabgp.C16_faithful_reachable
