/-
  C09 — decoding agrees with an independent RFC encoder, including the legal variants the agent never emits,
  and the malformations the decoder checks are reported as errors instead of values.
  Property theorems only (helper lemmas live in Yabgp/Lemmas/RefRt).
-/
import Yabgp.Lemmas.RefRt
import Yabgp.Props.C06

namespace Yabgp
open Spec

def Spec.RefPfx.toPfx (p : RefPfx) : Pfx := { addr := p.addr, len := p.len, pathId := p.pathId }

theorem stepPrefix_ref (addpath : Bool) (p : RefPfx) (rest : Bytes) (hok : RefPfxOk addpath p) :
    stepPrefix addpath (refPfx p ++ rest) = some (p.toPfx, rest) := by
  obtain ⟨hl, ha, hn, hj, hp⟩ := hok
  obtain ⟨addr, len, junk, pathId⟩ := p
  simp only at hl ha hn hj hp
  cases addpath
  · simp only [Bool.false_eq_true, ↓reduceIte] at hp
    subst hp
    simp only [stepPrefix, Bool.false_eq_true, ↓reduceIte, refPfx, List.nil_append, RefPfx.toPfx]
    exact parseOnePrefix_ref none addr len junk rest hl ha hn hj
  · simp only [↓reduceIte] at hp
    obtain ⟨pid, rfl, hpid⟩ := hp
    simp only [stepPrefix, ↓reduceIte, refPfx, List.append_assoc, rd32_be32 hpid, RefPfx.toPfx]
    have := parseOnePrefix_ref (some pid) addr len junk rest hl ha hn hj
    simpa [List.append_assoc] using this

theorem refPfx_nonempty (addpath : Bool) (p : RefPfx) (h : RefPfxOk addpath p) : refPfx p ≠ [] := by
  unfold refPfx
  cases p.pathId <;> simp [be32]

theorem parsePrefixList_nil (addpath : Bool) : parsePrefixList addpath [] = some [] := by
  rw [parsePrefixList]

/-- list level, compositional: whatever follows is decoded as it would be alone -/
theorem parsePrefixList_ref (addpath : Bool) (ps : List RefPfx) (rest : Bytes)
    (hok : ∀ p ∈ ps, RefPfxOk addpath p) :
    parsePrefixList addpath (ps.flatMap refPfx ++ rest) =
      (parsePrefixList addpath rest).map (ps.map RefPfx.toPfx ++ ·) := by
  induction ps with
  | nil => cases h : parsePrefixList addpath rest <;> simp [h]
  | cons p r ih =>
    have hstep := stepPrefix_ref addpath p (r.flatMap refPfx ++ rest) (hok p (by simp))
    obtain ⟨x, xs, hx⟩ := List.exists_cons_of_ne_nil (refPfx_nonempty addpath p (hok p (by simp)))
    rw [List.flatMap_cons, List.append_assoc]
    rw [hx] at hstep ⊢
    simp only [List.cons_append] at hstep ⊢
    rw [parsePrefixList_cons, hstep]
    simp only
    rw [ih (fun q hq => hok q (by simp [hq]))]
    cases parsePrefixList addpath rest <;> simp

/-- the messages the reference encoder is asked for -/
structure RefValid (asn4 addpath : Bool) (wd : List RefPfx) (attrs : List RefAttr) (nlri : List RefPfx) : Prop where
  hattrs : ∀ a ∈ attrs, a.code < 256 ∧ AttrOkR asn4 a.code a.val ∧ (refValue asn4 a.code a.val).length < 65536
  nodup : (attrs.map (·.code)).Nodup
  hnlri : ∀ p ∈ nlri, RefPfxOk addpath p
  hwithdraw : ∀ p ∈ wd, RefPfxOk addpath p
  wlen : (wd.flatMap refPfx).length < 65536
  alen : (attrs.flatMap (refAttr asn4)).length < 65536

/-- slicing a body laid out as  len(w) w len(a) a n  -/
theorem parseUpdate_layout (asn4 addpath : Bool) (w a n : Bytes) (hw : w.length < 65536) (ha : a.length < 65536) :
    parseUpdate asn4 addpath (be16 w.length ++ w ++ be16 a.length ++ a ++ n) =
      some { withdraw := (match parsePrefixList addpath w with
                          | none => (([] : List Pfx), ([] : List Pfx), some C.eInvalidNetworkField)
                          | some w' => match parsePrefixList addpath n with
                                       | none => (w', [], some C.eInvalidNetworkField)
                                       | some n' => (w', n', none)).1,
             nlri := (match parsePrefixList addpath w with
                          | none => (([] : List Pfx), ([] : List Pfx), some C.eInvalidNetworkField)
                          | some w' => match parsePrefixList addpath n with
                                       | none => (w', [], some C.eInvalidNetworkField)
                                       | some n' => (w', n', none)).2.1,
             attr := (parseAttributes asn4 a).1,
             subError := match (parseAttributes asn4 a).2 with
                         | some e => some e
                         | none => (match parsePrefixList addpath w with
                          | none => (([] : List Pfx), ([] : List Pfx), some C.eInvalidNetworkField)
                          | some w' => match parsePrefixList addpath n with
                                       | none => (w', [], some C.eInvalidNetworkField)
                                       | some n' => (w', n', none)).2.2 } := by
  have e1 : slice (be16 w.length ++ w ++ be16 a.length ++ a ++ n) 0 2 = be16 w.length := by
    simp [slice, be16]
  have e2 : slice (be16 w.length ++ w ++ be16 a.length ++ a ++ n) (w.length + 2) (w.length + 4)
      = be16 a.length := by
    have := slice_mid (p := be16 w.length ++ w) (x := be16 a.length) (s := a ++ n)
      (i := w.length + 2) (j := w.length + 4) (by simp; omega) (by simp; omega)
    simpa [List.append_assoc] using this
  have e3 : slice (be16 w.length ++ w ++ be16 a.length ++ a ++ n) 2 (w.length + 2) = w := by
    have := slice_mid (p := be16 w.length) (x := w) (s := be16 a.length ++ a ++ n)
      (i := 2) (j := w.length + 2) (by simp) (by simp; omega)
    simpa [List.append_assoc] using this
  have e4 : slice (be16 w.length ++ w ++ be16 a.length ++ a ++ n) (w.length + 4) (w.length + 4 + a.length)
      = a := by
    have := slice_mid (p := be16 w.length ++ w ++ be16 a.length) (x := a) (s := n)
      (i := w.length + 4) (j := w.length + 4 + a.length) (by simp; omega) (by simp; omega)
    simpa [List.append_assoc] using this
  have e5 : (be16 w.length ++ w ++ be16 a.length ++ a ++ n).drop (w.length + 4 + a.length) = n := by
    apply List.drop_left'
    simp; omega
  unfold parseUpdate
  simp only [e1, e2, e3, e4, e5, unpackH_be16 hw, unpackH_be16 ha]
  rfl

/-- **value half.**  Whatever the reference encoder produces from well-formed input — any attribute order,
    extended length on or off per attribute, Partial bit on or off, several AS_PATH segments, AS4_PATH and
    AS4_AGGREGATOR, either AS width, add-path identifiers, any trailing bits in prefixes — the decoder returns
    exactly the encoded values and flags no error. -/
theorem C09_decodes_reference (asn4 addpath : Bool) (wd : List RefPfx) (attrs : List RefAttr) (nlri : List RefPfx)
    (hv : RefValid asn4 addpath wd attrs nlri) :
    parseUpdate asn4 addpath (refUpdateBody asn4 wd attrs nlri) =
      some { withdraw := wd.map RefPfx.toPfx, nlri := nlri.map RefPfx.toPfx,
             attr := attrs.map (fun a => (a.code, a.val)), subError := none } := by
  unfold refUpdateBody
  rw [parseUpdate_layout asn4 addpath _ _ _ hv.wlen hv.alen]
  have hW := parsePrefixList_ref addpath wd [] hv.hwithdraw
  have hN := parsePrefixList_ref addpath nlri [] hv.hnlri
  simp only [List.append_nil, parsePrefixList_nil, Option.map_some] at hW hN
  have hA := attrLoop_ref asn4 attrs [] hv.hattrs (by simpa [keys] using hv.nodup)
  simp only [parseAttributes, hW, hN, hA, List.nil_append]

/-- **error half, attributes.**  After any well-formed attributes, an attribute whose value the decoder rejects
    with UPDATE error sub-code `s` makes the whole decode report `s`; the offending attribute contributes no
    value (the dictionary holds exactly the attributes before it), and nothing after it is decoded. -/
theorem C09_rejects_attribute (asn4 addpath : Bool) (wd : List RefPfx) (pre : List RefAttr) (nlri : List RefPfx)
    (bad rest v : Bytes) (f t s : Nat)
    (hv : RefValid asn4 addpath wd pre nlri)
    (hsplit : splitAttr (bad ++ rest) = some (f, t, v, rest))
    (hbad : parseAttrValue asn4 t v = .error (.upd s))
    (hlen : (pre.flatMap (refAttr asn4) ++ bad ++ rest).length < 65536) :
    parseUpdate asn4 addpath
        (be16 (wd.flatMap refPfx).length ++ wd.flatMap refPfx ++
         be16 (pre.flatMap (refAttr asn4) ++ bad ++ rest).length ++ (pre.flatMap (refAttr asn4) ++ bad ++ rest) ++
         nlri.flatMap refPfx) =
      some { withdraw := wd.map RefPfx.toPfx, nlri := nlri.map RefPfx.toPfx,
             attr := pre.map (fun a => (a.code, a.val)), subError := some s } := by
  rw [parseUpdate_layout asn4 addpath _ _ _ hv.wlen hlen]
  have hW := parsePrefixList_ref addpath wd [] hv.hwithdraw
  have hN := parsePrefixList_ref addpath nlri [] hv.hnlri
  simp only [List.append_nil, parsePrefixList_nil, Option.map_some] at hW hN
  have hA : parseAttributes asn4 (pre.flatMap (refAttr asn4) ++ bad ++ rest) =
      (pre.map (fun a => (a.code, a.val)), some s) := by
    unfold parseAttributes
    rw [List.append_assoc]
    have := attrLoop_ref_then asn4 pre (bad ++ rest) [] hv.hattrs (by simpa [keys] using hv.nodup)
    rw [this, parseAttrLoop_unfold asn4 _ _ (splitAttr_nonempty hsplit)]
    simp only [hsplit, hbad, List.nil_append]
  simp only [hW, hN, hA]

/-- ORIGIN above 2 → sub-code 6 (Invalid ORIGIN Attribute) -/
theorem C09_origin_rejected (asn4 : Bool) (n : UInt8) (r : Bytes) (h : 2 < n.toNat) :
    parseAttrValue asn4 1 (n :: r) = .error (.upd 6) := by
  rw [pav_1]; simp [parseOrigin, C.eInvalidOrigin]; omega

theorem parseAsPath_bad_type (four : Bool) (segs : List (Nat × List Nat)) (t n : UInt8) (r : Bytes)
    (hs : ∀ s ∈ segs, SegOk four s) (ht : t.toNat < 1 ∨ 4 < t.toNat) :
    parseAsPath four (segs.flatMap (fun s => [u8 s.1, u8 s.2.length] ++ s.2.flatMap (asnBytes four)) ++ t :: n :: r)
      = .error (.upd 11) := by
  induction segs with
  | nil =>
    simp only [List.flatMap_nil, List.nil_append]
    rw [parseAsPath]; simp [C.eMalformedAsPath]; intro _ _; omega
  | cons s rs ih =>
    have hs0 := hs s (by simp)
    obtain ⟨h1, h2, h3, h4⟩ := hs0
    simp only [List.flatMap_cons, List.append_assoc, List.cons_append, List.nil_append] at ih ⊢
    rw [parseAsPath_cons]
    have hl : (u8 s.2.length).toNat = s.2.length := u8_toNat h3
    have ht1 : (u8 s.1).toNat = s.1 := u8_toNat (by omega)
    have hlen : (s.2.flatMap (asnBytes four)).length = s.2.length * asWidth four := by
      clear ih h4 hl
      induction s.2 with
      | nil => simp
      | cons a as ih2 =>
        simp only [List.flatMap_cons, List.length_append, ih2, List.length_cons]
        unfold asnBytes asWidth; cases four <;> simp [be16, be32] <;> omega
    rw [ht1, hl, if_neg (by omega), if_neg (by simp [hlen])]
    rw [List.drop_left' hlen]
    rw [ih (fun q hq => hs q (by simp [hq]))]

/-- AS_PATH segment type outside 1..4 → sub-code 11 (Malformed AS_PATH), wherever the segment stands -/
theorem C09_segment_type_rejected (asn4 : Bool) (segs : List (Nat × List Nat)) (t n : UInt8) (r : Bytes)
    (hs : ∀ s ∈ segs, SegOk asn4 s) (ht : t.toNat < 1 ∨ 4 < t.toNat) :
    parseAttrValue asn4 2 (refValue asn4 2 (.asPath segs) ++ t :: n :: r) = .error (.upd 11) := by
  rw [pav_2]
  have e : (asn4 || (2 : Nat) == 17) = asn4 := by simp
  simp only [refValue, e]
  rw [parseAsPath_bad_type asn4 segs t n r hs ht]; rfl

/-- the same for AS4_PATH, always in 4-octet form -/
theorem C09_as4_segment_type_rejected (asn4 : Bool) (segs : List (Nat × List Nat)) (t n : UInt8) (r : Bytes)
    (hs : ∀ s ∈ segs, SegOk true s) (ht : t.toNat < 1 ∨ 4 < t.toNat) :
    parseAttrValue asn4 17 (refValue asn4 17 (.asPath segs) ++ t :: n :: r) = .error (.upd 11) := by
  rw [pav_17]
  have e : (asn4 || (17 : Nat) == 17) = true := by simp
  simp only [refValue, e]
  rw [parseAsPath_bad_type true segs t n r hs ht]; rfl

/-- wrong fixed lengths: MED, LOCAL_PREF, ORIGINATOR_ID other than 4 octets; NEXT_HOP not a multiple of 4;
    AGGREGATOR other than 6 (2-octet AS) / 8 (4-octet AS) → sub-code 5 (Attribute Length Error);
    ATOMIC_AGGREGATE with a body → sub-code 9 -/
theorem C09_med_length_rejected (asn4 : Bool) (v : Bytes) (h : v.length ≠ 4) :
    parseAttrValue asn4 4 v = .error (.upd 5) := by
  rw [pav_4]; simp [parseU32, unpackI_none h, C.eAttrLen]; rfl

theorem C09_localpref_length_rejected (asn4 : Bool) (v : Bytes) (h : v.length ≠ 4) :
    parseAttrValue asn4 5 v = .error (.upd 5) := by
  rw [pav_5]; simp [parseU32, unpackI_none h, C.eAttrLen]; rfl

theorem C09_originator_length_rejected (asn4 : Bool) (v : Bytes) (h : v.length ≠ 4) :
    parseAttrValue asn4 9 v = .error (.upd 5) := by
  rw [pav_9]; simp [parseOriginatorId, unpackI_none h, C.eAttrLen]

theorem C09_nexthop_length_rejected (asn4 : Bool) (v : Bytes) (h : v.length % 4 ≠ 0) :
    parseAttrValue asn4 3 v = .error (.upd 5) := by
  rw [pav_3]; simp [parseNextHop, h, C.eAttrLen]

theorem C09_atomic_length_rejected (asn4 : Bool) (v : Bytes) (h : v ≠ []) :
    parseAttrValue asn4 6 v = .error (.upd 9) := by
  rw [pav_6]; simp [parseAtomicAgg, h, C.eOptionalAttr]

theorem C09_aggregator_length_rejected (asn4 : Bool) (v : Bytes) (h : v.length ≠ (if asn4 then 8 else 6)) :
    parseAttrValue asn4 7 v = .error (.upd 5) := by
  rw [pav_7]
  cases asn4
  · simp only [Bool.false_eq_true, ↓reduceIte] at h
    simp only [parseAggregator, Bool.false_eq_true, ↓reduceIte]
    by_cases h2 : (v.take 2).length = 2
    · have : (v.drop 2).length ≠ 4 := by simp at h2 ⊢; omega
      rw [unpackI_none this]
      cases unpackH (v.take 2) <;> rfl
    · rw [unpackH_none h2]; rfl
  · simp only [↓reduceIte] at h
    simp only [parseAggregator, ↓reduceIte]
    by_cases h2 : (v.take 4).length = 4
    · have : (v.drop 4).length ≠ 4 := by simp at h2 ⊢; omega
      rw [unpackI_none this]
      cases unpackI (v.take 4) <;> rfl
    · rw [unpackI_none h2]; rfl

/-- **error half, prefixes.**  A prefix length octet above 32, after any well-formed entries (and, with add-path,
    after its path identifier), makes the list undecodable … -/
theorem C09_prefix_length_rejected (addpath : Bool) (ps : List RefPfx) (l : UInt8) (pid rest : Bytes)
    (hok : ∀ p ∈ ps, RefPfxOk addpath p) (hl : 32 < l.toNat)
    (hpid : pid.length = if addpath then 4 else 0) :
    parsePrefixList addpath (ps.flatMap refPfx ++ (pid ++ l :: rest)) = none := by
  rw [parsePrefixList_ref addpath ps _ hok]
  suffices parsePrefixList addpath (pid ++ l :: rest) = none by rw [this]; rfl
  cases addpath
  · simp only [Bool.false_eq_true, ↓reduceIte, List.length_eq_zero_iff] at hpid
    subst hpid
    simp only [List.nil_append]
    rw [parsePrefixList_cons]
    simp [stepPrefix, parseOnePrefix, hl]
  · simp only [↓reduceIte] at hpid
    match pid, hpid with
    | [a, b, c, d], _ =>
      simp only [List.cons_append, List.nil_append]
      rw [parsePrefixList_cons]
      simp [stepPrefix, rd32, parseOnePrefix, hl]

/-- … and the decode of a message carrying it among the announced (or the withdrawn) prefixes reports an error
    (sub-code 10, Invalid Network Field, unless an attribute error takes precedence) and returns no announced
    prefix at all -/
theorem C09_rejects_prefix (asn4 addpath : Bool) (wd : List RefPfx) (attrs : List RefAttr) (ps : List RefPfx)
    (l : UInt8) (pid rest : Bytes)
    (hv : RefValid asn4 addpath wd attrs ps) (hl : 32 < l.toNat) (hpid : pid.length = if addpath then 4 else 0) :
    parseUpdate asn4 addpath
        (be16 (wd.flatMap refPfx).length ++ wd.flatMap refPfx ++
         be16 (attrs.flatMap (refAttr asn4)).length ++ attrs.flatMap (refAttr asn4) ++
         (ps.flatMap refPfx ++ (pid ++ l :: rest))) =
      some { withdraw := wd.map RefPfx.toPfx, nlri := [],
             attr := attrs.map (fun a => (a.code, a.val)), subError := some 10 } := by
  rw [parseUpdate_layout asn4 addpath _ _ _ hv.wlen hv.alen]
  have hW := parsePrefixList_ref addpath wd [] hv.hwithdraw
  simp only [List.append_nil, parsePrefixList_nil, Option.map_some] at hW
  have hN := C09_prefix_length_rejected addpath ps l pid rest hv.hnlri hl hpid
  have hA := attrLoop_ref asn4 attrs [] hv.hattrs (by simpa [keys] using hv.nodup)
  simp only [parseAttributes, hW, hN, hA, List.nil_append, C.eInvalidNetworkField]

/-! soundness of the executable well-formedness test the correspondence suite applies to each generated case -/

theorem asnB_ok {four : Bool} {n : Nat} (h : asnB four n = true) : asnOk four n = true := by
  unfold asnB at h; unfold asnOk; cases four <;> simpa using h

theorem segB_ok {four : Bool} {s : Nat × List Nat} (h : segB four s = true) : SegOk four s := by
  simp only [segB, Bool.and_eq_true, decide_eq_true_eq, List.all_eq_true] at h
  exact ⟨h.1.1.1, h.1.1.2, h.1.2, fun x hx => asnB_ok (h.2 x hx)⟩

theorem attrValB_ok {asn4 : Bool} {code : Nat} {v : AttrVal} (h : attrValB asn4 code v = true) :
    AttrOkR asn4 code v := by
  unfold AttrOkR
  cases v with
  | origin n => left; simpa [attrValB, AttrOk] using h
  | asPath segs =>
    simp only [attrValB, Bool.or_eq_true, Bool.and_eq_true, beq_iff_eq, List.all_eq_true] at h
    rcases h with ⟨hc, hs⟩ | ⟨hc, hs⟩
    · left; exact ⟨hc, fun s hs' => segB_ok (hs s hs')⟩
    · right; left; exact ⟨hc, segs, rfl, fun s hs' => segB_ok (hs s hs')⟩
  | nextHop ip => left; simpa [attrValB, AttrOk, u32B] using h
  | med n => left; simpa [attrValB, AttrOk, u32B] using h
  | localPref n => left; simpa [attrValB, AttrOk, u32B] using h
  | atomicAgg => left; simpa [attrValB, AttrOk] using h
  | aggregator a ip =>
    simp only [attrValB, Bool.or_eq_true, Bool.and_eq_true, beq_iff_eq, u32B, decide_eq_true_eq] at h
    rcases h with ⟨⟨hc, ha⟩, hi⟩ | ⟨⟨hc, ha⟩, hi⟩
    · left; exact ⟨hc, asnB_ok ha, hi⟩
    · right; right; left; exact ⟨hc, a, ip, rfl, ha, hi⟩
  | community cs => left; simpa [attrValB, AttrOk, u32B] using h
  | originatorId ip => left; simpa [attrValB, AttrOk, u32B] using h
  | clusterList ips => left; simpa [attrValB, AttrOk, u32B] using h
  | largeCommunity xs =>
    left
    simp only [attrValB, Bool.and_eq_true, beq_iff_eq, List.all_eq_true, u32B, decide_eq_true_eq] at h
    exact ⟨h.1, fun t ht => ⟨(h.2 t ht).1.1, (h.2 t ht).1.2, (h.2 t ht).2⟩⟩
  | raw b =>
    right; right; right
    simp only [attrValB, Bool.not_eq_true', List.contains_eq_mem, decide_eq_false_iff_not] at h
    exact ⟨h, b, rfl⟩
  | unmodelled c => simp [attrValB] at h

theorem refPfxB_ok {addpath : Bool} {p : RefPfx} (h : refPfxB addpath p = true) : RefPfxOk addpath p := by
  obtain ⟨addr, len, junk, pathId⟩ := p
  simp only [refPfxB, Bool.and_eq_true, decide_eq_true_eq, u32B] at h
  obtain ⟨⟨⟨⟨h1, h2⟩, h3⟩, h4⟩, h5⟩ := h
  refine ⟨h1, h2, h3, h4, ?_⟩
  cases pathId with
  | none => cases addpath <;> simp_all
  | some pid => cases addpath <;> simp_all

theorem nodupB_ok : ∀ {l : List Nat}, nodupB l = true → l.Nodup
  | [], _ => List.nodup_nil
  | x :: r, h => by
    simp only [nodupB, Bool.and_eq_true, Bool.not_eq_true', List.contains_eq_mem, decide_eq_false_iff_not] at h
    exact List.nodup_cons.mpr ⟨h.1, nodupB_ok h.2⟩

/-- every case the suite counts as an instance of C09 satisfies the hypotheses of `C09_decodes_reference` -/
theorem refValidB_sound {asn4 addpath : Bool} {wd : List RefPfx} {attrs : List RefAttr} {nlri : List RefPfx}
    (h : refValidB asn4 addpath wd attrs nlri = true) : RefValid asn4 addpath wd attrs nlri := by
  simp only [refValidB, Bool.and_eq_true, List.all_eq_true, decide_eq_true_eq] at h
  obtain ⟨⟨⟨⟨⟨ha, hn⟩, hnl⟩, hw⟩, hwl⟩, hal⟩ := h
  exact { hattrs := fun a haa => ⟨(ha a haa).1.1, attrValB_ok (ha a haa).1.2, (ha a haa).2⟩
          nodup := nodupB_ok hn
          hnlri := fun p hp => refPfxB_ok (hnl p hp)
          hwithdraw := fun p hp => refPfxB_ok (hw p hp)
          wlen := hwl
          alen := hal }

/-! non-vacuity: a message using every variant meets the hypotheses -/
def exAttrs : List RefAttr :=
  [ { code := 5, val := .localPref 100, ext := true },
    { code := 2, val := .asPath [(2, [65001, 23456]), (1, [7, 8])] },
    { code := 17, val := .asPath [(2, [65001, 70000])], partialBit := true },
    { code := 18, val := .aggregator 70000 167772161, ext := true },
    { code := 1, val := .origin 2 },
    { code := 3, val := .nextHop 16843009 } ]
def exNlri : List RefPfx :=
  [ { addr := 167772160, len := 9, junk := 5, pathId := some 7 }, { addr := 0, len := 0, junk := 0, pathId := some 1 } ]

theorem exValid : RefValid false true [] exAttrs exNlri := by
  constructor
  · intro a ha
    simp [exAttrs] at ha
    rcases ha with rfl | rfl | rfl | rfl | rfl | rfl <;>
      simp [AttrOkR, AttrOk, SegOk, asnOk, refValue, asnBytes, be16, be32]
  · decide
  · intro p hp; simp [exNlri] at hp; rcases hp with rfl | rfl <;> simp [RefPfxOk]
  · intro p hp; simp at hp
  · decide
  · decide

example := C09_decodes_reference false true [] exAttrs exNlri exValid

end Yabgp

#print axioms Yabgp.C09_decodes_reference
#print axioms Yabgp.C09_rejects_attribute
#print axioms Yabgp.C09_rejects_prefix
#print axioms Yabgp.C09_segment_type_rejected
#print axioms Yabgp.refValidB_sound
