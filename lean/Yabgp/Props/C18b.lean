/-
  C18, sent side, cumulative over every history: after any sequence of events from the agent's start, for every
  connection and every message type, the sent counter of that connection equals the number of messages of that
  type the agent wrote to it.  (Props/C18.lean has the per-send statement and the received side.)

  The proof is an invariant over all runs: every action is *balanced* (Lemmas/SentBal*.lean) provided each send
  helper is called with the tracked connection up, and that is what the reachable-state invariants `Heal` (a
  session state has a live tracked connection) and `One` (an open connection is the tracked one) of C02 / C12 give
  at every call site.
-/
import Yabgp.Props.C01b
import Yabgp.Lemmas.SentBal2

namespace Yabgp
open Sess

variable (U : Bool → Bytes → UpdClass)

theorem bal_drain (c : Nat) : ∀ (fuel : Nat) (s : Sess) (buf : Bytes), s.proto = some c → c < s.conns.length →
    ((s.conn c).disconnected = false → (s.conn c).phase = .connected) → Bal s (drain U fuel s c buf).1 := by
  intro fuel
  induction fuel with
  | zero => intro s buf _ _ _; exact Bal.refl _
  | succ n ih =>
    intro s buf hp hlt hup
    have hb := bal_parseBuffer U hp hlt hup buf
    have hf := parseBuffer_frm U s c buf
    simp only [drain]
    cases hr : (parseBuffer U s c buf).2 with
    | none => exact hb
    | some rest =>
      refine hb.trans (ih _ rest (hf.proto.trans hp) (by rw [hf.len]; exact hlt) ?_)
      intro hd
      have hd0 : (s.conn c).disconnected = false := by
        cases h : (s.conn c).disconnected with
        | false => rfl
        | true => rw [hf.mono h] at hd; cases hd
      rcases hf.phase with h | h
      · rw [h]; exact hup hd0
      · rw [h] at hd; cases hd

theorem bal_manualStop {s : Sess} (hs : s.st = .established → ∃ i, Norm s i) : Bal s s.manualStop := by
  unfold manualStop
  have hq : ∀ t : Sess, Quiet t (((((((t.withTm {}).closeConn).withRetryCounter 0).withAllow false).setSt .idle).abortPending).emit .retStop) :=
    fun t => ((((((sq_withTm t _).trans (sq_closeConn _)).trans (sq_withRetryCounter _ _)).trans
      (sq_withAllow _ _)).trans (sq_setSt _ _)).trans (sq_abortPending _)).trans (sq_emit _ _ rfl)
  split
  · rename_i h
    obtain ⟨i, hn⟩ := hs h
    exact (bal_sendNotification hn _ _ _ (by decide) (by decide) (by decide)).trans (hq _).bal
  · exact (hq _).bal

theorem bal_fireRetry {s : Sess} (hs : InSession s → ∃ i, Norm s i) : Bal s s.fireRetry := by
  unfold fireRetry
  split
  · exact ((((sq_setRetry s _).trans (sq_closeConn _)).trans (sq_setRetry _ _)).trans (sq_connectTcp _)).bal
  · exact ((((sq_setRetry s _).trans (sq_closeConn _)).trans (sq_setRetry _ _)).trans (sq_connectTcp _)).bal
  · exact (sq_setRetry s _).bal
  · rename_i h1 h2 h3
    have : InSession s := by
      unfold InSession
      cases hst : s.st <;> simp_all
    obtain ⟨i, hn⟩ := hs this
    exact ((sq_setRetry s _).bal.trans
      (bal_sendNotification (hn.setRetry _) _ _ _ (by decide) (by decide) (by decide))).trans (sq_errorClose _).bal

theorem bal_fireHold {s : Sess} (hs : InSession s → ∃ i, Norm s i) : Bal s s.fireHold := by
  have key : InSession s → Bal s (((((s.setHold none).sendNotification C.errHold 0 []).setRetry none).errorClose).setSt .idle) := by
    intro h
    obtain ⟨i, hn⟩ := hs h
    exact (((sq_setHold s _).bal.trans
      (bal_sendNotification (hn.setHold _) _ _ _ (by decide) (by decide) (by decide))).trans
      (((sq_setRetry _ _).trans (sq_errorClose _)).trans (sq_setSt _ _)).bal)
  unfold fireHold
  split
  · rename_i h; exact key (Or.inl h)
  · rename_i h; exact key (Or.inr (Or.inl h))
  · rename_i h; exact key (Or.inr (Or.inr h))
  · exact ((sq_setHold s _).trans (sq_errorClose _)).bal
  · exact ((sq_setHold s _).trans (sq_errorClose _)).bal
  · exact (sq_setHold s _).bal

theorem bal_fireKeepalive {s : Sess} (hs : InSession s → ∃ i, Norm s i) : Bal s s.fireKeepalive := by
  have key : InSession s → Bal s (if s.holdTime > 0 then ((s.setKeepalive none).sendKeepalive).setKeepalive (some (s.now + s.kaTicks))
      else (s.setKeepalive none).sendKeepalive) := by
    intro h
    obtain ⟨i, hn⟩ := hs h
    split
    · exact ((sq_setKeepalive s _).bal.trans (bal_sendKeepalive (hn.setKeepalive _))).trans (sq_setKeepalive _ _).bal
    · exact (sq_setKeepalive s _).bal.trans (bal_sendKeepalive (hn.setKeepalive _))
  unfold fireKeepalive
  split
  · rename_i h; exact key (Or.inr (Or.inl h))
  · rename_i h; exact key (Or.inr (Or.inr h))
  · exact ((sq_setKeepalive s _).trans (sq_errorClose _)).bal
  · exact ((sq_setKeepalive s _).trans (sq_errorClose _)).bal
  · exact (sq_setKeepalive s _).bal

theorem bal_connOk (s : Sess) (i : Nat) (hlt : i < s.conns.length) : Bal s (s.connOk i) := by
  unfold connOk connectionMade
  generalize ht : (((((s.setPhase i .connected).withProto (some i)).setSt .connect).withEstab (some i)).withBgpId
      (some (s.bgpId.getD s.cfg.localId))) = t
  have hq : Quiet s t := by
    rw [← ht]
    exact ((((sq_setPhase s _ _).trans (sq_withProto _ _)).trans (sq_setSt _ _)).trans (sq_withEstab _ _)).trans
      (sq_withBgpId _ _)
  have hq2 : Quiet t ((t.setRetry none).setIdleHold none) := (sq_setRetry t _).trans (sq_setIdleHold _ _)
  have hst : ∀ (u : Sess) (v : St), (u.setSt v).proto = u.proto ∧ (u.setSt v).conns = u.conns := by
    intro u v; unfold setSt; split <;> exact ⟨rfl, rfl⟩
  have hp : ((t.setRetry none).setIdleHold none).proto = some i := by
    rw [← ht]
    show ((((s.setPhase i .connected).withProto (some i)).setSt .connect)).proto = some i
    rw [(hst _ _).1]; rfl
  have hc : ((t.setRetry none).setIdleHold none).conns = (s.setPhase i .connected).conns := by
    rw [← ht]
    show ((((s.setPhase i .connected).withProto (some i)).setSt .connect)).conns = _
    rw [(hst _ _).2]; rfl
  have hlt' : i < ((t.setRetry none).setIdleHold none).conns.length := by
    rw [hc]; simpa [setPhase] using hlt
  have hup : transportUp (((t.setRetry none).setIdleHold none).conn i) = true := by
    have : ((t.setRetry none).setIdleHold none).conn i = (s.setPhase i .connected).conn i := by
      simp only [conn, hc]
    rw [this]
    simp [setPhase, conn_setConn, hlt, transportUp]
  have hb := bal_sendOpen hp hlt' hup
  split
  · exact (hq.trans hq2).bal.trans (hb.trans ((sq_setHold _ _).trans (sq_setSt _ _)).bal)
  · exact (hq.trans hq2).bal.trans hb

/-- what the reachable-state invariants give at the call sites of the send helpers -/
theorem norm_of_heal {s : Sess} (h : Core.Heal (core s)) (hs : InSession s) : ∃ i, Norm s i := by
  have hst : (core s).st = s.st := rfl
  obtain ⟨i, hp, _, hup⟩ := h.sess (by
    rcases hs with h | h | h
    · exact Or.inl (by rw [hst, h])
    · exact Or.inr (Or.inl (by rw [hst, h]))
    · exact Or.inr (Or.inr (by rw [hst, h])))
  exact ⟨i, norm_of_core hp hup⟩

/-- **One step is balanced**, in every state satisfying the reachable-state invariants. -/
theorem bal_step (w : World) (e : Ev) (hen : enabled w.sess e = true)
    (hh : Core.Heal (core w.sess)) (ho : Core.One (core w.sess)) : Bal (w.sess.withOuts []) (step U w e).sess := by
  have hh0 : Core.Heal (core (w.sess.withOuts [])) := hh
  have hins : InSession (w.sess.withOuts []) → ∃ i, Norm (w.sess.withOuts []) i := norm_of_heal hh0
  cases e with
  | boot => exact (sq_autoStart _ _).bal
  | manualStart => exact (sq_manualStart _).bal
  | manualStop => exact bal_manualStop (fun h => hins (Or.inr (Or.inr h)))
  | connOk c =>
    simp only [enabled, decide_eq_true_eq, Bool.and_eq_true] at hen
    exact bal_connOk _ c hen.1
  | connFail c => exact (sq_connFail _ _).bal
  | lost c => exact (sq_connLost _ _).bal
  | advance dt => exact (sq_withNow _ _).bal
  | fire t =>
    cases t with
    | retry => exact bal_fireRetry hins
    | hold => exact bal_fireHold hins
    | keepalive => exact bal_fireKeepalive hins
    | idleHold => exact (sq_fireIdleHold _).bal
  | chunk c d =>
    simp only [enabled, decide_eq_true_eq, Bool.and_eq_true] at hen
    have hlen : (core w.sess).conns.length = w.sess.conns.length := by simp [core]
    have htr := ho.tracked c (by rw [hlen]; exact hen.1) (by rw [core_conn]; exact hen.2)
    simp only [step, dataReceived]
    exact bal_drain U c _ (w.sess.withOuts []) _ htr.1 hen.1 (fun _ => hen.2)

/-- the same, as an equation: the sent counters after the step are those before plus the messages the step wrote -/
theorem C18_sent_step (w : World) (e : Ev) (hen : enabled w.sess e = true)
    (hh : Core.Heal (core w.sess)) (ho : Core.One (core w.sess)) (i ty : Nat) :
    sentOf ((step U w e).sess.conn i).sent ty = sentOf (w.sess.conn i).sent ty + wcount (step U w e).sess.outs i ty := by
  have := bal_step U w e hen hh ho i ty
  have h0 : wcount (w.sess.withOuts []).outs i ty = 0 := rfl
  have h1 : (w.sess.withOuts []).conn i = w.sess.conn i := rfl
  rw [h0, h1] at this
  omega

theorem wcount_append (a b : List Out) (i ty : Nat) : wcount (a ++ b) i ty = wcount a i ty + wcount b i ty := by
  simp [wcount, List.countP_append]

theorem sent_run (evs : List Ev) : ∀ (w : World), Core.Heal (core w.sess) → Core.One (core w.sess) → Core.Pend (core w.sess) →
    EnabledRun U w evs → ∀ i ty,
    sentOf ((run U w evs).sess.conn i).sent ty = sentOf (w.sess.conn i).sent ty + wcount (runOuts U w evs) i ty := by
  induction evs with
  | nil => intro w _ _ _ _ i ty; simp [run, runOuts, wcount]
  | cons e r ih =>
    intro w hh ho hp hen i ty
    have h1 := C18_sent_step U w e hen.1 hh ho i ty
    have hop := one_step U w e hen.1 ho hp hh
    have h2 := ih (step U w e) (heal_step U w e hen.1 hh) hop.1 hop.2 hen.2 i ty
    simp only [run, runOuts, wcount_append]
    rw [h2, h1]
    omega

/-- **C18, sent side, every history.**  After the agent's start (the deferred automatic start or an operator start)
    and any sequence of enabled events - connection results, peer data in any segmentation, timer expiries, operator
    commands, including every error path that sends a NOTIFICATION - the sent counter of every connection for every
    message type equals the number of messages of that type written to that connection in the whole history. -/
theorem C18_sent_cumulative (cfg : Cfg) (e0 : Ev) (he0 : e0 = .boot ∨ e0 = .manualStart) (evs : List Ev)
    (hen : EnabledRun U (step U (bootWorld cfg) e0) evs) (i ty : Nat) :
    sentOf ((run U (bootWorld cfg) (e0 :: evs)).sess.conn i).sent ty = wcount (runOuts U (bootWorld cfg) (e0 :: evs)) i ty := by
  have h0 := one_first U cfg e0 he0
  have hh0 := heal_first U cfg e0 he0
  have hrest := sent_run U evs _ hh0 h0.1 h0.2 hen i ty
  -- the first step, from the initial state (no connection yet, so every counter is zero and nothing can be sent)
  have hfirst : Bal ((bootWorld cfg).sess.withOuts []) (step U (bootWorld cfg) e0).sess := by
    rcases he0 with rfl | rfl
    · exact (sq_autoStart _ _).bal
    · exact (sq_manualStart _).bal
  have h1 := hfirst i ty
  have hz : sentOf (((bootWorld cfg).sess.withOuts []).conn i).sent ty = 0 := by
    simp [bootWorld, boot, withOuts, conn, sentOf]
  have hz2 : wcount ((bootWorld cfg).sess.withOuts []).outs i ty = 0 := rfl
  rw [hz, hz2] at h1
  show sentOf ((run U (step U (bootWorld cfg) e0) evs).sess.conn i).sent ty =
    wcount ((step U (bootWorld cfg) e0).sess.outs ++ runOuts U (step U (bootWorld cfg) e0) evs) i ty
  rw [wcount_append, hrest]
  omega

/-- non-vacuity: the connection is made (one OPEN written and counted), then the peer sends 19 octets that do not
    start with the marker (one NOTIFICATION written and counted on the error path) - the theorem's conclusion evaluated
    on a concrete history -/
example :
    let cfg : Cfg := { localAs := 65001, remoteAs := 65002, holdCfg := 180, retryT := 30, idleHoldT := 30, localId := 1, caps0 := {} }
    let evs : List Ev := [.boot, .connOk 0, .chunk 0 (List.replicate 19 0)]
    wcount (runOuts (fun _ _ => .good) (bootWorld cfg) evs) 0 1 = 1 ∧
    sentOf ((run (fun _ _ => .good) (bootWorld cfg) evs).sess.conn 0).sent 1 = 1 ∧
    wcount (runOuts (fun _ _ => .good) (bootWorld cfg) evs) 0 3 = 1 ∧
    sentOf ((run (fun _ _ => .good) (bootWorld cfg) evs).sess.conn 0).sent 3 = 1 ∧
    EnabledRun (fun _ _ => .good) (step (fun _ _ => .good) (bootWorld cfg) .boot) (evs.drop 1) := by
  intro cfg evs
  refine ⟨by decide, by decide, by decide, by decide, ?_⟩
  exact ⟨by decide, by decide, trivial⟩

end Yabgp

#print axioms Yabgp.C18_sent_step
#print axioms Yabgp.C18_sent_cumulative
