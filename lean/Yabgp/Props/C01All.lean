/- C01: the per-event theorems (Props/C01.lean) and their applicability to every reachable session state (Props/C01b.lean). -/
import Yabgp.Props.C01
import Yabgp.Props.C01b
import Yabgp.Props.C01c
