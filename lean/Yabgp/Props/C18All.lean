/- C18: per-message statements and the received side (Props/C18.lean), the sent side over every history of events
   (Props/C18b.lean) and over histories that also contain REST requests (Props/C18c.lean). -/
import Yabgp.Props.C18
import Yabgp.Props.C18b
import Yabgp.Props.C18c
