/- C18: per-message statements and the received side (Props/C18.lean) and the sent side over every history (Props/C18b.lean). -/
import Yabgp.Props.C18
import Yabgp.Props.C18b
