/-
  C07 — multiprotocol NLRI round trip for every family both encoded and decoded: the property theorems live in
  Props/C07a (IPv6 unicast, labeled unicast, VPNv4/VPNv6, MP_REACH / MP_UNREACH wrappers) and Props/C07b (EVPN route
  types 1-4(5), IPv4 flowspec); this module only puts them together for the check.
-/
import Yabgp.Props.C07a
import Yabgp.Props.C07b
