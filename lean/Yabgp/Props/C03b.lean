/-
  C03, with REST requests in the history: asking the agent to send something (send/update, send/route-refresh,
  send/bin_update), to convert a message or to report its state does not touch the keepalive or the hold timer, so the
  timer contract of Props/C03.lean (a KEEPALIVE is due within H/3, the hold deadline is the last arrival + H) is not
  disturbed by whatever the application sends in between.  Only the operator commands manual-start / manual-stop,
  which are FSM events, change timers.
-/
import Yabgp.Props.C03
import Yabgp.Props.C16

namespace Yabgp
open Sess Rest C16

theorem tm_runView_send (v : View) (hv : v.isSend = true) (req : Request) (s : Sess) :
    (runView v req s).2.tm = s.tm ∧ (runView v req s).2.st = s.st ∧ (runView v req s).2.holdTime = s.holdTime ∧
    (runView v req s).2.now = s.now := by
  cases v <;> simp only [View.isSend, Bool.false_eq_true] at hv
  · simp only [runView]
    unfold viewSendRouteRefresh rrSend
    repeat' split
    all_goals first | exact ⟨rfl, rfl, rfl, rfl⟩ | (refine ⟨?_, ?_, ?_, ?_⟩ <;> simp [bumpSent, setConn, withConns, writeOn] <;> split <;> rfl)
  · simp only [runView]
    unfold viewSendUpdate updSend
    repeat' split
    all_goals first | exact ⟨rfl, rfl, rfl, rfl⟩ | (refine ⟨?_, ?_, ?_, ?_⟩ <;> simp [bumpSent, setConn, withConns, writeOn] <;> split <;> rfl)
  · simp only [runView]
    unfold viewSendBinUpdate binSend
    repeat' split
    all_goals first | exact ⟨rfl, rfl, rfl, rfl⟩ | (refine ⟨?_, ?_, ?_, ?_⟩ <;> simp [bumpSent, setConn, withConns, writeOn] <;> split <;> rfl)

/-- **REST requests other than the operator's start / stop leave the timers alone** (and with them the state, the
    negotiated hold time and the clock the timer contract is stated over). -/
theorem C03_rest_keeps_timers (rc : RestCfg) (r : Route) (req : Request) (s : Sess)
    (hv : View.ofName r.view ≠ .manualStart ∧ View.ofName r.view ≠ .manualStop) :
    (handle rc r req s).2.tm = s.tm ∧ (handle rc r req s).2.st = s.st ∧ (handle rc r req s).2.holdTime = s.holdTime ∧
    (handle rc r req s).2.now = s.now := by
  unfold handle
  split
  · rw [stripHead_snd]; exact ⟨rfl, rfl, rfl, rfl⟩
  · split
    · exact ⟨rfl, rfl, rfl, rfl⟩
    · rw [stripHead_snd]
      rcases chain_cases rc (View.ofName r.view) req s (r.decorators.map Deco.ofName) with h | h
      · rw [h.1]
        have key : ∀ v : View, v ≠ .manualStart → v ≠ .manualStop →
            (runView v req s).2.tm = s.tm ∧ (runView v req s).2.st = s.st ∧ (runView v req s).2.holdTime = s.holdTime ∧
            (runView v req s).2.now = s.now := by
          intro v h1 h2
          cases v with
          | manualStart => exact absurd rfl h1
          | manualStop => exact absurd rfl h2
          | sendRouteRefresh => exact tm_runView_send _ rfl req s
          | sendUpdate => exact tm_runView_send _ rfl req s
          | sendBinUpdate => exact tm_runView_send _ rfl req s
          | peer => exact ⟨rfl, rfl, rfl, rfl⟩
          | root => exact ⟨rfl, rfl, rfl, rfl⟩
          | index => exact ⟨rfl, rfl, rfl, rfl⟩
          | static => exact ⟨rfl, rfl, rfl, rfl⟩
          | unknown => exact ⟨rfl, rfl, rfl, rfl⟩
          | version => simp only [runView]; rw [viewVersion_snd]; exact ⟨rfl, rfl, rfl, rfl⟩
          | statistic => simp only [runView]; rw [viewStatistic_snd]; exact ⟨rfl, rfl, rfl, rfl⟩
          | adjRibIn => simp only [runView]; rw [viewAdjRib_snd]; exact ⟨rfl, rfl, rfl, rfl⟩
          | adjRibOut => simp only [runView]; rw [viewAdjRib_snd]; exact ⟨rfl, rfl, rfl, rfl⟩
          | jsonToBin => simp only [runView]; rw [viewJsonToBin_snd]; exact ⟨rfl, rfl, rfl, rfl⟩
        exact key _ hv.1 hv.2
      · rw [h.1]; exact ⟨rfl, rfl, rfl, rfl⟩

/-- hence the timer invariant of C03 survives every such request -/
theorem C03_contract_survives_rest (rc : RestCfg) (r : Route) (req : Request) (s : Sess) (h : TimInv s)
    (hv : View.ofName r.view ≠ .manualStart ∧ View.ofName r.view ≠ .manualStop) : TimInv (handle rc r req s).2 := by
  obtain ⟨h1, h2, h3, h4⟩ := C03_rest_keeps_timers rc r req s hv
  exact h.of_core h2 h1 h3 h4

end Yabgp

#print axioms Yabgp.C03_rest_keeps_timers
#print axioms Yabgp.C03_contract_survives_rest
