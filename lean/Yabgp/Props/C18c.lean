/-
  C18, sent side, histories that also contain REST requests: the UPDATE and ROUTE-REFRESH messages the agent sends on
  behalf of the REST API (send/update, send/route-refresh, send/bin_update) are counted exactly as they are written, so the
  equality "sent counter = messages of that kind written to the connection" of Props/C18b.lean holds for every history of
  environment events AND REST requests against the route table regenerated from /repo.  All five counters are covered.
  (send/bin_update writes the given octets as they are and counts one UPDATE; the equality therefore assumes that the
  octets posted there are one UPDATE message - `BinIsUpdate` - which is what the endpoint is for.)
-/
import Yabgp.Props.C18b
import Yabgp.Props.C16

namespace Yabgp
open Sess Rest C16

variable (U : Bool → Bytes → UpdClass)

theorem sentOf_incUpdates (st : Stats) (ty : Nat) : sentOf (incUpdates st) ty = sentOf st ty + if ty = 2 then 1 else 0 := by
  unfold sentOf incUpdates
  by_cases h1 : ty = 1 <;> by_cases h2 : ty = 2 <;> simp_all
theorem sentOf_incRouteRefresh (st : Stats) (ty : Nat) :
    sentOf (incRouteRefresh st) ty = sentOf st ty + if ty = 5 then 1 else 0 := by
  unfold sentOf incRouteRefresh
  by_cases h1 : ty = 1 <;> by_cases h2 : ty = 2 <;> by_cases h3 : ty = 3 <;> by_cases h4 : ty = 4 <;> by_cases h5 : ty = 5 <;> simp_all

/-- write then count (the order of send_update / send_route_refresh) is balanced like count then write -/
theorem bal_write_count (s : Sess) (i t : Nat) (g : Stats → Stats) (w : Bytes) (hn : Norm s i)
    (hg : ∀ st ty, sentOf (g st) ty = sentOf st ty + if ty = t then 1 else 0) (hw : wireKind w = t) :
    Bal s ((s.writeOn i w).bumpSent i g) := by
  rw [writeOn_norm hn]
  have h := bal_count_write s i t g w hn.lt hg hw
  intro j ty
  have e1 : ((s.emit (.write i w)).bumpSent i g).outs = ((s.bumpSent i g).emit (.write i w)).outs := rfl
  have e2 : ((s.emit (.write i w)).bumpSent i g).conn j = ((s.bumpSent i g).emit (.write i w)).conn j := rfl
  rw [e1, e2]
  exact h j ty

theorem wireKind_update (asn4 ap : Bool) (m : UpdMsg) (w : Bytes) (h : constructUpdate asn4 ap m = some w) : wireKind w = 2 := by
  unfold constructUpdate at h
  simp only [Option.bind_eq_bind] at h
  cases hb : constructUpdateBody asn4 ap m with
  | none => simp [hb] at h
  | some body =>
    simp only [hb, Option.bind_some] at h
    exact wireKind_of_type (wireType_header _ _ _ (by decide) h) (by decide)

theorem wireKind_routeRefresh (ty afi res safi : Nat) (w : Bytes) (hty : ty = 5 ∨ ty = 128)
    (h : constructRouteRefresh ty afi res safi = some w) : wireKind w = 5 := by
  unfold constructRouteRefresh at h
  split at h
  · rename_i hr
    have ht := wireType_header ty _ w hr.2.2.2 h
    unfold wireKind
    rw [ht]
    rcases hty with rfl | rfl <;> simp
  · cases h

/-- the octets posted to send/bin_update are one UPDATE message -/
def BinIsUpdate (req : Request) : Prop :=
  ∀ o b, req.body = .obj o → o.bin = .bytes b → wireKind b = 2

theorem rrType_cases (r : CapaDict) (ty : Nat) (h : rrType r = some ty) : ty = 5 ∨ ty = 128 := by
  unfold rrType at h
  split at h
  · injection h with h; exact Or.inr h.symm
  · split at h
    · injection h with h; exact Or.inl h.symm
    · cases h

/-- every send view, run on a state whose tracked connection is up, counts what it writes -/
theorem bal_runView_send {s : Sess} {i : Nat} (hn : Norm s i) (v : View) (hv : v.isSend = true) (req : Request)
    (hbin : BinIsUpdate req) : Bal s (runView v req s).2 := by
  cases v <;> simp only [View.isSend, Bool.false_eq_true] at hv
  · -- send/route-refresh
    simp only [runView]
    unfold viewSendRouteRefresh
    repeat' split
    all_goals try exact Bal.refl _
    rename_i a sf _ _
    unfold rrSend
    simp only [hn.proto]
    cases hty : rrType s.remote with
    | none => exact Bal.refl _
    | some ty =>
      simp only
      cases hl : s.remote.afiSafi with
      | none => exact Bal.refl _
      | some l =>
        simp only
        split
        · split
          · rename_i w hc
            exact bal_write_count s i 5 _ w hn sentOf_incRouteRefresh
              (wireKind_routeRefresh ty _ _ _ w (rrType_cases _ _ hty) hc)
          · exact Bal.refl _
        · exact Bal.refl _
  · -- send/update
    simp only [runView]
    unfold viewSendUpdate
    repeat' split
    all_goals try exact Bal.refl _
    all_goals
      unfold updSend
      simp only [hn.proto]
      split
      · rename_i w hc
        exact bal_write_count s i 2 _ w hn sentOf_incUpdates (wireKind_update _ _ _ w hc)
      · exact Bal.refl _
  · -- send/bin_update
    simp only [runView]
    unfold viewSendBinUpdate
    cases hb : req.body with
    | noJson => exact Bal.refl _
    | badJson => exact Bal.refl _
    | nonObj k => exact Bal.refl _
    | obj o =>
      simp only
      cases hbn : o.bin with
      | absent => exact Bal.refl _
      | notText => exact Bal.refl _
      | notHex => exact Bal.refl _
      | bytes b =>
        simp only [binSend, hn.proto]
        split
        · exact Bal.refl _
        · exact bal_write_count s i 2 _ b hn sentOf_incUpdates (hbin o b hb hbn)

/-- every REST request against a route of the table is balanced, in every state where a session state has its tracked
    connection up -/
theorem bal_handle (rc : RestCfg) (r : Route) (hr : r ∈ genRoutes) (req : Request) (hbin : BinIsUpdate req) (s : Sess)
    (hins : InSession s → ∃ i, Norm s i) : Bal s (handle rc r req s).2 := by
  unfold handle
  split
  · rw [stripHead_snd]; exact Bal.refl _
  · split
    · exact Bal.refl _
    · rw [stripHead_snd]
      rcases chain_cases rc (View.ofName r.view) req s (r.decorators.map Deco.ofName) with h | h
      · rw [h.1]
        by_cases hv : (View.ofName r.view).isSend = true
        · have hest : s.st = .established := h.2.2 (C16_gate_table r hr hv).2
          obtain ⟨i, hn⟩ := hins (Or.inr (Or.inr hest))
          exact bal_runView_send hn _ hv req hbin
        · have hv' : (View.ofName r.view).isSend = false := by
            cases hh : (View.ofName r.view).isSend <;> simp_all
          rcases runView_state _ req s hv' with e | e | e <;> rw [e]
          · exact Bal.refl _
          · exact (sq_manualStart s).bal
          · exact bal_manualStop (fun h => hins (Or.inr (Or.inr h)))
      · rw [h.1]; exact Bal.refl _

/-- what a REST request does to the control skeleton: nothing, or the operator's start / stop -/
theorem core_handle (rc : RestCfg) (r : Route) (req : Request) (s : Sess) :
    core (handle rc r req s).2 = core s ∨ core (handle rc r req s).2 = (core s).manualStart ∨
    core (handle rc r req s).2 = (core s).manualStop := by
  unfold handle
  split
  · rw [stripHead_snd]; exact Or.inl rfl
  · split
    · exact Or.inl rfl
    · rw [stripHead_snd]
      rcases chain_cases rc (View.ofName r.view) req s (r.decorators.map Deco.ofName) with h | h
      · rw [h.1]
        by_cases hv : (View.ofName r.view).isSend = false
        · rcases runView_state _ req s hv with e | e | e <;> rw [e]
          · exact Or.inl rfl
          · exact Or.inr (Or.inl (core_manualStart s))
          · exact Or.inr (Or.inr (core_manualStop s))
        · left
          cases hview : View.ofName r.view <;> simp [hview, View.isSend] at hv
          · simp only [runView]
            unfold viewSendRouteRefresh rrSend
            repeat' split
            all_goals first | rfl | simp only [core_bumpSent, core_writeOn]
          · simp only [runView]
            unfold viewSendUpdate updSend
            repeat' split
            all_goals first | rfl | simp only [core_bumpSent, core_writeOn]
          · simp only [runView]
            unfold viewSendBinUpdate binSend
            repeat' split
            all_goals first | rfl | simp only [core_bumpSent, core_writeOn]
      · rw [h.1]; exact Or.inl rfl

/-! ### histories of events and REST requests -/

/-- one action of the environment: an event of the session model or a REST request -/
inductive Act
  | ev (e : Ev)
  | rest (r : Route) (req : Request)

def actStep (rc : RestCfg) (w : World) : Act → World
  | .ev e => step U w e
  | .rest r req => (restStep rc r req w).2

/-- the action is possible: an enabled event; a request against a route of the table (any method, any credentials, any
    body), whose `binary_data`, if it is sent, is one UPDATE -/
def actOk (w : World) : Act → Prop
  | .ev e => enabled w.sess e = true
  | .rest r req => r ∈ genRoutes ∧ BinIsUpdate req

def actRun (rc : RestCfg) (w : World) : List Act → World
  | [] => w
  | a :: as => actRun rc (actStep U rc w a) as

def ActsOk (rc : RestCfg) : World → List Act → Prop
  | _, [] => True
  | w, a :: as => actOk w a ∧ ActsOk rc (actStep U rc w a) as

def actOuts (rc : RestCfg) : World → List Act → List Out
  | _, [] => []
  | w, a :: as => (actStep U rc w a).sess.outs ++ actOuts rc (actStep U rc w a) as

/-- the reachable-state invariants of C02 / C12 survive REST requests as well -/
theorem inv_actStep (rc : RestCfg) (w : World) (a : Act) (hok : actOk w a)
    (hh : Core.Heal (core w.sess)) (ho : Core.One (core w.sess)) (hp : Core.Pend (core w.sess)) :
    Core.Heal (core (actStep U rc w a).sess) ∧ Core.One (core (actStep U rc w a).sess) ∧
    Core.Pend (core (actStep U rc w a).sess) := by
  cases a with
  | ev e =>
    have hen : enabled w.sess e = true := hok
    have h1 := one_step U w e hen ho hp hh
    exact ⟨heal_step U w e hen hh, h1.1, h1.2⟩
  | rest r req =>
    show Core.Heal (core (handle rc r req (w.sess.withOuts [])).2) ∧ Core.One (core (handle rc r req (w.sess.withOuts [])).2) ∧
      Core.Pend (core (handle rc r req (w.sess.withOuts [])).2)
    have hh0 : Core.Heal (core (w.sess.withOuts [])) := hh
    have ho0 : Core.One (core (w.sess.withOuts [])) := ho
    have hp0 : Core.Pend (core (w.sess.withOuts [])) := hp
    rcases core_handle rc r req (w.sess.withOuts []) with e | e | e <;> rw [e]
    · exact ⟨hh0, ho0, hp0⟩
    · have hm : (core (w.sess.withOuts [])).manualStart ∈ (core (w.sess.withOuts [])).stepOutcome .manualStart := by
        simp [Core.stepOutcome]
      have h1 := Core.one_stepOutcome ho0 hp0 hh0 .manualStart trivial _ hm
      exact ⟨Core.heal_stepOutcome hh0 .manualStart trivial _ hm, h1.1, h1.2⟩
    · have hm : (core (w.sess.withOuts [])).manualStop ∈ (core (w.sess.withOuts [])).stepOutcome .manualStop := by
        simp [Core.stepOutcome]
      have h1 := Core.one_stepOutcome ho0 hp0 hh0 .manualStop trivial _ hm
      exact ⟨Core.heal_stepOutcome hh0 .manualStop trivial _ hm, h1.1, h1.2⟩

theorem bal_actStep (rc : RestCfg) (w : World) (a : Act) (hok : actOk w a)
    (hh : Core.Heal (core w.sess)) (ho : Core.One (core w.sess)) :
    Bal (w.sess.withOuts []) (actStep U rc w a).sess := by
  cases a with
  | ev e =>
    have hen : enabled w.sess e = true := hok
    exact bal_step U w e hen hh ho
  | rest r req =>
    have hh0 : Core.Heal (core (w.sess.withOuts [])) := hh
    exact bal_handle rc r hok.1 req hok.2 _ (norm_of_heal hh0)

theorem sent_actRun (rc : RestCfg) (acts : List Act) : ∀ (w : World), Core.Heal (core w.sess) → Core.One (core w.sess) →
    Core.Pend (core w.sess) → ActsOk U rc w acts → ∀ i ty,
    sentOf ((actRun U rc w acts).sess.conn i).sent ty = sentOf (w.sess.conn i).sent ty + wcount (actOuts U rc w acts) i ty := by
  induction acts with
  | nil => intro w _ _ _ _ i ty; simp [actRun, actOuts, wcount]
  | cons a r ih =>
    intro w hh ho hp hok i ty
    have hb := bal_actStep U rc w a hok.1 hh ho i ty
    have h0 : wcount (w.sess.withOuts []).outs i ty = 0 := rfl
    have h1 : (w.sess.withOuts []).conn i = w.sess.conn i := rfl
    rw [h0, h1] at hb
    obtain ⟨hh', ho', hp'⟩ := inv_actStep U rc w a hok.1 hh ho hp
    have h2 := ih (actStep U rc w a) hh' ho' hp' hok.2 i ty
    simp only [actRun, actOuts, wcount_append]
    rw [h2]
    omega

/-- **C18, sent side, every history of events and REST requests.**  After the agent's start and any sequence of enabled
    environment events and REST requests (any route of the table, any method, credentials and body), the sent counter of
    every connection for every statistics key (Opens, Updates, Notifications, Keepalives, RouteRefresh) equals the number
    of messages of that kind written to that connection in the whole history. -/
theorem C18_sent_cumulative_rest (rc : RestCfg) (cfg : Cfg) (e0 : Ev) (he0 : e0 = .boot ∨ e0 = .manualStart)
    (acts : List Act) (hok : ActsOk U rc (step U (bootWorld cfg) e0) acts) (i ty : Nat) :
    sentOf ((actRun U rc (step U (bootWorld cfg) e0) acts).sess.conn i).sent ty =
      wcount ((step U (bootWorld cfg) e0).sess.outs ++ actOuts U rc (step U (bootWorld cfg) e0) acts) i ty := by
  have h0 := one_first U cfg e0 he0
  have hh0 := heal_first U cfg e0 he0
  have hrest := sent_actRun U rc acts _ hh0 h0.1 h0.2 hok i ty
  have hfirst : Bal ((bootWorld cfg).sess.withOuts []) (step U (bootWorld cfg) e0).sess := by
    rcases he0 with rfl | rfl
    · exact (sq_autoStart _ _).bal
    · exact (sq_manualStart _).bal
  have h1 := hfirst i ty
  have hz : sentOf (((bootWorld cfg).sess.withOuts []).conn i).sent ty = 0 := by
    simp [bootWorld, boot, withOuts, conn, sentOf]
  have hz2 : wcount ((bootWorld cfg).sess.withOuts []).outs i ty = 0 := rfl
  rw [hz, hz2] at h1
  rw [wcount_append, hrest]
  omega

/-- non-vacuity: the session of Props/C16's example is established (one OPEN and one KEEPALIVE written), then a REST
    send/update with valid credentials writes one UPDATE: every piece of the theorem's conclusion evaluated -/
example :
    let acts : List Act := [.ev (.connOk 0), .ev (.chunk 0 C16Ex.peerOpen), .ev (.chunk 0 C16Ex.keepalive),
      .rest C16Ex.sendRoute (C16Ex.req (some ("admin", "admin")))]
    let w0 := step C16Ex.U (bootWorld C16Ex.cfg) .boot
    let outs := w0.sess.outs ++ actOuts C16Ex.U C16Ex.rc w0 acts
    wcount outs 0 1 = 1 ∧ wcount outs 0 4 = 1 ∧ wcount outs 0 2 = 1 ∧
    sentOf ((actRun C16Ex.U C16Ex.rc w0 acts).sess.conn 0).sent 2 = 1 ∧
    sentOf ((actRun C16Ex.U C16Ex.rc w0 acts).sess.conn 0).sent 1 = 1 := by
  intro acts w0 outs
  refine ⟨by decide, by decide, by decide, by decide, by decide⟩

end Yabgp

#print axioms Yabgp.C18_sent_cumulative_rest
#print axioms Yabgp.bal_handle
