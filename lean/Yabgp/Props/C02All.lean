/- C02: safety half and liveness from the resting situation (Props/C02.lean), liveness from every reachable state (Props/C02b.lean). -/
import Yabgp.Props.C02
import Yabgp.Props.C02b
