/-
  C11 — every decoder terminates on every input; UPDATE decoding never raises.  This file: the decoders of the
  UPDATE / OPEN / small-message models.  Every decoder of `Yabgp/Model` is a total Lean function defined by
  structural or well-founded recursion on the remaining input WITHOUT fuel, so its acceptance by Lean's
  termination checker is the termination proof for every input of every length; the theorems below give the
  progress made by every loop iteration (the facts those termination proofs rest on), the resulting work bounds,
  and the never-raises statement.  (TLV decoders of BGP-LS / Prefix-SID: Props/C11b.)
-/
import Yabgp.Lemmas.Compose
import Yabgp.Props.C04
import Yabgp.Props.C11b
import Yabgp.Props.C11p
import Yabgp.Props.C11q

namespace Yabgp

theorem parsePrefixList_nil' (addpath : Bool) : parsePrefixList addpath [] = some [] := by
  rw [parsePrefixList]

theorem slice_length_of_le {b : Bytes} {i j : Nat} (hij : i ≤ j) (hj : j ≤ b.length) : (slice b i j).length = j - i := by
  unfold slice; simp; omega

theorem unpackH_some_of_length {v : Bytes} (h : v.length = 2) : ∃ n, unpackH v = some n := by
  match v, h with
  | [a, b], _ => exact ⟨_, rfl⟩

/-- **UPDATE decoding never raises**: a body whose two length fields are in range (the withdrawn-routes length
    field exists and the attribute length field lies inside the body) always yields a result object - whatever
    the remaining octets are (errors are reported inside the result as a sub-code) -/
theorem C11_update_never_raises (asn4 addpath : Bool) (msg : Bytes) (wl : Nat)
    (h2 : 2 ≤ msg.length) (hw : unpackH (slice msg 0 2) = some wl) (h4 : wl + 4 ≤ msg.length) :
    ∃ r, parseUpdate asn4 addpath msg = some r := by
  have hl : (slice msg (wl + 2) (wl + 4)).length = 2 := by
    rw [slice_length_of_le (by omega) h4]; omega
  obtain ⟨al, hal⟩ := unpackH_some_of_length hl
  unfold parseUpdate
  simp only [hw, hal]
  exact ⟨_, rfl⟩

/-- the first length field always exists in a body of at least 2 octets -/
theorem C11_update_first_field (msg : Bytes) (h2 : 2 ≤ msg.length) : ∃ wl, unpackH (slice msg 0 2) = some wl ∧ wl < 65536 := by
  match msg, h2 with
  | a :: b :: r, _ =>
    refine ⟨a.toNat * 256 + b.toNat, by simp [slice, unpackH], ?_⟩
    have := a.toNat_lt; have := b.toNat_lt; omega

/-- conversely the only way not to get a result object is a length field out of range -/
theorem C11_update_raises_only_out_of_range (asn4 addpath : Bool) (msg : Bytes)
    (h : parseUpdate asn4 addpath msg = none) :
    msg.length < 2 ∨ ∃ wl, unpackH (slice msg 0 2) = some wl ∧ msg.length < wl + 4 := by
  by_cases h2 : 2 ≤ msg.length
  · right
    obtain ⟨wl, hw, _⟩ := C11_update_first_field msg h2
    refine ⟨wl, hw, ?_⟩
    by_cases h4 : wl + 4 ≤ msg.length
    · obtain ⟨r, hr⟩ := C11_update_never_raises asn4 addpath msg wl h2 hw h4
      rw [hr] at h; cases h
    · omega
  · left; omega

/-! ### progress of every loop iteration, and the work bounds that follow -/

/-- NLRI / withdrawn-routes loop: every iteration consumes at least one octet … -/
theorem C11_prefix_progress {addpath : Bool} {b r : Bytes} {p : Pfx}
    (h : stepPrefix addpath b = some (p, r)) : r.length < b.length := stepPrefix_length h

/-- … so the loop runs at most `b.length` times -/
theorem C11_prefix_work (addpath : Bool) : ∀ (n : Nat) (b : Bytes) (ps : List Pfx), b.length ≤ n →
    parsePrefixList addpath b = some ps → ps.length ≤ b.length := by
  intro n
  induction n with
  | zero =>
    intro b ps hb h
    have : b = [] := List.length_eq_zero_iff.mp (by omega)
    subst this
    rw [parsePrefixList_nil'] at h; cases h; simp
  | succ n ih =>
    intro b ps hb h
    match b with
    | [] => rw [parsePrefixList_nil'] at h; cases h; simp
    | x :: xs =>
      rw [parsePrefixList_cons] at h
      cases hs : stepPrefix addpath (x :: xs) with
      | none => simp [hs] at h
      | some pr =>
        obtain ⟨p, r⟩ := pr
        simp only [hs] at h
        cases hr : parsePrefixList addpath r with
        | none => simp [hr] at h
        | some qs =>
          simp only [hr, Option.some.injEq] at h
          subst h
          have hl := stepPrefix_length hs
          have := ih r qs (by simp at hb hl; omega) hr
          simp at hl ⊢; omega

/-- path-attribute loop: every iteration consumes at least the 3-octet header, and the value handed to the
    per-attribute decoder is a slice of the container (no decoder ever sees more octets than were received) -/
theorem C11_attr_progress {b v r : Bytes} {f t : Nat} (h : splitAttr b = some (f, t, v, r)) :
    r.length + 3 ≤ b.length ∧ v.length + 3 ≤ b.length := by
  unfold splitAttr at h
  split at h
  · rename_i f' t' rest
    split at h
    · split at h
      · rename_i n r' hr
        simp only [Option.some.injEq, Prod.mk.injEq] at h
        have := rd16_length hr
        rw [← h.2.2.2, ← h.2.2.1]; simp; omega
      · simp at h
    · split at h
      · simp only [Option.some.injEq, Prod.mk.injEq] at h
        rw [← h.2.2.2, ← h.2.2.1]; simp
      · simp at h
  · simp at h

/-- AS_PATH loop: a decoded path has at most `v.length / 2` segments -/
theorem C11_aspath_work (four : Bool) : ∀ (n : Nat) (v : Bytes) (segs : List (Nat × List Nat)), v.length ≤ n →
    parseAsPath four v = .ok segs → 2 * segs.length ≤ v.length := by
  intro n
  induction n with
  | zero =>
    intro v segs hv h
    have : v = [] := List.length_eq_zero_iff.mp (by omega)
    subst this
    rw [parseAsPath] at h; cases h; simp
  | succ n ih =>
    intro v segs hv h
    match v with
    | [] => rw [parseAsPath] at h; cases h; simp
    | [_] => rw [parseAsPath] at h; exact absurd h (by simp)
    | t :: c :: rest =>
      rw [parseAsPath_cons] at h
      split at h
      · cases h
      · split at h
        · cases h
        · cases hr : parseAsPath four (rest.drop (c.toNat * asWidth four)) with
          | error e => simp [hr] at h
          | ok ss =>
            simp only [hr, Except.ok.injEq] at h
            subst h
            have := ih _ ss (by simp at hv ⊢; omega) hr
            simp at this ⊢; omega

/-- OPEN capability loop: every iteration consumes the 2-octet header and the value it announces -/
theorem C11_caps_progress (c l : UInt8) (rest : Bytes) :
    (rest.drop l.toNat).length + 2 ≤ (c :: l :: rest).length ∧ (rest.take l.toNat).length ≤ rest.length := by
  simp

/-- COMMUNITIES / CLUSTER_LIST / LARGE_COMMUNITY: the entry list is at most a quarter of the value long -/
theorem C11_words_work (v : Bytes) : (words32 v).length ≤ v.length := by
  rw [words32_length]; omega

example : ∃ r, parseUpdate false false [0, 0, 0, 4, 0x40, 1, 1, 9] = some r :=
  C11_update_never_raises false false _ 0 (by simp) rfl (by simp)

end Yabgp

#print axioms Yabgp.C11_update_never_raises
#print axioms Yabgp.C11_update_raises_only_out_of_range
#print axioms Yabgp.C11_prefix_work
#print axioms Yabgp.C11_attr_progress
#print axioms Yabgp.C11_aspath_work
