/-
  C14 — OPEN, NOTIFICATION, KEEPALIVE and ROUTE-REFRESH encode and decode faithfully.
-/
import Yabgp.Lemmas.OpenRt

namespace Yabgp
open Spec

/-- inputs of the reference encoder the theorem quantifies over: any true AS 1..2^32-1, any hold time,
    any identifier, any list of optional parameters each holding any list of well-formed capabilities
    (any subset, order and packaging) that fits the one-octet length fields -/
structure RefOk (asn hold bgpId : Nat) (params : List (List Cap)) : Prop where
  asn_pos : 1 ≤ asn
  asn_lt : asn < 4294967296
  hold_lt : hold < 65536
  id_lt : bgpId < 4294967296
  params_ok : ∀ p ∈ params, (∀ c ∈ p, CapOk c) ∧ (p.flatMap encCap).length < 256
  total : (params.flatMap encParam).length < 256

/-- decoding agrees with the independent RFC encoder for every capability combination -/
theorem C14_open_decodes_reference (asn hold bgpId : Nat) (params : List (List Cap))
    (h : RefOk asn hold bgpId params) :
    parseOpen (refOpenBody asn hold bgpId params) = .ok (expectOpen asn hold bgpId params) := by
  obtain ⟨h1, h2, h3, h4, h5, h6⟩ := h
  have hf : (if asn > 65535 then 23456 else asn) < 65536 := by split <;> omega
  have hf0 : (if asn > 65535 then 23456 else asn) ≠ 0 := by split <;> omega
  generalize hfd : (if asn > 65535 then 23456 else asn) = fld at hf hf0
  simp only [refOpenBody, expectOpen, hfd, be8, be16, be32, List.cons_append, List.nil_append, parseOpen]
  have e4 : (u8 4).toNat = 4 := rfl
  rw [e4, be16_toNat hf, be16_toNat h3]
  have eid : (u8 (bgpId / 16777216)).toNat * 16777216 + (u8 (bgpId / 65536)).toNat * 65536 +
      (u8 (bgpId / 256)).toNat * 256 + (u8 bgpId).toNat = bgpId := by
    simp only [u8_toNat_mod]; omega
  rw [eid, u8_toNat h6]
  simp only [ne_eq, not_true_eq_false, ↓reduceIte, hf0]
  split
  · rename_i h0
    have : params.flatMap encParam = [] := List.eq_nil_of_length_eq_zero h0
    have hflat : params.flatten = [] := by
      cases hp : params.flatten with
      | nil => rfl
      | cons c r =>
        exfalso
        have hall : ∀ p ∈ params, encParam p = [] := by
          intro p hp'
          have := List.flatMap_eq_nil_iff.mp this p hp'
          exact this
        have : ∀ p ∈ params, False := by
          intro p hp'
          have := hall p hp'
          simp [encParam] at this
        cases params with
        | nil => simp at hp
        | cons p ps => exact this p (by simp)
    simp [hflat]
  · rw [optParasLoop_enc params _ h5]

/-! small messages -/

theorem C14_notification_roundtrip (err sub : Nat) (data wire : Bytes)
    (hc : constructNotification err sub data = some wire) :
    ∃ body, wire = marker ++ be16 (body.length + 19) ++ be8 3 ++ body ∧
      parseNotification body = some (err, sub, data) := by
  unfold constructNotification at hc
  split at hc
  · rename_i h
    simp only [constructHeader, C.msgNotification] at hc
    split at hc
    · simp only [Option.some.injEq] at hc
      refine ⟨_, hc.symm, ?_⟩
      simp [parseNotification, be8, u8_toNat h.1, u8_toNat h.2]
    · simp at hc
  · simp at hc

theorem C14_keepalive : constructKeepalive = marker ++ be16 19 ++ be8 4 ∧ parseKeepalive [] = .ok () := by
  constructor <;> rfl

theorem C14_keepalive_rejects_body (b : Bytes) (h : b ≠ []) : parseKeepalive b = .error (.hdr 2) := by
  simp [parseKeepalive, h, C.hdrBadLen]

theorem C14_routerefresh_roundtrip (ty afi res safi : Nat) (wire : Bytes)
    (hc : constructRouteRefresh ty afi res safi = some wire) :
    ∃ body, wire = marker ++ be16 (body.length + 19) ++ be8 ty ++ body ∧
      parseRouteRefresh body = some (afi, res, safi) := by
  unfold constructRouteRefresh at hc
  split at hc
  · rename_i h
    simp only [constructHeader] at hc
    split at hc
    · simp only [Option.some.injEq] at hc
      refine ⟨_, hc.symm, ?_⟩
      simp [parseRouteRefresh, be8, be16, be16_toNat h.1, u8_toNat h.2.1, u8_toNat h.2.2.1]
    · simp at hc
  · simp at hc

/-- non-vacuity: a packaging with several capabilities per parameter, an unknown code, add-path for two
    families and a 4-octet AS meets the hypotheses -/
example : RefOk 4200000000 180 16909060
    [[.mp 1 1, .routeRefresh, .as4 4200000000], [.addPath [(1, 1, 3), (2, 1, 1)]], [.unknown 99 [1, 2]],
     [.llgr [(1, 1, 0, 3600)], .extNextHop [(1, 1, 2)], .gracefulRestart [0, 120]]] := by
  constructor <;> try decide
  intro p hp
  simp at hp
  rcases hp with rfl | rfl | rfl | rfl <;> (constructor <;> (try decide)) <;>
    (intro c hc; simp at hc; rcases hc with rfl | rfl | rfl <;> simp [CapOk])

end Yabgp

#print axioms Yabgp.C14_open_decodes_reference
#print axioms Yabgp.C14_notification_roundtrip
#print axioms Yabgp.C14_keepalive
#print axioms Yabgp.C14_keepalive_rejects_body
#print axioms Yabgp.C14_routerefresh_roundtrip

namespace Yabgp
open Spec

/-- the capabilities Open.construct emits for a local capability dictionary, one per optional parameter -/
def capsOfLocal (asn : Nat) (c : LocalCaps) : List (List Cap) :=
  (match c.afiSafi with | some l => l.map (fun p => [Cap.mp p.1 p.2]) | none => []) ++
  (if c.ciscoRouteRefresh then [[Cap.ciscoRouteRefresh]] else []) ++
  (if c.routeRefresh then [[Cap.routeRefresh]] else []) ++
  (if asn > 65535 ∨ c.fourBytesAs then [[Cap.as4 asn]] else []) ++
  (match c.extNexthop with | some l => [[Cap.extNextHop l]] | none => []) ++
  (match c.addPath with | some v => [[Cap.addPath [(1, 1, v)]]] | none => []) ++
  (if c.enhancedRouteRefresh then [[Cap.enhancedRouteRefresh]] else [])

theorem encMp_eq (l : List (Nat × Nat)) :
    encMp l = (l.map (fun p => [Cap.mp p.1 p.2])).flatMap encParam := by
  induction l with
  | nil => rfl
  | cons p r ih =>
    simp only [encMp, List.flatMap_cons, List.map_cons] at ih ⊢
    rw [ih]
    simp [encParam, encCap, Cap.code, Cap.value, be8, be16, u8]

/-- a group of parameters is "fine": every capability well-formed and every parameter short enough -/
def ParamsOk (ps : List (List Cap)) : Prop :=
  ∀ p ∈ ps, (∀ x ∈ p, CapOk x) ∧ (p.flatMap encCap).length < 256

theorem ParamsOk_append {a b : List (List Cap)} (ha : ParamsOk a) (hb : ParamsOk b) : ParamsOk (a ++ b) := by
  intro p hp
  rcases List.mem_append.mp hp with h | h
  · exact ha p h
  · exact hb p h

theorem ParamsOk_nil : ParamsOk [] := by intro p hp; simp at hp

theorem capMp_ref (c : LocalCaps) (b : Bytes) (h : capMp c = some b) :
    b = (match c.afiSafi with | some l => l.map (fun (p : Nat × Nat) => [Cap.mp p.1 p.2]) | none => []).flatMap encParam ∧
    ParamsOk (match c.afiSafi with | some l => l.map (fun (p : Nat × Nat) => [Cap.mp p.1 p.2]) | none => []) := by
  unfold capMp at h
  cases hm : c.afiSafi with
  | none => simp [hm] at h; subst h; exact ⟨rfl, ParamsOk_nil⟩
  | some l =>
    simp only [hm] at h
    split at h
    · rename_i hok
      simp only [Option.some.injEq] at h
      subst h
      refine ⟨encMp_eq l, ?_⟩
      intro p hp
      simp only [List.mem_map] at hp
      obtain ⟨q, hq, rfl⟩ := hp
      have := (List.all_eq_true.mp hok) q hq
      simp only [decide_eq_true_eq] at this
      constructor
      · intro x hx; simp at hx; subst hx; exact this
      · simp [encCap, Cap.value, Cap.code]
    · simp at h

theorem capAs4_ref (asn : Nat) (c : LocalCaps) (b : Bytes) (h : capAs4 asn c = some b) :
    b = (if asn > 65535 ∨ c.fourBytesAs then [[Cap.as4 asn]] else []).flatMap encParam ∧
    ParamsOk (if asn > 65535 ∨ c.fourBytesAs then [[Cap.as4 asn]] else []) := by
  unfold capAs4 at h
  split at h
  · rename_i hc
    split at h
    · rename_i hlt
      simp only [Option.some.injEq] at h; subst h
      rw [if_pos hc]
      refine ⟨by simp [encParam, encCap, Cap.code, Cap.value, be8, u8], ?_⟩
      intro p hp; simp at hp; subst hp
      exact ⟨by intro x hx; simp at hx; subst hx; exact hlt, by simp [encCap, Cap.value]⟩
    · simp at h
  · rename_i hc
    simp only [Option.some.injEq] at h; subst h
    rw [if_neg hc]; exact ⟨rfl, ParamsOk_nil⟩

theorem capEnh_ref (c : LocalCaps) (b : Bytes) (h : capEnh c = some b) :
    b = (match c.extNexthop with | some l => [[Cap.extNextHop l]] | none => []).flatMap encParam ∧
    ParamsOk (match c.extNexthop with | some l => [[Cap.extNextHop l]] | none => []) := by
  unfold capEnh at h
  cases hm : c.extNexthop with
  | none => simp [hm] at h; subst h; exact ⟨rfl, ParamsOk_nil⟩
  | some l =>
    simp only [hm] at h
    split at h
    · rename_i hok
      simp only [Option.some.injEq] at h; subst h
      have hlen : (encExtNh l).length = 6 * l.length := extNh_flat_len l
      have hX : (List.flatMap (fun (t : Nat × Nat × Nat) => be16 t.1 ++ be16 t.2.1 ++ be16 t.2.2) l) = encExtNh l := rfl
      refine ⟨?_, ?_⟩
      · simp only [encParam, encCap, Cap.code, Cap.value, List.flatMap_cons, List.flatMap_nil, List.append_nil,
          List.length_append, be8_length, hX]
        have : 1 + 1 + (encExtNh l).length = (encExtNh l).length + 2 := by omega
        rw [this]
        simp [be8, u8]
      intro p hp; simp at hp; subst hp
      constructor
      · intro x hx; simp at hx; subst hx
        refine ⟨?_, by omega⟩
        intro t ht
        have := (List.all_eq_true.mp hok.1) t ht
        simpa using this
      · simp only [List.flatMap_cons, List.flatMap_nil, List.append_nil, encCap, Cap.value, Cap.code,
          List.length_append, be8_length]
        have : (List.flatMap (fun t => be16 t.1 ++ be16 t.2.1 ++ be16 t.2.2) l).length = (encExtNh l).length := rfl
        omega
    · simp at h

theorem capAp_ref (c : LocalCaps) (b : Bytes) (h : capAp c = some b) :
    b = (match c.addPath with | some v => [[Cap.addPath [(1, 1, v)]]] | none => []).flatMap encParam ∧
    ParamsOk (match c.addPath with | some v => [[Cap.addPath [(1, 1, v)]]] | none => []) := by
  unfold capAp at h
  cases hm : c.addPath with
  | none => simp [hm] at h; subst h; exact ⟨rfl, ParamsOk_nil⟩
  | some v =>
    simp only [hm] at h
    split at h
    · rename_i hok
      simp only [Option.some.injEq] at h; subst h
      refine ⟨by simp [encParam, encCap, Cap.code, Cap.value, be8, be16, u8], ?_⟩
      intro p hp; simp at hp; subst hp
      constructor
      · intro x hx; simp at hx; subst hx
        refine ⟨?_, by simp⟩
        intro t ht; simp at ht; subst ht; exact ⟨by show 1 < 65536; omega, by show 1 < 256; omega, by have := hok.2; show v < 256; omega⟩
      · simp [encCap, Cap.value, Cap.code]
    · simp at h

theorem flag_ref (f : Bool) (bytes : Bytes) (cap : Cap) (hb : bytes = encParam [cap]) (hok : CapOk cap)
    (hl : ([cap].flatMap encCap).length < 256) :
    (if f then bytes else []) = (if f then [[cap]] else []).flatMap encParam ∧
    ParamsOk (if f then [[cap]] else []) := by
  cases f
  · exact ⟨rfl, ParamsOk_nil⟩
  · simp only [↓reduceIte, List.flatMap_cons, List.flatMap_nil, List.append_nil]
    refine ⟨hb, ?_⟩
    intro p hp; simp at hp; subst hp
    exact ⟨by intro x hx; simp at hx; subst hx; exact hok, hl⟩

theorem constructCaps_eq_ref (asn : Nat) (c : LocalCaps) (b : Bytes)
    (hc : constructCaps asn c = some b) :
    b = (capsOfLocal asn c).flatMap encParam ∧ ParamsOk (capsOfLocal asn c) := by
  unfold constructCaps at hc
  split at hc
  · rename_i mp as4 enh ap h1 h2 h3 h4
    simp only [Option.some.injEq] at hc
    subst hc
    obtain ⟨e1, o1⟩ := capMp_ref c mp h1
    obtain ⟨e2, o2⟩ := capAs4_ref asn c as4 h2
    obtain ⟨e3, o3⟩ := capEnh_ref c enh h3
    obtain ⟨e4, o4⟩ := capAp_ref c ap h4
    obtain ⟨e5, o5⟩ := flag_ref c.ciscoRouteRefresh [2, 2, 128, 0] Cap.ciscoRouteRefresh
      (by simp [encParam, encCap, Cap.code, Cap.value, be8, u8]) trivial (by simp [encCap, Cap.value])
    obtain ⟨e6, o6⟩ := flag_ref c.routeRefresh [2, 2, 2, 0] Cap.routeRefresh
      (by simp [encParam, encCap, Cap.code, Cap.value, be8, u8]) trivial (by simp [encCap, Cap.value])
    obtain ⟨e7, o7⟩ := flag_ref c.enhancedRouteRefresh [2, 2, 70, 0] Cap.enhancedRouteRefresh
      (by simp [encParam, encCap, Cap.code, Cap.value, be8, u8]) trivial (by simp [encCap, Cap.value])
    unfold capsOfLocal capCrr capRr capErr
    refine ⟨?_, ParamsOk_append (ParamsOk_append (ParamsOk_append (ParamsOk_append (ParamsOk_append
      (ParamsOk_append o1 o5) o6) o2) o3) o4) o7⟩
    simp only [List.flatMap_append]
    rw [← e1, ← e2, ← e3, ← e4, ← e5, ← e6, ← e7]
  · simp at hc

/-- Open.construct then Open.parse: version 4, the true AS (AS_TRANS rule included), hold time,
    identifier and exactly the capability set that was encoded, with or without optional parameters -/
theorem C14_open_roundtrip (asn hold bgpId : Nat) (c : LocalCaps) (wire : Bytes) (h1 : 1 ≤ asn)
    (hc : constructOpen 4 asn hold bgpId c = some wire) :
    ∃ body, wire = marker ++ be16 (body.length + 19) ++ be8 1 ++ body ∧
      parseOpen body = .ok (expectOpen asn hold bgpId (capsOfLocal asn c)) := by
  unfold constructOpen at hc
  cases hcaps : constructCaps asn c with
  | none => simp [hcaps] at hc
  | some capas =>
    simp only [hcaps, Option.bind_eq_bind, Option.bind_some, C.asTrans, C.msgOpen] at hc
    by_cases hr : (4 < 256 ∧ hold < 65536 ∧ bgpId < 4294967296 ∧ capas.length < 256)
    · rw [if_pos hr] at hc
      obtain ⟨hv, hh, hid, hlen⟩ := hr
      rw [constructHeader] at hc
      by_cases hb : (be8 4 ++ be16 (if asn > 65535 then 23456 else asn) ++ be16 hold ++ be32 bgpId ++
          be8 capas.length ++ capas).length + 19 < 65536
      · rw [if_pos hb] at hc
        simp only [Option.some.injEq] at hc
        refine ⟨_, hc.symm, ?_⟩
        obtain ⟨heq, hok⟩ := constructCaps_eq_ref asn c capas hcaps
        have hasn : asn < 4294967296 := by
          by_cases hge : asn < 4294967296
          · exact hge
          · exfalso
            unfold constructCaps capAs4 at hcaps
            simp [show asn > 65535 by omega, hge] at hcaps
        have := C14_open_decodes_reference asn hold bgpId (capsOfLocal asn c)
          ⟨h1, hasn, hh, hid, hok, by rw [← heq]; exact hlen⟩
        rw [← this]
        simp only [refOpenBody, ← heq]
      · rw [if_neg hb] at hc; simp at hc
    · rw [if_neg hr] at hc; simp at hc

def isAs4 : Cap → Bool
  | .as4 _ => true
  | _ => false

theorem foldl_fst_noAs4 (caps : List Cap) : ∀ st, (∀ c ∈ caps, isAs4 c = false) →
    (caps.foldl applyRef st).1 = st.1 := by
  induction caps with
  | nil => intro st _; rfl
  | cons c r ih =>
    intro st h
    simp only [List.foldl_cons]
    rw [ih _ (fun y hy => h y (by simp [hy]))]
    have := h c (by simp)
    cases c <;> simp_all [applyRef, isAs4]

/-- the AS a constructed OPEN decodes to is the configured one, for every AS 1 .. 2^32-1 -/
theorem C14_open_true_as (asn hold bgpId : Nat) (c : LocalCaps) :
    (expectOpen asn hold bgpId (capsOfLocal asn c)).asn = asn ∧
    (expectOpen asn hold bgpId (capsOfLocal asn c)).holdTime = hold ∧
    (expectOpen asn hold bgpId (capsOfLocal asn c)).bgpId = bgpId := by
  refine ⟨?_, rfl, rfl⟩
  simp only [expectOpen, capsOfLocal, List.flatten_append, List.foldl_append]
  have hG : ∀ st, ((List.flatten (if c.enhancedRouteRefresh = true then [[Cap.enhancedRouteRefresh]] else [])).foldl
      applyRef st).1 = st.1 := by
    intro st; apply foldl_fst_noAs4; intro x hx; split at hx <;> simp at hx; subst hx; rfl
  have hF : ∀ st, ((List.flatten (match c.addPath with | some v => [[Cap.addPath [(1, 1, v)]]] | none => [])).foldl
      applyRef st).1 = st.1 := by
    intro st; apply foldl_fst_noAs4; intro x hx; split at hx <;> simp at hx; subst hx; rfl
  have hE : ∀ st, ((List.flatten (match c.extNexthop with | some l => [[Cap.extNextHop l]] | none => [])).foldl
      applyRef st).1 = st.1 := by
    intro st; apply foldl_fst_noAs4; intro x hx; split at hx <;> simp at hx; subst hx; rfl
  have hC : ∀ st, ((List.flatten (if c.routeRefresh = true then [[Cap.routeRefresh]] else [])).foldl
      applyRef st).1 = st.1 := by
    intro st; apply foldl_fst_noAs4; intro x hx; split at hx <;> simp at hx; subst hx; rfl
  have hB : ∀ st, ((List.flatten (if c.ciscoRouteRefresh = true then [[Cap.ciscoRouteRefresh]] else [])).foldl
      applyRef st).1 = st.1 := by
    intro st; apply foldl_fst_noAs4; intro x hx; split at hx <;> simp at hx; subst hx; rfl
  have hA : ∀ st, ((List.flatten (match c.afiSafi with
      | some l => l.map (fun (p : Nat × Nat) => [Cap.mp p.1 p.2]) | none => [])).foldl applyRef st).1 = st.1 := by
    intro st; apply foldl_fst_noAs4; intro x hx
    split at hx
    · simp only [List.mem_flatten, List.mem_map] at hx
      obtain ⟨l', ⟨q, _, rfl⟩, hx⟩ := hx
      simp at hx; subst hx; rfl
    · simp at hx
  rw [hG, hF, hE]
  by_cases hcond : asn > 65535 ∨ c.fourBytesAs = true
  · rw [if_pos hcond]; simp [applyRef]
  · rw [if_neg hcond]
    simp only [List.flatten_nil, List.foldl_nil]
    rw [hC, hB, hA]
    have : ¬ asn > 65535 := fun h => hcond (Or.inl h)
    simp [this]

end Yabgp

#print axioms Yabgp.C14_open_roundtrip
#print axioms Yabgp.C14_open_true_as
