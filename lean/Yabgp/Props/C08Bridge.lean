/-
  C08 — bridge between the guarded constructors (Model/Construct/Guards.lean: the code as repaired by fix_2, fix_6,
  fix_7) and the round-trip theorems of C06 / C07, which are stated for the unguarded models: on the value spaces
  those theorems range over, the guards hold, so the guarded constructor IS the constructor the theorem talks
  about.  (Once the guards are folded into Model/Update.lean / Model/Mp/*.lean these become `rfl`-like.)
-/
import Yabgp.Props.C06
import Yabgp.Props.C07a
import Yabgp.Model.Construct.Guards

namespace Yabgp

theorem pathIdGuard_of_ok (addpath : Bool) (ps : List Pfx) (h : ∀ p ∈ ps, PfxOk addpath p) :
    pathIdGuard addpath ps = true := by
  cases addpath with
  | false => simp [pathIdGuard]
  | true =>
    simp only [pathIdGuard, Bool.not_true, Bool.false_or, List.all_eq_true]
    intro p hp
    obtain ⟨_, _, _, hpid⟩ := h p hp
    simp only [↓reduceIte] at hpid
    obtain ⟨pid, hpid, _⟩ := hpid
    simp [hpid]

/-- on the messages C06 quantifies over, the repaired `Update.construct` is the modelled one -/
theorem C08_bridge_update (asn4 addpath : Bool) (m : UpdMsg) (hv : ValidMsg asn4 addpath m) :
    constructUpdateR asn4 addpath m = constructUpdate asn4 addpath m := by
  unfold constructUpdateR
  rw [pathIdGuard_of_ok addpath m.nlri hv.nlri, pathIdGuard_of_ok addpath m.withdraw hv.withdraw]
  rfl

namespace Mp

theorem v4LenOk_of_pfxOk (p : MPfx) (h : PfxOk .inet p) : v4LenOk p = true := by
  obtain ⟨addr, len⟩ := p
  cases addr with
  | v4 a => simp only [PfxOk] at h; simp [v4LenOk, h.1, h.2.1]
  | v6 a => simp [PfxOk] at h

/-- on the values C07 quantifies over, the repaired `MpReachNLRI.construct` is the modelled one -/
theorem C08_bridge_reach (v : MpReachVal) (h : ReachOk v) : constructMpReachR v = constructMpReach v := by
  unfold constructMpReachR
  have hg : reachGuard v = true := by
    cases v with
    | ipv6Unicast nh ll rs =>
      obtain ⟨h1, h2, _, _⟩ := h
      have e1 : nh.isV6 = true := by cases nh <;> simp [IsV6, Ip.isV6] at h1 ⊢
      cases ll with
      | none => simp [reachGuard, e1]
      | some l =>
        have e2 : l.isV6 = true := by cases l <;> simp [IsV6, Ip.isV6] at h2 ⊢
        simp [reachGuard, e1, e2]
    | labeled af nh rs =>
      cases af with
      | inet6 => simp [reachGuard]
      | inet =>
        obtain ⟨_, _, h3⟩ := h
        simp only [reachGuard, List.all_eq_true]
        intro r hr
        exact v4LenOk_of_pfxOk r.pfx (h3 r hr).2.2.2.2.1
    | vpn af rd nh rs =>
      cases af with
      | inet6 => simp [reachGuard]
      | inet =>
        obtain ⟨_, _, h3⟩ := h
        simp only [reachGuard, List.all_eq_true]
        intro r hr
        exact v4LenOk_of_pfxOk r.pfx (h3 r hr).2.2.2.1
    | other a s => simp [reachGuard]
  simp [hg]

theorem C08_bridge_unreach (v : MpUnreachVal) (h : UnreachOk v) : constructMpUnreachR v = constructMpUnreach v := by
  unfold constructMpUnreachR
  have hg : unreachGuard v = true := by
    cases v with
    | vpn af rs =>
      cases af with
      | inet6 => simp [unreachGuard]
      | inet =>
        obtain ⟨_, h3⟩ := h
        simp only [unreachGuard, List.all_eq_true]
        intro r hr
        exact v4LenOk_of_pfxOk r.pfx (h3 r hr).2.2.2.1
    | ipv6Unicast rs => simp [unreachGuard]
    | labeled af rs => simp [UnreachOk] at h
    | labeledRaw af raw => simp [UnreachOk] at h
    | other a s => simp [UnreachOk] at h
  simp [hg]

end Mp
end Yabgp

#print axioms Yabgp.C08_bridge_update
#print axioms Yabgp.Mp.C08_bridge_reach
#print axioms Yabgp.Mp.C08_bridge_unreach
