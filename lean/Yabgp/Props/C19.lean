/-
  C19 — Adj-RIB-In and the version counters track exactly the updates applied.
  Property theorems only (helper lemmas live in Yabgp/Lemmas/RibLemmas.lean).

  Model: Yabgp/Model/Rib.lean (update_rib_in_ipv4, update_rib_out_ipv4, update_receive_verion,
  update_send_version, init_rib and their callers in _update_received / api/v1.py, as repaired by the C19
  `fix:` commit).  Specification: Yabgp/Spec/RibSpec.lean (finite maps, elementary route operations, number of
  table changes).  `abs t` is the finite map a dictionary denotes; `sideOf (t, v)` pairs it with a counter.
-/
import Yabgp.Lemmas.RibLemmas

namespace Yabgp.Rib
open RibSpec (Op Side SEv runOps changes)

/-! ### the IPv4 tables refine the specification -/

/-- after update_rib_in_ipv4 the Adj-RIB-In denotes exactly the specified table: announced prefixes carry the
    UPDATE's attributes, withdrawn (and not re-announced) prefixes are absent, the rest is untouched -/
theorem C19_refines (s : State) (m : Msg) :
    abs (updateRibInIpv4 s m).ribIn = RibSpec.apply (abs s.ribIn) m.withdraw m.nlri m.attr := by
  have h := congrArg Side.tbl (inIpv4_updateRibInIpv4 s m)
  simpa [inIpv4, sideOf, Side.step, Msg.ipv4Ops, runOps_ipv4Ops] using h

/-- the same for the Adj-RIB-Out kept by the REST layer -/
theorem C19_refines_out (s : State) (m : Msg) :
    abs (updateRibOutIpv4 s m).ribOut = RibSpec.apply (abs s.ribOut) m.withdraw m.nlri m.attr := by
  have h := congrArg Side.tbl (outIpv4_updateRibOutIpv4 s m)
  simpa [outIpv4, sideOf, Side.step, Msg.ipv4Ops, runOps_ipv4Ops] using h

/-- after ANY sequence of UPDATEs the Adj-RIB-In is the in-order application of their withdrawals and
    announcements (the last announcement's attributes win, withdrawn prefixes are absent) -/
theorem C19_history (s : State) (msgs : List Msg) :
    abs (msgs.foldl updateRibInIpv4 s).ribIn =
      RibSpec.applyAll (abs s.ribIn) (msgs.map fun m => (m.withdraw, m.nlri, m.attr)) := by
  induction msgs generalizing s with
  | nil => rfl
  | cons m msgs ih => rw [List.foldl_cons, ih, C19_refines]; rfl

/-! ### counters: version' = version + number of table changes -/

/-- update_rib_in_ipv4: receive_version['ipv4'] grows by the number of operations of the UPDATE that changed the
    Adj-RIB-In (new route, changed attributes, removal of a present route); no other counter or table moves -/
theorem C19_version_ipv4_in (s : State) (m : Msg) :
    (updateRibInIpv4 s m).recvVer.ipv4 =
        s.recvVer.ipv4 + changes (RibSpec.ipv4Ops m.withdraw m.nlri m.attr) (abs s.ribIn) ∧
    (updateRibInIpv4 s m).recvVer.flowspec = s.recvVer.flowspec ∧
    (updateRibInIpv4 s m).recvVer.srPolicy = s.recvVer.srPolicy ∧
    (updateRibInIpv4 s m).recvVer.mplsVpn = s.recvVer.mplsVpn ∧
    (updateRibInIpv4 s m).sendVer = s.sendVer ∧ (updateRibInIpv4 s m).ribOut = s.ribOut := by
  have h := congrArg Side.ver (inIpv4_updateRibInIpv4 s m)
  have f := updateRibInIpv4_frame s m
  refine ⟨by simpa [inIpv4, sideOf, Side.step, Msg.ipv4Ops] using h, f.2.2.1, f.2.2.2.1, f.2.2.2.2.1, f.2.1, f.1⟩

/-- update_rib_out_ipv4: the same for send_version['ipv4'] and the Adj-RIB-Out -/
theorem C19_version_ipv4_out (s : State) (m : Msg) :
    (updateRibOutIpv4 s m).sendVer.ipv4 =
        s.sendVer.ipv4 + changes (RibSpec.ipv4Ops m.withdraw m.nlri m.attr) (abs s.ribOut) ∧
    (updateRibOutIpv4 s m).sendVer.flowspec = s.sendVer.flowspec ∧
    (updateRibOutIpv4 s m).sendVer.srPolicy = s.sendVer.srPolicy ∧
    (updateRibOutIpv4 s m).sendVer.mplsVpn = s.sendVer.mplsVpn ∧
    (updateRibOutIpv4 s m).recvVer = s.recvVer ∧ (updateRibOutIpv4 s m).ribIn = s.ribIn := by
  have h := congrArg Side.ver (outIpv4_updateRibOutIpv4 s m)
  have f := updateRibOutIpv4_frame s m
  refine ⟨by simpa [outIpv4, sideOf, Side.step, Msg.ipv4Ops] using h, f.2.2.2.1, f.2.2.2.2.1, f.2.2.2.2.2.1, f.2.2.1, f.1⟩

/-- update_receive_verion: the flowspec and VPNv4 dictionaries are the in-order application of the MP_REACH rules
    and then the MP_UNREACH keys of their family, each counter grows by the number of changes of its dictionary;
    the IPv4 and sr-policy counters, the IPv4 tables and the whole sent side do not move -/
theorem C19_version_received (s : State) (m : Msg) :
    abs (updateReceiveVersion s m).fsRecv = runOps m.fsOps (abs s.fsRecv) ∧
    (updateReceiveVersion s m).recvVer.flowspec = s.recvVer.flowspec + changes m.fsOps (abs s.fsRecv) ∧
    abs (updateReceiveVersion s m).vpnRecv = runOps m.vpnOps (abs s.vpnRecv) ∧
    (updateReceiveVersion s m).recvVer.mplsVpn = s.recvVer.mplsVpn + changes m.vpnOps (abs s.vpnRecv) ∧
    (updateReceiveVersion s m).recvVer.ipv4 = s.recvVer.ipv4 ∧
    (updateReceiveVersion s m).recvVer.srPolicy = s.recvVer.srPolicy ∧
    (updateReceiveVersion s m).sendVer = s.sendVer ∧
    (updateReceiveVersion s m).ribIn = s.ribIn ∧ (updateReceiveVersion s m).ribOut = s.ribOut := by
  have h1 := fsRecv_updateReceiveVersion s m
  have h2 := vpnRecv_updateReceiveVersion s m
  have f := updateReceiveVersion_frame s m
  simp only [RecvVersionFrame] at f
  refine ⟨?_, ?_, ?_, ?_, f.2.2.2.2.1, f.2.2.2.2.2.1, f.2.2.2.1, f.1, f.2.1⟩
  · simpa [fsRecvSide, sideOf, Side.step] using congrArg Side.tbl h1
  · simpa [fsRecvSide, sideOf, Side.step] using congrArg Side.ver h1
  · simpa [vpnRecvSide, sideOf, Side.step] using congrArg Side.tbl h2
  · simpa [vpnRecvSide, sideOf, Side.step] using congrArg Side.ver h2

/-- update_send_version: the same for the three sent-side dictionaries (flowspec, sr-policy, VPNv4) -/
theorem C19_version_sent (s : State) (m : Msg) :
    abs (updateSendVersion s m).fsSend = runOps m.fsOps (abs s.fsSend) ∧
    (updateSendVersion s m).sendVer.flowspec = s.sendVer.flowspec + changes m.fsOps (abs s.fsSend) ∧
    abs (updateSendVersion s m).vpnSend = runOps m.vpnOps (abs s.vpnSend) ∧
    (updateSendVersion s m).sendVer.mplsVpn = s.sendVer.mplsVpn + changes m.vpnOps (abs s.vpnSend) ∧
    abs (updateSendVersion s m).srSend = runOps m.srOps (abs s.srSend) ∧
    (updateSendVersion s m).sendVer.srPolicy = s.sendVer.srPolicy + changes m.srOps (abs s.srSend) ∧
    (updateSendVersion s m).sendVer.ipv4 = s.sendVer.ipv4 ∧
    (updateSendVersion s m).recvVer = s.recvVer ∧
    (updateSendVersion s m).ribIn = s.ribIn ∧ (updateSendVersion s m).ribOut = s.ribOut := by
  have h1 := fsSend_updateSendVersion s m
  have h2 := vpnSend_updateSendVersion s m
  have h3 := srSend_updateSendVersion s m
  have f := updateSendVersion_frame s m
  simp only [SendVersionFrame] at f
  refine ⟨?_, ?_, ?_, ?_, ?_, ?_, f.2.2.2.2.1, f.2.2.2.1, f.1, f.2.1⟩
  · simpa [fsSendSide, sideOf, Side.step] using congrArg Side.tbl h1
  · simpa [fsSendSide, sideOf, Side.step] using congrArg Side.ver h1
  · simpa [vpnSendSide, sideOf, Side.step] using congrArg Side.tbl h2
  · simpa [vpnSendSide, sideOf, Side.step] using congrArg Side.ver h2
  · simpa [srSendSide, sideOf, Side.step] using congrArg Side.tbl h3
  · simpa [srSendSide, sideOf, Side.step] using congrArg Side.ver h3

/-! ### whole histories of a peering: every table and every counter, every event -/

/-- the eight (dictionary, counter) pairs of a protocol object -/
inductive SideId where
  | inIpv4 | outIpv4 | fsRecv | vpnRecv | srRecv | fsSend | vpnSend | srSend
deriving DecidableEq, Repr

def sideAt : SideId → State → Side
  | .inIpv4 => inIpv4
  | .outIpv4 => outIpv4
  | .fsRecv => fsRecvSide
  | .vpnRecv => vpnRecvSide
  | .srRecv => srRecvSide
  | .fsSend => fsSendSide
  | .vpnSend => vpnSendSide
  | .srSend => srSendSide

/-- THE STATEMENT OF C19 as a table: what each event of a peering is for each (table, counter) pair.
    `ops l`: the table becomes the in-order application of `l`, the counter grows by the number of operations of
    `l` that changed the table (`ops []`: neither moves).  `clear`: table empty, counter kept.  `fresh`: a new
    protocol object, table empty and counter 0.
    With RIB maintenance off (`rib = false`) the IPv4 tables and counters are not maintained at all. -/
def view (rib : Bool) : SideId → Ev → SEv
  | .inIpv4, .recv m => .ops (if rib then m.ipv4Ops else [])
  | .outIpv4, .send m => .ops (if rib then m.ipv4Ops else [])
  | .fsRecv, .recv m => .ops m.fsOps
  | .vpnRecv, .recv m => .ops m.vpnOps
  | .fsSend, .send m => .ops m.fsOps
  | .vpnSend, .send m => .ops m.vpnOps
  | .srSend, .send m => .ops m.srOps
  | .inIpv4, .lost => .clear          -- init_rib
  | .outIpv4, .lost => .clear
  | _, .connect => .fresh             -- a new BGP object per connection
  | _, _ => .ops []                   -- everything else leaves the pair alone: an UPDATE never moves a pair of the
                                      -- other direction or of another family, a malformed UPDATE moves nothing, a
                                      -- received sr-policy UPDATE is only logged, connectionLost keeps the
                                      -- flowspec / sr / VPN dictionaries and all counters

theorem sides_of_recvFrame {s s' : State} (h : RecvVersionFrame s s') :
    inIpv4 s' = inIpv4 s ∧ outIpv4 s' = outIpv4 s ∧ srRecvSide s' = srRecvSide s ∧
    fsSendSide s' = fsSendSide s ∧ vpnSendSide s' = vpnSendSide s ∧ srSendSide s' = srSendSide s := by
  obtain ⟨a1, a2, a3, a4, a5, a6, a7, a8, a9, a10⟩ := h
  simp [inIpv4, outIpv4, srRecvSide, fsSendSide, vpnSendSide, srSendSide, *]

theorem sides_of_sendFrame {s s' : State} (h : SendVersionFrame s s') :
    inIpv4 s' = inIpv4 s ∧ outIpv4 s' = outIpv4 s ∧ srRecvSide s' = srRecvSide s ∧
    fsRecvSide s' = fsRecvSide s ∧ vpnRecvSide s' = vpnRecvSide s := by
  obtain ⟨a1, a2, a3, a4, a5, a6, a7, a8⟩ := h
  simp [inIpv4, outIpv4, srRecvSide, fsRecvSide, vpnRecvSide, *]

theorem sides_of_ribIn (s : State) (m : Msg) :
    outIpv4 (updateRibInIpv4 s m) = outIpv4 s ∧ fsRecvSide (updateRibInIpv4 s m) = fsRecvSide s ∧
    vpnRecvSide (updateRibInIpv4 s m) = vpnRecvSide s ∧ srRecvSide (updateRibInIpv4 s m) = srRecvSide s ∧
    fsSendSide (updateRibInIpv4 s m) = fsSendSide s ∧ vpnSendSide (updateRibInIpv4 s m) = vpnSendSide s ∧
    srSendSide (updateRibInIpv4 s m) = srSendSide s := by
  simp [outIpv4, fsRecvSide, vpnRecvSide, srRecvSide, fsSendSide, vpnSendSide, srSendSide, updateRibInIpv4]

theorem sides_of_ribOut (s : State) (m : Msg) :
    inIpv4 (updateRibOutIpv4 s m) = inIpv4 s ∧ fsRecvSide (updateRibOutIpv4 s m) = fsRecvSide s ∧
    vpnRecvSide (updateRibOutIpv4 s m) = vpnRecvSide s ∧ srRecvSide (updateRibOutIpv4 s m) = srRecvSide s ∧
    fsSendSide (updateRibOutIpv4 s m) = fsSendSide s ∧ vpnSendSide (updateRibOutIpv4 s m) = vpnSendSide s ∧
    srSendSide (updateRibOutIpv4 s m) = srSendSide s := by
  simp [inIpv4, fsRecvSide, vpnRecvSide, srRecvSide, fsSendSide, vpnSendSide, srSendSide, updateRibOutIpv4]

/-- one event: every (table, counter) pair moves exactly as `view` prescribes — the table is the in-order
    application of the UPDATE's operations for that family and direction, and
    version' = version + (number of table changes); nothing else ever moves a counter -/
theorem C19_version (rib : Bool) (i : SideId) (s : State) (e : Ev) :
    sideAt i (step rib s e) = (sideAt i s).step (view rib i e) := by
  cases e with
  | recv m =>
    have fr := sides_of_recvFrame (updateReceiveVersion_frame s m)
    have hfs := fsRecv_updateReceiveVersion s m
    have hvp := vpnRecv_updateReceiveVersion s m
    have hin := inIpv4_updateRibInIpv4 (updateReceiveVersion s m) m
    have hri := sides_of_ribIn (updateReceiveVersion s m) m
    by_cases hc : (rib && (!m.nlri.isEmpty || !m.withdraw.isEmpty)) = true
    · have hrib : rib = true := by cases rib <;> simp_all
      have hstep : step rib s (.recv m) = updateRibInIpv4 (updateReceiveVersion s m) m := by
        simp only [step, updateReceived, hc, ↓reduceIte]
      subst hrib
      cases i <;> simp only [hstep, sideAt, view, ↓reduceIte] <;> simp [*, step_ops_nil]
    · have hstep : step rib s (.recv m) = updateReceiveVersion s m := by simp [step, updateReceived, hc]
      have hops : (if rib then m.ipv4Ops else []) = [] := by
        cases rib with
        | false => rfl
        | true =>
          have hn : m.nlri = [] := by
            cases hh : m.nlri with
            | nil => rfl
            | cons a l => simp [hh] at hc
          have hw : m.withdraw = [] := by
            cases hh : m.withdraw with
            | nil => rfl
            | cons a l => simp [hh] at hc
          simp [Msg.ipv4Ops, RibSpec.ipv4Ops, hn, hw]
      cases i <;> simp only [hstep, sideAt, view, hops] <;> simp [*, step_ops_nil]
  | recvMalformed => cases i <;> simp [step, view, step_ops_nil]
  | send m =>
    cases rib with
    | true =>
      have fr := sides_of_sendFrame (updateSendVersion_frame (updateRibOutIpv4 s m) m)
      have hfs := fsSend_updateSendVersion (updateRibOutIpv4 s m) m
      have hvp := vpnSend_updateSendVersion (updateRibOutIpv4 s m) m
      have hsr := srSend_updateSendVersion (updateRibOutIpv4 s m) m
      have hout := outIpv4_updateRibOutIpv4 s m
      have hro := sides_of_ribOut s m
      cases i <;> simp only [step, apiSend, ↓reduceIte, sideAt, view] <;> simp [*, step_ops_nil]
    | false =>
      have fr := sides_of_sendFrame (updateSendVersion_frame s m)
      have hfs := fsSend_updateSendVersion s m
      have hvp := vpnSend_updateSendVersion s m
      have hsr := srSend_updateSendVersion s m
      cases i <;> simp only [step, apiSend, Bool.false_eq_true, ↓reduceIte, sideAt, view] <;>
        simp [*, step_ops_nil]
  | lost =>
    cases i <;>
      simp [step, view, sideAt, initRib, inIpv4, outIpv4, fsRecvSide, vpnRecvSide, srRecvSide, fsSendSide,
        vpnSendSide, srSendSide, sideOf, Side.step, abs_nil, runOps, changes]
  | connect =>
    cases i <;>
      simp [step, view, sideAt, initRib, State.init, inIpv4, outIpv4, fsRecvSide, vpnRecvSide, srRecvSide,
        fsSendSide, vpnSendSide, srSendSide, sideOf, Side.step, abs_nil]

/-- any history (UPDATEs received and sent, malformed UPDATEs, session drops, reconnections, in any order):
    every table is the in-order application of the operations addressed to it since the last flush, and every
    counter is the number of table changes since the protocol object was created -/
theorem C19_history_all (rib : Bool) (i : SideId) (s : State) (evs : List Ev) :
    sideAt i (run rib s evs) = (sideAt i s).history (evs.map (view rib i)) := by
  unfold run Side.history
  induction evs generalizing s with
  | nil => rfl
  | cons e evs ih => rw [List.foldl_cons, ih, C19_version, List.map_cons, List.foldl_cons]

/-! ### flush -/

/-- init_rib (connectionMade, connectionLost) empties both IPv4 tables and touches no counter -/
theorem C19_flush (s : State) :
    (initRib s).ribIn = [] ∧ (initRib s).ribOut = [] ∧ abs (initRib s).ribIn = RibSpec.empty ∧
    abs (initRib s).ribOut = RibSpec.empty ∧ (initRib s).recvVer = s.recvVer ∧ (initRib s).sendVer = s.sendVer :=
  ⟨rfl, rfl, rfl, rfl, rfl, rfl⟩

/-- whatever happened before: right after the session drops, and right after the next session comes up, the
    Adj-RIB-In and the Adj-RIB-Out are empty -/
theorem C19_flush_history (rib : Bool) (s : State) (evs : List Ev) (e : Ev) (he : e = .lost ∨ e = .connect) :
    (run rib s (evs ++ [e])).ribIn = [] ∧ (run rib s (evs ++ [e])).ribOut = [] := by
  unfold run
  rw [List.foldl_append]
  rcases he with rfl | rfl <;> exact ⟨rfl, rfl⟩

/-! ### "exactly when ... and never otherwise" -/

/-- the counter stands still EXACTLY when the table is unchanged, for every UPDATE that does not name a route twice
    in contradictory ways; and for every UPDATE whatsoever an unchanged counter means an unchanged table -/
theorem C19_version_exact (sd : Side) (ops : List Op) :
    ((sd.step (.ops ops)).ver = sd.ver → (sd.step (.ops ops)).tbl = sd.tbl) ∧
    (Coherent ops → ((sd.step (.ops ops)).ver = sd.ver ↔ (sd.step (.ops ops)).tbl = sd.tbl)) := by
  constructor
  · intro h
    simp only [Side.step] at *
    exact changes_zero_runOps ops sd.tbl (by omega)
  · intro hc
    simp only [Side.step]
    rw [← changes_zero_iff ops sd.tbl hc]
    omega

/-- instance for the Adj-RIB-In: when the withdrawn and the announced prefixes of an UPDATE are disjoint,
    receive_version['ipv4'] moves iff the Adj-RIB-In changes -/
theorem C19_version_exact_ipv4 (s : State) (m : Msg) (hd : ∀ p ∈ m.withdraw, p ∉ m.nlri) :
    (updateRibInIpv4 s m).recvVer.ipv4 = s.recvVer.ipv4 ↔ abs (updateRibInIpv4 s m).ribIn = abs s.ribIn := by
  have h := inIpv4_updateRibInIpv4 s m
  have e := (C19_version_exact (inIpv4 s) m.ipv4Ops).2 (coherent_ipv4Ops _ _ _ hd)
  rw [← h] at e
  simpa [inIpv4, sideOf] using e

/-! ### the radix tree used for longest-match lookups covers the Adj-RIB-In -/

theorem C19_tree_covers (rib : Bool) (evs : List Ev) :
    TreeCovers (run rib State.init evs).ribIn (run rib State.init evs).tree := by
  suffices h : ∀ s : State, TreeCovers s.ribIn s.tree → TreeCovers (run rib s evs).ribIn (run rib s evs).tree by
    exact h _ (by intro k hk; simp [State.init, Table.has_eq] at hk)
  unfold run
  induction evs with
  | nil => intro s hs; exact hs
  | cons e evs ih =>
    intro s hs
    rw [List.foldl_cons]
    apply ih
    cases e with
    | recv m =>
      have f := updateReceiveVersion_frame s m
      simp only [RecvVersionFrame] at f
      have hs' : TreeCovers (updateReceiveVersion s m).ribIn (updateReceiveVersion s m).tree := by
        rw [f.1, f.2.2.1]; exact hs
      simp only [step, updateReceived]
      split
      · exact treeCovers_ribInLoops _ m hs'
      · exact hs'
    | recvMalformed => exact hs
    | send m =>
      simp only [step, apiSend]
      have f := updateSendVersion_frame (if rib = true then updateRibOutIpv4 s m else s) m
      simp only [SendVersionFrame] at f
      rw [f.1, f.2.2.1]
      split
      · have g := updateRibOutIpv4_frame s m
        simp only at g
        rw [g.1, g.2.1]; exact hs
      · exact hs
    | lost => intro k hk; simp [step, initRib, Table.has_eq] at hk
    | connect => intro k hk; simp [step, initRib, State.init, Table.has_eq] at hk

/-! ### non-vacuity: concrete histories (prefix ids 1 2 3, attribute ids 7 8, rule ids 40 41) -/

/-- announce 1,2 with attributes 7; re-announce 2 with 8 and withdraw 1 and an absent 3; same again (no change) -/
example :
    let m1 : Msg := { attr := 7, nlri := [1, 2] }
    let m2 : Msg := { attr := 8, nlri := [2], withdraw := [1, 3] }
    let s := run true State.init [.connect, .recv m1, .recv m2, .recv m2]
    s.ribIn = [(2, 8)] ∧ s.recvVer.ipv4 = 4 ∧ s.tree = [2] := by decide

/-- a flowspec rule announced twice with the same attributes counts once, its withdrawal counts once more, the
    withdrawal of an unknown rule does not count; a session drop keeps the counter and a reconnection starts at 0 -/
example :
    let a : Msg := { attr := 7, reach := some (.flowspec [(40, 9), (41, 9)]) }
    let w : Msg := { attr := 5, unreach := some (.flowspec [40, 42]) }
    let s := run true State.init [.connect, .recv a, .recv a, .recv w]
    s.fsRecv = [(41, 9)] ∧ s.recvVer.flowspec = 3 ∧ s.recvVer.ipv4 = 0 ∧
    (run true s [.lost]).recvVer.flowspec = 3 ∧ (run true s [.lost, .connect]).recvVer.flowspec = 0 := by decide

/-- the sent side: IPv4 through update_rib_out_ipv4, sr-policy and VPNv4 through update_send_version -/
example :
    let m : Msg := { attr := 7, nlri := [1], reach := some (.srPolicy 50) }
    let v : Msg := { attr := 8, reach := some (.mplsVpn [(60, 1)]), unreach := some (.mplsVpn [60]) }
    let s := run true State.init [.connect, .send m, .send m, .send v]
    s.ribOut = [(1, 7)] ∧ s.sendVer = { ipv4 := 1, flowspec := 0, srPolicy := 1, mplsVpn := 2 } ∧
    s.srSend = [(50, 7)] ∧ s.vpnSend = [] ∧ s.recvVer = {} := by decide

/-- the hypothesis of `C19_version_exact_ipv4` is satisfiable, and without it the equivalence really fails:
    withdrawing and re-announcing a present route with its old attributes moves the counter by two -/
example : ∀ p ∈ ({ attr := 7, nlri := [2], withdraw := [1] } : Msg).withdraw,
    p ∉ ({ attr := 7, nlri := [2], withdraw := [1] } : Msg).nlri := by decide

example :
    let s : State := { ribIn := [(1, 7)] }
    let m : Msg := { attr := 7, nlri := [1], withdraw := [1] }
    (updateRibInIpv4 s m).ribIn = s.ribIn ∧ (updateRibInIpv4 s m).recvVer.ipv4 = s.recvVer.ipv4 + 2 := by decide

end Yabgp.Rib

#print axioms Yabgp.Rib.C19_refines
#print axioms Yabgp.Rib.C19_refines_out
#print axioms Yabgp.Rib.C19_history
#print axioms Yabgp.Rib.C19_version_ipv4_in
#print axioms Yabgp.Rib.C19_version_ipv4_out
#print axioms Yabgp.Rib.C19_version_received
#print axioms Yabgp.Rib.C19_version_sent
#print axioms Yabgp.Rib.C19_version
#print axioms Yabgp.Rib.C19_history_all
#print axioms Yabgp.Rib.C19_flush
#print axioms Yabgp.Rib.C19_flush_history
#print axioms Yabgp.Rib.C19_version_exact
#print axioms Yabgp.Rib.C19_version_exact_ipv4
#print axioms Yabgp.Rib.C19_tree_covers
