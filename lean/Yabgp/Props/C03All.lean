/- C03: the timer contract over every event list (Props/C03.lean) and its stability under REST requests (Props/C03b.lean). -/
import Yabgp.Props.C03
import Yabgp.Props.C03b
import Yabgp.Props.C03c
import Yabgp.Props.C03d
