/-
  C04 — byte-stream framing is independent of TCP segmentation and always terminates.
  Stated for the connection the state machine tracks (single-connection regime, see C12).
-/
import Yabgp.Lemmas.Norm
import Yabgp.Spec.RfcFrame

namespace Yabgp
open Sess

variable (U : Bool → Bytes → UpdClass)

/-- Termination: the loop `while parse_buffer(): pass` never needs more iterations than
    `len(buffer) / 19 + 1` — giving it any larger iteration budget changes nothing, i.e. with the budget
    `dataReceived` supplies the loop always ends because parse_buffer returned False. -/
theorem C04_terminates (s : Sess) (i : Nat) (buf : Bytes) (f : Nat) (h : buf.length / 19 < f) :
    drain U f s i buf = drain U (buf.length / 19 + 1) s i buf :=
  drain_fuel U i buf.length f _ s buf (Nat.le_refl _) h (by omega)

/-- every iteration that continues has consumed a whole frame of at least 19 octets -/
theorem C04_progress (s : Sess) (i : Nat) (buf rest : Bytes)
    (h : (parseBuffer U s i buf).2 = some rest) : rest.length + 19 ≤ buf.length :=
  parseBuffer_some h

/-- delivery of one TCP segment to connection `i` when its receive buffer holds `buf`: Twisted delivers
    data only while we have not closed the connection -/
def feed (x : Sess × Bytes) (i : Nat) (d : Bytes) : Sess × Bytes :=
  if (x.1.conn i).disconnected then x else dataReceived U x.1 i x.2 d

/-- Segmentation independence, two segments: the messages dispatched, the reactions (every output, in
    order) and the resulting session state are the same whether `a ++ b` arrives in one segment or in two;
    only the bytes left in the buffer of a connection we have closed may differ (they are never read). -/
theorem C04_two_segments (s : Sess) (i : Nat) (buf a b : Bytes) (ht : Tracked s i)
    (hd : (s.conn i).disconnected = false) :
    (feed U (feed U (s, buf) i a) i b).1 = (feed U (s, buf) i (a ++ b)).1 ∧
    (((feed U (s, buf) i (a ++ b)).1.conn i).disconnected = false →
      (feed U (feed U (s, buf) i a) i b).2 = (feed U (s, buf) i (a ++ b)).2) := by
  have hfeed : ∀ d, feed U (s, buf) i d = dataReceived U s i buf d := by
    intro d; simp [feed, hd]
  rw [hfeed a, hfeed (a ++ b)]
  unfold dataReceived
  have happ := drain_append U i b ((buf ++ a).length) s (buf ++ a)
    ((buf ++ a).length / 19 + 1) ((buf ++ (a ++ b)).length / 19 + 1) ((buf ++ (a ++ b)).length / 19 + 1)
    (Nat.le_refl _) ht (by omega) (by simp [List.append_assoc]) (by simp [List.append_assoc])
  rw [List.append_assoc] at happ
  rw [happ]
  generalize hS : drain U ((buf ++ a).length / 19 + 1) s i (buf ++ a) = S
  unfold feed
  by_cases hdisc : (S.1.conn i).disconnected = true
  · rw [if_pos hdisc, drain_disc_noop U S.1 i _ _ hdisc]
    exact ⟨rfl, fun h => by simp [hdisc] at h⟩
  · rw [if_neg hdisc]
    unfold dataReceived
    have hlen : (S.2 ++ b).length ≤ (buf ++ (a ++ b)).length := by
      have : S.2.length ≤ (buf ++ a).length := by
        rw [← hS]; exact drain_snd_le U i _ _ _
      simp at this ⊢; omega
    have := drain_fuel U i (S.2 ++ b).length ((S.2 ++ b).length / 19 + 1) ((buf ++ (a ++ b)).length / 19 + 1)
      S.1 (S.2 ++ b) (Nat.le_refl _) (by omega) (by
        have : (S.2 ++ b).length / 19 ≤ (buf ++ (a ++ b)).length / 19 := Nat.div_le_div_right hlen
        omega)
    rw [this]
    exact ⟨rfl, fun _ => rfl⟩

end Yabgp

namespace Yabgp
open Sess

variable (U : Bool → Bytes → UpdClass)

theorem feed_disc (x : Sess × Bytes) (i : Nat) (d : Bytes) (h : (x.1.conn i).disconnected = true) :
    feed U x i d = x := by
  simp [feed, h]

theorem feedAll_disc (x : Sess × Bytes) (i : Nat) (cs : List Bytes) (h : (x.1.conn i).disconnected = true) :
    cs.foldl (fun y d => feed U y i d) x = x := by
  induction cs with
  | nil => rfl
  | cons c r ih => simp only [List.foldl_cons, feed_disc U x i c h]; exact ih

theorem feed_tracked (s : Sess) (buf : Bytes) (i : Nat) (d : Bytes) (ht : Tracked s i) :
    Tracked (feed U (s, buf) i d).1 i := by
  unfold feed
  split
  · exact ht
  · exact ht.of_frm (drain_frm U i _ s _)

/-- Segmentation independence for an arbitrary cutting of the stream into TCP segments (every 1-cut,
    2-cut, byte-at-a-time, ... is an instance): same dispatched messages, same outputs in the same order,
    same final session state as delivering the concatenation at once. -/
theorem C04_segmentation (i : Nat) (chunks : List Bytes) (hne : chunks ≠ []) :
    ∀ (s : Sess) (buf : Bytes), Tracked s i → (s.conn i).disconnected = false →
      (chunks.foldl (fun y d => feed U y i d) (s, buf)).1 = (feed U (s, buf) i chunks.flatten).1 ∧
      (((feed U (s, buf) i chunks.flatten).1.conn i).disconnected = false →
        (chunks.foldl (fun y d => feed U y i d) (s, buf)).2 = (feed U (s, buf) i chunks.flatten).2) := by
  induction chunks with
  | nil => exact absurd rfl hne
  | cons c r ih =>
    intro s buf ht hd
    cases r with
    | nil => simp
    | cons c2 r2 =>
    simp only [List.foldl_cons, List.flatten_cons] at ih ⊢
    obtain ⟨h1, h2⟩ := C04_two_segments U s i buf c (c2 ++ r2.flatten) ht hd
    by_cases hdisc : ((feed U (s, buf) i c).1.conn i).disconnected = true
    · rw [feed_disc U _ i c2 hdisc, feedAll_disc U _ i r2 hdisc]
      rw [feed_disc U _ i _ hdisc] at h1 h2
      refine ⟨h1, fun hnd => ?_⟩
      rw [← h1] at hnd
      simp [hdisc] at hnd
    · have hdisc' : ((feed U (s, buf) i c).1.conn i).disconnected = false := by simpa using hdisc
      have ht' := feed_tracked U s buf i c ht
      obtain ⟨k1, k2⟩ := ih (by simp) (feed U (s, buf) i c).1 (feed U (s, buf) i c).2 ht' hdisc'
      refine ⟨k1.trans h1, fun hnd => ?_⟩
      have hnd' : ((feed U (feed U (s, buf) i c) i (c2 ++ r2.flatten)).1.conn i).disconnected = false := by
        rw [h1]; exact hnd
      exact (k2 hnd').trans (h2 hnd)

end Yabgp

namespace Yabgp
open Sess Spec

theorem take16_all_iff (b : Bytes) (h : 16 ≤ b.length) : (b.take 16).all (· == 0xff) = true ↔ b.take 16 = marker := by
  constructor
  · intro hall
    apply List.ext_getElem
    · simp [marker]; omega
    · intro i h1 h2
      have hm : marker[i]'h2 = 0xff := by unfold marker; exact List.getElem_replicate ..
      rw [hm]
      have := List.all_eq_true.mp hall ((b.take 16)[i]'h1) (List.getElem_mem h1)
      simpa using this
  · intro he
    rw [he]; decide

/-- **The model deframer is the RFC 4271 deframer**: what `parse_buffer` sees at the head of the receive buffer is,
    for every byte string, exactly what §4.1 / §6.1 of the RFC say - wait, Connection Not Synchronized, Bad Message
    Length (with the erroneous field), or a message of the announced type, body and length. -/
theorem C04_deframer_is_rfc (b : Bytes) :
    headOf b = match firstFrame b with
               | .incomplete => .short
               | .notSynchronized => .badMarker
               | .badLength len => .badLength len
               | .message ty body _ => .frame ty body (frameLen b) := by
  by_cases h19 : b.length < 19
  · simp [headOf, firstFrame, h19, C.hdrLen]
  · have h16 : 16 ≤ b.length := by omega
    by_cases hm : b.take 16 = marker
    · have hall : (b.take 16).all (· == 0xff) = true := (take16_all_iff b h16).mpr hm
      obtain ⟨l1, l2, ty, r, hd⟩ : ∃ l1 l2 ty r, b.drop 16 = l1 :: l2 :: ty :: r := by
        have hl : 3 ≤ (b.drop 16).length := by simp; omega
        match hdd : b.drop 16, hl with
        | l1 :: l2 :: ty :: r, _ => exact ⟨l1, l2, ty, r, rfl⟩
      have gk : ∀ k, b.getD (16 + k) 0 = (b.drop 16).getD k 0 := by
        intro k; simp [List.getD_eq_getElem?_getD]
      have g16 : b.getD 16 0 = l1 := by have := gk 0; rw [hd] at this; simpa using this
      have g17 : b.getD 17 0 = l2 := by have := gk 1; rw [hd] at this; simpa using this
      have g18 : b.getD 18 0 = ty := by have := gk 2; rw [hd] at this; simpa using this
      have hfl : frameLen b = l1.toNat * 256 + l2.toNat := by unfold frameLen; rw [g16, g17]
      have hL : headOf b =
          if frameLen b < 19 ∨ frameLen b > 4096 then .badLength (frameLen b)
          else if b.length < frameLen b then .short
          else .frame ty.toNat ((b.take (frameLen b)).drop 19) (frameLen b) := by
        unfold headOf
        rw [if_neg (by simpa [C.hdrLen] using h19), if_neg (by simp [hm]), g18]
        rfl
      have hR : firstFrame b =
          if frameLen b < 19 ∨ 4096 < frameLen b then .badLength (frameLen b)
          else if b.length < frameLen b then .incomplete
          else .message ty.toNat ((b.take (frameLen b)).drop 19) (b.drop (frameLen b)) := by
        unfold firstFrame
        rw [if_neg h19, if_neg (by simp [hall]), hd, hfl]
      rw [hL, hR]
      by_cases hbad : frameLen b < 19 ∨ frameLen b > 4096
      · rw [if_pos hbad, if_pos hbad]
      · rw [if_neg hbad, if_neg hbad]
        by_cases hs : b.length < frameLen b
        · rw [if_pos hs, if_pos hs]
        · rw [if_neg hs, if_neg hs]
    · have hall : ¬ (b.take 16).all (· == 0xff) = true := fun h => hm ((take16_all_iff b h16).mp h)
      have hL : headOf b = .badMarker := by
        unfold headOf
        rw [if_neg (by simpa [C.hdrLen] using h19), if_pos (by simpa using hm)]
      have hR : firstFrame b = .notSynchronized := by
        unfold firstFrame
        rw [if_neg h19, if_pos hall]
      rw [hL, hR]

end Yabgp

#print axioms Yabgp.C04_terminates
#print axioms Yabgp.C04_progress
#print axioms Yabgp.C04_two_segments
#print axioms Yabgp.C04_segmentation

namespace Yabgp
open Sess

variable (U : Bool → Bytes → UpdClass)

/-- what header_error does on the tracked, still open connection: exactly one NOTIFICATION with the
    Message Header Error code and the given sub-code, then the close, and the state is Idle -/
theorem headerError_reaction (s : Sess) (i : Nat) (sub : Nat) (d : Bytes) (hp : s.proto = some i)
    (hlt : i < s.conns.length) (hc : (s.conn i).phase = .connected) (hs : sub < 256) (hd : d.length + 21 < 65536) :
    (s.headerError sub d).outs = s.outs ++ [.write i (notifWire 1 sub d), .lose i] ∧
    (s.headerError sub d).st = .idle := by
  have hn := constructNotification_eq 1 sub d (by decide) hs hd
  simp only [headerError, sendNotification, hp, C.errHdr, hn]
  have h1 : ((s.bumpSent i incNotifications).conn i).phase = .connected := by
    simp [bumpSent, conn_setConn, hlt, hc]
  have hw : (s.bumpSent i incNotifications).writeOn i (notifWire 1 sub d)
      = (s.bumpSent i incNotifications).emit (.write i (notifWire 1 sub d)) := by
    simp [writeOn, transportUp, h1]
  rw [hw]
  simp only [errorClose, closeConn]
  have hp2 : (((s.bumpSent i incNotifications).emit (.write i (notifWire 1 sub d))).withTm
      { retry := none, hold := none, keepalive := none,
        idleHold := some ((s.bumpSent i incNotifications).emit (.write i (notifWire 1 sub d))).idleDeadline }).proto = some i := hp
  rw [hp2]
  simp only
  have h2 : ((((s.bumpSent i incNotifications).emit (.write i (notifWire 1 sub d))).withTm
      { retry := none, hold := none, keepalive := none,
        idleHold := some ((s.bumpSent i incNotifications).emit (.write i (notifWire 1 sub d))).idleDeadline }).conn i).phase = .connected := h1
  simp only [closeOn, h2, ↓reduceIte]
  constructor
  · simp [setSt, withSt, emit, incRetryCounter, withRetryCounter, setDisconnected, setPhase, setConn, withConns,
      withTm, bumpSent]
  · simp [setSt, withSt]

end Yabgp

namespace Yabgp
open Sess

variable (U : Bool → Bytes → UpdClass)

/-- a framing violation (bad marker: sub-code 1; length < 19 or > 4096: sub-code 2 with the offending
    length; unknown type: sub-code 3) is answered on the tracked connection with exactly one Message Header
    Error NOTIFICATION carrying that sub-code, followed by the close; the state is Idle afterwards -/
theorem C04_framing_violation (s : Sess) (i : Nat) (buf : Bytes) (hp : s.proto = some i)
    (hlt : i < s.conns.length) (hc : (s.conn i).phase = .connected) (hnd : (s.conn i).disconnected = false) :
    (headOf buf = .badMarker →
      (parseBuffer U s i buf).1.outs = s.outs ++ [.write i (notifWire 1 1 []), .lose i] ∧
      (parseBuffer U s i buf).1.st = .idle ∧ (parseBuffer U s i buf).2 = none) ∧
    (∀ len, headOf buf = .badLength len →
      (parseBuffer U s i buf).1.outs = s.outs ++ [.write i (notifWire 1 2 (be16 len)), .lose i] ∧
      (parseBuffer U s i buf).1.st = .idle ∧ (parseBuffer U s i buf).2 = none) ∧
    (∀ ty body len, headOf buf = .frame ty body len → ty < 256 → ty ∉ [1, 2, 3, 4, 5, 128] →
      (parseBuffer U s i buf).1.outs = s.outs ++ [.write i (notifWire 1 3 (be16 ty)), .lose i] ∧
      (parseBuffer U s i buf).1.st = .idle) := by
  refine ⟨?_, ?_, ?_⟩
  · intro h
    have := headerError_reaction s i 1 [] hp hlt hc (by decide) (by decide)
    simp only [parseBuffer, hnd, h, C.hdrNotSync]
    exact ⟨this.1, this.2, rfl⟩
  · intro len h
    have := headerError_reaction s i 2 (be16 len) hp hlt hc (by decide) (by simp)
    simp only [parseBuffer, hnd, h, C.hdrBadLen]
    exact ⟨this.1, this.2, rfl⟩
  · intro ty body len h hty hn
    simp only [List.mem_cons, List.not_mem_nil, or_false, not_or] at hn
    obtain ⟨n1, n2, n3, n4, n5, n6⟩ := hn
    have := headerError_reaction s i 3 (be16 ty) hp hlt hc (by decide) (by simp)
    have hd : dispatch U s i ty body = (s.headerError C.hdrBadType (be16 ty), true) := by
      simp [dispatch, C.msgOpen, C.msgUpdate, C.msgNotification, C.msgKeepalive, C.msgRouteRefresh,
        C.msgCiscoRouteRefresh, n1, n2, n3, n4, n5, n6]
    simp only [parseBuffer, hnd, h, hd, C.hdrBadType]
    exact ⟨this.1, this.2⟩

end Yabgp

#print axioms Yabgp.C04_framing_violation
#print axioms Yabgp.C04_deframer_is_rfc
