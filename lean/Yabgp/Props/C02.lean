/-
  C02 — the session self-heals: never stuck, nothing in the past blocks re-establishment.

  Safety half (proved for EVERY event sequence, every configuration, every peer behaviour, including the
  multi-connection histories recorded as known findings under C12): unless the operator stopped the peer, the
  agent is in one of the situations from which it moves on by itself or with the next event the reactor owes it
  (`NotStuck`); and each of those situations does lead on (`C02_*_reconnects`, `C02_owed_close_arms_idle_hold`).

  Liveness half (PARTIAL, see the end of the file): from the resting situation "Idle, idle-hold timer due", whatever
  the earlier history left in the state - negotiated hold time, capability dictionaries, counters, stale timers,
  old connections in any phase - a peer that accepts TCP and sends a valid OPEN and a KEEPALIVE brings the session to
  Established in four events and no virtual time, with the hold time negotiated from the configuration and the
  peer's OPEN only; and an Established session stays Established under KEEPALIVE traffic.  The statement for every
  reachable state under every fair schedule is decided by the heal suite on the implementation, not by a theorem.
-/
import Yabgp.Lemmas.Heal
import Yabgp.Lemmas.OneFrame
import Yabgp.Lemmas.Stopped

namespace Yabgp
open Sess

variable (U : Bool → Bytes → UpdClass)

/-- connection `i` exists, is up, and we have not closed it -/
def ConnUp (s : Sess) (i : Nat) : Prop :=
  i < s.conns.length ∧ (s.conn i).phase = .connected ∧ (s.conn i).disconnected = false

/-- we closed a connection and the reactor still owes us its connectionLost -/
def CloseOwed (s : Sess) : Prop :=
  ∃ i, i < s.conns.length ∧ (s.conn i).phase = .closing ∧ (s.conn i).disconnected = true

def InSession (s : Sess) : Prop := s.st = .openSent ∨ s.st = .openConfirm ∨ s.st = .established

/-- the agent is not stuck: a session is being set up / is up on a live tracked connection; or it is in Connect with
    the connect-retry timer running (or a connection already up and waiting for the peer); or it is Idle with the
    idle-hold timer running or the close of a connection still to be reported (which arms the idle-hold timer) -/
def NotStuck (s : Sess) : Prop :=
  (InSession s ∧ ∃ i, s.proto = some i ∧ ConnUp s i) ∨
  (s.st = .connect ∧ (s.tm.retry.isSome = true ∨ ∃ i, s.proto = some i ∧ ConnUp s i)) ∨
  (s.st = .idle ∧ (s.tm.idleHold.isSome = true ∨ CloseOwed s))

theorem connUp_of_core {s : Sess} {i : Nat} (h : Core.Up (core s) i) : ConnUp s i := by
  obtain ⟨h1, h2⟩ := h
  rw [core_conn] at h2
  have hl : (core s).conns.length = s.conns.length := by simp [core]
  simp only [pd, Prod.mk.injEq] at h2
  exact ⟨by rw [← hl]; exact h1, h2.1, h2.2⟩

theorem closeOwed_of_core {s : Sess} (h : Core.Owed (core s)) : CloseOwed s := by
  obtain ⟨i, h1, h2⟩ := h
  rw [core_conn] at h2
  have hl : (core s).conns.length = s.conns.length := by simp [core]
  simp only [pd, Prod.mk.injEq] at h2
  exact ⟨i, by rw [← hl]; exact h1, h2.1, h2.2⟩

theorem notStuck_of_heal {s : Sess} (h : Core.Heal (core s)) (ha : s.allowAuto = true) : NotStuck s := by
  have hst : (core s).st = s.st := rfl
  cases hs : s.st with
  | idle =>
    right; right
    refine ⟨hs, ?_⟩
    rcases h.idle ha (by rw [hst, hs]) with h1 | h1
    · exact Or.inl h1
    · exact Or.inr (closeOwed_of_core h1)
  | connect =>
    right; left
    refine ⟨hs, ?_⟩
    rcases h.conn ha (by rw [hst, hs]) with h1 | ⟨i, h1, h2⟩
    · exact Or.inl h1
    · exact Or.inr ⟨i, h1, connUp_of_core h2⟩
  | active => exact absurd (by rw [hst, hs]) h.noActive
  | openSent =>
    left
    obtain ⟨i, h1, _, h3⟩ := h.sess (Or.inl (by rw [hst, hs]))
    exact ⟨Or.inl hs, i, h1, connUp_of_core h3⟩
  | openConfirm =>
    left
    obtain ⟨i, h1, _, h3⟩ := h.sess (Or.inr (Or.inl (by rw [hst, hs])))
    exact ⟨Or.inr (Or.inl hs), i, h1, connUp_of_core h3⟩
  | established =>
    left
    obtain ⟨i, h1, _, h3⟩ := h.sess (Or.inr (Or.inr (by rw [hst, hs])))
    exact ⟨Or.inr (Or.inr hs), i, h1, connUp_of_core h3⟩

/-- the control invariant holds after the agent's first automatic start or the operator's first start … -/
theorem heal_first (cfg : Cfg) (e0 : Ev) (he0 : e0 = .boot ∨ e0 = .manualStart) :
    Core.Heal (core (step U (bootWorld cfg) e0).sess) := by
  have hf : Core.Fresh (core ((boot cfg).withOuts [])) := by
    intro j _; simp [Core.conn, core, boot, withOuts]
  rcases he0 with rfl | rfl
  · simp only [step, bootWorld]
    rw [core_autoStart]
    apply Core.Heal.of_connect_retry
    · simp [Core.autoStart, core, boot, withOuts, Core.withSt]
    · simp [Core.autoStart, core, boot, withOuts, Core.withSt, Core.setRetry]
    · simp only [Core.autoStart, core, boot, withOuts, ↓reduceIte, Bool.false_eq_true]
      exact Core.fresh_connectTcp (hf.of_conns rfl)
  · simp only [step, bootWorld]
    rw [core_manualStart]
    apply Core.Heal.of_connect_retry
    · simp [Core.manualStart, core, boot, withOuts, Core.withSt]
    · simp [Core.manualStart, core, boot, withOuts, Core.withSt, Core.setRetry]
    · simp only [Core.manualStart, core, boot, withOuts]
      exact Core.fresh_connectTcp (hf.of_conns rfl)

/-- … and is kept by every event the environment can produce -/
theorem heal_step (w : World) (e : Ev) (hen : enabled w.sess e = true) (h : Core.Heal (core w.sess)) :
    Core.Heal (core (step U w e).sess) :=
  core_step_inv U Core.Heal (fun _ hc => Core.heal_frameOutcome hc) w e hen
    (fun hc he => Core.heal_stepOutcome hc e he) h

theorem heal_run (evs : List Ev) : ∀ (w : World), Core.Heal (core w.sess) → EnabledRun U w evs →
    Core.Heal (core (run U w evs).sess) := by
  induction evs with
  | nil => intro w h _; exact h
  | cons e r ih =>
    intro w h hen
    exact ih (step U w e) (heal_step U w e hen.1 h) hen.2

/-- **Never stuck.**  After the agent's start (its deferred automatic start, or an operator start before it), whatever
    happens next - any sequence of refused or timed-out connections, resets, protocol errors, malformed or
    unacceptable messages, timer expiries in any order, operator stops and starts - as long as the operator has not
    stopped the peer the agent is not stuck. -/
theorem C02_never_stuck (cfg : Cfg) (e0 : Ev) (he0 : e0 = .boot ∨ e0 = .manualStart) (evs : List Ev)
    (hen : EnabledRun U (step U (bootWorld cfg) e0) evs)
    (ha : (run U (bootWorld cfg) (e0 :: evs)).sess.allowAuto = true) :
    NotStuck (run U (bootWorld cfg) (e0 :: evs)).sess :=
  notStuck_of_heal (heal_run U evs _ (heal_first U cfg e0 he0) hen) ha

/-! ### each pending item leads on -/

/-- idle-hold expiry (automatic start allowed): a new connection attempt is started at once, Connect, retry timer armed -/
theorem C02_idle_hold_expiry_reconnects (s : Sess) (hst : s.st = .idle) (ha : s.allowAuto = true) :
    (s.fireIdleHold).st = .connect ∧ (s.fireIdleHold).outs = s.outs ++ [.connect s.conns.length] ∧
    (s.fireIdleHold).tm.retry = some (s.now + 3 * s.cfg.retryT) :=
  let h := (C01_start_from_idle s hst).2 ha
  ⟨h.1, h.2.1, h.2.2.1⟩

/-- connect-retry expiry in Connect: a new connection attempt is started and the timer re-armed -/
theorem C02_retry_expiry_reconnects (s : Sess) (hst : s.st = .connect) :
    (s.fireRetry).st = .connect ∧ (s.fireRetry).tm.retry = some (s.now + 3 * s.cfg.retryT) ∧
    ∃ k, Out.connect k ∈ (s.fireRetry).outs := by
  generalize ht : ((s.setRetry none).closeConn).setRetry (some s.retryDeadline) = t
  have h1 : t.st = .connect := by rw [← ht]; simp [hst]
  have h2 : t.tm.retry = some (s.now + 3 * s.cfg.retryT) := by rw [← ht]; simp [setRetry, withTm, retryDeadline]
  have hne : t.abortPending.st ≠ .established := by simp [h1]
  simp only [fireRetry, hst, ht, connectTcp, if_pos hne]
  refine ⟨by simp [Sess.emit, withConns, h1], by simp [Sess.emit, withConns, h2], t.abortPending.conns.length, by simp [Sess.emit, withConns]⟩

/-- the owed connectionLost of a connection we closed, arriving in Idle, arms the idle-hold timer -/
theorem C02_owed_close_arms_idle_hold (s : Sess) (i : Nat) (hst : s.st = .idle) (ha : s.allowAuto = true)
    (hd : (s.conn i).disconnected = true) :
    (s.connLost i).st = .idle ∧ (s.connLost i).tm.idleHold.isSome = true := by
  have hc : core (s.connLost i) = (core s).connLost i := core_connLost s i
  have h1 : ((core s).conn i).2 = true := by rw [core_conn]; exact hd
  have hst' : (core s).st = .idle := hst
  have ha' : (core s).allow = true := ha
  have key : ((core s).connLost i).st = .idle ∧ ((core s).connLost i).idleHold = true := by
    unfold Core.connLost
    rw [if_pos h1]
    unfold Core.connectionClosed Core.dropEstab
    simp only
    split <;> simp [Core.autoStart, Core.withSt, Core.withEstab, Core.setPhase, Core.setIdleHold, hst', ha']
  rw [← hc] at key
  exact key

/-! ### liveness, from the resting situation (PARTIAL: see the header) -/

theorem norm_of_core {s : Sess} {i : Nat} (hp : s.proto = some i) (h : Core.Up (core s) i) : Norm s i :=
  ⟨hp, (connUp_of_core h).1, (connUp_of_core h).2.1, (connUp_of_core h).2.2⟩

theorem up_of_norm {s : Sess} {i : Nat} (h : Norm s i) : Core.Up (core s) i := by
  refine ⟨by simp [core]; exact h.lt, ?_⟩
  rw [core_conn]; simp [pd, h.up, h.nd]

/-- a frame that keeps the session in a session state keeps the tracked connection up -/
theorem norm_dispatch_insess {s : Sess} {i : Nat} (h : Norm s i) (j ty : Nat) (body : Bytes)
    (hs : Core.InSess (dispatch U s j ty body).1.st) : Norm (dispatch U s j ty body).1 i := by
  have hm := core_dispatch_mem U s j ty body
  obtain ⟨hc, hp⟩ := Core.frameOutcome_insess hm hs
  apply norm_of_core
  · have : (core (dispatch U s j ty body).1).proto = (core s).proto := hp
    exact this.trans h.proto
  · exact (up_of_norm h).of_conns hc

/-- the state right after the idle-hold timer fired in Idle with automatic start allowed: Connect, one new connection
    attempt (an attempt still in flight, if any, having been given up), everything else as before -/
theorem fireIdleHold_idle (s : Sess) (hst : s.st = .idle) (ha : s.allowAuto = true) :
    s.fireIdleHold.st = .connect ∧ s.fireIdleHold.conns.length = s.conns.length + 1 ∧
    s.fireIdleHold.conn s.conns.length = {} ∧ s.fireIdleHold.cfg = s.cfg ∧ s.fireIdleHold.bgpId = s.bgpId ∧
    s.fireIdleHold.localCaps = s.localCaps ∧ s.fireIdleHold.remote = s.remote ∧ s.fireIdleHold.now = s.now := by
  have hal : (s.setIdleHold none).allowAuto = true := ha
  have hst' : (s.setIdleHold none).st = .idle := hst
  simp only [fireIdleHold, hst, ↓reduceIte, autoStart, hst', hal, Bool.false_eq_true]
  generalize ht : (((s.setIdleHold none).incRetryCounter.setRetry (some (s.setIdleHold none).retryDeadline)).setSt .connect) = t
  have t1 : t.st = .connect := by rw [← ht]; simp
  have t2 : t.conns = s.conns := by rw [← ht]; simp [Sess.setSt, setRetry, withTm, incRetryCounter, withRetryCounter, setIdleHold, withSt]
  have t3 : t.cfg = s.cfg := by rw [← ht]; simp [Sess.setSt, setRetry, withTm, incRetryCounter, withRetryCounter, setIdleHold, withSt]
  have t4 : t.bgpId = s.bgpId := by rw [← ht]; simp [Sess.setSt, setRetry, withTm, incRetryCounter, withRetryCounter, setIdleHold, withSt]
  have t5 : t.localCaps = s.localCaps := by rw [← ht]; simp [Sess.setSt, setRetry, withTm, incRetryCounter, withRetryCounter, setIdleHold, withSt]
  have t6 : t.remote = s.remote := by rw [← ht]; simp [Sess.setSt, setRetry, withTm, incRetryCounter, withRetryCounter, setIdleHold, withSt]
  have t7 : t.now = s.now := by rw [← ht]; simp [Sess.setSt, setRetry, withTm, incRetryCounter, withRetryCounter, setIdleHold, withSt]
  have hl : t.abortPending.conns.length = s.conns.length := by rw [len_abortPending, t2]
  unfold connectTcp
  rw [if_pos (by simp [t1])]
  refine ⟨by simp [Sess.emit, withConns, t1], by simp [Sess.emit, withConns, hl], ?_, by simp [Sess.emit, withConns, t3],
    by simp [Sess.emit, withConns, t4], by simp [Sess.emit, withConns, t5], by simp [Sess.emit, withConns, t6],
    by simp [Sess.emit, withConns, t7]⟩
  simp [Sess.conn, Sess.emit, withConns, withPending, List.getD_eq_getElem?_getD, ← hl]

/-- the cooperative continuation: the timer fires, the peer accepts the connection, sends its OPEN, sends a KEEPALIVE -/
def healEvents (k : Nat) (body : Bytes) : List Ev :=
  [.fire .idleHold, .connOk k, .chunk k (wireOf 1 body), .chunk k (wireOf 4 [])]

/-- the second half: from OpenSent on an up, tracked connection with an empty receive buffer, a valid OPEN and a
    KEEPALIVE establish the session, with the hold time negotiated from the configuration and the OPEN alone -/
theorem heal_from_openSent (s : Sess) (rb : Nat → Bytes) (k : Nat) (body : Bytes) (m : OpenMsg)
    (hn : Norm s k) (hst : s.st = .openSent) (hrb : rb k = [])
    (hparse : parseOpen body = .ok m) (has : m.asn = s.cfg.remoteAs) (hh : ¬ (m.holdTime ≠ 0 ∧ m.holdTime < 3))
    (hlen : body.length + 19 ≤ 4096) :
    EnabledRun U ⟨s, rb⟩ [.chunk k (wireOf 1 body), .chunk k (wireOf 4 [])] ∧
    (run U ⟨s, rb⟩ [.chunk k (wireOf 1 body), .chunk k (wireOf 4 [])]).sess.st = .established ∧
    (run U ⟨s, rb⟩ [.chunk k (wireOf 1 body), .chunk k (wireOf 4 [])]).sess.now = s.now ∧
    (run U ⟨s, rb⟩ [.chunk k (wireOf 1 body), .chunk k (wireOf 4 [])]).sess.holdTime = min s.cfg.holdCfg m.holdTime ∧
    (run U ⟨s, rb⟩ [.chunk k (wireOf 1 body), .chunk k (wireOf 4 [])]).sess.proto = some k := by
  -- the OPEN
  have hn0 : Norm (s.withOuts []) k := hn.withOuts []
  have a3 := C01_open_accepted U hn0 hst body m hparse has hh
  have d3 := dataReceived_one U (s.withOuts []) k 1 body (by omega) hlen hn0.nd a3.1
  have e3 : step U ⟨s, rb⟩ (.chunk k (wireOf 1 body)) =
      ⟨(dispatch U (s.withOuts []) k 1 body).1, setRbuf rb k []⟩ := by
    simp only [step, hrb, d3]
  generalize hs3 : (dispatch U (s.withOuts []) k 1 body).1 = s3 at a3 e3
  have hn3 : Norm s3 k := by
    rw [← hs3]; exact norm_dispatch_insess U hn0 k 1 body (by rw [hs3, a3.2.1]; exact Or.inr (Or.inl rfl))
  have now3 : s3.now = s.now := by
    rw [← hs3]; exact (frm_dispatch U 0 k (s.withOuts []) 1 body).scal.now
  have cfg3 : s3.cfg = s.cfg := by
    rw [← hs3]; exact (frm_dispatch U 0 k (s.withOuts []) 1 body).scal.cfg
  -- the KEEPALIVE
  have hn30 : Norm (s3.withOuts []) k := hn3.withOuts []
  have a4 := (C01_keepalive_msg U hn30).1 a3.2.1
  have hcont4 : (dispatch U (s3.withOuts []) k 4 []).2 = true := by
    simp [dispatch, C.msgOpen, C.msgUpdate, C.msgNotification, C.msgKeepalive]
  have d4 := dataReceived_one U (s3.withOuts []) k 4 [] (by omega) (by simp) hn30.nd hcont4
  have hrb3 : setRbuf rb k [] k = [] := by simp [setRbuf]
  have e4 : step U ⟨s3, setRbuf rb k []⟩ (.chunk k (wireOf 4 [])) =
      ⟨(dispatch U (s3.withOuts []) k 4 []).1, setRbuf (setRbuf rb k []) k []⟩ := by
    simp only [step, hrb3, d4]
  have now4 : (dispatch U (s3.withOuts []) k 4 []).1.now = s3.now :=
    (frm_dispatch U 0 k (s3.withOuts []) 4 []).scal.now
  have hold4 : (dispatch U (s3.withOuts []) k 4 []).1.holdTime = s3.holdTime := by
    have : dispatch U (s3.withOuts []) k 4 [] =
        ((((s3.withOuts []).bumpRecv k incKeepalives).emit (.hKeepalive k)).fsmKeepaliveReceived, true) := by
      simp [dispatch, C.msgOpen, C.msgUpdate, C.msgNotification, C.msgKeepalive]
    rw [this]
    have hst3 : (((s3.withOuts []).bumpRecv k incKeepalives).emit (.hKeepalive k)).st = .openConfirm := a3.2.1
    simp only [fsmKeepaliveReceived, hst3, holdTime_setSt, holdTime_restartHold, holdTime_emit, holdTime_bumpRecv,
      holdTime_withOuts]
  have proto4 : (dispatch U (s3.withOuts []) k 4 []).1.proto = some k :=
    ((frm_dispatch U 0 k (s3.withOuts []) 4 []).proto).trans hn30.proto
  refine ⟨?_, ?_, ?_, ?_, ?_⟩
  · refine ⟨?_, ?_, trivial⟩
    · simp only [enabled, Bool.and_eq_true, decide_eq_true_eq]; exact ⟨hn.lt, hn.up⟩
    · rw [e3]
      simp only [enabled, Bool.and_eq_true, decide_eq_true_eq]; exact ⟨hn3.lt, hn3.up⟩
  · simp only [run, e3, e4]; exact a4.1
  · simp only [run, e3, e4]; rw [now4, now3]
  · simp only [run, e3, e4]; rw [hold4, a3.2.2.1]; rfl
  · simp only [run, e3, e4]; exact proto4

end Yabgp

namespace Yabgp
open Sess

variable (U : Bool → Bytes → UpdClass)

theorem run_append (w : World) (a b : List Ev) : run U w (a ++ b) = run U (run U w a) b := by
  induction a generalizing w with
  | nil => rfl
  | cons e r ih => simp only [List.cons_append, run]; exact ih _

theorem enabledRun_append (w : World) (a b : List Ev) (ha : EnabledRun U w a) (hb : EnabledRun U (run U w a) b) :
    EnabledRun U w (a ++ b) := by
  induction a generalizing w with
  | nil => exact hb
  | cons e r ih => exact ⟨ha.1, ih _ ha.2 hb⟩

theorem now_cfg_sendOpen (t : Sess) : t.sendOpen.1.now = t.now ∧ t.sendOpen.1.cfg = t.cfg := by
  unfold sendOpen
  split
  · exact ⟨rfl, rfl⟩
  · split
    · exact ⟨rfl, rfl⟩
    · refine ⟨?_, ?_⟩
      · simp only [now_emit, now_bumpSent]
        unfold writeOn; split <;> rfl
      · rename_i _ i _ _ w _
        show (((t.withLocalCaps (negotiateCaps t.localCaps t.remote)).writeOn i w).bumpSent i incOpens).cfg = t.cfg
        unfold writeOn; split <;> rfl

theorem now_cfg_connOk (t : Sess) (i : Nat) : (t.connOk i).now = t.now ∧ (t.connOk i).cfg = t.cfg := by
  unfold connOk connectionMade
  generalize ht : (((((t.setPhase i .connected).withProto (some i)).setSt .connect).withEstab (some i)).withBgpId
      (some (t.bgpId.getD t.cfg.localId))) = u
  have hu : u.now = t.now ∧ u.cfg = t.cfg := by
    rw [← ht]
    refine ⟨?_, ?_⟩
    · show ((t.setPhase i .connected).withProto (some i) |>.setSt .connect).now = t.now
      rw [now_setSt]; rfl
    · show ((t.setPhase i .connected).withProto (some i) |>.setSt .connect).cfg = t.cfg
      exact (frm_setSt 0 _ _).scal.cfg
  have h2 := now_cfg_sendOpen ((u.setRetry none).setIdleHold none)
  split
  · refine ⟨?_, ?_⟩
    · rw [now_setSt, now_setHold, h2.1]; exact hu.1
    · rw [(frm_setSt 0 _ _).scal.cfg]; show (Sess.sendOpen _).1.cfg = _; rw [h2.2]; exact hu.2
  · exact ⟨h2.1.trans hu.1, h2.2.trans hu.2⟩

/-- the first half: the idle-hold timer fires, the peer accepts the connection: OpenSent on the new, tracked, up
    connection - whatever else the state holds -/
theorem heal_to_openSent (s : Sess) (rb : Nat → Bytes) (w : Bytes)
    (hst : s.st = .idle) (ha : s.allowAuto = true) (hdue : ∃ d, s.tm.idleHold = some d ∧ d ≤ s.now)
    (hw : constructOpen 4 s.cfg.localAs s.cfg.holdCfg (s.bgpId.getD s.cfg.localId) (negotiateCaps s.localCaps s.remote) = some w) :
    EnabledRun U ⟨s, rb⟩ [.fire .idleHold, .connOk s.conns.length] ∧
    (run U ⟨s, rb⟩ [.fire .idleHold, .connOk s.conns.length]).rbuf = rb ∧
    (run U ⟨s, rb⟩ [.fire .idleHold, .connOk s.conns.length]).sess.st = .openSent ∧
    Norm (run U ⟨s, rb⟩ [.fire .idleHold, .connOk s.conns.length]).sess s.conns.length ∧
    (run U ⟨s, rb⟩ [.fire .idleHold, .connOk s.conns.length]).sess.now = s.now ∧
    (run U ⟨s, rb⟩ [.fire .idleHold, .connOk s.conns.length]).sess.cfg = s.cfg ∧
    Out.write s.conns.length w ∈ (run U ⟨s, rb⟩ [.fire .idleHold, .connOk s.conns.length]).sess.outs := by
  obtain ⟨d, hd, hdn⟩ := hdue
  have e1 : step U ⟨s, rb⟩ (.fire .idleHold) = ⟨(s.withOuts []).fireIdleHold, rb⟩ := rfl
  have hs1 := fireIdleHold_idle (s.withOuts []) hst ha
  generalize (s.withOuts []).fireIdleHold = s1 at hs1 e1
  obtain ⟨_, klen, hconn1, c1, b1, l1, r1, n1⟩ := hs1
  have klen' : s1.conns.length = s.conns.length + 1 := klen
  have hlt1 : s.conns.length < s1.conns.length := by omega
  have hconn1 : s1.conn s.conns.length = {} := hconn1
  have c1 : s1.cfg = s.cfg := c1
  have b1 : s1.bgpId = s.bgpId := b1
  have l1 : s1.localCaps = s.localCaps := l1
  have r1 : s1.remote = s.remote := r1
  have n1 : s1.now = s.now := n1
  have e2 : step U ⟨s1, rb⟩ (.connOk s.conns.length) = ⟨(s1.withOuts []).connOk s.conns.length, rb⟩ := rfl
  have hw2 : ((((((s1.withOuts []).setPhase s.conns.length .connected).withProto (some s.conns.length)).setSt .connect).withEstab
      (some s.conns.length)).withBgpId (some ((s1.withOuts []).bgpId.getD (s1.withOuts []).cfg.localId))).openWire = some w := by
    have hst' : ∀ t : Sess, t.setSt .connect = t.withSt .connect := by
      intro t; unfold Sess.setSt; rw [if_neg (by simp)]
    rw [hst']
    show constructOpen 4 s1.cfg.localAs s1.cfg.holdCfg ((some (s1.bgpId.getD s1.cfg.localId)).getD 0)
      (negotiateCaps s1.localCaps s1.remote) = some w
    rw [c1, b1, l1, r1]; exact hw
  have t2 := C01_tcp_connected (s1.withOuts []) s.conns.length w hlt1 hw2
  have hcore2 := core_connOk (s1.withOuts []) s.conns.length
  have hup2 := Core.connOk_up (c := core (s1.withOuts [])) s.conns.length (by simp [core]; exact hlt1)
    (by rw [core_conn]; show pd (s1.conn s.conns.length) = _; rw [hconn1]; rfl)
  have hnc := now_cfg_connOk (s1.withOuts []) s.conns.length
  generalize (s1.withOuts []).connOk s.conns.length = s2 at t2 e2 hcore2 hnc
  have hn2 : Norm s2 s.conns.length := by
    apply norm_of_core t2.2.2.1
    rw [hcore2]; exact (hup2 _).2
  refine ⟨⟨?_, ?_, trivial⟩, ?_, ?_, ?_, ?_, ?_, ?_⟩
  · simp only [enabled, timerOf, hd, decide_eq_true_eq]; exact hdn
  · rw [e1]; simp only [enabled, Bool.and_eq_true, decide_eq_true_eq]
    exact ⟨hlt1, by rw [hconn1]⟩
  · simp only [run, e1, e2]
  · simp only [run, e1, e2]; exact t2.1
  · simp only [run, e1, e2]; exact hn2
  · simp only [run, e1, e2]; rw [hnc.1]; exact n1
  · simp only [run, e1, e2]; rw [hnc.2]; exact c1
  · simp only [run, e1, e2]; rw [t2.2.1]; simp

end Yabgp

namespace Yabgp
open Sess

variable (U : Bool → Bytes → UpdClass)

/-- **Re-establishment from the resting situation.**  Idle, idle-hold timer due, automatic start allowed - and
    ANYTHING else in the state (hold time left over from earlier sessions, capability dictionaries, counters, other
    timers, older connections in any phase).  The timer fires, the peer accepts the connection, sends a valid OPEN
    (its AS as configured, hold time 0 or ≥ 3) and a KEEPALIVE: after these four events, without any virtual time
    passing, the session is Established on the new connection, our OPEN `w` built from the configuration has been
    written to it, and the hold time in force is min(configured, proposed) - nothing of the past enters.
    (`hw`: the agent's OPEN can be built, i.e. the configured capabilities are encodable.) -/
theorem C02_heals_from_idle_hold (s : Sess) (rb : Nat → Bytes) (w body : Bytes) (m : OpenMsg)
    (hst : s.st = .idle) (ha : s.allowAuto = true) (hdue : ∃ d, s.tm.idleHold = some d ∧ d ≤ s.now)
    (hfresh : rb s.conns.length = [])
    (hw : constructOpen 4 s.cfg.localAs s.cfg.holdCfg (s.bgpId.getD s.cfg.localId) (negotiateCaps s.localCaps s.remote) = some w)
    (hparse : parseOpen body = .ok m) (has : m.asn = s.cfg.remoteAs) (hh : ¬ (m.holdTime ≠ 0 ∧ m.holdTime < 3))
    (hlen : body.length + 19 ≤ 4096) :
    EnabledRun U ⟨s, rb⟩ (healEvents s.conns.length body) ∧
    (run U ⟨s, rb⟩ (healEvents s.conns.length body)).sess.st = .established ∧
    (run U ⟨s, rb⟩ (healEvents s.conns.length body)).sess.now = s.now ∧
    (run U ⟨s, rb⟩ (healEvents s.conns.length body)).sess.holdTime = min s.cfg.holdCfg m.holdTime ∧
    (run U ⟨s, rb⟩ (healEvents s.conns.length body)).sess.proto = some s.conns.length := by
  have h1 := heal_to_openSent U s rb w hst ha hdue hw
  have happ : healEvents s.conns.length body =
      [.fire .idleHold, .connOk s.conns.length] ++ [.chunk s.conns.length (wireOf 1 body), .chunk s.conns.length (wireOf 4 [])] := rfl
  generalize hw1 : run U ⟨s, rb⟩ [.fire .idleHold, .connOk s.conns.length] = w1 at h1
  obtain ⟨hen1, hrb1, hst1, hn1, hnow1, hcfg1, _⟩ := h1
  have hw1' : w1 = ⟨w1.sess, rb⟩ := by cases w1; simp at hrb1; simp [hrb1]
  have h2 := heal_from_openSent U w1.sess rb s.conns.length body m hn1 hst1 hfresh hparse (by rw [hcfg1]; exact has) hh hlen
  rw [← hw1'] at h2
  rw [happ, run_append, hw1]
  refine ⟨?_, h2.2.1, h2.2.2.1.trans hnow1, ?_, h2.2.2.2.2⟩
  · exact enabledRun_append U _ _ _ hen1 (by rw [hw1]; exact h2.1)
  · rw [h2.2.2.2.1, hcfg1]

/-- what the peer and the clock do in an Established session that is being kept alive -/
def KeepaliveTraffic (k : Nat) : Ev → Prop
  | .fire .keepalive => True
  | .chunk c d => c = k ∧ d = wireOf 4 []
  | .advance _ => True
  | _ => False

/-- **…and then stays up.**  In Established on an up, tracked connection, our own keepalive timer, the peer's KEEPALIVEs
    and the passing of time (as long as no other timer becomes due - the hold timer is restarted by every KEEPALIVE,
    C03) leave the session Established on the same connection. -/
theorem C02_stays_established (k : Nat) (evs : List Ev) : ∀ (w : World),
    w.sess.st = .established → Norm w.sess k → w.rbuf k = [] → (∀ e ∈ evs, KeepaliveTraffic k e) → EnabledRun U w evs →
    (run U w evs).sess.st = .established ∧ Norm (run U w evs).sess k ∧ (run U w evs).rbuf k = [] := by
  induction evs with
  | nil => intro w h1 h2 h3 _ _; exact ⟨h1, h2, h3⟩
  | cons e r ih =>
    intro w h1 h2 h3 hk hen
    have hk' : ∀ e' ∈ r, KeepaliveTraffic k e' := fun e' he' => hk e' (by simp [he'])
    have hn0 : Norm (w.sess.withOuts []) k := h2.withOuts []
    have hke := hk e (by simp)
    cases e with
    | fire t =>
      cases t with
      | keepalive =>
        have a := C01_keepalive_timer_expires hn0 (Or.inr h1)
        apply ih (step U w (.fire .keepalive)) (by simp only [step]; rw [a.2.1]; exact h1) ?_ (by simpa [step] using h3) hk' hen.2
        simp only [step]
        have hc : core (w.sess.withOuts []).fireKeepalive = core (w.sess.withOuts []) := by
          rw [core_fireKeepalive]; unfold Core.fireKeepalive
          have : (core (w.sess.withOuts [])).st = .established := h1
          rw [this]
        apply norm_of_core
        · have : (core (w.sess.withOuts []).fireKeepalive).proto = (core (w.sess.withOuts [])).proto := by rw [hc]
          exact this.trans hn0.proto
        · rw [hc]; exact up_of_norm hn0
      | retry => exact absurd hke (by simp [KeepaliveTraffic])
      | hold => exact absurd hke (by simp [KeepaliveTraffic])
      | idleHold => exact absurd hke (by simp [KeepaliveTraffic])
    | chunk c d =>
      obtain ⟨rfl, rfl⟩ := hke
      have a4 := (C01_keepalive_msg U hn0).2.1 h1
      have hcont4 : (dispatch U (w.sess.withOuts []) c 4 []).2 = true := by
        simp [dispatch, C.msgOpen, C.msgUpdate, C.msgNotification, C.msgKeepalive]
      have d4 := dataReceived_one U (w.sess.withOuts []) c 4 [] (by omega) (by simp) hn0.nd hcont4
      have e4 : step U w (.chunk c (wireOf 4 [])) = ⟨(dispatch U (w.sess.withOuts []) c 4 []).1, setRbuf w.rbuf c []⟩ := by
        simp only [step, h3, d4]
      apply ih (step U w (.chunk c (wireOf 4 []))) (by rw [e4]; exact a4.1) ?_ (by rw [e4]; simp [setRbuf]) hk' hen.2
      rw [e4]
      exact norm_dispatch_insess U hn0 c 4 [] (by rw [a4.1]; exact Or.inr (Or.inr rfl))
    | advance dt =>
      exact ih (step U w (.advance dt)) (by simp only [step]; exact h1) (by simp only [step]; exact hn0.of_conns rfl rfl)
        (by simpa [step] using h3) hk' hen.2
    | boot => exact absurd hke (by simp [KeepaliveTraffic])
    | manualStart => exact absurd hke (by simp [KeepaliveTraffic])
    | manualStop => exact absurd hke (by simp [KeepaliveTraffic])
    | connOk c => exact absurd hke (by simp [KeepaliveTraffic])
    | connFail c => exact absurd hke (by simp [KeepaliveTraffic])
    | lost c => exact absurd hke (by simp [KeepaliveTraffic])

/-- non-vacuity of the resting situation: it is what a refused connection leaves behind -/
example : ∃ s : Sess, s.st = .idle ∧ s.allowAuto = true ∧ s.tm.idleHold.isSome = true := by
  refine ⟨(run (fun _ _ => .good) (bootWorld exCfg) [.boot, .connFail 0]).sess, ?_, ?_, ?_⟩ <;> decide

end Yabgp

#print axioms Yabgp.C02_never_stuck
#print axioms Yabgp.C02_idle_hold_expiry_reconnects
#print axioms Yabgp.C02_retry_expiry_reconnects
#print axioms Yabgp.C02_owed_close_arms_idle_hold
#print axioms Yabgp.C02_heals_from_idle_hold
#print axioms Yabgp.C02_stays_established
