/-
  C15 — list decoders are compositional; attribute order is irrelevant; an unknown element between known
  ones changes nothing for the others.  This file: the list kinds of the UPDATE and OPEN models (IPv4
  prefix lists, communities, cluster lists, large communities, AS_PATH segments, OPEN capabilities and
  optional parameters, path attributes).  The multiprotocol and TLV kinds are in Props/C15b … (see registry).
  Property theorems only.
-/
import Yabgp.Lemmas.Compose
import Yabgp.Props.C09
import Yabgp.Props.C07a
import Yabgp.Props.C07b
import Yabgp.Props.C15b
import Yabgp.Props.C11b

namespace Yabgp
open Spec

/-- IPv4 prefix lists (NLRI and withdrawn routes, with or without add-path ids, any trailing bits):
    decoding `a ‖ b` where `a` encodes the prefixes `ps` gives `ps` followed by the decoding of `b` -
    whatever `b` is, including an undecodable one -/
theorem C15_ipv4_prefixes (addpath : Bool) (ps : List RefPfx) (b : Bytes) (hok : ∀ p ∈ ps, RefPfxOk addpath p) :
    parsePrefixList addpath (ps.flatMap refPfx ++ b) =
      (parsePrefixList addpath b).map (ps.map RefPfx.toPfx ++ ·) :=
  parsePrefixList_ref addpath ps b hok

/-- the symmetric reading: two well-formed encodings -/
theorem C15_ipv4_prefixes_concat (addpath : Bool) (ps qs : List RefPfx)
    (hp : ∀ p ∈ ps, RefPfxOk addpath p) (hq : ∀ p ∈ qs, RefPfxOk addpath p) :
    parsePrefixList addpath (ps.flatMap refPfx ++ qs.flatMap refPfx) =
      some (ps.map RefPfx.toPfx ++ qs.map RefPfx.toPfx) := by
  rw [C15_ipv4_prefixes addpath ps _ hp]
  have := parsePrefixList_ref addpath qs [] hq
  simp only [List.append_nil, parsePrefixList_nil, Option.map_some] at this
  rw [this]; rfl

/-- the same for the agent's own encoder -/
theorem C15_ipv4_prefixes_own (addpath : Bool) (ps : List Pfx) (w b : Bytes)
    (hok : ∀ p ∈ ps, PfxOk addpath p) (hc : constructPrefixV4 addpath ps = some w) :
    parsePrefixList addpath (w ++ b) = (parsePrefixList addpath b).map (ps ++ ·) :=
  parsePrefixList_enc addpath ps w b hok hc

/-- COMMUNITIES: for ANY two value strings of whole 4-octet entries -/
theorem C15_communities (a b : Bytes) (ha : a.length % 4 = 0) (hb : b.length % 4 = 0) :
    parseCommunity (a ++ b) = .ok (.community (words32 a ++ words32 b)) ∧
    parseCommunity a = .ok (.community (words32 a)) ∧ parseCommunity b = .ok (.community (words32 b)) := by
  have hab : (a ++ b).length % 4 = 0 := by simp; omega
  simp only [List.length_append] at hab
  simp [parseCommunity, ha, hb, hab, words32_append a b ha]

/-- CLUSTER_LIST -/
theorem C15_cluster_list (a b : Bytes) (ha : a.length % 4 = 0) (hb : b.length % 4 = 0) :
    parseClusterList (a ++ b) = .ok (.clusterList (words32 a ++ words32 b)) ∧
    parseClusterList a = .ok (.clusterList (words32 a)) ∧ parseClusterList b = .ok (.clusterList (words32 b)) := by
  have hab : (a ++ b).length % 4 = 0 := by simp; omega
  simp only [List.length_append] at hab
  simp [parseClusterList, ha, hb, hab, words32_append a b ha]

/-- LARGE_COMMUNITY: whole 12-octet entries -/
theorem C15_large_communities (a b : Bytes) (ha : a.length % 12 = 0) (hb : b.length % 12 = 0) :
    parseLargeCommunity (a ++ b) = .ok (.largeCommunity (triples (words32 a) ++ triples (words32 b))) ∧
    parseLargeCommunity a = .ok (.largeCommunity (triples (words32 a))) ∧
    parseLargeCommunity b = .ok (.largeCommunity (triples (words32 b))) := by
  have hab : (a ++ b).length % 12 = 0 := by simp; omega
  have h4 : a.length % 4 = 0 := by omega
  have h3 : (words32 a).length % 3 = 0 := by rw [words32_length]; omega
  simp only [List.length_append] at hab
  simp [parseLargeCommunity, ha, hb, hab, words32_append a b h4, triples_append _ _ h3]

/-- AS_PATH / AS4_PATH segments, either AS width -/
theorem C15_aspath_segments (four : Bool) (xs : List (Nat × List Nat)) (b : Bytes) (hs : ∀ s ∈ xs, SegOk four s) :
    parseAsPath four (segsWire four xs ++ b) = (parseAsPath four b).map (xs ++ ·) :=
  parseAsPath_append four xs b hs

/-- OPEN capabilities: ANY capability TLVs (known or unknown codes, any bodies): decoding `a ‖ b` is decoding
    `a`'s capabilities one after the other, then `b` from the resulting dictionary -/
theorem C15_open_capabilities (caps : List (Nat × Bytes)) (b : Bytes) (st : Nat × CapaDict)
    (h : ∀ c ∈ caps, c.1 < 256 ∧ c.2.length < 256) :
    capsLoop st (caps.flatMap rawCap ++ b) =
      match applyCaps st caps with
      | .ok st' => capsLoop st' b
      | .error e => .error e :=
  capsLoop_append caps b st h

/-- OPEN optional parameters: grouping capabilities into parameters is irrelevant -/
theorem C15_open_parameters (params : List (List (Nat × Bytes))) (b : Bytes) (st : Nat × CapaDict)
    (h : ∀ p ∈ params, (∀ c ∈ p, c.1 < 256 ∧ c.2.length < 256) ∧ (p.flatMap rawCap).length < 256) :
    optParasLoop st (params.flatMap rawParam ++ b) =
      match applyCaps st params.flatten with
      | .ok st' => optParasLoop st' b
      | .error e => .error e :=
  optParasLoop_append params b st h

/-- an unknown capability between known ones changes nothing but the list of unknown capabilities -/
theorem C15_unknown_capability (asn : Nat) (d : CapaDict) (code : Nat) (v : Bytes)
    (h : code ∉ [65, 1, 2, 128, 64, 131, 70, 69, 71, 5]) :
    applyCap asn d code v = .ok (asn, { d with unknown := unknownSet d.unknown code v }) := by
  simp only [List.mem_cons, List.not_mem_nil, or_false, not_or] at h
  simp [applyCap, h]

/-- path attributes: whatever order the (distinct) attributes of an UPDATE come in, every attribute decodes to
    the same value and no error is flagged -/
theorem C15_attr_perm (asn4 : Bool) (as bs : List RefAttr) (hp : as.Perm bs)
    (hok : ∀ a ∈ as, a.code < 256 ∧ AttrOkR asn4 a.code a.val ∧ (refValue asn4 a.code a.val).length < 65536)
    (hnd : (as.map (·.code)).Nodup) :
    (parseAttributes asn4 (as.flatMap (refAttr asn4))).2 = none ∧
    (parseAttributes asn4 (bs.flatMap (refAttr asn4))).2 = none ∧
    ∀ k, dictGet (parseAttributes asn4 (as.flatMap (refAttr asn4))).1 k =
         dictGet (parseAttributes asn4 (bs.flatMap (refAttr asn4))).1 k := by
  have hokb : ∀ a ∈ bs, a.code < 256 ∧ AttrOkR asn4 a.code a.val ∧ (refValue asn4 a.code a.val).length < 65536 :=
    fun a ha => hok a (hp.mem_iff.mpr ha)
  have hndb : (bs.map (·.code)).Nodup := (hp.map _).nodup_iff.mp hnd
  have hA := attrLoop_ref asn4 as [] hok (by simpa [keys] using hnd)
  have hB := attrLoop_ref asn4 bs [] hokb (by simpa [keys] using hndb)
  simp only [parseAttributes, hA, hB, List.nil_append, true_and]
  intro k
  apply dictGet_perm (hp.map _)
  rw [List.map_map]
  exact hnd

/-- an attribute of a type the agent does not know, inserted anywhere, is kept as opaque octets and every other
    attribute decodes to what it decodes to without it -/
theorem C15_unknown_attr_inserted (asn4 : Bool) (as bs : List RefAttr) (u : RefAttr) (body : Bytes)
    (hu : u.code ∉ knownCodes) (huc : u.code < 256) (hv : u.val = .raw body) (hl : body.length < 65536)
    (hok : ∀ a ∈ as ++ bs, a.code < 256 ∧ AttrOkR asn4 a.code a.val ∧ (refValue asn4 a.code a.val).length < 65536)
    (hnd : ((as ++ u :: bs).map (·.code)).Nodup) :
    parseAttributes asn4 ((as ++ u :: bs).flatMap (refAttr asn4)) =
      (as.map (fun a => (a.code, a.val)) ++ (u.code, .raw body) :: bs.map (fun a => (a.code, a.val)), none) ∧
    parseAttributes asn4 ((as ++ bs).flatMap (refAttr asn4)) =
      (as.map (fun a => (a.code, a.val)) ++ bs.map (fun a => (a.code, a.val)), none) := by
  have hok' : ∀ a ∈ as ++ u :: bs,
      a.code < 256 ∧ AttrOkR asn4 a.code a.val ∧ (refValue asn4 a.code a.val).length < 65536 := by
    intro a ha
    simp only [List.mem_append, List.mem_cons] at ha
    rcases ha with ha | rfl | ha
    · exact hok a (by simp [ha])
    · refine ⟨huc, Or.inr (Or.inr (Or.inr ⟨hu, body, hv⟩)), ?_⟩
      simp [hv, refValue, hl]
    · exact hok a (by simp [ha])
  have hnd2 : ((as ++ bs).map (·.code)).Nodup := by
    simp only [List.map_append, List.map_cons] at hnd ⊢
    exact hnd.sublist (List.Sublist.append_left (List.sublist_cons_self _ _) _)
  have h1 := attrLoop_ref asn4 (as ++ u :: bs) [] hok' (by simpa [keys] using hnd)
  have h2 := attrLoop_ref asn4 (as ++ bs) [] hok (by simpa [keys] using hnd2)
  simp only [parseAttributes, h1, h2, List.nil_append, List.map_append, List.map_cons, hv, and_self]

/-! non-vacuity -/
example : parsePrefixList false ((exNlri.map fun p => { p with pathId := none }).flatMap refPfx ++ [24, 10, 1, 2]) =
    some [{ addr := 167772160, len := 9 }, { addr := 0, len := 0 }, { addr := 167838208, len := 24 }] := by
  rw [C15_ipv4_prefixes false _ _ (by intro p hp; simp [exNlri] at hp; rcases hp with rfl | rfl <;> simp [RefPfxOk])]
  have : parsePrefixList false [24, 10, 1, 2] = some [{ addr := 167838208, len := 24 }] := by
    rw [parsePrefixList_cons]; simp [stepPrefix, parseOnePrefix, pfxOctets, pfxData, addrOf, parsePrefixList_nil]
  rw [this]; rfl

example := C15_attr_perm false exAttrs exAttrs.reverse (List.reverse_perm _).symm exValid.hattrs exValid.nodup

end Yabgp

#print axioms Yabgp.C15_ipv4_prefixes
#print axioms Yabgp.C15_ipv4_prefixes_concat
#print axioms Yabgp.C15_communities
#print axioms Yabgp.C15_cluster_list
#print axioms Yabgp.C15_large_communities
#print axioms Yabgp.C15_aspath_segments
#print axioms Yabgp.C15_open_capabilities
#print axioms Yabgp.C15_open_parameters
#print axioms Yabgp.C15_unknown_capability
#print axioms Yabgp.C15_attr_perm
#print axioms Yabgp.C15_unknown_attr_inserted
