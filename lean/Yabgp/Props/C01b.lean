/-
  C01, applicability of the per-event theorems: the theorems of Props/C01.lean are stated for "the state machine tracks
  connection `i`, which is up and which we have not closed" (`Norm s i`).  This file shows that this is not an extra
  assumption: in EVERY state reachable after the agent's start in which a session is being set up or is up (OpenSent,
  OpenConfirm, Established) the situation holds for the tracked connection, there is no other open connection, and no
  connection attempt is in flight next to it.  Hence the RFC reactions of Props/C01.lean apply to every reachable
  session state.
-/
import Yabgp.Props.C12

namespace Yabgp
open Sess

variable (U : Bool → Bytes → UpdClass)

theorem C01_reachable_session_is_normal (cfg : Cfg) (e0 : Ev) (he0 : e0 = .boot ∨ e0 = .manualStart) (evs : List Ev)
    (hen : EnabledRun U (step U (bootWorld cfg) e0) evs)
    (hs : InSession (run U (bootWorld cfg) (e0 :: evs)).sess) :
    ∃ i, Norm (run U (bootWorld cfg) (e0 :: evs)).sess i ∧
      ∀ j, j < (run U (bootWorld cfg) (e0 :: evs)).sess.conns.length → j ≠ i →
        ((run U (bootWorld cfg) (e0 :: evs)).sess.conn j).phase = .closing ∨
        ((run U (bootWorld cfg) (e0 :: evs)).sess.conn j).phase = .closed := by
  have hheal := heal_run U evs _ (heal_first U cfg e0 he0) hen
  have h0 := one_first U cfg e0 he0
  have hboth := one_run U evs _ h0.1 h0.2 (heal_first U cfg e0 he0) hen
  have hrun : run U (bootWorld cfg) (e0 :: evs) = run U (step U (bootWorld cfg) e0) evs := rfl
  rw [hrun] at hs ⊢
  generalize (run U (step U (bootWorld cfg) e0) evs).sess = s at hs hheal hboth
  have hst : (core s).st = s.st := rfl
  obtain ⟨i, hp, _, hup⟩ := hheal.sess (by
    rcases hs with h | h | h
    · exact Or.inl (by rw [hst, h])
    · exact Or.inr (Or.inl (by rw [hst, h]))
    · exact Or.inr (Or.inr (by rw [hst, h])))
  have hn : Norm s i := norm_of_core hp hup
  refine ⟨i, hn, ?_⟩
  intro j hj hne
  have hlen : (core s).conns.length = s.conns.length := by simp [core]
  have hi : Core.Live (core s) i := Or.inr (by rw [core_conn]; exact hn.up)
  cases hph : (s.conn j).phase with
  | connecting =>
    have lj : Core.Live (core s) j := Or.inl (by rw [core_conn]; exact hph)
    exact absurd (hboth.1.one j i (by rw [hlen]; exact hj) (by rw [hlen]; exact hn.lt) lj hi) hne
  | connected =>
    have lj : Core.Live (core s) j := Or.inr (by rw [core_conn]; exact hph)
    exact absurd (hboth.1.one j i (by rw [hlen]; exact hj) (by rw [hlen]; exact hn.lt) lj hi) hne
  | closing => exact Or.inl rfl
  | closed => exact Or.inr rfl

end Yabgp

#print axioms Yabgp.C01_reachable_session_is_normal
