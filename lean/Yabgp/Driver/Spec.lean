/-
  Driver ops that evaluate the specifications (reference encoders, walker, deframer, RFC table).
-/
import Yabgp.Driver.Json
import Yabgp.Spec.RfcOpen

namespace Yabgp.Glue
open Lean (Json)

def readQuad (j : Json) : Except String (Nat × Nat × Nat × Nat) := do
  match (← asList j) with
  | [a, b, c, d] => pure ((← a.getNat?), (← b.getNat?), (← c.getNat?), (← d.getNat?))
  | _ => throw "bad quad"

def readCap (j : Json) : Except String Spec.Cap := do
  let k ← getStr j "k"
  match k with
  | "mp" => pure (.mp (← getNat j "afi") (← getNat j "safi"))
  | "rr" => pure .routeRefresh
  | "crr" => pure .ciscoRouteRefresh
  | "err" => pure .enhancedRouteRefresh
  | "gr" => pure (.gracefulRestart (← getHex j "body"))
  | "cms" => pure (.ciscoMultiSession (← getHex j "body"))
  | "as4" => pure (.as4 (← getNat j "asn"))
  | "addpath" => do pure (.addPath (← (← getArr j "l").mapM readTriple))
  | "llgr" => do pure (.llgr (← (← getArr j "l").mapM readQuad))
  | "extnh" => do pure (.extNextHop (← (← getArr j "l").mapM readTriple))
  | "unknown" => pure (.unknown (← getNat j "code") (← getHex j "body"))
  | _ => throw s!"bad cap kind {k}"

def specRefOpen (j : Json) : Except String Json := do
  let params ← (← getArr j "params").mapM fun p => do (← asList p).mapM readCap
  let asn ← getNat j "asn"
  let hold ← getNat j "hold_time"
  let bid ← getNat j "bgp_id"
  pure (obj [("hex", hex (Spec.refOpenBody asn hold bid params)),
             ("expect", openResultJson (.ok (Spec.expectOpen asn hold bid params)))])

end Yabgp.Glue
