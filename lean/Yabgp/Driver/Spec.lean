/-
  Driver ops that evaluate the specifications (reference encoders, walker, deframer, RFC table).
-/
import Yabgp.Driver.Json
import Yabgp.Spec.RfcOpen
import Yabgp.Spec.RfcEncode

namespace Yabgp.Glue
open Lean (Json)

def readQuad (j : Json) : Except String (Nat × Nat × Nat × Nat) := do
  match (← asList j) with
  | [a, b, c, d] => pure ((← a.getNat?), (← b.getNat?), (← c.getNat?), (← d.getNat?))
  | _ => throw "bad quad"

def readCap (j : Json) : Except String Spec.Cap := do
  let k ← getStr j "k"
  match k with
  | "mp" => pure (.mp (← getNat j "afi") (← getNat j "safi"))
  | "rr" => pure .routeRefresh
  | "crr" => pure .ciscoRouteRefresh
  | "err" => pure .enhancedRouteRefresh
  | "gr" => pure (.gracefulRestart (← getHex j "body"))
  | "cms" => pure (.ciscoMultiSession (← getHex j "body"))
  | "as4" => pure (.as4 (← getNat j "asn"))
  | "addpath" => do pure (.addPath (← (← getArr j "l").mapM readTriple))
  | "llgr" => do pure (.llgr (← (← getArr j "l").mapM readQuad))
  | "extnh" => do pure (.extNextHop (← (← getArr j "l").mapM readTriple))
  | "unknown" => pure (.unknown (← getNat j "code") (← getHex j "body"))
  | _ => throw s!"bad cap kind {k}"

def specRefOpen (j : Json) : Except String Json := do
  let params ← (← getArr j "params").mapM fun p => do (← asList p).mapM readCap
  let asn ← getNat j "asn"
  let hold ← getNat j "hold_time"
  let bid ← getNat j "bgp_id"
  pure (obj [("hex", hex (Spec.refOpenBody asn hold bid params)),
             ("expect", openResultJson (.ok (Spec.expectOpen asn hold bid params)))])

def readRefPfx (j : Json) : Except String Spec.RefPfx := do
  let (a, l) ← parsePfxStr (← getStr j "prefix")
  let junk ← getNat j "junk"
  let pid := match getNat j "path_id" with
    | .ok n => some n
    | .error _ => none
  pure { addr := a, len := l, junk := junk, pathId := pid }

def readRefAttr (j : Json) : Except String Spec.RefAttr := do
  let code ← getNat j "code"
  let jv ← j.getObjVal? "value"
  let v ← match getHex jv "raw" with
    | .ok b => pure (AttrVal.raw b)
    | .error _ => readAttrVal code jv
  pure { code := code, val := v, ext := getBoolD j "ext" false, partialBit := getBoolD j "partial" false }

/-- the reference encoder's bytes for a structured message and what C09 says decoding them must return.
    Optional single malformation: `bad` = {kind, hex} one attribute (header and value) placed after the
    well-formed ones; `badpfx` = hex placed after the well-formed NLRI (a length octet above 32, preceded by a
    path identifier in add-path mode). -/
def specRefUpdate (j : Json) : Except String Json := do
  let asn4 := getBoolD j "asn4" false
  let addpath := getBoolD j "addpath" false
  let wd ← (← getArr j "withdraw").mapM readRefPfx
  let nlri ← (← getArr j "nlri").mapM readRefPfx
  let attrs ← (← getArr j "attrs").mapM readRefAttr
  let valid := Spec.refValidB asn4 addpath wd attrs nlri
  let toPfx := fun (p : Spec.RefPfx) => ({ addr := p.addr, len := p.len, pathId := p.pathId } : Pfx)
  let w := wd.flatMap Spec.refPfx
  let a := attrs.flatMap (Spec.refAttr asn4)
  let n := nlri.flatMap Spec.refPfx
  let good : UpdResult := { withdraw := wd.map toPfx, nlri := nlri.map toPfx,
                            attr := attrs.map (fun a => (a.code, a.val)), subError := none }
  match j.getObjVal? "bad", j.getObjVal? "badpfx" with
  | .ok b, _ => do
      let kind ← getStr b "kind"
      let bad ← getHex b "hex"
      match Spec.rejectCode kind with
      | none => throw s!"bad kind {kind}"
      | some s =>
        let a' := a ++ bad
        pure (obj [("hex", hex (be16 w.length ++ w ++ be16 a'.length ++ a' ++ n)),
                   ("valid", Json.bool (valid && decide (a'.length < 65536))),
                   ("expect", updResultJson (some { good with subError := some s }))])
  | _, .ok b => do
      let bad ← getHex b "hex"
      pure (obj [("hex", hex (be16 w.length ++ w ++ be16 a.length ++ a ++ (n ++ bad))),
                 ("valid", Json.bool valid),
                 ("expect", updResultJson (some { good with nlri := [], subError := some 10 }))])
  | _, _ =>
      pure (obj [("hex", hex (Spec.refUpdateBody asn4 wd attrs nlri)), ("valid", Json.bool valid),
                 ("expect", updResultJson (some good))])

end Yabgp.Glue
