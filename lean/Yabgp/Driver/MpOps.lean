/-
  JSON ops for the multiprotocol NLRI models (Yabgp/Model/Mp/*.lean).  `dispatchMp` is a pure function so that
  the shared driver (Yabgp/Driver/Ops.lean) can call it for every op that starts with "mp."; MpMain.lean wraps
  it into a standalone line-protocol process.  Imports only the models and Lean's JSON (no Lemmas/Props).

  requests
    {"op":"mp.parse","attr":14|15,"addpath":b,"hex":H}       MpReachNLRI.parse / MpUnReachNLRI.parse (attribute value)
    {"op":"mp.construct","attr":14|15,"value":V}             MpReachNLRI.construct / MpUnReachNLRI.construct
    {"op":"mp.nlri.parse","fam":F,"withdraw":b,"addpath":b,"hex":H}     IPv6Unicast / IPv4|IPv6LabeledUnicast / IPv4|IPv6MPLSVPN .parse
    {"op":"mp.nlri.construct","fam":F,"withdraw":b,"routes":[..]}      .. .construct       F = u6 | lu4 | lu6 | vpn4 | vpn6
    {"op":"mp.rd.parse","hex":H} {"op":"mp.rd.construct","rd":RD} {"op":"mp.labels.parse","hex":H}
    {"op":"mp.labels.construct","vpn":b,"labels":[..]}
  values (the canonical form harness/impl_mp.py produces from the real code's dictionaries)
    address  [4|6, int]          prefix  [4|6, int, masklen]          RD  ["as",asn,an] | ["ip",ip,an] | ["raw",hex]
    u6 route   prefix | {"path_id":p,"prefix":prefix}
    lu route   {"label":[..],"prefix":prefix[,"path_id":p]}     vpn route  {"label":[..],"rd":RD,"prefix":prefix[,"path_id":p]}
    V(14)  {"afi_safi":[2,1],"nexthop":address[,"linklocal_nexthop":address],"nlri":[u6 route..]}
           {"afi_safi":[a,4],"nexthop":address|"","nlri":[lu route..]}
           {"afi_safi":[a,128],"nexthop":{"rd":RD,"str":address},"nlri":[vpn route..]}
    V(15)  {"afi_safi":[..],"withdraw":[route..]}   (decoder for (a,4): {"afi_safi":[a,4],"withdraw":{"raw":hex}})
    any other afi/safi: {"other":[afi,safi]}
  responses  {"ok":V} | {"err":sub} | {"err":"other"}   resp.  {"hex":H} | {"none":true} | {"raise":true}
-/
import Lean.Data.Json
import Yabgp.Model.Mp.MpUnreach
import Yabgp.Model.Construct.Guards

namespace Yabgp.MpGlue
open Lean (Json)
open Yabgp.Mp

structure MpDState where
  calls : Nat := 0

def jnat (n : Nat) : Json := Json.num (Lean.JsonNumber.fromNat n)
def jint (i : Int) : Json := Json.num (Lean.JsonNumber.fromInt i)
def jarr (xs : List Json) : Json := Json.arr xs.toArray
def jobj (kvs : List (String × Json)) : Json := Json.mkObj kvs
def jhex (b : Bytes) : Json := Json.str (toHex b)

def getNat (j : Json) (k : String) : Except String Nat := (j.getObjVal? k) >>= (·.getNat?)
def getStr (j : Json) (k : String) : Except String String := (j.getObjVal? k) >>= (·.getStr?)
def getBoolD (j : Json) (k : String) (d : Bool) : Bool :=
  match (j.getObjVal? k) >>= (·.getBool?) with
  | .ok b => b
  | .error _ => d
def getHex (j : Json) (k : String) : Except String Bytes := do
  let s ← getStr j k
  match ofHex s with
  | some b => pure b
  | none => throw s!"bad hex in {k}"
def asList (j : Json) : Except String (List Json) := do let a ← j.getArr?; pure a.toList
def getArr (j : Json) (k : String) : Except String (List Json) := (j.getObjVal? k) >>= asList

/-! ### rendering -/

def ipJson : Ip → Json
  | .v4 n => jarr [jnat 4, jnat n]
  | .v6 n => jarr [jnat 6, jnat n]

def pfxJson (p : MPfx) : Json :=
  match p.addr with
  | .v4 n => jarr [jnat 4, jnat n, jint p.len]
  | .v6 n => jarr [jnat 6, jnat n, jint p.len]

def rdJson : Rd → Json
  | .asForm a b => jarr [Json.str "as", jnat a, jnat b]
  | .ipForm a b => jarr [Json.str "ip", jnat a, jnat b]
  | .raw b => jarr [Json.str "raw", jhex b]

def withPid (pid : Option Nat) (kvs : List (String × Json)) : Json :=
  match pid with
  | none => jobj kvs
  | some p => jobj (("path_id", jnat p) :: kvs)

def u6Json (r : U6Route) : Json :=
  match r.pathId with
  | none => pfxJson r.pfx
  | some p => jobj [("path_id", jnat p), ("prefix", pfxJson r.pfx)]

def luJson (r : LuRoute) : Json :=
  withPid r.pathId [("label", jarr (r.labels.map jnat)), ("prefix", pfxJson r.pfx)]

def vpnJson (r : VpnRoute) : Json :=
  withPid r.pathId [("label", jarr (r.labels.map jnat)), ("rd", rdJson r.rd), ("prefix", pfxJson r.pfx)]

def afiSafi (a s : Nat) : Json := jarr [jnat a, jnat s]

def reachJson : MpReachVal → Json
  | .ipv6Unicast a ll rs =>
    jobj ([("afi_safi", afiSafi 2 1), ("nexthop", ipJson a), ("nlri", jarr (rs.map u6Json))] ++
          (match ll with | some l => [("linklocal_nexthop", ipJson l)] | none => []))
  | .labeled af nh rs =>
    jobj [("afi_safi", afiSafi af.afi 4),
          ("nexthop", match nh with | some a => ipJson a | none => Json.str ""),
          ("nlri", jarr (rs.map luJson))]
  | .vpn af rd a rs =>
    jobj [("afi_safi", afiSafi af.afi 128), ("nexthop", jobj [("rd", rdJson rd), ("str", ipJson a)]),
          ("nlri", jarr (rs.map vpnJson))]
  | .other a s => jobj [("other", afiSafi a s)]

def unreachJson : MpUnreachVal → Json
  | .ipv6Unicast rs => jobj [("afi_safi", afiSafi 2 1), ("withdraw", jarr (rs.map u6Json))]
  | .labeled af rs => jobj [("afi_safi", afiSafi af.afi 4), ("withdraw", jarr (rs.map luJson))]
  | .labeledRaw af b => jobj [("afi_safi", afiSafi af.afi 4), ("withdraw", jobj [("raw", jhex b)])]
  | .vpn af rs => jobj [("afi_safi", afiSafi af.afi 128), ("withdraw", jarr (rs.map vpnJson))]
  | .other a s => jobj [("other", afiSafi a s)]

def rJson {α : Type} (f : α → Json) : R α → Json
  | .ok v => jobj [("ok", f v)]
  | .error (.upd s) => jobj [("err", jnat s)]
  | .error .other => jobj [("err", Json.str "other")]

def cresJson : CRes → Json
  | .ok b => jobj [("hex", jhex b)]
  | .none => jobj [("none", Json.bool true)]
  | .raise => jobj [("raise", Json.bool true)]

def optHexJson : Option Bytes → Json
  | some b => jobj [("hex", jhex b)]
  | none => jobj [("raise", Json.bool true)]

/-! ### reading -/

def readIp (j : Json) : Except String Ip := do
  match (← asList j) with
  | [v, n] =>
    let v ← v.getNat?
    let n ← n.getNat?
    if v = 4 then pure (.v4 n) else if v = 6 then pure (.v6 n) else throw "badvalue: address family"
  | _ => throw "badvalue: address"

def readPfx (j : Json) : Except String MPfx := do
  match (← asList j) with
  | [v, n, l] =>
    let a ← readIp (jarr [v, n])
    let l ← l.getInt?
    pure { addr := a, len := l }
  | _ => throw "badvalue: prefix"

def readRd (j : Json) : Except String Rd := do
  match (← asList j) with
  | [k, a, b] =>
    let k ← k.getStr?
    if k = "as" then pure (.asForm (← a.getNat?) (← b.getNat?))
    else if k = "ip" then pure (.ipForm (← a.getNat?) (← b.getNat?))
    else throw "badvalue: rd"
  | _ => throw "badvalue: rd"

def readPid (j : Json) : Except String (Option Nat) :=
  match j.getObjVal? "path_id" with
  | .ok p => do pure (some (← p.getNat?))
  | .error _ => pure none

def readLabels (j : Json) : Except String (List Nat) := do
  (← getArr j "label").mapM (·.getNat?)

def readU6 (j : Json) : Except String U6Route :=
  match j with
  | .arr _ => do pure { pfx := (← readPfx j) }
  | _ => do pure { pfx := (← readPfx (← j.getObjVal? "prefix")), pathId := (← readPid j) }

def readLu (withLabel : Bool) (j : Json) : Except String LuRoute := do
  let ls ← if withLabel then readLabels j else pure []
  pure { labels := ls, pfx := (← readPfx (← j.getObjVal? "prefix")), pathId := (← readPid j) }

def readVpn (withLabel : Bool) (j : Json) : Except String VpnRoute := do
  let ls ← if withLabel then readLabels j else pure []
  pure { labels := ls, rd := (← readRd (← j.getObjVal? "rd")),
         pfx := (← readPfx (← j.getObjVal? "prefix")), pathId := (← readPid j) }

def readAfiSafi (j : Json) : Except String (Nat × Nat) := do
  match (← getArr j "afi_safi") with
  | [a, s] => pure (← a.getNat?, ← s.getNat?)
  | _ => throw "badvalue: afi_safi"

def readReach (j : Json) : Except String MpReachVal := do
  let (a, s) ← readAfiSafi j
  match afOf a with
  | none => pure (.other a s)
  | some af =>
    if s = 128 then
      let nh ← j.getObjVal? "nexthop"
      pure (.vpn af (← readRd (← nh.getObjVal? "rd")) (← readIp (← nh.getObjVal? "str"))
              (← (← getArr j "nlri").mapM (readVpn true)))
    else if s = 4 then
      let nh ← j.getObjVal? "nexthop"
      let nh ← match nh with
        | .str _ => pure none
        | _ => do pure (some (← readIp nh))
      pure (.labeled af nh (← (← getArr j "nlri").mapM (readLu true)))
    else if a = 2 ∧ s = 1 then
      let ll ← match j.getObjVal? "linklocal_nexthop" with
        | .ok l => do pure (some (← readIp l))
        | .error _ => pure none
      pure (.ipv6Unicast (← readIp (← j.getObjVal? "nexthop")) ll (← (← getArr j "nlri").mapM readU6))
    else pure (.other a s)

def readUnreach (j : Json) : Except String MpUnreachVal := do
  let (a, s) ← readAfiSafi j
  match afOf a with
  | none => pure (.other a s)
  | some af =>
    if s = 128 then pure (.vpn af (← (← getArr j "withdraw").mapM (readVpn true)))
    else if s = 4 then pure (.labeled af (← (← getArr j "withdraw").mapM (readLu true)))
    else if a = 2 ∧ s = 1 then pure (.ipv6Unicast (← (← getArr j "withdraw").mapM readU6))
    else pure (.other a s)

/-! ### dispatch -/

def dispatchMp (st : MpDState) (j : Json) : Except String (MpDState × Json) := do
  let op ← getStr j "op"
  let st := { st with calls := st.calls + 1 }
  match op with
  | "mp.parse" => do
      let b ← getHex j "hex"
      let ap := getBoolD j "addpath" false
      if (← getNat j "attr") = 14 then pure (st, rJson reachJson (parseMpReach ap b))
      else pure (st, rJson unreachJson (parseMpUnreach ap b))
  | "mp.construct" => do
      let v ← j.getObjVal? "value"
      if (← getNat j "attr") = 14 then pure (st, cresJson (constructMpReachR (← readReach v)))
      else pure (st, cresJson (constructMpUnreachR (← readUnreach v)))
  | "mp.nlri.parse" => do
      let b ← getHex j "hex"
      let ap := getBoolD j "addpath" false
      let wd := getBoolD j "withdraw" false
      match (← getStr j "fam") with
      | "u6" => pure (st, rJson (fun rs => jarr (rs.map u6Json)) (parseU6 ap b))
      | "lu4" => pure (st, rJson (fun rs => jarr (rs.map luJson)) (parseLu .inet ap b))
      | "lu6" => pure (st, rJson (fun rs => jarr (rs.map luJson)) (parseLu .inet6 ap b))
      | "vpn4" => pure (st, rJson (fun rs => jarr (rs.map vpnJson)) (parseVpn .inet wd ap b))
      | "vpn6" => pure (st, rJson (fun rs => jarr (rs.map vpnJson)) (parseVpn .inet6 wd ap b))
      | f => throw s!"unknown family {f}"
  | "mp.nlri.construct" => do
      let rs ← getArr j "routes"
      let wd := getBoolD j "withdraw" false
      match (← getStr j "fam") with
      | "u6" => pure (st, optHexJson (constructU6 (← rs.mapM readU6)))
      | "lu4" => do
          let rs ← rs.mapM (readLu (!wd))
          pure (st, optHexJson (if wd then constructLuWithdrawR .inet rs else constructLuR .inet rs))
      | "lu6" => do
          let rs ← rs.mapM (readLu (!wd))
          pure (st, optHexJson (if wd then constructLuWithdrawR .inet6 rs else constructLuR .inet6 rs))
      | "vpn4" => pure (st, optHexJson (constructVpnR .inet wd (← rs.mapM (readVpn (!wd)))))
      | "vpn6" => pure (st, optHexJson (constructVpnR .inet6 wd (← rs.mapM (readVpn (!wd)))))
      | f => throw s!"unknown family {f}"
  | "mp.rd.parse" => do
      pure (st, match parseRd (← getHex j "hex") with
                | some rd => jobj [("ok", rdJson rd)]
                | none => jobj [("err", Json.str "other")])
  | "mp.rd.construct" => do
      pure (st, optHexJson (constructRd (← readRd (← j.getObjVal? "rd"))))
  | "mp.labels.parse" => do
      pure (st, jobj [("ok", jarr ((parseLabels (← getHex j "hex")).map jnat))])
  | "mp.labels.construct" => do
      let ls ← (← getArr j "labels").mapM (·.getNat?)
      pure (st, optHexJson (encLabels (if getBoolD j "vpn" false then encLastVpn else encLastLu) ls))
  | _ => throw s!"unknown op {op}"

end Yabgp.MpGlue
