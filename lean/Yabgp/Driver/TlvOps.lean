/-
  JSON ops for the parametric TLV-loop model (Yabgp/Model/Tlv.lean).  `dispatchTlv` is a pure function so that the
  shared driver (Yabgp/Driver/Ops.lean) can call it for every op that starts with "tlv."; TlvMain.lean wraps it into
  a standalone line-protocol process.  Imports only the model and Lean's JSON (no Lemmas/Props).

  requests                                                         responses
    {"op":"tlv.instances"}                                         {"instances":[{"name","hdr","skip"}..],
                                                                    "covered":[{"id","hash","adv","cover","what"}..],
                                                                    "ls_registered":[..],"ls_special":[..],
                                                                    "ls_two_arg":[..],"ls_no_unpack":[..],
                                                                    "nlri_known":[..],"psid":[..],"l3":[..],"sidinfo":[..]}
    {"op":"tlv.split","inst":NAME,"hex":DATA}                      the SPLIT of DATA (the bytes handed to the enclosing
                                                                    decoder; the instance's preamble is dropped first):
                                                                   {"items":[{"h":hex,"v":hex,"t":type,"l":length field,
                                                                              "call":"pro"|"plain"|"unknown"|"skip"}..],
                                                                    "stop":"done"|"short","rest":hex,"steps":n}
         optional "registered":[..] overrides the registry the "call" classification uses
    {"op":"tlv.deep","hex":DATA}                                   {"steps":n}  iterations over all nesting levels (BGP-LS attr)
    {"op":"tlv.range","start":a,"stop":b,"step":c}                 {"len":n} | {"raise":true}
    {"op":"tlv.place","items":[{"k":"mp","pro":n|null}|{"k":"ls","hex":H}|{"k":"other","code":c}..],
         "bad":[H..],"unrepaired":bool}                            where the BGP-LS attribute ends up in the attribute dict:
                                                                   {"ok":[[code,"val"|{"pro":n|null,"hex":H}]..]} |
                                                                   {"error":[[code,..]..]}  (LinkState.unpack failed on a "bad" H)
-/
import Lean.Data.Json
import Yabgp.Model.Tlv

namespace Yabgp.TlvGlue
open Lean (Json)
open Yabgp.Tlv

structure TlvDState where
  calls : Nat := 0

def jnat (n : Nat) : Json := Json.num (Lean.JsonNumber.fromNat n)
def jarr (xs : List Json) : Json := Json.arr xs.toArray
def jhex (b : Bytes) : Json := Json.str (toHex b)
def jnats (xs : List Nat) : Json := jarr (xs.map jnat)

def getNat (j : Json) (k : String) : Except String Nat := (j.getObjVal? k) >>= (·.getNat?)
def getStr (j : Json) (k : String) : Except String String := (j.getObjVal? k) >>= (·.getStr?)
def getHex (j : Json) (k : String) : Except String Bytes := do
  let s ← getStr j k
  match ofHex s with
  | some b => pure b
  | none => throw s!"bad hex in {k}"
def getBoolD (j : Json) (k : String) (d : Bool) : Bool :=
  match (j.getObjVal? k) >>= (·.getBool?) with
  | .ok b => b
  | .error _ => d
def getNatListOpt (j : Json) (k : String) : Except String (Option (List Nat)) :=
  match j.getObjVal? k with
  | .ok Json.null => pure none
  | .ok v => do
      let a ← v.getArr?
      pure (some (← a.toList.mapM (·.getNat?)))
  | .error _ => pure none

def findInstance (n : String) : Option Instance := instances.find? (fun i => i.name == n)

def callName : LsCall → String
  | .withPro => "pro"
  | .plain => "plain"
  | .unknown => "unknown"

/-- how the loop of the named instance treats the TLV type `t` -/
def callOf (inst : String) (registered : Option (List Nat)) (t : Nat) : String :=
  if inst == "ls.attr" then callName (lsCall (registered.getD lsRegistered) t)
  else if inst == "ls.srv6_end_x_sid" || inst == "ls.srv6_lan_end_x_sid.isis" || inst == "ls.srv6_lan_end_x_sid.ospf"
      || inst == "ls.srv6_locator" then callName (lsSubCall (registered.getD lsRegistered) t)
  else if inst == "bgpls.nlri" then (if t ∈ nlriKnown then "plain" else "skip")
  else if inst == "psid.attr" then (if t ∈ registered.getD prefixSidRegistered then "plain" else "unknown")
  else if inst == "psid.srv6_l3_service" then (if t ∈ registered.getD l3ServiceRegistered then "plain" else "unknown")
  else if inst == "psid.srv6_sid_information" then
    (if t ∈ registered.getD sidInformationRegistered then "plain" else "unknown")
  else "inline"

def splitJson (i : Instance) (registered : Option (List Nat)) (data : Bytes) : Json :=
  let r := i.split data
  let items := r.vals.map fun hv =>
    Json.mkObj [("h", jhex hv.1), ("v", jhex hv.2), ("t", jnat (i.shape.typ hv.1)), ("l", jnat (i.shape.len hv.1)),
                ("call", Json.str (callOf i.name registered (i.shape.typ hv.1)))]
  let (stop, rest) := match r.stop with
    | .done => ("done", ([] : Bytes))
    | .short x => ("short", x)
    | .fail _ _ _ => ("fail", [])
  Json.mkObj [("items", jarr items), ("stop", Json.str stop), ("rest", jhex rest), ("steps", jnat r.steps)]

def coverJson (c : Covered) : Json :=
  let (k, w) := match c.cover with
    | .tlv n => ("tlv", n)
    | .finite n => ("finite", n)
  Json.mkObj [("id", Json.str c.id), ("hash", Json.str (String.ofList (Nat.toDigits 16 c.hash))), ("adv", jnat c.adv),
              ("cover", Json.str k), ("what", Json.str w)]

def readItem (j : Json) : Except String (Item Unit) := do
  match ← getStr j "k" with
  | "mp" =>
      let p := match (j.getObjVal? "pro") >>= (·.getNat?) with
        | .ok n => some n
        | .error _ => none
      pure (.mpReach () p)
  | "ls" => pure (.linkState (← getHex j "hex"))
  | "other" => pure (.other (← getNat j "code") ())
  | k => throw s!"unknown item {k}"

def optNat : Option Nat → Json
  | some n => jnat n
  | none => Json.null

def decJson : Nat × Dec Unit (Option Nat × Bytes) → Json
  | (c, .val _) => jarr [jnat c, Json.str "val"]
  | (c, .ls (p, b)) => jarr [jnat c, Json.mkObj [("pro", optNat p), ("hex", jhex b)]]

def isTlvOp (op : String) : Bool := op.startsWith "tlv."

def dispatchTlv (d : TlvDState) (j : Json) : Except String (TlvDState × Json) := do
  let op ← getStr j "op"
  let d' := { d with calls := d.calls + 1 }
  match op with
  | "tlv.instances" =>
      pure (d', Json.mkObj [
        ("instances", jarr (instances.map fun i =>
          Json.mkObj [("name", Json.str i.name), ("hdr", jnat i.shape.hdr), ("skip", jnat i.skip)])),
        ("covered", jarr (coveredLoops.map coverJson)),
        ("ls_registered", jnats lsRegistered), ("ls_special", jnats lsSpecial),
        ("ls_two_arg", jnats lsTwoArg), ("ls_no_unpack", jnats lsNoUnpack),
        ("nlri_known", jnats nlriKnown), ("psid", jnats prefixSidRegistered),
        ("l3", jnats l3ServiceRegistered), ("sidinfo", jnats sidInformationRegistered)])
  | "tlv.split" =>
      let n ← getStr j "inst"
      match findInstance n with
      | none => throw s!"unknown instance {n}"
      | some i => pure (d', splitJson i (← getNatListOpt j "registered") (← getHex j "hex"))
  | "tlv.deep" =>
      pure (d', Json.mkObj [("steps", jnat (deepSteps tlv22 lsNest (← getHex j "hex")))])
  | "tlv.range" =>
      pure (d', match rangeLen (← getNat j "start") (← getNat j "stop") (← getNat j "step") with
                | some n => Json.mkObj [("len", jnat n)]
                | none => Json.mkObj [("raise", Json.bool true)])
  | "tlv.place" =>
      let items ← ((← (j.getObjVal? "items") >>= (·.getArr?)).toList.mapM readItem)
      let bad ← match j.getObjVal? "bad" with
        | .ok v => do
            let a ← v.getArr?
            a.toList.mapM fun x => do
              match ofHex (← x.getStr?) with
              | some b => pure b
              | none => throw "bad hex in bad"
        | .error _ => pure []
      let lsDec : Option Nat → Bytes → Except Unit (Option Nat × Bytes) :=
        fun p b => if b ∈ bad then .error () else .ok (p, b)
      pure (d', match parseAttrsLs (getBoolD j "unrepaired" false) lsDec items with
                | .ok attrs => Json.mkObj [("ok", jarr (attrs.map decJson))]
                | .error (_, part) => Json.mkObj [("error", jarr (part.map decJson))])
  | _ => throw s!"unknown op {op}"

end Yabgp.TlvGlue
