/-
  JSON glue between the typed models and the line protocol (DESIGN §3.2).  Not part of any
  theorem; validated by the correspondence check itself.
-/
import Lean.Data.Json
import Yabgp.Model.Update
import Yabgp.Model.Open
import Yabgp.Model.Session
import Yabgp.Model.Text

namespace Yabgp.Glue
open Lean (Json)

def str (cs : List Char) : Json := Json.str (String.ofList cs)
def nat (n : Nat) : Json := Json.num (Lean.JsonNumber.fromNat n)
def hex (b : Bytes) : Json := Json.str (toHex b)
def arr (xs : List Json) : Json := Json.arr xs.toArray
def obj (kvs : List (String × Json)) : Json := Json.mkObj kvs
def raise : Json := obj [("raise", Json.bool true)]

def getHex (j : Json) (k : String) : Except String Bytes := do
  let s ← (j.getObjVal? k) >>= (·.getStr?)
  match ofHex s with
  | some b => pure b
  | none => throw s!"bad hex in {k}"
def getNat (j : Json) (k : String) : Except String Nat := (j.getObjVal? k) >>= (·.getNat?)
def getBool (j : Json) (k : String) : Except String Bool := (j.getObjVal? k) >>= (·.getBool?)
def getBoolD (j : Json) (k : String) (d : Bool) : Bool :=
  match (j.getObjVal? k) >>= (·.getBool?) with
  | .ok b => b
  | .error _ => d
def getStr (j : Json) (k : String) : Except String String := (j.getObjVal? k) >>= (·.getStr?)
def getArr (j : Json) (k : String) : Except String (List Json) := do
  let a ← (j.getObjVal? k) >>= (·.getArr?)
  pure a.toList
def asList (j : Json) : Except String (List Json) := do let a ← j.getArr?; pure a.toList

/-! ### rendering model values the way the canonicaliser renders Python's -/

def pfxJson (p : Pfx) : Json :=
  let s := Text.ipv4Str p.addr ++ ['/'] ++ Text.decStr p.len
  match p.pathId with
  | none => str s
  | some pid => obj [("path_id", nat pid), ("prefix", str s)]

def attrValJson : AttrVal → Json
  | .origin n => nat n
  | .asPath segs => arr (segs.map fun s => arr [nat s.1, arr (s.2.map nat)])
  | .nextHop ip => str (Text.ipv4Str ip)
  | .med n => nat n
  | .localPref n => nat n
  | .atomicAgg => Json.str ""
  | .aggregator a ip => arr [nat a, str (Text.ipv4Str ip)]
  | .community cs => arr (cs.map fun c => str (Text.commStr c))
  | .originatorId ip => str (Text.ipv4Str ip)
  | .clusterList ips => arr (ips.map fun ip => str (Text.ipv4Str ip))
  | .largeCommunity xs => arr (xs.map fun t => str (Text.largeStr t))
  | .raw b => hex b
  | .unmodelled c => obj [("unmodelled", nat c)]

/-- attribute dictionaries travel as arrays of [code, value], sorted by code on output -/
def attrsJson (d : List (Nat × AttrVal)) : Json :=
  let sorted := d.toArray.qsort (fun a b => a.1 < b.1)
  Json.arr (sorted.map fun kv => arr [nat kv.1, attrValJson kv.2])

def optNat : Option Nat → Json
  | none => Json.null
  | some n => nat n

def updResultJson : Option UpdResult → Json
  | none => raise
  | some r => obj [("withdraw", arr (r.withdraw.map pfxJson)), ("nlri", arr (r.nlri.map pfxJson)),
                   ("attr", attrsJson r.attr), ("sub_error", optNat r.subError)]

def rAttrJson : R AttrVal → Json
  | .ok v => obj [("ok", attrValJson v)]
  | .error (.upd s) => obj [("err", nat s)]
  | .error .other => obj [("err", Json.str "other")]

def optHex : Option Bytes → Json
  | none => raise
  | some b => obj [("hex", hex b)]

/-! ### reading Python-shaped values -/

def parsePfxStr (s : String) : Except String (Nat × Nat) :=
  match Text.splitOnFirst '/' s.toList with
  | some (a, l) =>
    match Text.parseIpv4 a, Text.parseDec l with
    | some a, some l => pure (a, l)
    | _, _ => throw s!"bad prefix {s}"
  | none => throw s!"bad prefix {s}"

def readPfx (j : Json) : Except String Pfx :=
  match j with
  | .str s => do let (a, l) ← parsePfxStr s; pure { addr := a, len := l }
  | _ => do
    let s ← getStr j "prefix"
    let pid ← getNat j "path_id"
    let (a, l) ← parsePfxStr s
    pure { addr := a, len := l, pathId := some pid }

def readIp (j : Json) : Except String Nat := do
  let s ← j.getStr?
  match Text.parseIpv4 s.toList with
  | some x => pure x
  | none => throw s!"bad ip {s}"

def readNatList (j : Json) : Except String (List Nat) := do
  let xs ← asList j
  xs.mapM (·.getNat?)

/-- a value no branch of the glue can read is reported as `badvalue`: the harness must not
    generate it for the model (it is counted as skipped, never compared) -/
def readAttrVal (code : Nat) (j : Json) : Except String AttrVal :=
  if code = 1 then do pure (.origin (← j.getNat?))
  else if code = 2 ∨ code = 17 then do
    let segs ← asList j
    let segs ← segs.mapM fun s => do
      let pr ← asList s
      match pr with
      | [t, xs] => do pure ((← t.getNat?), (← readNatList xs))
      | _ => throw "bad segment"
    pure (.asPath segs)
  else if code = 3 then do pure (.nextHop (← readIp j))
  else if code = 4 then do pure (.med (← j.getNat?))
  else if code = 5 then do pure (.localPref (← j.getNat?))
  else if code = 6 then pure .atomicAgg
  else if code = 7 ∨ code = 18 then do
    match (← asList j) with
    | [a, ip] => do pure (.aggregator (← a.getNat?) (← readIp ip))
    | _ => throw "bad aggregator"
  else if code = 8 then do
    let xs ← asList j
    let cs ← xs.mapM fun c => do
      let s ← c.getStr?
      match Text.parseComm s.toList with
      | some v => pure v
      | none => throw s!"bad community {s}"
    pure (.community cs)
  else if code = 9 then do pure (.originatorId (← readIp j))
  else if code = 10 then do
    let xs ← asList j
    pure (.clusterList (← xs.mapM readIp))
  else if code = 32 then do
    let xs ← asList j
    let ts ← xs.mapM fun c => do
      let s ← c.getStr?
      match Text.parseLarge s.toList with
      | some v => pure v
      | none => throw s!"bad large community {s}"
    pure (.largeCommunity ts)
  else pure (.unmodelled code)

def readAttrs (j : Json) : Except String (List (Nat × AttrVal)) := do
  let xs ← asList j
  xs.mapM fun kv => do
    match (← asList kv) with
    | [k, v] => do
      let code ← k.getNat?
      pure (code, (← readAttrVal code v))
    | _ => throw "bad attr pair"

def readUpdMsg (j : Json) : Except String UpdMsg := do
  let attr ← match j.getObjVal? "attr" with
    | .ok a => readAttrs a
    | .error _ => pure []
  let nlri ← match j.getObjVal? "nlri" with
    | .ok a => do (← asList a).mapM readPfx
    | .error _ => pure []
  let wd ← match j.getObjVal? "withdraw" with
    | .ok a => do (← asList a).mapM readPfx
    | .error _ => pure []
  pure { attr := attr, nlri := nlri, withdraw := wd }

end Yabgp.Glue

/-! ### OPEN and the small messages -/
namespace Yabgp.Glue
open Lean (Json)

def triple (t : Nat × Nat × Nat) : Json := arr [nat t.1, nat t.2.1, nat t.2.2]

def capaDictJson (d : CapaDict) : Json :=
  let kvs : List (String × Json) :=
    (if d.fourBytesAs then [("four_bytes_as", Json.bool true)] else []) ++
    (match d.afiSafi with | some l => [("afi_safi", arr (l.map fun p => arr [nat p.1, nat p.2]))] | none => []) ++
    (if d.routeRefresh then [("route_refresh", Json.bool true)] else []) ++
    (if d.ciscoRouteRefresh then [("cisco_route_refresh", Json.bool true)] else []) ++
    (if d.gracefulRestart then [("graceful_restart", Json.bool true)] else []) ++
    (if d.ciscoMultiSession then [("cisco_multi_session", Json.bool true)] else []) ++
    (if d.enhancedRouteRefresh then [("enhanced_route_refresh", Json.bool true)] else []) ++
    (match d.addPath with | some l => [("add_path", arr (l.map triple))] | none => []) ++
    (match d.llgr with | some l => [("LLGR", arr (l.map triple))] | none => []) ++
    (match d.extNexthop with | some l => [("ext_nexthop", arr (l.map triple))] | none => []) ++
    (if d.unknown.isEmpty then [] else
      [("unknown", Json.arr ((d.unknown.toArray.qsort (fun a b => a.1 < b.1)).map fun kv => arr [nat kv.1, hex kv.2]))])
  obj kvs

def oerrJson : OErr → Json
  | .hdr s => obj [("err", Json.str "hdr"), ("sub", nat s)]
  | .open s => obj [("err", Json.str "open"), ("sub", nat s)]
  | .other => obj [("err", Json.str "other")]

def openResultJson : Except OErr OpenMsg → Json
  | .ok m => obj [("ok", obj [("version", nat m.version), ("asn", nat m.asn), ("hold_time", nat m.holdTime),
                              ("bgp_id", str (Text.ipv4Str m.bgpId)), ("capabilities", capaDictJson m.caps)])]
  | .error e => oerrJson e

def getOptArr (j : Json) (k : String) : Except String (Option (List Json)) :=
  match j.getObjVal? k with
  | .ok Json.null => pure none
  | .ok v => do pure (some (← asList v))
  | .error _ => pure none

def readPair (j : Json) : Except String (Nat × Nat) := do
  match (← asList j) with
  | [a, b] => pure ((← a.getNat?), (← b.getNat?))
  | _ => throw "bad pair"
def readTriple (j : Json) : Except String (Nat × Nat × Nat) := do
  match (← asList j) with
  | [a, b, c] => pure ((← a.getNat?), (← b.getNat?), (← c.getNat?))
  | _ => throw "bad triple"

def readLocalCaps (j : Json) : Except String LocalCaps := do
  let mp ← getOptArr j "afi_safi"
  let mp ← match mp with | some l => do pure (some (← l.mapM readPair)) | none => pure none
  let enh ← getOptArr j "ext_nexthop"
  let enh ← match enh with | some l => do pure (some (← l.mapM readTriple)) | none => pure none
  let ap := match (j.getObjVal? "add_path") >>= (·.getNat?) with | .ok n => some n | .error _ => none
  pure { afiSafi := mp, ciscoRouteRefresh := getBoolD j "cisco_route_refresh" false,
         routeRefresh := getBoolD j "route_refresh" false, fourBytesAs := getBoolD j "four_bytes_as" false,
         extNexthop := enh, addPath := ap, enhancedRouteRefresh := getBoolD j "enhanced_route_refresh" false,
         gracefulRestart := getBoolD j "graceful_restart" false,
         ciscoMultiSession := getBoolD j "cisco_multi_session" false }

end Yabgp.Glue

/-! ### session model -/
namespace Yabgp.Glue
open Lean (Json)

def stName : St → String
  | .idle => "IDLE" | .connect => "CONNECT" | .active => "ACTIVE" | .openSent => "OPENSENT"
  | .openConfirm => "OPENCONFIRM" | .established => "ESTABLISHED"

def phaseName : Phase → String
  | .connecting => "connecting" | .connected => "connected" | .closing => "closing" | .closed => "disconnected"

def statsJson (st : Stats) : Json :=
  obj [("Opens", nat st.opens), ("Notifications", nat st.notifications), ("Updates", nat st.updates),
       ("Keepalives", nat st.keepalives), ("RouteRefresh", nat st.routeRefresh)]

def hasUnmodelled (d : List (Nat × AttrVal)) : Bool :=
  d.any fun kv => match kv.2 with | .unmodelled _ => true | _ => false

def updClassOf (asn4 : Bool) (body : Bytes) : UpdClass :=
  match parseUpdate asn4 false body with
  | none => .raises
  | some r =>
    if hasUnmodelled r.attr then .unmodelled
    else match r.subError with
      | some _ => .malformed
      | none => .good

def openMsgJson (m : OpenMsg) : Json :=
  obj [("version", nat m.version), ("asn", nat m.asn), ("hold_time", nat m.holdTime),
       ("bgp_id", str (Text.ipv4Str m.bgpId)), ("capabilities", capaDictJson m.caps)]

def afiSafiName (r : UpdResult) : Json :=
  if !r.nlri.isEmpty || !r.withdraw.isEmpty then Json.str "ipv4" else Json.null

def outJson : Out → Json
  | .write c b => arr [Json.str "write", nat c, hex b]
  | .lose c => arr [Json.str "lose", nat c]
  | .connect c => arr [Json.str "connect", nat c]
  | .hEstablished => arr [Json.str "handler", Json.str "established"]
  | .hConnLost c => arr [Json.str "handler", Json.str "conn_lost", nat c]
  | .hConnFailed => arr [Json.str "handler", Json.str "conn_failed"]
  | .hSendOpen c asn hold id =>
      arr [Json.str "handler", Json.str "send_open", nat c,
           obj [("version", nat 4), ("asn", nat asn), ("hold_time", nat hold), ("bgp_id", str (Text.ipv4Str id))]]
  | .hOpen c m => arr [Json.str "handler", Json.str "open", nat c, openMsgJson m]
  | .hKeepalive c => arr [Json.str "handler", Json.str "keepalive", nat c]
  | .hNotification c d => arr [Json.str "handler", Json.str "notification", nat c, hex d]
  | .hUpdate c asn4 body =>
      match parseUpdate asn4 false body with
      | some r => arr [Json.str "handler", Json.str "update", nat c,
                       obj [("attr", attrsJson r.attr), ("nlri", arr (r.nlri.map pfxJson)),
                            ("withdraw", arr (r.withdraw.map pfxJson)), ("afi_safi", afiSafiName r)]]
      | none => arr [Json.str "handler", Json.str "update", nat c, Json.null]
  | .hUpdateError c body => arr [Json.str "handler", Json.str "update_error", nat c, hex body]
  | .hRouteRefresh c a r s ty => arr [Json.str "handler", Json.str "route_refresh", nat c, arr [nat a, nat r, nat s, nat ty]]
  | .retStart v => arr [Json.str "ret", Json.str "start", if v = 2 then Json.str "EST" else Json.bool (v = 1)]
  | .retStop => arr [Json.str "ret", Json.str "stop", Json.bool true]
  | .escaped => arr [Json.str "escaped"]
  | .unmodelled => arr [Json.str "unmodelled"]

def timersJson (tm : Timers) : Json :=
  obj ((match tm.retry with | some d => [("retry", arr [nat d])] | none => []) ++
       (match tm.hold with | some d => [("hold", arr [nat d])] | none => []) ++
       (match tm.keepalive with | some d => [("keepalive", arr [nat d])] | none => []) ++
       (match tm.idleHold with | some d => [("idlehold", arr [nat d])] | none => []))

def obsJson (s : Sess) : Json :=
  obj [("state", Json.str (stName s.st)), ("now", nat s.now), ("timers", timersJson s.tm),
       ("stats", match s.proto with
                 | some i => obj [("send", statsJson (s.conn i).sent), ("receive", statsJson (s.conn i).recv)]
                 | none => Json.null),
       ("conns", arr (s.conns.map fun c => Json.str (phaseName c.phase))),
       ("proto", optNat s.proto),
       ("outs", arr (s.outs.map outJson))]

def readCfg (j : Json) : Except String Cfg := do
  pure { localAs := (← getNat j "local_as"), remoteAs := (← getNat j "remote_as"), holdCfg := (← getNat j "hold_time"),
         retryT := (← getNat j "connect_retry_time"), idleHoldT := (← getNat j "idle_hold_time"),
         localId := (← getNat j "local_id"), caps0 := (← readLocalCaps (← j.getObjVal? "caps")) }

def readEv (j : Json) : Except String Ev := do
  let k ← getStr j "k"
  match k with
  | "boot" => pure .boot
  | "start" => pure .manualStart
  | "stop" => pure .manualStop
  | "connok" => pure (.connOk (← getNat j "c"))
  | "connfail" => pure (.connFail (← getNat j "c"))
  | "chunk" => pure (.chunk (← getNat j "c") (← getHex j "hex"))
  | "lost" => pure (.lost (← getNat j "c"))
  | "advance" => pure (.advance (← getNat j "dt"))
  | "fire" => do
      let t ← getStr j "t"
      match t with
      | "retry" => pure (.fire .retry)
      | "hold" => pure (.fire .hold)
      | "keepalive" => pure (.fire .keepalive)
      | "idlehold" => pure (.fire .idleHold)
      | _ => throw s!"bad timer {t}"
  | _ => throw s!"bad event {k}"

end Yabgp.Glue
