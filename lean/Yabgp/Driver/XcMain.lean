/-
  Standalone line-protocol process for the extended-community / community-text models (until the "extcomm.*",
  "commtext.*", "largetext.*", "xc.*" and "spec.rfcextcomm" ops are wired into the shared native driver):
    cd /verif/lean && lake env lean --run Yabgp/Driver/XcMain.lean
  one JSON request per line on stdin, one JSON response per line on stdout, flushed after every line.
-/
import Yabgp.Driver.XcOps

open Lean (Json)

partial def xcLoop (h : IO.FS.Stream) (out : IO.FS.Stream) (st : Yabgp.XcGlue.XcState) : IO Unit := do
  let line ← h.getLine
  if line.isEmpty then return ()
  let (st', resp) :=
    match Json.parse line with
    | .error e => (st, Json.mkObj [("error", Json.str s!"json: {e}")])
    | .ok j =>
      match Yabgp.XcGlue.dispatchXc st j with
      | .ok r => r
      | .error e => (st, Json.mkObj [("error", Json.str e)])
  out.putStrLn resp.compress
  out.flush
  xcLoop h out st'

def main : IO Unit := do
  let out ← IO.getStdout
  xcLoop (← IO.getStdin) out {}
  out.flush
