/-
  Standalone line-protocol process for the multiprotocol NLRI models (until "mp.*" is wired into the shared
  native driver):   cd /verif/lean && lake env lean --run Yabgp/Driver/MpMain.lean
  one JSON request per line on stdin, one JSON response per line on stdout, flushed after every line.
-/
import Yabgp.Driver.MpOps

open Lean (Json)

partial def mpLoop (h : IO.FS.Stream) (out : IO.FS.Stream) (st : Yabgp.MpGlue.MpDState) : IO Unit := do
  let line ← h.getLine
  if line.isEmpty then return ()
  let (st', resp) :=
    match Json.parse line with
    | .error e => (st, Json.mkObj [("error", Json.str s!"json: {e}")])
    | .ok j =>
      match Yabgp.MpGlue.dispatchMp st j with
      | .ok r => r
      | .error e => (st, Json.mkObj [("error", Json.str e)])
  out.putStrLn resp.compress
  out.flush
  mpLoop h out st'

def main : IO Unit := do
  let out ← IO.getStdout
  mpLoop (← IO.getStdin) out {}
  out.flush
