/-
  Standalone line-protocol process for the C08 ops (walker + guarded constructor models), until they are wired
  into the shared native driver:   cd /verif/lean && lake env lean --run Yabgp/Driver/C08Main.lean
-/
import Yabgp.Driver.C08Ops
import Yabgp.Driver.C08XcOps

open Lean (Json)

partial def c08Loop (h : IO.FS.Stream) (out : IO.FS.Stream) (st : Yabgp.C08Glue.C08State) : IO Unit := do
  let line ← h.getLine
  if line.isEmpty then return ()
  let (st', resp) :=
    match Json.parse line with
    | .error e => (st, Json.mkObj [("error", Json.str s!"json: {e}")])
    | .ok j =>
      if (match j.getObjVal? "op" >>= (·.getStr?) with | .ok o => o == "c08.extcomm.construct" | .error _ => false) then
        match Yabgp.C08XcGlue.dispatchC08Xc j with
        | .ok r => (st, r)
        | .error e => (st, Json.mkObj [("error", Json.str e)])
      else
      match Yabgp.C08Glue.dispatchC08 st j with
      | .ok r => r
      | .error e => (st, Json.mkObj [("error", Json.str e)])
  out.putStrLn resp.compress
  out.flush
  c08Loop h out st'

def main : IO Unit := do
  let out ← IO.getStdout
  c08Loop (← IO.getStdin) out {}
  out.flush
