/-
  Stand-alone line-protocol driver for the message-log model (C20), used until the ops are wired into the
  shared native driver:   cd /verif/lean && lake env lean --run Yabgp/Driver/MsgLogMain.lean
-/
import Yabgp.Driver.MsgLogOps

open Lean (Json)
open Yabgp.Glue.MsgLogOps

partial def msgLogLoop (h : IO.FS.Stream) (out : IO.FS.Stream) (st : MsgLogState) : IO Unit := do
  let line ← h.getLine
  if line.isEmpty then return ()
  let (st', resp) :=
    match Json.parse line with
    | .error e => (st, Json.mkObj [("error", Json.str s!"json: {e}")])
    | .ok j =>
      match dispatchMsgLog st j with
      | .ok r => r
      | .error e => (st, Json.mkObj [("error", Json.str e)])
  out.putStrLn resp.compress
  out.flush
  msgLogLoop h out st'

def main : IO Unit := do
  let out ← IO.getStdout
  msgLogLoop (← IO.getStdin) out {}
  out.flush
