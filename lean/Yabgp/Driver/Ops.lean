/-
  Request dispatcher of the driver.
-/
import Yabgp.Driver.Json

namespace Yabgp.Glue
open Lean (Json)

/-- driver state (the session model lives here later) -/
structure DState where
  dummy : Unit := ()

def dispatch (st : DState) (j : Json) : Except String (DState × Json) := do
  let op ← getStr j "op"
  match op with
  | "ping" => pure (st, obj [("pong", Json.bool true)])
  | "upd.parse" => do
      let b ← getHex j "hex"
      pure (st, updResultJson (parseUpdate (getBoolD j "asn4" false) (getBoolD j "addpath" false) b))
  | "upd.construct" => do
      let m ← readUpdMsg (← j.getObjVal? "msg")
      pure (st, optHex (constructUpdate (getBoolD j "asn4" false) (getBoolD j "addpath" false) m))
  | "attr.parse" => do
      let b ← getHex j "hex"
      let code ← getNat j "code"
      pure (st, rAttrJson (parseAttrValue (getBoolD j "asn4" false) code b))
  | "attr.construct" => do
      let code ← getNat j "code"
      let v ← readAttrVal code (← j.getObjVal? "value")
      pure (st, optHex (if code ∈ constructCodes then constructAttr (getBoolD j "asn4" false) code v else none))
  | "pfx.parse" => do
      let b ← getHex j "hex"
      pure (st, match parsePrefixList (getBoolD j "addpath" false) b with
                | some ps => obj [("ok", arr (ps.map pfxJson))]
                | none => raise)
  | "pfx.construct" => do
      let ps ← (← getArr j "prefixes").mapM readPfx
      pure (st, optHex (constructPrefixV4 (getBoolD j "addpath" false) ps))
  | _ => throw s!"unknown op {op}"

end Yabgp.Glue
