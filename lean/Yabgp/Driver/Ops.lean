/-
  Request dispatcher of the driver.
-/
import Yabgp.Driver.Json
import Yabgp.Driver.Spec
import Yabgp.Driver.RibOps
import Yabgp.Driver.MsgLogOps
import Yabgp.Driver.MpOps
import Yabgp.Driver.RestOps
import Yabgp.Driver.EvfOps
import Yabgp.Driver.XcOps
import Yabgp.Driver.TlvOps
import Yabgp.Driver.C08Ops
import Yabgp.Driver.C08XcOps

namespace Yabgp.Glue
open Lean (Json)

/-- driver state (the session model lives here later) -/
structure DState where
  sess : Option World := none
  rib : Yabgp.RibGlue.RibDState := {}
  msglog : MsgLogOps.MsgLogState := {}
  rest : Yabgp.RestGlue.RestState := {}
  evf : Yabgp.EvfGlue.EvfDState := {}
  xc : XcGlue.XcState := {}
  tlv : Yabgp.TlvGlue.TlvDState := {}

def dispatch (st : DState) (j : Json) : Except String (DState × Json) := do
  let op ← getStr j "op"
  if Yabgp.RibGlue.isRibOp op then
    let (r, out) ← Yabgp.RibGlue.dispatchRib st.rib j
    return ({ st with rib := r }, out)
  if op == "c08.extcomm.construct" then
    return (st, ← Yabgp.C08XcGlue.dispatchC08Xc j)
  if op.startsWith "c08." || op.startsWith "spec.walk" then
    let (_, r) ← Yabgp.C08Glue.dispatchC08 {} j
    return (st, r)
  if Yabgp.TlvGlue.isTlvOp op then
    let (t', r) ← Yabgp.TlvGlue.dispatchTlv st.tlv j
    return ({ st with tlv := t' }, r)
  if op.startsWith "extcomm." || op.startsWith "commtext." || op.startsWith "largetext." || op.startsWith "xc."
      || op == "spec.rfcextcomm" || op == "spec.rfcextattr" then
    let (x, r) ← XcGlue.dispatchXc st.xc j
    return ({ st with xc := x }, r)
  if op.startsWith "evpn." || op.startsWith "flowspec." || op.startsWith "evf." then
    let (e', r) ← Yabgp.EvfGlue.dispatchEvf st.evf j
    return ({ st with evf := e' }, r)
  if op.startsWith "rest." then
    let r ← Yabgp.RestGlue.dispatchRest st.rest j
    return ({ st with rest := r.1 }, r.2)
  if op.startsWith "mp." then
    let (_, r) ← Yabgp.MpGlue.dispatchMp {} j
    return (st, r)
  if op.startsWith "msglog." || op == "spec.logaudit" then
    let (ml, r) ← MsgLogOps.dispatchMsgLog st.msglog j
    return ({ st with msglog := ml }, r)
  match op with
  | "ping" => pure (st, obj [("pong", Json.bool true)])
  | "upd.parse" => do
      let b ← getHex j "hex"
      pure (st, updResultJson (parseUpdate (getBoolD j "asn4" false) (getBoolD j "addpath" false) b))
  | "upd.construct" => do
      let m ← readUpdMsg (← j.getObjVal? "msg")
      pure (st, optHex (constructUpdateR (getBoolD j "asn4" false) (getBoolD j "addpath" false) m))
  | "attr.parse" => do
      let b ← getHex j "hex"
      let code ← getNat j "code"
      pure (st, rAttrJson (parseAttrValue (getBoolD j "asn4" false) code b))
  | "attr.construct" => do
      let code ← getNat j "code"
      let v ← readAttrVal code (← j.getObjVal? "value")
      pure (st, optHex (if code ∈ constructCodes then constructAttr (getBoolD j "asn4" false) code v else none))
  | "pfx.parse" => do
      let b ← getHex j "hex"
      pure (st, match parsePrefixList (getBoolD j "addpath" false) b with
                | some ps => obj [("ok", arr (ps.map pfxJson))]
                | none => raise)
  | "pfx.construct" => do
      let ps ← (← getArr j "prefixes").mapM readPfx
      pure (st, optHex (constructPrefixV4R (getBoolD j "addpath" false) ps))
  | "open.parse" => do
      pure (st, openResultJson (parseOpen (← getHex j "hex")))
  | "open.construct" => do
      let caps ← readLocalCaps (← j.getObjVal? "caps")
      pure (st, optHex (constructOpen (← getNat j "version") (← getNat j "asn") (← getNat j "hold_time")
                          (← getNat j "bgp_id") caps))
  | "notif.parse" => do
      pure (st, match parseNotification (← getHex j "hex") with
                | some (e, s, d) => obj [("ok", arr [nat e, nat s, hex d])]
                | none => raise)
  | "notif.construct" => do
      pure (st, optHex (constructNotification (← getNat j "error") (← getNat j "sub") (← getHex j "data")))
  | "keepalive.parse" => do
      pure (st, match parseKeepalive (← getHex j "hex") with
                | .ok _ => obj [("ok", Json.null)]
                | .error e => oerrJson e)
  | "keepalive.construct" => pure (st, obj [("hex", hex constructKeepalive)])
  | "rr.parse" => do
      pure (st, match parseRouteRefresh (← getHex j "hex") with
                | some (a, r, s) => obj [("ok", arr [nat a, nat r, nat s])]
                | none => raise)
  | "rr.construct" => do
      pure (st, optHex (constructRouteRefresh (← getNat j "type") (← getNat j "afi") (← getNat j "res") (← getNat j "safi")))
  | "sess.reset" => do
      let cfg ← readCfg (← j.getObjVal? "cfg")
      pure ({ st with sess := some (bootWorld cfg) }, obj [("ok", Json.bool true)])
  | "sess.enabled" => do
      match st.sess with
      | none => throw "no session"
      | some w => pure (st, obj [("enabled", Json.bool (enabled w.sess (← readEv (← j.getObjVal? "ev"))))])
  | "sess.ev" => do
      match st.sess with
      | none => throw "no session"
      | some w =>
        let ev ← readEv (← j.getObjVal? "ev")
        if enabled w.sess ev then
          let w' := step updClassOf w ev
          pure ({ st with sess := some w' }, obsJson w'.sess)
        else pure (st, obj [("disabled", Json.bool true)])
  | "spec.refopen" => do pure (st, ← specRefOpen j)
  | "spec.refupdate" => do pure (st, ← specRefUpdate j)
  | _ => throw s!"unknown op {op}"

end Yabgp.Glue
