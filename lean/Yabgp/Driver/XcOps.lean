/-
  JSON ops for the extended-community / community-text models (Yabgp/Model/ExtComm.lean, Yabgp/Model/Text.lean)
  and the reference encoding Yabgp/Spec/RfcExtComm.lean.  `dispatchXc` is a pure function so that the shared
  driver (Yabgp/Driver/Ops.lean) can call it for every op starting with "extcomm.", "commtext.", "largetext.",
  "xc." or equal to "spec.rfcextcomm"; XcMain.lean wraps it into a standalone line-protocol process.
  Imports only models, the spec and Lean's JSON (no Lemmas/Props, no Mathlib).

    {"op":"extcomm.parse","hex":H}                       -> {"ok":[ "text" | [0,"hex of value_tmp"] ...]} | {"err":5|"other"}
    {"op":"extcomm.construct","items":[ITEM..]}          -> {"hex":H} | {"none":true} | {"raise":true}
    {"op":"extcomm.translate","texts":[..],"caps":CAPS}  -> {"ok":[ITEM..]} | {"refused":n} | {"raise":true}
    {"op":"extcomm.rest","texts":[..],"caps":CAPS}       -> {"hex":H} | {"refused":n} | {"raise":true}
    {"op":"extcomm.tables"}                              -> the three constant tables the model hard-codes
    {"op":"spec.rfcextcomm","kind":K,"fields":[..]}      -> {"hex":H,"inrange":b,"as4":b,"text":S}
    {"op":"spec.rfcextattr","list":[{"kind":K,"fields":[..]}..]} -> {"hex":H}
    {"op":"commtext.construct","texts":[..]} / {"op":"largetext.construct","texts":[..]} -> {"hex":H} | {"raise":true}
    {"op":"commtext.parse","hex":H} / {"op":"largetext.parse","hex":H}                   -> {"ok":[..]} | {"err":..}
    {"op":"xc.pyint","s":S} {"op":"xc.pyhex","s":S} {"op":"xc.ipv4","s":S} {"op":"xc.strip","s":S} {"op":"xc.lower","s":S}
    {"op":"xc.split","s":S,"sep":C} {"op":"xc.split1","s":S,"sep":C} {"op":"xc.packf","i":n} {"op":"xc.unpackf","bits":n}
  ITEM = [code,"s"] | [code,n] | [code,a,b] | [2048,"ip",n] | [32775,{"s":n,"t":n}]     CAPS = {"remote":b,"four":b}
-/
import Lean.Data.Json
import Yabgp.Model.ExtComm
import Yabgp.Model.Construct.ExtCommGuard
import Yabgp.Spec.RfcExtComm

namespace Yabgp.XcGlue
open Lean (Json)
open Yabgp.ExtComm

/-- no state is needed; kept so that the signature matches the other dispatchers -/
structure XcState where
  calls : Nat := 0

def jnat (n : Nat) : Json := Json.num (Lean.JsonNumber.fromNat n)
def jint (i : Int) : Json := Json.num (Lean.JsonNumber.fromInt i)
def jarr (xs : List Json) : Json := Json.arr xs.toArray
def jstr (cs : List Char) : Json := Json.str (String.ofList cs)
def jhex (b : Bytes) : Json := Json.str (toHex b)
def jobj (kvs : List (String × Json)) : Json := Json.mkObj kvs
def jraise : Json := jobj [("raise", Json.bool true)]

def getStr (j : Json) (k : String) : Except String String := (j.getObjVal? k) >>= (·.getStr?)
def getNat (j : Json) (k : String) : Except String Nat := (j.getObjVal? k) >>= (·.getNat?)
def getInt (j : Json) (k : String) : Except String Int := (j.getObjVal? k) >>= (·.getInt?)
def getChars (j : Json) (k : String) : Except String (List Char) := do pure (← getStr j k).toList
def getArr (j : Json) (k : String) : Except String (List Json) := do
  let a ← (j.getObjVal? k) >>= (·.getArr?)
  pure a.toList
def getHex (j : Json) (k : String) : Except String Bytes := do
  match ofHex (← getStr j k) with
  | some b => pure b
  | none => throw s!"bad hex in {k}"
def getTexts (j : Json) (k : String) : Except String (List (List Char)) := do
  (← getArr j k).mapM fun t => do pure (← t.getStr?).toList
def getSep (j : Json) : Except String Char := do
  match (← getStr j "sep").toList with
  | [c] => pure c
  | _ => throw "sep must be one character"

def optIntField (j : Json) (k : String) : Except String (Option Int) :=
  match j.getObjVal? k with
  | .ok v => do pure (some (← v.getInt?))
  | .error _ => pure none

def readItem (j : Json) : Except String Item := do
  let a ← j.getArr?
  match a.toList with
  | [c, Json.str s] => pure (.str (← c.getNat?) s.toList)
  | [c, Json.num n] => pure (.num (← c.getNat?) (← (Json.num n).getInt?))
  | [_, Json.obj o] => pure (.action (← optIntField (Json.obj o) "s") (← optIntField (Json.obj o) "t"))
  | [_, Json.str ip, f] => pure (.nh ip.toList (← f.getInt?))
  | [c, x, y] => pure (.num2 (← c.getNat?) (← x.getInt?) (← y.getInt?))
  | _ => throw "bad item"

def itemJson : Item → Json
  | .str c s => jarr [jnat c, jstr s]
  | .num c n => jarr [jnat c, jint n]
  | .num2 c a b => jarr [jnat c, jint a, jint b]
  | .nh ip f => jarr [jnat 2048, jstr ip, jint f]
  | .action s t =>
    jarr [jnat 32775, jobj ((match s with | some i => [("s", jint i)] | none => []) ++
                            (match t with | some i => [("t", jint i)] | none => []))]

def readPeer (j : Json) : Except String Peer := do
  let c ← j.getObjVal? "caps"
  pure { remoteCaps := ← (c.getObjVal? "remote") >>= (·.getBool?),
         fourBytesAs := ← (c.getObjVal? "four") >>= (·.getBool?) }

def errJson : Err → Json
  | .upd s => jobj [("err", jnat s)]
  | .other => jobj [("err", Json.str "other")]

def renderedJson : Rendered → Json
  | .text s => jstr s
  | .unknown v => jarr [jnat 0, jhex v]

def trJson {α : Type} (f : α → Json) : Tr α → Json
  | .ok a => f a
  | .refused w => jobj [("refused", jnat w)]
  | .raises => jraise

def optHex : Option Bytes → Json
  | some b => jobj [("hex", jhex b)]
  | none => jraise

def textsResult : R (List (List Char)) → Json
  | .ok ts => jobj [("ok", jarr (ts.map jstr))]
  | .error e => errJson e

open Yabgp.RfcExt in
def readEC (j : Json) : Except String EC := do
  let k ← getStr j "kind"
  let fs ← (← getArr j "fields").mapM (·.getNat?)
  match k, fs with
  | "rt-as2", [a, n] => pure (.rtAs2 a n)
  | "rt-ip4", [a, n] => pure (.rtIp4 a n)
  | "rt-as4", [a, n] => pure (.rtAs4 a n)
  | "ro-as2", [a, n] => pure (.roAs2 a n)
  | "ro-ip4", [a, n] => pure (.roIp4 a n)
  | "ro-as4", [a, n] => pure (.roAs4 a n)
  | "color", [c] => pure (.color c)
  | "encapsulation", [t] => pure (.encap t)
  | "redirect-vrf", [a, n] => pure (.redirectVrf a n)
  | "redirect-nexthop", [ip, c] => pure (.redirectNh ip c)
  | "traffic-rate", [a, r] => pure (.trafficRate a r)
  | "traffic-action", [s, t] => pure (.trafficAction (s != 0) (t != 0))
  | "traffic-marking", [d] => pure (.trafficMarking d)
  | "dmzlink-bw", [a, b] => pure (.linkBw a b)
  | "esi-label", [f, l] => pure (.esiLabel f l)
  | "mac-mobility", [f, s] => pure (.macMobility f s)
  | "es-import", [m] => pure (.esImport m)
  | "router-mac", [m] => pure (.routerMac m)
  | _, _ => throw s!"bad kind/fields {k}"

def dispatchXc (st : XcState) (j : Json) : Except String (XcState × Json) := do
  let op ← getStr j "op"
  let st := { st with calls := st.calls + 1 }
  match op with
  | "extcomm.parse" =>
    pure (st, match parse (← getHex j "hex") with
              | .ok rs => jobj [("ok", jarr (rs.map renderedJson))]
              | .error e => errJson e)
  | "extcomm.construct" => do
    let items ← (← getArr j "items").mapM readItem
    pure (st, match constructR items with
              | .ok b => jobj [("hex", jhex b)]
              | .retNone => jobj [("none", Json.bool true)]
              | .raises => jraise)
  | "extcomm.translate" => do
    let p ← readPeer j
    pure (st, trJson (fun items => jobj [("ok", jarr (items.map itemJson))]) (translate p (← getTexts j "texts")))
  | "extcomm.rest" => do
    let p ← readPeer j
    pure (st, trJson (fun b => jobj [("hex", jhex b)]) (restR p (← getTexts j "texts")))
  | "extcomm.tables" =>
    pure (st, jobj [("str_dict", jarr (strDict.map fun e => jarr [jnat e.1, Json.str e.2])),
                    ("dict", jarr (dict.map fun e => jarr [Json.str e.1, jnat e.2])),
                    ("dict1", jarr (dict1.map fun e => jarr [Json.str e.1, jnat e.2]))])
  | "spec.rfcextcomm" => do
    let v ← readEC j
    pure (st, jobj [("hex", jhex (RfcExt.rfcBytes v)), ("inrange", Json.bool v.inRange), ("as4", Json.bool v.needsAs4),
                    ("text", jstr (RfcExt.text v))])
  | "spec.rfcextattr" => do
    let vs ← (← getArr j "list").mapM readEC
    pure (st, jobj [("hex", jhex (RfcExt.rfcAttr vs))])
  | "commtext.construct" => pure (st, optHex (CommText.constructComm (← getTexts j "texts")))
  | "largetext.construct" => pure (st, optHex (CommText.constructLarge (← getTexts j "texts")))
  | "commtext.parse" => pure (st, textsResult (CommText.parseCommText (← getHex j "hex")))
  | "largetext.parse" => pure (st, textsResult (CommText.parseLargeText (← getHex j "hex")))
  | "xc.pyint" =>
    pure (st, match pyInt (← getChars j "s") with
              | some i => jobj [("ok", jint i)]
              | none => jraise)
  | "xc.pyhex" =>
    pure (st, match pyHex (← getChars j "s") with
              | some i => jobj [("ok", jint i)]
              | none => jraise)
  | "xc.ipv4" =>
    pure (st, match pyIpv4 (← getChars j "s") with
              | some i => jobj [("ok", jnat i)]
              | none => jraise)
  | "xc.strip" => pure (st, jobj [("ok", jstr (strip (← getChars j "s")))])
  | "xc.lower" => pure (st, jobj [("ok", jstr (lower (← getChars j "s")))])
  | "xc.split" => pure (st, jobj [("ok", jarr ((Text.splitAll (← getSep j) (← getChars j "s")).map jstr))])
  | "xc.split1" => do
    let s ← getChars j "s"
    pure (st, match Text.splitOnFirst (← getSep j) s with
              | some (a, b) => jobj [("ok", jarr [jstr a, jstr b])]
              | none => jobj [("ok", jarr [jstr s])])
  | "xc.packf" =>
    pure (st, match packF (← getInt j "i") with
              | some b => jobj [("ok", jnat b)]
              | none => jraise)
  | "xc.unpackf" =>
    pure (st, match unpackF (← getNat j "bits") with
              | some (neg, mag) => jobj [("ok", jstr (intStr neg mag))]
              | none => jraise)
  | _ => throw s!"unknown op {op}"

end Yabgp.XcGlue
