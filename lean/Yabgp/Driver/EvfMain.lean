/-
  Standalone line-protocol process for the EVPN / flowspec models (until "evpn.*", "flowspec.*", "evf.*" are wired
  into the shared native driver):
    cd /verif/lean && lake env lean --run Yabgp/Driver/EvfMain.lean
  one JSON request per line on stdin, one JSON response per line on stdout, flushed after every line.
-/
import Yabgp.Driver.EvfOps

open Lean (Json)

partial def evfLoop (h : IO.FS.Stream) (out : IO.FS.Stream) (st : Yabgp.EvfGlue.EvfDState) : IO Unit := do
  let line ← h.getLine
  if line.isEmpty then return ()
  let (st', resp) :=
    match Json.parse line with
    | .error e => (st, Json.mkObj [("error", Json.str s!"json: {e}")])
    | .ok j =>
      match Yabgp.EvfGlue.dispatchEvf st j with
      | .ok r => r
      | .error e => (st, Json.mkObj [("error", Json.str e)])
  out.putStrLn resp.compress
  out.flush
  evfLoop h out st'

def main : IO Unit := do
  let out ← IO.getStdout
  evfLoop (← IO.getStdin) out {}
  out.flush
