/-
  Standalone line-protocol process for the REST model (until "rest.*" is wired into the shared native driver):
    cd /verif/lean && lake env lean --run Yabgp/Driver/RestMain.lean
  one JSON request per line on stdin, one JSON response per line on stdout, flushed after every line.
-/
import Yabgp.Driver.RestOps

open Lean (Json)

partial def restLoop (h : IO.FS.Stream) (out : IO.FS.Stream) (st : Yabgp.RestGlue.RestState) : IO Unit := do
  let line ← h.getLine
  if line.isEmpty then return ()
  let (st', resp) :=
    match Json.parse line with
    | .error e => (st, Json.mkObj [("error", Json.str s!"json: {e}")])
    | .ok j =>
      match Yabgp.RestGlue.dispatchRest st j with
      | .ok r => r
      | .error e => (st, Json.mkObj [("error", Json.str e)])
  out.putStrLn resp.compress
  out.flush
  restLoop h out st'

def main : IO Unit := do
  let out ← IO.getStdout
  restLoop (← IO.getStdin) out {}
  out.flush
