/-
  JSON dispatch for the REST model (lean/Yabgp/Model/Rest.lean): a pure function
    dispatchRest : RestState → Json → Except String (RestState × Json)
  so that the shared driver can call it for every op that starts with "rest.".  Until then
  Yabgp/Driver/RestMain.lean runs it as its own line-protocol process.

  ops:  {"op":"rest.reset","cfg":{…session configuration as for sess.reset…},"user":"admin","password":"admin"}
        {"op":"rest.ev","ev":{…a session event as for sess.ev…}}            (to reach a session state)
        {"op":"rest.req","req":{"rule":…,"method":…,"auth":null|[user,password],"action":…,"body":{…}}}
        {"op":"rest.routes"}                                                  (the model's route table)
  Answer of rest.req: {"resp":{"status":n,"body":[class,…],"why":…},"obs":{…the session observation…}}
-/
import Yabgp.Driver.Json
import Yabgp.Model.Rest

namespace Yabgp.RestGlue
open Lean (Json)
open Yabgp.Glue
open Yabgp.Rest

structure RestState where
  world : Option World := none
  rc : RestCfg := ⟨"admin", "admin"⟩

def whyName : Why → String
  | .peerState => "peer_state" | .checkPostData => "check_post_data" | .sendFailed => "send_failed"
  | .afUnsupported => "af_unsupported" | .badAction => "bad_action" | .alreadyEstablished => "already_established"
  | .idleHold => "idle_hold" | .stopFailed => "stop_failed" | .noInput => "no_input" | .evenLength => "even_length"
  | .ribError => "rib_error"

def bodyJson : RespBody → Json
  | .empty => arr [Json.str "empty"]
  | .unauthorized => arr [Json.str "unauthorized"]
  | .error => arr [Json.str "error"]
  | .statusTrue => arr [Json.str "status", Json.bool true]
  | .statusFalse _ => arr [Json.str "status", Json.bool false]
  | .statusData => arr [Json.str "status", Json.bool true, Json.str "data"]
  | .peer st => arr [Json.str "peer", Json.str (stName st)]
  | .version => arr [Json.str "version"]
  | .stats a b => arr [Json.str "stats", statsJson a, statsJson b]
  | .bin b => arr [Json.str "bin", hex b]
  | .json => arr [Json.str "json"]
  | .unmodelled => arr [Json.str "unmodelled"]

def respJson (r : Response) : Json :=
  obj [("status", nat r.status), ("body", bodyJson r.body),
       ("why", match r.body with | .statusFalse w => Json.str (whyName w) | _ => Json.null)]

/-- the value BGPPeering.manual_start / manual_stop returns is turned into the HTTP answer by the view; it is not an
    output of a REST request -/
def restOuts (s : Sess) : Sess :=
  s.withOuts (s.outs.filter fun o => match o with | .retStart _ => false | .retStop => false | _ => true)

def readOptNat (j : Json) (k : String) : Except String (Option Nat) :=
  match j.getObjVal? k with
  | .ok Json.null => pure none
  | .ok v => do pure (some (← v.getNat?))
  | .error _ => pure none

def readBin (j : Json) : Except String BinData :=
  match j.getObjVal? "bin" with
  | .error _ => pure .absent
  | .ok b => do
    let k ← getStr b "k"
    match k with
    | "absent" => pure .absent
    | "nottext" => pure .notText
    | "nothex" => pure .notHex
    | "bytes" => do pure (.bytes (← getHex b "hex"))
    | _ => throw s!"bad bin {k}"

def readBody (j : Json) : Except String Body := do
  let k ← getStr j "k"
  match k with
  | "nojson" => pure .noJson
  | "badjson" => pure .badJson
  | "nonobj" => do
      let t ← getStr j "t"
      match t with
      | "null" => pure (.nonObj .null)
      | "number" => pure (.nonObj .number)
      | "string" => pure (.nonObj .string)
      | "list" => pure (.nonObj .list)
      | _ => throw s!"bad nonobj {t}"
  | "obj" => do
      let m ← readUpdMsg j
      pure (.obj { attr := m.attr, nlri := m.nlri, withdraw := m.withdraw,
                   afi := (← readOptNat j "afi"), safi := (← readOptNat j "safi"), res := (← readOptNat j "res"),
                   bin := (← readBin j), data := getBoolD j "data" false, ribFam := getBoolD j "ribfam" true })
  | _ => throw s!"bad body {k}"

def readAuth (j : Json) : Except String (Option (String × String)) :=
  match j.getObjVal? "auth" with
  | .error _ => pure none
  | .ok Json.null => pure none
  | .ok a => do
    match (← asList a) with
    | [u, p] => do pure (some ((← u.getStr?), (← p.getStr?)))
    | _ => throw "bad auth"

def readRequest (j : Json) : Except String Request := do
  let body ← match j.getObjVal? "body" with
    | .ok b => readBody b
    | .error _ => pure .noJson
  let action := match getStr j "action" with | .ok a => a | .error _ => "send"
  pure { method := (← getStr j "method"), auth := (← readAuth j), action := action, body := body }

def routeJson (r : Route) : Json :=
  obj [("rule", Json.str r.rule), ("methods", arr (r.methods.map Json.str)), ("auto_options", Json.bool r.autoOptions),
       ("decorators", arr (r.decorators.map Json.str)), ("view", Json.str r.view)]

def dispatchRest (st : RestState) (j : Json) : Except String (RestState × Json) := do
  let op ← getStr j "op"
  match op with
  | "rest.reset" => do
      let cfg ← readCfg (← j.getObjVal? "cfg")
      let user := match getStr j "user" with | .ok u => u | .error _ => "admin"
      let pw := match getStr j "password" with | .ok u => u | .error _ => "admin"
      pure ({ world := some (bootWorld cfg), rc := ⟨user, pw⟩ }, obj [("ok", Json.bool true)])
  | "rest.ev" => do
      match st.world with
      | none => throw "no session"
      | some w =>
        let ev ← readEv (← j.getObjVal? "ev")
        if enabled w.sess ev then
          let w' := step updClassOf w ev
          pure ({ st with world := some w' }, obsJson w'.sess)
        else pure (st, obj [("disabled", Json.bool true)])
  | "rest.req" => do
      match st.world with
      | none => throw "no session"
      | some w =>
        let rj ← j.getObjVal? "req"
        let rule ← getStr rj "rule"
        match findRoute rule with
        | none => throw s!"no such rule {rule}"
        | some r =>
          let req ← readRequest rj
          let res := restStep st.rc r req w
          pure ({ st with world := some res.2 }, obj [("resp", respJson res.1), ("obs", obsJson (restOuts res.2.sess))])
  | "rest.routes" => pure (st, obj [("routes", arr (routes.map routeJson))])
  | _ => throw s!"unknown op {op}"

end Yabgp.RestGlue
