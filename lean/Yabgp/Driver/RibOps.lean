/-
  JSON ops for the RIB / version model (Yabgp/Model/Rib.lean).  `dispatchRib` is a pure function so that the
  shared driver (Yabgp/Driver/Ops.lean) can call it for every op that starts with "rib."; RibMain.lean wraps it
  into a standalone line-protocol process.  Imports only the model and Lean's JSON (no Lemmas/Props).

  requests                                                          response: the observation (all tables, counters)
    {"op":"rib.new","rib":true}                                     BGP.__init__ ; remembers CONF.bgp.rib
    {"op":"rib.ev","ev":{"k":"recv","msg":M}}                       Rib.step: recv | recv_bad | send | lost | connect
    {"op":"rib.call","fn":"update_rib_in_ipv4","msg":M}             one anchored function on the current state:
                                                                    update_rib_in_ipv4 | update_rib_out_ipv4 |
                                                                    update_receive_verion | update_send_version | init_rib
    {"op":"rib.get"}
  M = {"attr":7,"nlri":[1],"withdraw":[2],
       "reach":null | {"fam":"flowspec"|"mpls_vpn","rules":[[key,value],..]} | {"fam":"sr_policy","key":k} | {"fam":"other"},
       "unreach":null | {"fam":"flowspec"|"mpls_vpn","keys":[k,..]} | {"fam":"sr_policy","key":k} | {"fam":"other"}}
-/
import Lean.Data.Json
import Yabgp.Model.Rib

namespace Yabgp.RibGlue
open Lean (Json)
open Yabgp.Rib

structure RibDState where
  rib : Bool := true
  st : State := State.init

def jnat (n : Nat) : Json := Json.num (Lean.JsonNumber.fromNat n)
def jarr (xs : List Json) : Json := Json.arr xs.toArray

def getNat (j : Json) (k : String) : Except String Nat := (j.getObjVal? k) >>= (·.getNat?)
def getStr (j : Json) (k : String) : Except String String := (j.getObjVal? k) >>= (·.getStr?)
def getNatList (j : Json) (k : String) : Except String (List Nat) := do
  let a ← (j.getObjVal? k) >>= (·.getArr?)
  a.toList.mapM (·.getNat?)
def getNatListD (j : Json) (k : String) : Except String (List Nat) :=
  match j.getObjVal? k with
  | .ok Json.null => pure []
  | .ok _ => getNatList j k
  | .error _ => pure []
def getPairs (j : Json) (k : String) : Except String (List (Nat × Nat)) := do
  let a ← (j.getObjVal? k) >>= (·.getArr?)
  a.toList.mapM fun p => do
    let xs ← p.getArr?
    match xs.toList with
    | [a, b] => pure (← a.getNat?, ← b.getNat?)
    | _ => throw "pair expected"

def readReach (j : Json) : Except String (Option Reach) := do
  match j with
  | Json.null => pure none
  | _ =>
    match ← getStr j "fam" with
    | "flowspec" => pure (some (.flowspec (← getPairs j "rules")))
    | "mpls_vpn" => pure (some (.mplsVpn (← getPairs j "rules")))
    | "sr_policy" => pure (some (.srPolicy (← getNat j "key")))
    | "other" => pure (some .other)
    | f => throw s!"unknown family {f}"

def readUnreach (j : Json) : Except String (Option Unreach) := do
  match j with
  | Json.null => pure none
  | _ =>
    match ← getStr j "fam" with
    | "flowspec" => pure (some (.flowspec (← getNatList j "keys")))
    | "mpls_vpn" => pure (some (.mplsVpn (← getNatList j "keys")))
    | "sr_policy" => pure (some (.srPolicy (← getNat j "key")))
    | "other" => pure (some .other)
    | f => throw s!"unknown family {f}"

def optVal (j : Json) (k : String) : Json :=
  match j.getObjVal? k with
  | .ok v => v
  | .error _ => Json.null

def readMsg (j : Json) : Except String Msg := do
  pure { attr := ← getNat j "attr", nlri := ← getNatListD j "nlri", withdraw := ← getNatListD j "withdraw",
         reach := ← readReach (optVal j "reach"), unreach := ← readUnreach (optVal j "unreach") }

def readEv (j : Json) : Except String Ev := do
  match ← getStr j "k" with
  | "recv" => pure (.recv (← readMsg (← j.getObjVal? "msg")))
  | "recv_bad" => pure .recvMalformed
  | "send" => pure (.send (← readMsg (← j.getObjVal? "msg")))
  | "lost" => pure .lost
  | "connect" => pure .connect
  | k => throw s!"unknown event {k}"

/-- dictionaries are compared as sets of items: sorted by key -/
def tableJson (t : Table) : Json :=
  jarr ((t.toArray.qsort (fun a b => a.1 < b.1)).toList.map fun kv => jarr [jnat kv.1, jnat kv.2])

def versionsJson (v : Versions) : Json :=
  Json.mkObj [("ipv4", jnat v.ipv4), ("flowspec", jnat v.flowspec), ("sr_policy", jnat v.srPolicy),
              ("mpls_vpn", jnat v.mplsVpn)]

def obsJson (s : State) : Json :=
  Json.mkObj [("rib_in", tableJson s.ribIn), ("rib_out", tableJson s.ribOut),
              ("tree", jarr ((s.tree.toArray.qsort (· < ·)).toList.map jnat)),
              ("recv_ver", versionsJson s.recvVer), ("send_ver", versionsJson s.sendVer),
              ("fs_send", tableJson s.fsSend), ("fs_recv", tableJson s.fsRecv),
              ("sr_send", tableJson s.srSend), ("sr_recv", tableJson s.srRecv),
              ("vpn_send", tableJson s.vpnSend), ("vpn_recv", tableJson s.vpnRecv)]

def isRibOp (op : String) : Bool := op.startsWith "rib."

def dispatchRib (d : RibDState) (j : Json) : Except String (RibDState × Json) := do
  let op ← getStr j "op"
  match op with
  | "rib.new" =>
      let rib := match (j.getObjVal? "rib") >>= (·.getBool?) with
                 | .ok b => b
                 | .error _ => true
      pure ({ rib := rib, st := State.init }, obsJson State.init)
  | "rib.ev" =>
      let ev ← readEv (← j.getObjVal? "ev")
      let st' := step d.rib d.st ev
      pure ({ d with st := st' }, obsJson st')
  | "rib.call" =>
      let fn ← getStr j "fn"
      let st' ← match fn with
        | "init_rib" => pure (initRib d.st)
        | "update_rib_in_ipv4" => do pure (updateRibInIpv4 d.st (← readMsg (← j.getObjVal? "msg")))
        | "update_rib_out_ipv4" => do pure (updateRibOutIpv4 d.st (← readMsg (← j.getObjVal? "msg")))
        | "update_receive_verion" => do pure (updateReceiveVersion d.st (← readMsg (← j.getObjVal? "msg")))
        | "update_send_version" => do pure (updateSendVersion d.st (← readMsg (← j.getObjVal? "msg")))
        | f => throw s!"unknown function {f}"
      pure ({ d with st := st' }, obsJson st')
  | "rib.get" => pure (d, obsJson d.st)
  | _ => throw s!"unknown op {op}"

end Yabgp.RibGlue
