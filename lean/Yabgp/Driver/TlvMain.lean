/-
  Standalone line-protocol process for the TLV-loop model (until "tlv.*" is wired into the shared native driver):
    cd /verif/lean && lake env lean --run Yabgp/Driver/TlvMain.lean
  one JSON request per line on stdin, one JSON response per line on stdout, flushed after every line.
-/
import Yabgp.Driver.TlvOps

open Lean (Json)

partial def tlvLoop (h : IO.FS.Stream) (out : IO.FS.Stream) (st : Yabgp.TlvGlue.TlvDState) : IO Unit := do
  let line ← h.getLine
  if line.isEmpty then return ()
  let (st', resp) :=
    match Json.parse line with
    | .error e => (st, Json.mkObj [("error", Json.str s!"json: {e}")])
    | .ok j =>
      match Yabgp.TlvGlue.dispatchTlv st j with
      | .ok r => r
      | .error e => (st, Json.mkObj [("error", Json.str e)])
  out.putStrLn resp.compress
  out.flush
  tlvLoop h out st'

def main : IO Unit := do
  let out ← IO.getStdout
  tlvLoop (← IO.getStdin) out {}
  out.flush
