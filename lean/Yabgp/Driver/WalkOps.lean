/-
  Driver op of the C08 specification (Spec/Walker.lean):

    {"op":"spec.walk","hex":"<whole message>","asn4":bool,"addpath":bool}  ->  {"valid":bool,"path":"..."}
    {"op":"spec.walk.attr","hex":"<one or more path attributes>","asn4":bool} -> {"valid":bool,"path":"..."}
    {"op":"spec.walk.flags","code":n,"flags":n} -> {"ok":bool}

  `dispatchWalk` is pure so that the shared driver can call it:
      if op.startsWith "spec.walk" then let (_, r) ← Yabgp.WalkGlue.dispatchWalk {} j; return (st, r)
  Depends only on Lean.Data.Json, Base/Bytes and the walker.
-/
import Lean.Data.Json
import Yabgp.Spec.Walker

namespace Yabgp.WalkGlue
open Lean (Json)

structure WalkState where
  walked : Nat := 0

def getBoolD (j : Json) (k : String) (d : Bool) : Bool :=
  match (j.getObjVal? k) >>= (·.getBool?) with
  | .ok b => b
  | .error _ => d

def getHex (j : Json) (k : String) : Except String Bytes := do
  let s ← (j.getObjVal? k) >>= (·.getStr?)
  match ofHex s with
  | some b => pure b
  | none => throw s!"bad hex in {k}"

def getNat (j : Json) (k : String) : Except String Nat := (j.getObjVal? k) >>= (·.getNat?)

def cfgOf (j : Json) : Walker.Cfg := { asn4 := getBoolD j "asn4" false, addpath := getBoolD j "addpath" false }

def dispatchWalk (st : WalkState) (j : Json) : Except String (WalkState × Json) := do
  let op ← (j.getObjVal? "op") >>= (·.getStr?)
  match op with
  | "spec.walk" => do
      let b ← getHex j "hex"
      let cfg := cfgOf j
      let ok := Walker.valid cfg b
      pure ({ st with walked := st.walked + 1 },
            Json.mkObj [("valid", Json.bool ok), ("path", Json.str (if ok then "ok" else Walker.explain cfg b))])
  | "spec.walk.attr" => do
      let b ← getHex j "hex"
      let cfg := cfgOf j
      let ok := Walker.all (Walker.attrItem cfg) b
      let path :=
        if ok then "ok"
        else match Walker.firstBad (Walker.attrItem cfg) b.length 0 b with
          | some (i, at_) => s!"attr[{i}] " ++ Walker.explainAttr cfg at_
          | none => "attr"
      pure ({ st with walked := st.walked + 1 }, Json.mkObj [("valid", Json.bool ok), ("path", Json.str path)])
  | "spec.walk.flags" => do
      pure (st, Json.mkObj [("ok", Json.bool (Walker.flagsOk (← getNat j "code") (← getNat j "flags")))])
  | _ => throw s!"unknown op {op}"

end Yabgp.WalkGlue
