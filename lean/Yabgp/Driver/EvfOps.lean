/-
  JSON ops for the EVPN / IPv4 flowspec models (Model/Mp/Evpn.lean, Flowspec.lean, EvfWrap.lean).
  `dispatchEvf` is a pure function so that the shared driver (Yabgp/Driver/Ops.lean) can call it for the ops
    evpn.parse  evpn.construct  flowspec.parse  flowspec.construct  flowspec.ops.parse  flowspec.ops.construct
    evf.mpreach.parse  evf.mpreach.construct  evf.mpunreach.parse  evf.mpunreach.construct
  EvfMain.lean wraps it into a standalone line-protocol process.  Not part of any theorem; validated by the
  correspondence suite itself.

  canonical JSON (the same the Python canonicaliser harness/impl_evf.py produces from the real values):
    IP address        [4|6, value]            (text <-> value through netaddr on the Python side)
    MAC address       value (48-bit integer)
    RD                "asn:an" | "a.b.c.d:an" | {"raw": hex}
    ESI               {"type": t, "value": v} with v = integer | {"ce_mac_addr": m, "ce_port_key": k} | ... | {}
    route             {"type": t, "value": {"rd":.., "esi":.., "eth_tag_id":.., "mac":.., "ip":.., "label":[..]}}
    flow spec         [[type, "text"], ...] sorted by type
    results           {"ok": v} | {"hex": h} | {"raise": true} | {"none": true} | {"err": sub} | {"notmine": true}
                      | {"unmodelled": why}
-/
import Lean.Data.Json
import Yabgp.Driver.Json
import Yabgp.Model.Mp.EvfWrap
import Yabgp.Model.Construct.EvpnGuards

namespace Yabgp.EvfGlue
open Lean (Json)
open Yabgp.Glue
open Yabgp.Evpn Yabgp.Flowspec Yabgp.Evf

/-- driver state of these ops: none -/
structure EvfDState where
  dummy : Unit := ()

def unmodelled (why : String) : Json := obj [("unmodelled", Json.str why)]

/-! ### rendering -/

def ipJson (ip : Ip) : Json := arr [nat (if ip.v6 then 6 else 4), nat ip.val]

def rdJson : Rd → Json
  | .asn a b => str (Text.decStr a ++ [':'] ++ Text.decStr b)
  | .ip i n => str (Text.ipv4Str i ++ [':'] ++ Text.decStr n)
  | .raw b => obj [("raw", hex b)]

def esiJson : Esi → Json
  | .t0 v => obj [("type", nat 0), ("value", nat v)]
  | .t1 m k => obj [("type", nat 1), ("value", obj [("ce_mac_addr", nat m), ("ce_port_key", nat k)])]
  | .t2 m k => obj [("type", nat 2), ("value", obj [("rb_mac_addr", nat m), ("rb_priority", nat k)])]
  | .t3 m k => obj [("type", nat 3), ("value", obj [("sys_mac_addr", nat m), ("ld_value", nat k)])]
  | .t4 a k => obj [("type", nat 4), ("value", obj [("router_id", nat a), ("ld_value", nat k)])]
  | .t5 a k => obj [("type", nat 5), ("value", obj [("as_num", nat a), ("ld_value", nat k)])]
  | .other t => obj [("type", nat t), ("value", obj [])]

def optIp (k : String) : Option Ip → List (String × Json)
  | none => []
  | some ip => [(k, ipJson ip)]

def routeJson (r : Route) : Json :=
  let v : List (String × Json) :=
    match r with
    | .t1 rd esi tag label =>
        [("rd", rdJson rd), ("esi", esiJson esi), ("eth_tag_id", nat tag), ("label", arr (label.map nat))]
    | .t2 rd esi tag mac ip label =>
        [("rd", rdJson rd), ("esi", esiJson esi), ("eth_tag_id", nat tag), ("mac", nat mac)] ++ optIp "ip" ip ++
        [("label", arr (label.map nat))]
    | .t3 rd tag ip => [("rd", rdJson rd), ("eth_tag_id", nat tag)] ++ optIp "ip" ip
    | .t4 rd esi ip => [("rd", rdJson rd), ("esi", esiJson esi)] ++ optIp "ip" ip
    | .t5 rd esi tag pfx plen gw label =>
        [("rd", rdJson rd), ("esi", esiJson esi), ("eth_tag_id", nat tag), ("prefix", arr [ipJson pfx, nat plen]),
         ("gateway", ipJson gw), ("label", arr (label.map nat))]
    | .t5c rd esi tag pfx plen gw label =>
        [("rd", rdJson rd), ("esi", nat esi), ("eth_tag_id", nat tag), ("prefix", arr [ipJson pfx, nat plen]),
         ("gateway", ipJson gw), ("label", arr (label.map nat))]
    | .unk _ => []
  obj [("type", nat r.type), ("value", obj v)]

def compJson : Comp → Json
  | .pfx a l => str (Text.ipv4Str a ++ ['/'] ++ Text.decStr l)
  | .ops s => str s

def ruleJson (d : Rule) : Json :=
  let sorted := d.toArray.qsort (fun a b => a.1 < b.1)
  Json.arr (sorted.map fun kv => arr [nat kv.1, compJson kv.2])

def nlriJson : Nlri → Json
  | .evpn rs => arr (rs.map routeJson)
  | .flowspec rules => arr (rules.map ruleJson)

def afiSafiJson : Nlri → Json
  | .evpn _ => arr [nat 25, nat 70]
  | .flowspec _ => arr [nat 1, nat 133]

def prJson {α : Type} (f : α → Json) : PR α → Json
  | .ok v => obj [("ok", f v)]
  | .attrLen => obj [("err", nat 5)]
  | .raises => raise
  | .notMine => obj [("notmine", Json.bool true)]

def crJson : CR → Json
  | .bytes b => obj [("hex", hex b)]
  | .none' => obj [("none", Json.bool true)]
  | .raises => raise

def reachJson (r : Reach) : Json :=
  obj [("afi_safi", afiSafiJson r.nlri),
       ("nexthop", match r.nexthop with | some ip => ipJson ip | none => Json.str ""),
       ("nlri", nlriJson r.nlri)]

def unreachJson (n : Nlri) : Json :=
  obj [("afi_safi", afiSafiJson n), ("withdraw", nlriJson n)]

/-! ### reading -/

def readIpJ (j : Json) : Except String Ip := do
  match (← asList j) with
  | [v, n] =>
    let v ← v.getNat?
    let n ← n.getNat?
    if v = 4 then pure { v6 := false, val := n }
    else if v = 6 then pure { v6 := true, val := n }
    else throw "bad ip version"
  | _ => throw "bad ip"

def readOptIp (j : Json) (k : String) : Except String (Option Ip) :=
  match j.getObjVal? k with
  | .ok Json.null => pure none
  | .ok (Json.str "") => pure none
  | .ok v => do pure (some (← readIpJ v))
  | .error _ => pure none

/-- `'a:b'` / `'d.d.d.d:n'` as `construct_rd` reads it: two fields, the first one dotted or decimal -/
def readRd (j : Json) : Except String Rd := do
  match j with
  | .str s =>
    match Text.splitAll ':' s.toList with
    | [a, b] =>
      if a.contains '.' then
        match Text.parseIpv4 a, Text.parseDec b with
        | some i, some n => pure (.ip i n)
        | _, _ => throw s!"bad rd {s}"
      else
        match Text.parseDec a, Text.parseDec b with
        | some x, some y => pure (.asn x y)
        | _, _ => throw s!"bad rd {s}"
    | _ => throw s!"bad rd {s}"
  | _ => do pure (.raw (← getHex j "raw"))

def readEsi (j : Json) : Except String Esi := do
  let t ← getNat j "type"
  let v ← j.getObjVal? "value"
  if t = 0 then pure (.t0 (← v.getNat?))
  else if t = 1 then pure (.t1 (← getNat v "ce_mac_addr") (← getNat v "ce_port_key"))
  else if t = 2 then pure (.t2 (← getNat v "rb_mac_addr") (← getNat v "rb_priority"))
  else if t = 3 then pure (.t3 (← getNat v "sys_mac_addr") (← getNat v "ld_value"))
  else if t = 4 then pure (.t4 (← getNat v "router_id") (← getNat v "ld_value"))
  else if t = 5 then pure (.t5 (← getNat v "as_num") (← getNat v "ld_value"))
  else pure (.other t)

def readLabels (j : Json) (k : String) : Except String (List Nat) :=
  match j.getObjVal? k with
  | .ok v => readNatList v
  | .error _ => pure []

def readPrefixPair (j : Json) : Except String (Ip × Nat) := do
  match (← asList j) with
  | [ip, l] => pure ((← readIpJ ip), (← l.getNat?))
  | _ => throw "bad prefix"

def readRoute (j : Json) : Except String Route := do
  let t ← getNat j "type"
  let v ← j.getObjVal? "value"
  if t = 1 then
    pure (.t1 (← readRd (← v.getObjVal? "rd")) (← readEsi (← v.getObjVal? "esi")) (← getNat v "eth_tag_id")
              (← readLabels v "label"))
  else if t = 2 then
    pure (.t2 (← readRd (← v.getObjVal? "rd")) (← readEsi (← v.getObjVal? "esi")) (← getNat v "eth_tag_id")
              (← getNat v "mac") (← readOptIp v "ip") (← readLabels v "label"))
  else if t = 3 then
    pure (.t3 (← readRd (← v.getObjVal? "rd")) (← getNat v "eth_tag_id") (← readOptIp v "ip"))
  else if t = 4 then
    pure (.t4 (← readRd (← v.getObjVal? "rd")) (← readEsi (← v.getObjVal? "esi")) (← readOptIp v "ip"))
  else if t = 5 then do
    let (p, l) ← readPrefixPair (← v.getObjVal? "prefix")
    let gw ← readIpJ (← v.getObjVal? "gateway")
    let rd ← readRd (← v.getObjVal? "rd")
    let tag ← getNat v "eth_tag_id"
    let label ← readLabels v "label"
    match (← v.getObjVal? "esi") with
    | .num _ => pure (.t5c rd (← getNat v "esi") tag p l gw label)
    | e => pure (.t5 rd (← readEsi e) tag p l gw label)
  else pure (.unk t)

/-- characters for which `int()` / `split` of the real code and the model's strict readers agree:
    printable ASCII without blank, sign and underscore -/
def plainChar (c : Char) : Bool :=
  33 ≤ c.toNat && c.toNat ≤ 126 && c ≠ '+' && c ≠ '-' && c ≠ '_'

/-- one component of a flow specification; `none` = a text the model does not cover -/
def readComp (t : Nat) (j : Json) : Except String (Option Comp) := do
  let s ← j.getStr?
  let cs := s.toList
  if t = 1 ∨ t = 2 then
    match Text.splitAll '/' cs with
    | [a, l] =>
      match Text.parseIpv4 a, Text.parseDec l with
      | some a, some l => pure (some (.pfx a l))
      | _, _ => pure none
    | _ => pure none
  else if cs.all plainChar then pure (some (.ops cs)) else pure none

def readRule (j : Json) : Except String (Option Rule) := do
  let xs ← asList j
  let mut out : Rule := []
  for kv in xs do
    match (← asList kv) with
    | [k, v] =>
      let t ← k.getNat?
      match (← readComp t v) with
      | some c => out := out ++ [(t, c)]
      | none => return none
    | _ => throw "bad component"
  return some out

def readRules (j : Json) : Except String (Option (List Rule)) := do
  let xs ← asList j
  let mut out : List Rule := []
  for x in xs do
    match (← readRule x) with
    | some r => out := out ++ [r]
    | none => return none
  return some out

/-- `struct.pack('!d', esi)` of a type 5 route is modelled for integers a double holds exactly -/
def routeModelled : Route → Bool
  | .t5c _ esi _ _ _ _ _ => esi < 2 ^ 53
  | _ => true

def readNlri (afi safi : Nat) (j : Json) : Except String (Option Nlri) := do
  if afi = 25 ∧ safi = 70 then
    let rs ← (← asList j).mapM readRoute
    if rs.all routeModelled then pure (some (.evpn rs)) else pure none
  else if afi = 1 ∧ safi = 133 then
    match (← readRules j) with
    | some rs => pure (some (.flowspec rs))
    | none => pure none
  else throw "not an EVPN / flowspec value"

def readAfiSafi (j : Json) : Except String (Nat × Nat) := do
  match (← getArr j "afi_safi") with
  | [a, s] => pure ((← a.getNat?), (← s.getNat?))
  | _ => throw "bad afi_safi"

def dispatchEvf (st : EvfDState) (j : Json) : Except String (EvfDState × Json) := do
  let op ← getStr j "op"
  match op with
  | "evpn.parse" => do
      pure (st, match parseRoutes (← getHex j "hex") with
                | some rs => obj [("ok", arr (rs.map routeJson))]
                | none => raise)
  | "evpn.construct" => do
      let rs ← (← getArr j "routes").mapM readRoute
      if !(rs.all routeModelled) then pure (st, unmodelled "double") else
      pure (st, match constructRoutesR rs with
                | some b => obj [("hex", hex b)]
                | none => raise)
  | "evpn.esi.parse" => do
      pure (st, match parseEsi (← getHex j "hex") with
                | some e => obj [("ok", esiJson e)]
                | none => raise)
  | "evpn.esi.construct" => do
      pure (st, match constructEsiR (← readEsi (← j.getObjVal? "esi")) with
                | some b => obj [("hex", hex b)]
                | none => raise)
  | "flowspec.parse" => do
      pure (st, match parseRule [] (← getHex j "hex") with
                | some d => obj [("ok", ruleJson d)]
                | none => raise)
  | "flowspec.construct" => do
      match (← readRule (← j.getObjVal? "rule")) with
      | none => pure (st, unmodelled "text")
      | some d =>
        pure (st, match constructNlriR d with
                  | none => raise
                  | some none => obj [("none", Json.bool true)]
                  | some (some b) => obj [("hex", hex b)])
  | "flowspec.ops.parse" => do
      pure (st, match parseOperators (← getHex j "hex") with
                | some (l, off) => obj [("ok", arr [str (opsToStr [] l), nat off])]
                | none => raise)
  | "flowspec.ops.construct" => do
      let s ← getStr j "text"
      if s.toList.all plainChar then
        pure (st, match constructOperators s.toList with
                  | some b => obj [("hex", hex b)]
                  | none => raise)
      else pure (st, unmodelled "text")
  | "evf.mpreach.parse" => do
      pure (st, prJson reachJson (parseReach (← getHex j "hex")))
  | "evf.mpunreach.parse" => do
      pure (st, prJson unreachJson (parseUnreach (← getHex j "hex")))
  | "evf.mpreach.construct" => do
      let v ← j.getObjVal? "value"
      let (afi, safi) ← readAfiSafi v
      match (← readNlri afi safi (← v.getObjVal? "nlri")) with
      | none => pure (st, unmodelled "text or double")
      | some n => pure (st, crJson (constructReachR { nexthop := (← readOptIp v "nexthop"), nlri := n }))
  | "evf.mpunreach.construct" => do
      let v ← j.getObjVal? "value"
      let (afi, safi) ← readAfiSafi v
      match (← readNlri afi safi (← v.getObjVal? "withdraw")) with
      | none => pure (st, unmodelled "text")
      | some n => pure (st, crJson (constructUnreachR n))
  | _ => throw s!"unknown op {op}"

end Yabgp.EvfGlue
