/-
  Driver operations for the message-log model (C20).  Pure dispatch function, to be called from the shared
  driver (Driver/Ops.lean) for every op whose name starts with "msglog." / "spec.logaudit".
    {"op":"msglog.reset","max_size":N,"variant":"fixed"|"orig"}
    {"op":"msglog.op","o":{"k":"tick","dt":n} | {"k":"event","ty":t,"plen":p} | {"k":"rotate"}
                          | {"k":"crash","ty":t,"plen":p,"off":o} | {"k":"restart"}}
    {"op":"msglog.run","max_size":N,"variant":..,"ops":[o,..]}   from the empty directory; answers {"obs":[..]} (one per op)
    {"op":"msglog.audit"}                                    audit of the model's own directory
    {"op":"spec.logaudit","files":[{"name":n,"lines":[seq|null,..],"torn":b},..],"running":bool}
  Every msglog.* answer is the observation of the directory after the operation.
-/
import Lean.Data.Json
import Yabgp.Model.MsgLogView

namespace Yabgp.Glue.MsgLogOps
open Lean (Json)
open Yabgp.MsgLog

structure MsgLogState where
  w : World := Yabgp.MsgLog.empty
  maxSize : Nat := 0
  orig : Bool := false

private def nat (n : Nat) : Json := Json.num (Lean.JsonNumber.fromNat n)
private def arr (xs : List Json) : Json := Json.arr xs.toArray
private def obj (kvs : List (String × Json)) : Json := Json.mkObj kvs
private def getNat (j : Json) (k : String) : Except String Nat := (j.getObjVal? k) >>= (·.getNat?)
private def getStr (j : Json) (k : String) : Except String String := (j.getObjVal? k) >>= (·.getStr?)

def lineJson : Line → Json
  | .record r => arr [nat r.seq, nat r.ty, nat r.len]
  | .junk n => obj [("junk", nat n)]

def fileJson (f : File) : Json :=
  obj [("name", nat f.name), ("lines", arr (f.lines.map lineJson)), ("tail", nat (tailBytes f.tail))]

/-- the observation: the files in the order of their names, whether a handler runs, whether the last start
    was refused, the number the next record will carry -/
def obsJson (w : World) : Json :=
  obj [("files", arr ((sortAsc w.fs).map fileJson)),
       ("alive", Json.bool w.h.isSome),
       ("refused", Json.bool w.refused),
       ("next_seq", match w.h with | some h => nat h.seq | none => Json.null),
       ("cur", match w.h with | some h => nat h.cur | none => Json.null),
       ("audit", Json.bool (auditWorld w))]

def readOp (j : Json) : Except String Op := do
  let k ← getStr j "k"
  match k with
  | "tick" => pure (.tick (← getNat j "dt"))
  | "event" => pure (.event (← getNat j "ty") (← getNat j "plen"))
  | "rotate" => pure .rotateCheck
  | "crash" => pure (.crash (← getNat j "ty") (← getNat j "plen") (← getNat j "off"))
  | "restart" => pure .restart
  | _ => throw s!"unknown msglog op {k}"

def readSLine (j : Json) : Except String LogSpec.SLine :=
  match j.getNat? with
  | .ok n => pure (.record n)
  | .error _ => pure .broken

def readSFile (j : Json) : Except String LogSpec.SFile := do
  let ls ← (j.getObjVal? "lines") >>= (·.getArr?)
  let lines ← ls.toList.mapM readSLine
  pure { name := (← getNat j "name"), lines := lines, torn := (← getNat j "torn") }

def dispatchMsgLog (st : MsgLogState) (j : Json) : Except String (MsgLogState × Json) := do
  let op ← getStr j "op"
  match op with
  | "msglog.reset" => do
      let v := match getStr j "variant" with | .ok "orig" => true | _ => false
      let st' : MsgLogState := { w := Yabgp.MsgLog.empty, maxSize := (← getNat j "max_size"), orig := v }
      pure (st', obsJson st'.w)
  | "msglog.op" => do
      let o ← readOp (← j.getObjVal? "o")
      let w' := if st.orig then stepOrig st.maxSize st.w o else step st.maxSize st.w o
      pure ({ st with w := w' }, obsJson w')
  | "msglog.run" => do
      let v := match getStr j "variant" with | .ok "orig" => true | _ => false
      let m ← getNat j "max_size"
      let os ← (j.getObjVal? "ops") >>= (·.getArr?)
      let ops ← os.toList.mapM readOp
      let stepf := if v then stepOrig m else step m
      let (wEnd, obs) := ops.foldl (fun (acc : World × List Json) o =>
        let w' := stepf acc.1 o
        (w', obsJson w' :: acc.2)) (Yabgp.MsgLog.empty, [])
      pure ({ w := wEnd, maxSize := m, orig := v }, obj [("obs", arr obs.reverse)])
  | "msglog.audit" => pure (st, obj [("audit", Json.bool (auditWorld st.w))])
  | "spec.logaudit" => do
      let fsj ← (j.getObjVal? "files") >>= (·.getArr?)
      let files ← fsj.toList.mapM readSFile
      let running ← (j.getObjVal? "running") >>= (·.getBool?)
      pure (st, obj [("audit", Json.bool (LogSpec.audit files running))])
  | _ => throw s!"unknown op {op}"

end Yabgp.Glue.MsgLogOps
