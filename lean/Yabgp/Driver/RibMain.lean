/-
  Standalone line-protocol process for the RIB model (until "rib.*" is wired into the shared native driver):
    cd /verif/lean && lake env lean --run Yabgp/Driver/RibMain.lean
  one JSON request per line on stdin, one JSON response per line on stdout, flushed after every line.
-/
import Yabgp.Driver.RibOps

open Lean (Json)

partial def ribLoop (h : IO.FS.Stream) (out : IO.FS.Stream) (st : Yabgp.RibGlue.RibDState) : IO Unit := do
  let line ← h.getLine
  if line.isEmpty then return ()
  let (st', resp) :=
    match Json.parse line with
    | .error e => (st, Json.mkObj [("error", Json.str s!"json: {e}")])
    | .ok j =>
      match Yabgp.RibGlue.dispatchRib st j with
      | .ok r => r
      | .error e => (st, Json.mkObj [("error", Json.str e)])
  out.putStrLn resp.compress
  out.flush
  ribLoop h out st'

def main : IO Unit := do
  let out ← IO.getStdout
  ribLoop (← IO.getStdin) out {}
  out.flush
