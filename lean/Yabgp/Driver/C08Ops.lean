/-
  Driver ops of C08 besides the walker itself: the constructor models with the guards of the repaired code
  (Model/Construct/Guards.lean), in the JSON shapes of the existing `upd.construct` / `mp.construct` ops.

    {"op":"c08.upd.construct","asn4":b,"addpath":b,"msg":{...}}      -> {"hex":..} | {"raise":true}
    {"op":"c08.mp.construct","attr":14|15,"value":{...}}             -> {"hex":..} | {"none":true} | {"raise":true}
    {"op":"c08.evpn.construct","routes":[...]}                       -> as "evpn.construct" (fix_9 guards)
    {"op":"c08.evf.mpreach.construct" | "c08.evf.mpunreach.construct","value":{...}} -> as "evf.mp*.construct"
    {"op":"c08.srte.construct","attr":14|15,"nexthop":[fam,int]|null,"nlri":{"distinguisher","color","endpoint":[fam,int]}|null}
    {"op":"c11.pmsi.parse","evpn":bool,"hex":"..."}  ->  {"raise":true} | {"leaf":n,"type":n,"label":n,"tunnel_id":null|[fam,int]|"not supported"}
    {"op":"c08.pmsi.construct","overlay":"mpls"|"vni"|"unsupported","leaf":n,"type":n,"label":n|null,"tunnel_id":[fam,int]|null}
    {"op":"c08.tunnel.construct","policy":{"enc","seg_first","k6","k7","k12","k13","k14","k15","k129","k128"}}  (see readPolicy)
    {"op":"c08.flow6.reach","nexthop":[fam,int]|null,"rules":[[[type, "text" | {"prefix":[fam,int],"len":n,"offset":n}],..],..]}
    {"op":"spec.walk" | "spec.walk.attr" | "spec.walk.flags", ...}   -> forwarded to WalkOps

  `dispatchC08` is pure; the shared driver can call it with
      if op.startsWith "c08." || op.startsWith "spec.walk" then let (_, r) ← Yabgp.C08Glue.dispatchC08 {} j; return (st, r)
-/
import Yabgp.Driver.Json
import Yabgp.Driver.MpOps
import Yabgp.Driver.WalkOps
import Yabgp.Driver.EvfOps
import Yabgp.Model.Construct.Guards
import Yabgp.Model.Construct.EvpnGuards
import Yabgp.Model.Construct.SrtePmsi
import Yabgp.Model.Pmsi
import Yabgp.Model.Construct.Tunnel
import Yabgp.Model.Construct.Flow

namespace Yabgp.C08Glue
open Lean (Json)

abbrev C08State := Yabgp.WalkGlue.WalkState

/-- `[4 | 6, value]` or null -/
def readIpOpt (j : Json) (k : String) : Except String (Option Mp.Ip) := do
  match j.getObjVal? k with
  | .error _ => pure none
  | .ok Json.null => pure none
  | .ok v =>
    match (← Yabgp.Glue.asList v) with
    | [f, n] => do
        let fam ← f.getNat?
        let x ← n.getNat?
        if fam = 4 then pure (some (.v4 x)) else if fam = 6 then pure (some (.v6 x)) else throw "bad family"
    | _ => throw "bad address"

def readNatOpt (j : Json) (k : String) : Except String (Option Nat) := do
  match j.getObjVal? k with
  | .error _ => pure none
  | .ok Json.null => pure none
  | .ok v => do pure (some (← v.getNat?))

def readSrte (j : Json) : Except String (Option Construct.SrteNlri) := do
  match j.getObjVal? "nlri" with
  | .error _ => pure none
  | .ok Json.null => pure none
  | .ok v =>
    match (← readIpOpt v "endpoint") with
    | none => throw "endpoint missing"
    | some e => pure (some { distinguisher := (← Yabgp.Glue.getNat v "distinguisher"),
                             color := (← Yabgp.Glue.getNat v "color"), endpoint := e })

def readSid (j : Json) : Except String Tunnel.Sid := do
  pure { label := (← Yabgp.Glue.getNat j "label"), tc := (← readNatOpt j "tc"), s := (← readNatOpt j "s"),
         ttl := (← readNatOpt j "ttl") }

def readSidOpt (j : Json) (k : String) : Except String (Option Tunnel.Sid) := do
  match j.getObjVal? k with
  | .error _ => pure none
  | .ok Json.null => pure none
  | .ok v => do pure (some (← readSid v))

def reqIp (j : Json) (k : String) : Except String Mp.Ip := do
  match (← readIpOpt j k) with
  | some a => pure a
  | none => throw s!"address {k} missing"

def readSeg (j : Json) : Except String Tunnel.Seg := do
  let t ← Yabgp.Glue.getNat j "t"
  if t = 1 then pure (.mpls (← readSid (← j.getObjVal? "sid")))
  else if t = 3 then pure (.v4node (← reqIp j "node") (← readSidOpt j "sid"))
  else if t = 5 then pure (.v4index (← Yabgp.Glue.getNat j "itf") (← reqIp j "node") (← readSidOpt j "sid"))
  else if t = 6 then pure (.v4addr (← reqIp j "local") (← reqIp j "remote") (← readSidOpt j "sid"))
  else pure (.other t)

def readSegList (j : Json) : Except String Tunnel.SegList := do
  let segs ← match j.getObjVal? "segs" with
    | .error _ => pure none
    | .ok Json.null => pure none
    | .ok v => do pure (some (← (← Yabgp.Glue.asList v).mapM readSeg))
  pure { weight := (← readNatOpt j "weight"), segs := segs }

def readK6 (j : Json) : Except String (Option Tunnel.K6) := do
  match j.getObjVal? "k6" with
  | .error _ => pure none
  | .ok Json.null => pure none
  | .ok v =>
    match Yabgp.Glue.getNat v "n" with
    | .ok n => pure (some (.num n))
    | .error _ => do
        let afi ← Yabgp.Glue.getStr v "afi"
        let a : Option Bool := if afi = "ipv4" then some false else if afi = "ipv6" then some true else none
        pure (some (.endpoint (← Yabgp.Glue.getNat v "asn") a (← reqIp v "address")))

def readPolicy (j : Json) : Except String Tunnel.Policy := do
  let enc : Option Tunnel.Enc ← match j.getObjVal? "enc" with
    | .error _ => pure none
    | .ok Json.null => pure none
    | .ok v => do
        let e ← v.getStr?
        pure (some (if e = "old" then .old else if e = "new" then .new else .other))
  let k129 ← match j.getObjVal? "k129" with
    | .error _ => pure none
    | .ok Json.null => pure none
    | .ok _ => do pure (some (← Yabgp.Glue.getHex j "k129"))
  let k128 ← match j.getObjVal? "k128" with
    | .error _ => pure none
    | .ok Json.null => pure none
    | .ok v => do pure (some (← (← Yabgp.Glue.asList v).mapM readSegList))
  pure { enc := enc, segFirst := Yabgp.Glue.getBoolD j "seg_first" false, k6 := (← readK6 j),
         k7 := (← readNatOpt j "k7"), k12 := (← readNatOpt j "k12"), k13 := (← readNatOpt j "k13"),
         k14 := (← readNatOpt j "k14"), k15 := (← readNatOpt j "k15"), k129 := k129, k128 := k128 }

/-- one component of an IPv6 flow specification; `none` = a text the model's strict readers do not cover -/
def readComp6 (j : Json) : Except String (Option Flow6.Comp6) := do
  match j with
  | Json.str s => if s.toList.all Yabgp.EvfGlue.plainChar then pure (some (.ops s.toList)) else pure none
  | _ => do
      let a ← reqIp j "prefix"
      let l ← (j.getObjVal? "len") >>= (·.getInt?)
      let o ← (j.getObjVal? "offset") >>= (·.getInt?)
      pure (some (.pfx a l o))

def readRule6 (j : Json) : Except String (Option Flow6.Rule6) := do
  let mut out : Flow6.Rule6 := []
  for kv in (← Yabgp.Glue.asList j) do
    match (← Yabgp.Glue.asList kv) with
    | [k, v] =>
      match (← readComp6 v) with
      | some c => out := out ++ [((← k.getNat?), c)]
      | none => return none
    | _ => throw "bad component"
  return some out

def readRules6 (j : Json) : Except String (Option (List Flow6.Rule6)) := do
  let mut out : List Flow6.Rule6 := []
  for x in (← Yabgp.Glue.asList j) do
    match (← readRule6 x) with
    | some r => out := out ++ [r]
    | none => return none
  return some out

def dispatchC08 (st : C08State) (j : Json) : Except String (C08State × Json) := do
  let op ← Yabgp.Glue.getStr j "op"
  match op with
  | "c08.upd.construct" => do
      let m ← Yabgp.Glue.readUpdMsg (← j.getObjVal? "msg")
      pure (st, Yabgp.Glue.optHex
        (constructUpdateR (Yabgp.Glue.getBoolD j "asn4" false) (Yabgp.Glue.getBoolD j "addpath" false) m))
  | "c08.mp.construct" => do
      let v ← j.getObjVal? "value"
      if (← Yabgp.Glue.getNat j "attr") = 14 then
        pure (st, Yabgp.MpGlue.cresJson (Mp.constructMpReachR (← Yabgp.MpGlue.readReach v)))
      else pure (st, Yabgp.MpGlue.cresJson (Mp.constructMpUnreachR (← Yabgp.MpGlue.readUnreach v)))
  | "c08.evpn.construct" => do
      let rs ← (← Yabgp.Glue.getArr j "routes").mapM Yabgp.EvfGlue.readRoute
      if !(rs.all Yabgp.EvfGlue.routeModelled) then pure (st, Yabgp.EvfGlue.unmodelled "double") else
      pure (st, match Evpn.constructRoutesR rs with
                | some b => Yabgp.Glue.obj [("hex", Yabgp.Glue.hex b)]
                | none => Yabgp.Glue.raise)
  | "c08.evf.mpreach.construct" => do
      let v ← j.getObjVal? "value"
      let (afi, safi) ← Yabgp.EvfGlue.readAfiSafi v
      match (← Yabgp.EvfGlue.readNlri afi safi (← v.getObjVal? "nlri")) with
      | none => pure (st, Yabgp.EvfGlue.unmodelled "text or double")
      | some n =>
        pure (st, Yabgp.EvfGlue.crJson (Evf.constructReachR { nexthop := (← Yabgp.EvfGlue.readOptIp v "nexthop"), nlri := n }))
  | "c08.evf.mpunreach.construct" => do
      let v ← j.getObjVal? "value"
      let (afi, safi) ← Yabgp.EvfGlue.readAfiSafi v
      match (← Yabgp.EvfGlue.readNlri afi safi (← v.getObjVal? "withdraw")) with
      | none => pure (st, Yabgp.EvfGlue.unmodelled "text")
      | some n => pure (st, Yabgp.EvfGlue.crJson (Evf.constructUnreachR n))
  | "c08.srte.construct" => do
      if (← Yabgp.Glue.getNat j "attr") = 14 then
        match (← readSrte j) with
        | none => throw "nlri missing"
        | some n => pure (st, Yabgp.MpGlue.cresJson (Construct.constructSrteReach (← readIpOpt j "nexthop") n))
      else pure (st, Yabgp.MpGlue.cresJson (Construct.constructSrteUnreach (← readSrte j)))
  | "c11.pmsi.parse" => do
      let ev ← (← j.getObjVal? "evpn").getBool?
      match Pmsi.parse ev (← Yabgp.Glue.getHex j "hex") with
      | none => pure (st, Json.mkObj [("raise", Json.bool true)])
      | some r =>
        let tid : Json := match r.tid with
          | .absent => Json.null
          | .notSupported => Json.str "not supported"
          | .ip a => Yabgp.MpGlue.ipJson a
        pure (st, Json.mkObj [("leaf", Json.num r.leaf), ("type", Json.num r.ttype), ("label", Json.num r.label), ("tunnel_id", tid)])
  | "c08.pmsi.construct" => do
      let o ← Yabgp.Glue.getStr j "overlay"
      let ov : Construct.Overlay := if o = "vni" then .vni else if o = "unsupported" then .unsupported else .mpls
      pure (st, Yabgp.Glue.optHex (Construct.constructPmsi ov (← Yabgp.Glue.getNat j "leaf") (← Yabgp.Glue.getNat j "type")
                                     (← readNatOpt j "label") (← readIpOpt j "tunnel_id")))
  | "c08.tunnel.construct" => do
      pure (st, Yabgp.Glue.optHex (Tunnel.constructTunnel (← readPolicy (← j.getObjVal? "policy"))))
  | "c08.flow6.reach" => do
      match (← readRules6 (← j.getObjVal? "rules")) with
      | none => pure (st, Yabgp.EvfGlue.unmodelled "text")
      | some rs => pure (st, Yabgp.MpGlue.cresJson (Flow6.constructReach6 (← readIpOpt j "nexthop") rs))
  | _ => Yabgp.WalkGlue.dispatchWalk st j

end Yabgp.C08Glue
