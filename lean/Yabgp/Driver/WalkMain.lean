/-
  Standalone line-protocol process for the structural walker (until "spec.walk" is wired into the shared
  native driver):   cd /verif/lean && lake env lean --run Yabgp/Driver/WalkMain.lean
  one JSON request per line on stdin, one JSON response per line on stdout, flushed after every line.
-/
import Yabgp.Driver.WalkOps

open Lean (Json)

partial def walkLoop (h : IO.FS.Stream) (out : IO.FS.Stream) (st : Yabgp.WalkGlue.WalkState) : IO Unit := do
  let line ← h.getLine
  if line.isEmpty then return ()
  let (st', resp) :=
    match Json.parse line with
    | .error e => (st, Json.mkObj [("error", Json.str s!"json: {e}")])
    | .ok j =>
      match Yabgp.WalkGlue.dispatchWalk st j with
      | .ok r => r
      | .error e => (st, Json.mkObj [("error", Json.str e)])
  out.putStrLn resp.compress
  out.flush
  walkLoop h out st'

def main : IO Unit := do
  let out ← IO.getStdout
  walkLoop (← IO.getStdin) out {}
  out.flush
