/-
  C08 op over builder XC's extended-community model (kept apart from C08Ops.lean so that nothing else depends on
  XC's files):   {"op":"c08.extcomm.construct","items":[...]}  as "extcomm.construct", with the guard of fix_5.
-/
import Yabgp.Driver.XcOps
import Yabgp.Model.Construct.ExtCommGuard

namespace Yabgp.C08XcGlue
open Lean (Json)

def dispatchC08Xc (j : Json) : Except String Json := do
  let items ← (← Yabgp.XcGlue.getArr j "items").mapM Yabgp.XcGlue.readItem
  pure (match ExtComm.constructR items with
        | .ok b => Yabgp.XcGlue.jobj [("hex", Yabgp.XcGlue.jhex b)]
        | .retNone => Yabgp.XcGlue.jobj [("none", Json.bool true)]
        | .raises => Yabgp.XcGlue.jraise)

end Yabgp.C08XcGlue
