"""The real DefaultHandler (yabgp/handler/default_handler.py) behind the operation alphabet of Model/MsgLog.lean.

The handler runs unmodified in a scratch directory (under /tmp/build/C20/, removed afterwards) with
  * `time` inside yabgp.handler.default_handler replaced by a controllable clock (file names and the time stamps of
    four callbacks come from time.time()); clock value n (a Nat, in ticks of 1/4 s) is BASE + n / 4,
  * CONF.message.write_dir / write_msg_max_size / write_keepalive overridden,
  * CONF.bgp.running_config['remote_addr'] and light stand-ins for the `peer` argument of the callbacks.
Only the directory is observed (names, lines, bytes after the last newline) and whether a start ended in sys.exit().
A crash in the middle of a write is produced on the disk: the callback runs, then the file it wrote to is cut back to
`size before + off` bytes, files created after the write (a rotation) are removed, and the handler object is dropped.
"""
import json


def _no_constant(name):
    raise ValueError('%s is not JSON' % name)


def strict_loads(text):
    """JSON as RFC 8259 defines it: the tokens Infinity, -Infinity and NaN (which Python's decoder accepts) are refused"""
    return json.loads(text, parse_constant=_no_constant)
import logging
import os
import shutil
import sys

from lib import base

base.setup_impl_path()

from oslo_config import cfg  # noqa: E402
from yabgp import config as _yabgp_config  # noqa: E402,F401  (registers the bgp option group)
import yabgp.handler.default_handler as dh  # noqa: E402

# the handler reports a refused start with LOG.error; keep that off the harness's stderr
logging.getLogger('yabgp').addHandler(logging.NullHandler())
logging.getLogger('yabgp').propagate = False

CONF = cfg.CONF
SCRATCH_ROOT = '/tmp/build/C20'
BASE = 1700000000.0
TICK = 0.25

# callbacks that write a record: name -> message type written
EVENT_TYPES = {'update': 2, 'update_error': 6, 'keepalive': 4, 'send_open': 1, 'open_received': 1,
               'route_refresh': 5, 'cisco_route_refresh': 128, 'notification': 3, 'connection_lost': 0,
               'connection_failed': 0}
# callbacks whose time stamp is time.time() (the others get it as an argument)
CLOCK_STAMPED = ('route_refresh', 'cisco_route_refresh', 'notification', 'connection_lost', 'connection_failed')


class Clock(object):
    """stand-in for the `time` module inside default_handler"""

    def __init__(self):
        self.n = 0

    def time(self):
        return BASE + self.n * TICK


class _Factory(object):
    def __init__(self, addr):
        self.peer_addr = addr


class Peer(object):
    """what the callbacks read of the protocol object"""

    def __init__(self, addr):
        self.factory = _Factory(addr)
        self.msg_recv_stat = {'Keepalives': 1}


def name_of(n):
    return '%s.msg' % (BASE + n * TICK)


def tick_of(name):
    v = (float(name[:-4]) - BASE) / TICK
    assert name.endswith('.msg') and v == int(v) and v >= 0, name
    return int(v)


def record_text(t, seq, ty, msg):
    """the line the handler is documented to write for a record (without the newline)"""
    rec = {'t': t, 'seq': seq, 'type': ty}
    rec.update({'msg': msg})
    return json.dumps(rec)


def plen_of(t, ty, msg):
    """length of the JSON text with the digits of the sequence number taken out"""
    return len(record_text(t, 0, ty, msg).encode()) - 1


class ImplLog(object):
    def __init__(self, tag, max_size, write_keepalive=True, addr='10.0.0.1'):
        self.root = os.path.join(SCRATCH_ROOT, 'scratch_%s_%d' % (tag, os.getpid()))
        shutil.rmtree(self.root, ignore_errors=True)
        os.makedirs(self.root)
        self.addr = addr
        self.msgdir = os.path.join(self.root, addr.lower(), 'msg')
        self.clock = Clock()
        self.handler = None
        self.refused = False
        self.max_size = max_size
        self.write_keepalive = write_keepalive
        self.peer = Peer(addr)
        self._saved_time = dh.time
        dh.time = self.clock
        CONF.set_override('write_disk', True, group='message')
        CONF.set_override('write_dir', self.root, group='message')
        CONF.set_override('write_msg_max_size', max_size, group='message')
        CONF.set_override('write_keepalive', write_keepalive, group='message')
        self._saved_rc = getattr(CONF.bgp, 'running_config', None)
        CONF.bgp.running_config = {'remote_addr': addr}

    def close(self):
        self.handler = None
        dh.time = self._saved_time
        for k in ('write_disk', 'write_dir', 'write_msg_max_size', 'write_keepalive'):
            CONF.clear_override(k, group='message')
        CONF.bgp.running_config = self._saved_rc
        shutil.rmtree(self.root, ignore_errors=True)

    # ---- the directory
    def raw(self):
        """{file name: bytes}"""
        out = {}
        if os.path.isdir(self.msgdir):
            for fn in os.listdir(self.msgdir):
                with open(os.path.join(self.msgdir, fn), 'rb') as fh:
                    out[fn] = fh.read()
        return out

    def set_raw(self, files):
        """replace the directory content (the handler must be dead)"""
        assert self.handler is None
        shutil.rmtree(self.msgdir, ignore_errors=True)
        os.makedirs(self.msgdir)
        for fn, data in files.items():
            with open(os.path.join(self.msgdir, fn), 'wb') as fh:
                fh.write(data)

    def observe(self):
        return observe_raw(self.raw())

    def lexicographic_order_is_numeric(self):
        names = list(self.raw())
        return sorted(names) == sorted(names, key=tick_of)

    # ---- operations
    def tick(self, dt):
        self.clock.n += dt

    def restart(self):
        """a new DefaultHandler().init() on the same directory; 'ok' | 'refused' | 'raise:<class>'"""
        self.handler = None
        self.refused = False
        self.last_raise = None
        h = dh.DefaultHandler()
        try:
            h.init()
        except SystemExit:
            self.refused = True
            return 'refused'
        except Exception as e:  # noqa
            self.refused = True
            return 'raise:%s' % e.__class__.__name__
        self.handler = h
        return 'ok'

    def call(self, cb, msg):
        """one callback of the running handler (nothing happens when no handler runs)"""
        h = self.handler
        t = self.clock.time()
        self.last_raise = None
        if h is None:
            return
        try:
            self._dispatch(h, t, cb, msg)
        except Exception as e:   # noqa: the agent's catch-alls would log it and carry on; the audit of the files judges
            self.last_raise = type(e).__name__

    def _dispatch(self, h, t, cb, msg):
        p = self.peer
        if cb == 'update':
            h.update_received(p, t, msg)
        elif cb == 'update_error':
            h.on_update_error(p, t, msg)
        elif cb == 'keepalive':
            h.keepalive_received(p, t)
        elif cb == 'send_open':
            h.send_open(p, t, msg)
        elif cb == 'open_received':
            h.open_received(p, t, msg)
        elif cb == 'route_refresh':
            h.route_refresh_received(p, msg, 5)
        elif cb == 'cisco_route_refresh':
            h.route_refresh_received(p, msg, 128)
        elif cb == 'notification':
            h.notification_received(p, msg)
        elif cb == 'connection_lost':
            h.on_connection_lost(p)
        elif cb == 'connection_failed':
            h.on_connection_failed(self.addr, msg)
        elif cb == 'established':
            h.on_established(p, msg)
        elif cb == 'check_file_size':
            h.check_file_size(self.addr)
        else:
            raise ValueError(cb)

    def crash_in(self, cb, msg, off):
        """the callback is interrupted when `off` bytes of its record have reached the disk"""
        if self.handler is None:
            return
        before = self.raw()
        self.call(cb, msg)
        after = self.raw()
        self.handler = None
        grown = [fn for fn in before if after.get(fn) != before[fn]]
        files = dict(before)
        anomaly = None
        if len(grown) > 1:
            anomaly = 'one callback changed %d files that existed before it' % len(grown)
        for fn in grown:
            if fn not in after or not after[fn].startswith(before[fn]):
                # not an append: the callback truncated / rewrote / removed a file holding reported records; nothing to tear
                anomaly = 'a callback truncated, rewrote or removed a file that already held records (%s)' % fn
                files = after
                break
            files[fn] = after[fn][:len(before[fn]) + off]
        self.set_raw(files)
        return anomaly


def payload_of(cb, msg):
    """the value of the record's `msg` key for a callback"""
    if cb in ('keepalive', 'connection_lost'):
        return None
    return msg


def model_ops(cb, msg, clock_n, write_keepalive=True):
    """the model operations one callback stands for"""
    t = BASE + clock_n * TICK
    if cb == 'established':
        return []
    if cb == 'check_file_size':
        return [{'k': 'rotate'}]
    if cb == 'keepalive' and not write_keepalive:
        return []
    ty = EVENT_TYPES[cb]
    ev = {'k': 'event', 'ty': ty, 'plen': plen_of(t, ty, payload_of(cb, msg))}
    return [ev, {'k': 'rotate'}] if cb == 'update' else [ev]


def model_crash(cb, msg, clock_n, off, write_keepalive=True):
    ops = model_ops(cb, msg, clock_n, write_keepalive)
    if not ops or ops[0]['k'] != 'event':
        return None
    return {'k': 'crash', 'ty': ops[0]['ty'], 'plen': ops[0]['plen'], 'off': off}


def classify_line(line):
    """[seq, type, bytes] for one complete record with exactly the documented keys, {"junk": bytes} otherwise"""
    try:
        v = strict_loads(line.decode())
    except Exception:  # noqa
        return {'junk': len(line)}
    if isinstance(v, dict) and sorted(v) == ['msg', 'seq', 't', 'type'] and isinstance(v['seq'], int) \
            and isinstance(v['type'], int) and not isinstance(v['seq'], bool):
        return [v['seq'], v['type'], len(line)]
    return {'junk': len(line)}


def observe_raw(files):
    """the canonical observation of a directory: files in the order of their (numeric) names"""
    out = []
    for fn in sorted(files, key=tick_of):
        parts = files[fn].split(b'\n')
        out.append({'name': tick_of(fn), 'lines': [classify_line(l) for l in parts[:-1]], 'tail': len(parts[-1])})
    return out


def spec_view(obs):
    """what the auditor of Spec/LogSpec.lean is given"""
    return [{'name': f['name'], 'lines': [l[0] if isinstance(l, list) else None for l in f['lines']],
             'torn': f['tail']} for f in obs]
