"""Structured value generators for UPDATE messages (DESIGN §3.5): boundary pools, exhaustive
small scopes, structured random values built from the repo's own value shapes."""
import struct

U16 = [0, 1, 2, 255, 256, 257, 32767, 32768, 65534, 65535]
U32 = [0, 1, 255, 256, 32768, 65535, 65536, 65537, 2 ** 31 - 1, 2 ** 31, 2 ** 31 + 1, 2 ** 32 - 2, 2 ** 32 - 1]
ADDRS = [0, 1, 0x7f000001, 0x0a000000, 0xc0a80101, 0x80000000, 0xffffffff, 0xfffffffe, 0x01020304,
         0xaaaaaaaa, 0x55555555, 0x00ff00ff, 0xe0000001]
WELL_KNOWN = ['PLANNED_SHUT', 'ACCEPT_OWN', 'ROUTE_FILTER_TRANSLATED_v4', 'ROUTE_FILTER_v4',
              'ROUTE_FILTER_TRANSLATED_v6', 'ROUTE_FILTER_v6', 'BLACKHOLE', 'NO_EXPORT', 'NO_ADVERTISE',
              'NO_EXPORT_SUBCONFED', 'NOPEER']


def ip(n):
    return '%d.%d.%d.%d' % ((n >> 24) & 255, (n >> 16) & 255, (n >> 8) & 255, n & 255)


def net(addr, ln):
    mask = (0xffffffff << (32 - ln)) & 0xffffffff if ln else 0
    return '%s/%d' % (ip(addr & mask), ln)


def all_prefixes():
    """every length 0..32 x boundary addresses, network form"""
    out = []
    seen = set()
    for ln in range(33):
        for a in ADDRS:
            p = net(a, ln)
            if p not in seen:
                seen.add(p)
                out.append(p)
    return out


def rnd_prefix(r):
    ln = r.choice([0, 1, 7, 8, 9, 15, 16, 17, 23, 24, 25, 31, 32, r.randint(0, 32)])
    a = r.choice(ADDRS + [r.getrandbits(32)])
    return net(a, ln)


def rnd_u32(r):
    return r.choice(U32) if r.random() < 0.6 else r.getrandbits(32)


def rnd_u16(r):
    return r.choice(U16) if r.random() < 0.6 else r.getrandbits(16)


def rnd_asn(r, asn4):
    return rnd_u32(r) if asn4 else rnd_u16(r)


def rnd_aspath(r, asn4, big=False):
    segs = []
    nseg = r.choice([0, 1, 1, 2, 3]) if not big else r.choice([1, 2, 5])
    for _ in range(nseg):
        t = r.choice([1, 2, 2, 2, 3, 4])
        n = r.choice([0, 1, 2, 5]) if not big else r.choice([30, 63, 64, 65, 127, 128, 255])
        segs.append([t, [rnd_asn(r, asn4) for _ in range(n)]])
    return segs


def community_text(v):
    import_names = {0xFFFF0000: 'PLANNED_SHUT', 0xFFFF0001: 'ACCEPT_OWN', 0xFFFF0002: 'ROUTE_FILTER_TRANSLATED_v4',
                    0xFFFF0003: 'ROUTE_FILTER_v4', 0xFFFF0004: 'ROUTE_FILTER_TRANSLATED_v6',
                    0xFFFF0005: 'ROUTE_FILTER_v6', 0xFFFF029A: 'BLACKHOLE', 0xFFFFFF01: 'NO_EXPORT',
                    0xFFFFFF02: 'NO_ADVERTISE', 0xFFFFFF03: 'NO_EXPORT_SUBCONFED', 0xFFFFFF04: 'NOPEER'}
    if v in import_names:
        return import_names[v]
    return '%d:%d' % (v >> 16, v & 0xffff)


def rnd_community(r):
    if r.random() < 0.3:
        return r.choice(WELL_KNOWN)
    v = r.choice([0, 1, 65535, 65536, 0xFFFF0006, 0xFFFF0299, 0xFFFFFF00, 0xFFFFFF05, 0xFFFFFFFF, r.getrandbits(32)])
    return community_text(v)


def rnd_attr_value(r, code, asn4):
    if code == 1:
        return r.choice([0, 1, 2])
    if code == 2:
        return rnd_aspath(r, asn4, big=r.random() < 0.1)
    if code == 3 or code == 9:
        return ip(r.choice(ADDRS + [r.getrandbits(32)]))
    if code == 4 or code == 5:
        return rnd_u32(r)
    if code == 6:
        return ''
    if code == 7:
        return [rnd_asn(r, asn4), ip(r.choice(ADDRS))]
    if code == 8:
        return [rnd_community(r) for _ in range(r.choice([0, 1, 2, 3, 63]))]
    if code == 10:
        return [ip(r.choice(ADDRS + [r.getrandbits(32)])) for _ in range(r.choice([0, 1, 2, 5, 63]))]
    if code == 32:
        return ['%d:%d:%d' % (rnd_u32(r), rnd_u32(r), rnd_u32(r)) for _ in range(r.choice([0, 1, 2, 21]))]
    raise KeyError(code)


STD_CODES = [1, 2, 3, 4, 5, 6, 7, 8, 9, 10, 32]


def rnd_attrs(r, asn4):
    """an ordered attribute dict as a list of [code, value] pairs (insertion order)"""
    k = r.choice([0, 1, 1, 2, 3, 4, 6, 11])
    codes = r.sample(STD_CODES, min(k, len(STD_CODES)))
    if r.random() < 0.5:
        codes.sort()
    return [[c, rnd_attr_value(r, c, asn4)] for c in codes]


def rnd_update(r, asn4):
    m = {}
    sel = r.random()
    if sel < 0.85:
        a = rnd_attrs(r, asn4)
        if a or r.random() < 0.5:
            m['attr'] = a
    if r.random() < 0.7:
        m['nlri'] = [rnd_prefix(r) for _ in range(r.choice([0, 1, 1, 2, 3, 8]))]
    if r.random() < 0.5:
        m['withdraw'] = [rnd_prefix(r) for _ in range(r.choice([0, 1, 2, 5]))]
    return m


def mutate(r, b):
    """single-field corruptions, truncations, length-field mutations of a byte string"""
    b = bytearray(b)
    if not b:
        return bytes([r.getrandbits(8)])
    k = r.random()
    if k < 0.3:
        i = r.randrange(len(b))
        b[i] = r.choice([0, 1, 255, 254, b[i] ^ 0x80, b[i] ^ 1, (b[i] + 1) & 255, (b[i] - 1) & 255, r.getrandbits(8)])
    elif k < 0.5:
        del b[r.randrange(len(b)):]
    elif k < 0.65:
        i = r.randrange(len(b) + 1)
        b[i:i] = bytes([r.getrandbits(8) for _ in range(r.choice([1, 1, 2, 4]))])
    elif k < 0.8:
        i = r.randrange(len(b))
        del b[i:i + r.choice([1, 1, 2, 4])]
    else:
        for _ in range(r.choice([2, 3, 5])):
            i = r.randrange(len(b))
            b[i] = r.getrandbits(8)
    return bytes(b)
