"""Event and message pools for the session suites."""
import struct

MARK = b'\xff' * 16


def frame(ty, body, length=None):
    ln = len(body) + 19 if length is None else length
    return MARK + struct.pack('!HB', ln & 0xffff, ty) + body


def open_body(asn, hold, bgp_id=0x0a000002, version=4, caps=b''):
    two = asn if asn <= 65535 else 23456
    return struct.pack('!BHHIB', version, two, hold, bgp_id, len(caps)) + caps


def cap(code, val=b''):
    c = bytes([code, len(val)]) + val
    return bytes([2, len(c)]) + c


def std_caps(asn, as4=True, mp=True, rr=True):
    out = b''
    if mp:
        out += cap(1, b'\x00\x01\x00\x01')
    if rr:
        out += cap(2) + cap(128)
    if as4 or asn > 65535:
        out += cap(65, struct.pack('!I', asn))
    return out


KEEPALIVE = frame(4, b'')


def update_body(nlri=b'\x18\x0a\x00\x00', attrs=None, withdraw=b''):
    if attrs is None:
        attrs = bytes.fromhex('400101004002004003040a000001')
    return struct.pack('!H', len(withdraw)) + withdraw + struct.pack('!H', len(attrs)) + attrs + nlri


def message_pool(remote_as, r=None):
    """(label, bytes) of whole frames a peer may send: the alphabet of C01 plus framing violations"""
    good_open = frame(1, open_body(remote_as, 90, caps=std_caps(remote_as)))
    pool = [
        ('open_ok', good_open),
        ('open_nocaps', frame(1, open_body(remote_as, 180))),
        ('open_hold0', frame(1, open_body(remote_as, 0, caps=std_caps(remote_as)))),
        ('open_hold3', frame(1, open_body(remote_as, 3, caps=std_caps(remote_as, as4=False)))),
        # hold times that are not multiples of 3 (the keepalive period H/3 is not a whole number of seconds)
        ('open_hold4', frame(1, open_body(remote_as, 4, caps=std_caps(remote_as)))),
        ('open_hold8', frame(1, open_body(remote_as, 8))),
        ('open_hold20', frame(1, open_body(remote_as, 20, caps=std_caps(remote_as)))),
        ('open_hold1', frame(1, open_body(remote_as, 1, caps=std_caps(remote_as)))),
        ('open_hold2', frame(1, open_body(remote_as, 2))),
        ('open_hold65535', frame(1, open_body(remote_as, 65535, caps=std_caps(remote_as)))),
        ('open_badver', frame(1, open_body(remote_as, 90, version=3))),
        ('open_ver5', frame(1, open_body(remote_as, 90, version=5, caps=std_caps(remote_as)))),
        ('open_ver255', frame(1, open_body(remote_as, 90, version=255))),
        ('open_wrongas', frame(1, open_body(remote_as + 1, 90, caps=std_caps(remote_as + 1)))),
        ('open_as4_mismatch_cap', frame(1, struct.pack('!BHHIB', 4, remote_as if remote_as <= 65535 else 23456, 90, 0x0a000002, 8)
                                         + cap(65, struct.pack('!I', (remote_as + 7) & 0xffffffff)))),
        ('open_as4_only_in_cap', frame(1, struct.pack('!BHHIB', 4, 64999, 90, 0x0a000002, 8)
                                        + cap(65, struct.pack('!I', remote_as)))),
        # capabilities naming address families / values the agent has no name for: they are ignored, the OPEN stands
        # ADD-PATH for IPv4 unicast, Send/Receive = both (a family and a value the agent does have names for)
        ('open_addpath_ipv4', frame(1, open_body(remote_as, 90, caps=std_caps(remote_as) + cap(69, bytes([0, 1, 1, 3]))))),
        # capabilities the agent has no decoder for (73 FQDN, 66, 67 with values): reported by code, the OPEN stands
        ('open_unknown_caps', frame(1, open_body(remote_as, 90, caps=std_caps(remote_as) + cap(73, b'\x04host\x00') + cap(66, bytes([1, 2, 3]))
                                                + cap(67, b'')))),
        ('open_addpath_unknown_family', frame(1, open_body(remote_as, 90, caps=std_caps(remote_as) + cap(69, bytes([0, 1, 132, 3]))))),
        ('open_addpath_action0', frame(1, open_body(remote_as, 90, caps=std_caps(remote_as) + cap(69, bytes([0, 1, 1, 0, 0, 2, 1, 4]))))),
        ('open_llgr_extnh_unknown', frame(1, open_body(remote_as, 90, caps=std_caps(remote_as) + cap(71, bytes([0, 99, 9, 0, 0, 0, 10]) * 2)
                                                      + cap(5, bytes([0, 99, 0, 9, 0, 7]))))),
        ('open_trunc_cap', frame(1, open_body(remote_as, 90, caps=b'\x02\x06\x41\x04\x00\x00'))),
        ('open_badopt', frame(1, open_body(remote_as, 90, caps=b'\x01\x00'))),
        ('open_short', frame(1, b'\x04\x00\x01')),
        ('keepalive', KEEPALIVE),
        ('keepalive_body', frame(4, b'\x00')),
        ('update_ok', frame(2, update_body())),
        ('update_withdraw', frame(2, update_body(nlri=b'', attrs=b'', withdraw=b'\x18\x0a\x00\x00'))),
        ('update_aspath4', frame(2, update_body(attrs=bytes.fromhex('40010100' '4002060201' '0000fde9' '4003040a000001')))),
        ('update_aspath2', frame(2, update_body(attrs=bytes.fromhex('40010100' '4002040201' 'fde9' '4003040a000001')))),
        # a 2-octet-AS UPDATE as an OLD speaker's neighbour relays it: AS4_PATH (optional transitive, always 4-octet numbers)
        # in front of the AS_PATH with 2-octet numbers - the width of AS_PATH is the session's, whatever came before it
        ('update_as4path_first', frame(2, update_body(attrs=bytes.fromhex('40010100' 'c011060201' '0000fde9' '4002040201' 'fde9' '4003040a000001')))),
        # AGGREGATOR in both widths (6 octets with a 2-octet AS, 8 with a 4-octet one): well-formed in exactly one session width
        ('update_aggregator4', frame(2, update_body(attrs=bytes.fromhex('40010100' '4002060201' '0000fde9' '4003040a000001' 'c00708' '0000fde9' '0a000009')))),
        ('update_aggregator2', frame(2, update_body(attrs=bytes.fromhex('40010100' '4002040201' 'fde9' '4003040a000001' 'c00706' 'fde9' '0a000009')))),
        # an AGGREGATOR of 8 octets next to an AS_PATH with 2-octet numbers: malformed in either session width
        ('update_aggregator8_aspath2', frame(2, update_body(attrs=bytes.fromhex('40010100' '4002040201' 'fde9' '4003040a000001' 'c00708' '0000fde9' '0a000009')))),
        # attributes of length 0 where the RFC fixes a length (ORIGIN, NEXT_HOP), and a last attribute whose header is cut short
        ('update_origin_len0', frame(2, update_body(attrs=bytes.fromhex('400100' '4002040201' 'fde9' '4003040a000001')))),
        ('update_nexthop_len0', frame(2, update_body(attrs=bytes.fromhex('40010100' '4002040201' 'fde9' '400300')))),
        ('update_attr_header_cut', frame(2, update_body(attrs=bytes.fromhex('40010100' '4002040201' 'fde9' '4003040a000001' '4004')))),
        ('update_eor', frame(2, update_body(nlri=b'', attrs=b''))),
        # MP_REACH_NLRI / MP_UNREACH_NLRI for an address family the agent has no name for (AFI 1, SAFI 132)
        ('update_mp_unknown_family', frame(2, update_body(nlri=b'', attrs=bytes.fromhex('40010100' '400200' '800e0b' '000184' '04' '0a000001' '00' '0102')))),
        ('update_mpunreach_unknown_family', frame(2, update_body(nlri=b'', attrs=bytes.fromhex('800f05' '000184' '0102')))),
        # UPDATEs of the multiprotocol families the agent does keep books on (per-family version counters): withdrawals of
        # routes never announced, announcements, withdrawals - every one of them is an UPDATE that arrived
        ('update_vpnv4_withdraw_unknown', bytes.fromhex('ffffffffffffffffffffffffffffffff002c0200000015900f00110001806880000000000064000000640a09')),
        ('update_vpnv4_announce', bytes.fromhex('ffffffffffffffffffffffffffffffff004802000000314001010040020040050400000064900e001f0001800c00000000000000000a000009006800019100000064000000640a09')),
        ('update_flowspec_withdraw_unknown', bytes.fromhex('ffffffffffffffffffffffffffffffff0023020000000c900f00080001850401100a08')),
        ('update_flowspec_announce', bytes.fromhex('ffffffffffffffffffffffffffffffff0033020000001c4001010040020040050400000064900e000a00018500000401100a08')),
        ('update_ipv6_withdraw_unknown', bytes.fromhex('ffffffffffffffffffffffffffffffff0025020000000e900f000a0002013020010db80001')),
        ('update_ipv6_announce', bytes.fromhex('ffffffffffffffffffffffffffffffff0045020000002e4001010040020040050400000064900e001c0002011020010db8000000000000000000000001003020010db80001')),
        # the largest message the RFC allows (4096 octets): a well-formed UPDATE padded by an unknown optional transitive
        # attribute with extended length, and a malformed one of the same size
        ('update_max4096', frame(2, update_body(nlri=b'', attrs=bytes.fromhex('40010100' '400200' '4003040a000001')
                                                 + b'\xd0\xfa' + struct.pack('!H', 4055) + b'\x5a' * 4055))),
        ('update_max4096_bad', frame(2, update_body(nlri=b'', attrs=bytes.fromhex('40010109' '400200' '4003040a000001')
                                                     + b'\xd0\xfa' + struct.pack('!H', 4055) + b'\x5a' * 4055))),
        ('update_bad_origin', frame(2, update_body(attrs=bytes.fromhex('40010103')))),
        ('update_bad_prefix', frame(2, update_body(nlri=b'\x21\x0a\x00\x00\x00\x00'))),
        ('update_short', frame(2, b'\x00')),
        ('update_badlen', frame(2, b'\x00\x10\x00\x00')),
        ('notif_version', frame(3, b'\x02\x01')),
        ('notif_cease', frame(3, b'\x06\x02')),
        ('notif_hold', frame(3, b'\x04\x00\xaa\xbb')),
        ('notif_short', frame(3, b'\x06')),
        # every error code the constants know (1..7) and codes they do not (0, 8, 255), sub-codes known and unknown
        ('notif_code0', frame(3, b'\x00\x00')),
        ('notif_hdr', frame(3, b'\x01\x02\x00\x13')),
        ('notif_update', frame(3, b'\x03\x0b')),
        ('notif_fsm', frame(3, b'\x05\x00')),
        ('notif_cap', frame(3, b'\x07\x01')),
        ('notif_code8', frame(3, b'\x08\x00')),
        ('notif_code255', frame(3, b'\xff\xff')),
        ('notif_cease_sub9', frame(3, b'\x06\x09')),
        ('rr', frame(5, b'\x00\x01\x00\x01')),
        ('rr_cisco', frame(128, b'\x00\x01\x00\x01')),
        ('rr_bad', frame(5, b'\x00\x01\x00')),
        ('bad_marker', b'\xff' * 15 + b'\xfe' + b'\x00\x13\x04'),
        ('bad_len0', frame(4, b'', length=0)),
        ('bad_len18', frame(4, b'', length=18)),
        ('bad_len4097', frame(2, b'\x00' * 40, length=4097)),
        ('bad_type0', frame(0, b'')),
        ('bad_type6', frame(6, b'\x01\x02')),
        ('bad_type255', frame(255, b'')),
    ]
    return pool
