"""Which theorems, generated-table obligations and correspondence suites decide each property."""

TRUSTED = [
    "Lean 4.33.0 kernel; axioms allowed in property theorems: propext, Classical.choice, Quot.sound (audited with #print axioms on every run)",
    "Lean statements in lean/Yabgp/Props and specifications in lean/Yabgp/Spec (my reading of the RFCs)",
    "harness/gen_tables.py (translator for the declarative parts of /repo: constants, flags, registries, routes)",
    "correspondence harness (harness/suites, harness/impl_*.py, lean/Yabgp/Driver JSON glue): sampled/differential tie between hand-written models and /repo's code",
    "stand-ins for Twisted, py-radix, simplejson under harness/stubs; CPython 3.12 struct/binascii/json; netaddr, oslo.config, Flask as installed",
]

PROPS = {
    'C06': {
        'module': 'Yabgp.Props.C06',
        'theorems': ['Yabgp.C06_roundtrip', 'Yabgp.C06_roundtrip_body', 'Yabgp.attr_roundtrip',
                     'Yabgp.attrLoop_roundtrip', 'Yabgp.parsePrefixList_enc_all'],
        'genagree': ['Yabgp.GenAgree.attr_codes', 'Yabgp.GenAgree.attr_ids', 'Yabgp.GenAgree.attr_flags',
                     'Yabgp.GenAgree.update_errors', 'Yabgp.GenAgree.header_consts',
                     'Yabgp.GenAgree.well_known_int2str', 'Yabgp.GenAgree.well_known_str2int'],
        'suites': ['update'],
        'cannot': 'text forms of IPv6/MAC are not involved; netaddr dotted-quad parsing is trusted in the glue',
    },
}

PROPS['C14'] = {
    'module': 'Yabgp.Props.C14',
    'theorems': ['Yabgp.C14_open_roundtrip', 'Yabgp.C14_open_true_as', 'Yabgp.C14_open_decodes_reference',
                 'Yabgp.C14_notification_roundtrip', 'Yabgp.C14_keepalive', 'Yabgp.C14_keepalive_rejects_body',
                 'Yabgp.C14_routerefresh_roundtrip'],
    'genagree': ['Yabgp.GenAgree.open_tables', 'Yabgp.GenAgree.capability_codes', 'Yabgp.GenAgree.header_consts'],
    'suites': ['openmsg'],
    'cannot': 'netaddr rendering of the BGP identifier is compared as text produced by the model\'s own dotted-quad renderer',
}

# properties not claimed yet, with the reason that goes into MANIFEST.not_applicable
NOT_YET = {}
