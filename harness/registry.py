"""Which theorems, generated-table obligations and correspondence suites decide each property."""

TRUSTED = [
    "Lean 4.33.0 kernel; axioms allowed in property theorems: propext, Classical.choice, Quot.sound (audited with #print axioms on every run)",
    "Lean statements in lean/Yabgp/Props and specifications in lean/Yabgp/Spec (my reading of the RFCs)",
    "harness/gen_tables.py (translator for the declarative parts of /repo: constants, flags, registries, routes)",
    "correspondence harness (harness/suites, harness/impl_*.py, lean/Yabgp/Driver JSON glue): sampled/differential tie between hand-written models and /repo's code",
    "stand-ins for Twisted, py-radix, simplejson under harness/stubs; CPython 3.12 struct/binascii/json; netaddr, oslo.config, Flask as installed",
]

PROPS = {
    'C06': {
        'module': 'Yabgp.Props.C06',
        'theorems': ['Yabgp.C06_roundtrip', 'Yabgp.C06_roundtrip_body', 'Yabgp.attr_roundtrip',
                     'Yabgp.attrLoop_roundtrip', 'Yabgp.parsePrefixList_enc_all'],
        'genagree': ['Yabgp.GenAgree.attr_codes', 'Yabgp.GenAgree.attr_ids', 'Yabgp.GenAgree.attr_flags',
                     'Yabgp.GenAgree.update_errors', 'Yabgp.GenAgree.header_consts',
                     'Yabgp.GenAgree.well_known_int2str', 'Yabgp.GenAgree.well_known_str2int'],
        'suites': ['update'],
        'cannot': 'text forms of IPv6/MAC are not involved; netaddr dotted-quad parsing is trusted in the glue',
    },
}

PROPS['C14'] = {
    'module': 'Yabgp.Props.C14',
    'theorems': ['Yabgp.C14_open_roundtrip', 'Yabgp.C14_open_true_as', 'Yabgp.C14_open_decodes_reference',
                 'Yabgp.C14_notification_roundtrip', 'Yabgp.C14_keepalive', 'Yabgp.C14_keepalive_rejects_body',
                 'Yabgp.C14_routerefresh_roundtrip'],
    'genagree': ['Yabgp.GenAgree.open_tables', 'Yabgp.GenAgree.capability_codes', 'Yabgp.GenAgree.header_consts'],
    'suites': ['openmsg'],
    'cannot': 'netaddr rendering of the BGP identifier is compared as text produced by the model\'s own dotted-quad renderer',
}

SESSION_GEN = ['Yabgp.GenAgree.header_consts', 'Yabgp.GenAgree.notification_codes', 'Yabgp.GenAgree.capability_codes']
SESSION_CANNOT = ('Twisted internals and real sockets (stand-in reactor, DESIGN Appendix B), wall-clock drift, float '
                  'rounding of hold_time/3 (quantised to 1/3 s); histories that leave the single-connection regime '
                  'are attributed to C12')

PROPS['C01'] = {
    'module': 'Yabgp.Props.C01All',
    'theorems': ['Yabgp.C01_hold_timer_expires', 'Yabgp.C01_keepalive_timer_expires',
                 'Yabgp.C01_connect_retry_expires_in_session', 'Yabgp.C01_connect_retry_expires_connect',
                 'Yabgp.C01_start_from_idle', 'Yabgp.C01_manual_start_ignored', 'Yabgp.C01_manual_stop',
                 'Yabgp.C01_tcp_connected', 'Yabgp.C01_tcp_fails_connect', 'Yabgp.C01_tcp_fails_in_session',
                 'Yabgp.C01_open_accepted', 'Yabgp.C01_open_rejected', 'Yabgp.C01_open_unexpected',
                 'Yabgp.C01_keepalive_msg', 'Yabgp.C01_keepalive_bad_length', 'Yabgp.C01_update_msg',
                 'Yabgp.C01_notification_msg', 'Yabgp.C01_route_refresh_msg',
                 'Yabgp.C01_established_only_via_keepalive', 'Yabgp.C01_openconfirm_only_via_open',
                 'Yabgp.C04_framing_violation', 'Yabgp.C01_reachable_session_is_normal',
                 'Yabgp.C01_no_stale_timers', 'Yabgp.C01_timer_expiry_states'],
    'genagree': SESSION_GEN,
    'suites': ['session'],
    'cannot': SESSION_CANNOT,
    'level_text': 'Lean 4 theorems, one per RFC 4271 section 8 event, over the hand-written executable model of '
                  'fsm.py/protocol.py/factory.py/timer.py: for every state with a live tracked connection (which is EVERY reachable '
                  'session state: C01_reachable_session_is_normal, by the skeleton invariants over all histories) and every '
                  'message body / timer / operator event they give the next state, the NOTIFICATION code and sub-code, '
                  'the OPEN/KEEPALIVE emitted and the close decision; Established and OpenConfirm are shown to be '
                  'entered by no other message than KEEPALIVE-in-OpenConfirm resp. a valid OPEN-in-OpenSent; no hold or keepalive '
                  'timer of an ended session is left running in any reachable state (C01_no_stale_timers), so a timer expiry '
                  'only ever happens in a state where RFC 4271 has that timer running (C01_timer_expiry_states). The model '
                  'is tied to /repo by a per-event differential correspondence (BFS over the event alphabet + random '
                  'walks) and the RFC table is evaluated on the real implementation as an oracle.',
}

PROPS['C04'] = {
    'module': 'Yabgp.Props.C04',
    'theorems': ['Yabgp.C04_terminates', 'Yabgp.C04_progress', 'Yabgp.C04_two_segments', 'Yabgp.C04_segmentation',
                 'Yabgp.C04_framing_violation', 'Yabgp.C04_deframer_is_rfc'],
    'genagree': SESSION_GEN,
    'suites': ['framing'],
    'cannot': SESSION_CANNOT + '; the model deframer is proved equal to an independently written RFC 4271 deframer (Spec/RfcFrame.lean, '
              'C04_deframer_is_rfc); the framing suite applies its own reference deframer to the implementation',
}

PROPS['C10'] = {
    'module': 'Yabgp.Props.C10All',
    'theorems': ['Yabgp.C10_update_keeps_session', 'Yabgp.C10_decode_context_stable', 'Yabgp.C10_one_report',
                 'Yabgp.C10_no_escape_send', 'Yabgp.C04_terminates', 'Yabgp.C10_never_escapes', 'Yabgp.C10_reports_le_frames', 'Yabgp.no_escape_run',
                 'Yabgp.ne_step', 'Yabgp.parseOpen_err', 'Yabgp.C02_never_stuck'],
    'genagree': SESSION_GEN,
    'suites': ['session', 'framing', 'hostile'],
    'cannot': SESSION_CANNOT + '; whole histories: C10_never_escapes (after the agent\'s start no step of any run of enabled events - any '
              'bytes in any segmentation - produces the escape marker, i.e. no exception leaves a callback of the modelled code) and '
              'C02_never_stuck (after any input the agent is in session on a live connection or has its reconnection scheduled); '
              'per message: at most one report, an UPDATE never leaves Established, the decode context changes only with an OPEN. '
              'Not covered: memory exhaustion other than through non-termination; termination of the message decoders themselves is C11',
}

PROPS['C03'] = {
    'module': 'Yabgp.Props.C03All',
    'theorems': ['Yabgp.C03_contract_holds', 'Yabgp.timInv_step', 'Yabgp.C03_rest_keeps_timers', 'Yabgp.C03_contract_survives_rest',
                 'Yabgp.C03_keepalive_deadline_moves_only_when_sent', 'Yabgp.C03_hold_deadline_moves_only_on_arrival',
                 'Yabgp.C03_deadlines_fixed_by_other_events', 'Yabgp.C03_clock_never_passes_a_deadline',
                 'Yabgp.C03_hold_time_fixed_in_session', 'Yabgp.C03_opensent_entry', 'Yabgp.C03_opensent_deadline_fixed',
                 'Yabgp.C03_opensent_timers', 'Yabgp.C03_opensent_only_hold_ends_the_wait', 'Yabgp.C01_keepalive_timer_expires',
                 'Yabgp.C01_hold_timer_expires', 'Yabgp.C01_keepalive_msg', 'Yabgp.C01_update_msg',
                 'Yabgp.C01_open_accepted', 'Yabgp.C01_tcp_connected'],
    'genagree': SESSION_GEN,
    'suites': ['session', 'hostile', 'rest'],
    'cannot': SESSION_CANNOT,
    'level_text': 'Lean 4 invariant proved by induction over ALL event sequences from boot (any configuration, any peer '
                  'schedule, any same-instant order of expiry and arrival, any number of sessions): in OpenConfirm / '
                  'Established with H > 0 a KEEPALIVE is due within H/3 and the hold deadline within H; with H = 0 neither '
                  'timer exists; plus per-event theorems for expiry and restart, and - because "due within" alone is weak under '
                  'repetition - one-step theorems that the deadlines move only for the right reason: while the session lasts '
                  'the KEEPALIVE deadline is replaced only by the keepalive timer expiring (a KEEPALIVE is written, the next one '
                  'scheduled exactly H/3 later), the hold deadline only by a chunk that reported a KEEPALIVE or UPDATE (then exactly '
                  'H after that moment), the hold time itself never, and the clock never passes a deadline; OpenSent is entered only by a TCP '
                  'connection coming up with the hold timer set exactly 4 minutes ahead, nothing moves that deadline while the agent '
                  'waits for the OPEN, and no other timer can expire there (Props/C03d.lean). Tied to /repo by the session '
                  'correspondence, which compares the pending reactor call times after every event.',
}

PROPS['C05'] = {
    'module': 'Yabgp.Props.C05',
    'theorems': ['Yabgp.C05_open_fields', 'Yabgp.C05_only_configured_capabilities', 'Yabgp.C05_asn4_iff_both',
                 'Yabgp.C05_new_connection_decodes_2octet', 'Yabgp.KF_C05_capability_leak', 'Yabgp.C01_open_accepted',
                 'Yabgp.C01_open_rejected', 'Yabgp.C14_open_roundtrip', 'Yabgp.C14_open_true_as'],
    'genagree': SESSION_GEN + ['Yabgp.GenAgree.open_tables'],
    'suites': ['session', 'openmsg'],
    'cannot': SESSION_CANNOT + '; "nothing leaks" is proved for version, AS, hold time, identifier and for the capability set '
              'only as "subset of the configured set" - the capability leak is a recorded known finding',
}

PROPS['C13'] = {
    'module': 'Yabgp.Props.C13',
    'theorems': ['Yabgp.C13_stop_reaches_stopped', 'Yabgp.C13_final', 'Yabgp.C13_stop_state', 'Yabgp.C13_quiet_step',
                 'Yabgp.C13_quiet', 'Yabgp.C13_start', 'Yabgp.C13_pending_attempt_aborted',
                 'Yabgp.C01_manual_stop', 'Yabgp.C01_manual_start_ignored', 'Yabgp.one_step', 'Yabgp.Core.quiet_manualStop'],
    'genagree': SESSION_GEN,
    'suites': ['session'],
    'cannot': SESSION_CANNOT,
    'level_text': 'Lean 4: C13_final - in EVERY state reachable after the agent\'s start, a manual stop leads to the stopped '
                  'situation (Idle, no timer, automatic start forbidden, tracked connection closed, the attempt in flight given '
                  'up) and from there NO continuation the environment can produce without an operator start makes the agent write '
                  'a message or start a connection attempt (induction over the continuation; the reachable-state part uses the '
                  'control-skeleton invariants One/Pend/Heal proved over all histories); C01_manual_stop: Cease iff Established; '
                  'C13_start: start from the stopped situation connects at once and re-enables automatic recovery. Tie: session '
                  'correspondence; oracle: after stop no write / connect until start.',
}

PROPS['C12'] = {
    'module': 'Yabgp.Props.C12',
    'theorems': ['Yabgp.C12_writes_to_tracked', 'Yabgp.C12_at_most_one', 'Yabgp.one_step', 'Yabgp.one_first', 'Yabgp.one_run',
                 'Yabgp.Core.one_stepOutcome', 'Yabgp.Core.one_frameOutcome', 'Yabgp.Core.pend_frameOutcome',
                 'Yabgp.heal_step', 'Yabgp.core_step_inv',
                 'Yabgp.C12_regression_start_while_attempt_pending', 'Yabgp.C12_regression_retry_while_attempt_pending',
                 'Yabgp.C12_regression_idlehold_after_late_connection_lost'],
    'genagree': SESSION_GEN,
    'suites': ['session'],
    'cannot': SESSION_CANNOT + '; "eventually closed" is the safety reading (a connection the agent opened is never open and '
              'unreferenced), not a liveness theorem about the peer or the network',
    'level_text': 'Lean 4: C12_at_most_one - in EVERY state reachable after the agent\'s start (any peer behaviour, timer order, '
                  'operator stop/start, connect-retry below or above the TCP timeout) at most one connection is live (attempt in '
                  'flight or open), every open connection is the tracked one, and the attempt in flight is the one the peering '
                  'remembers; C12_writes_to_tracked - every message goes to the tracked connection, for every state and event. '
                  'Proved on the control skeleton (invariants One, Pend, Heal) by induction over all histories. Tie: session '
                  'correspondence (the stand-in reactor keeps every connector: live connectors are counted after every event).',
}

PROPS['C18'] = {
    'module': 'Yabgp.Props.C18All',
    'theorems': ['Yabgp.C18_received_counted_once', 'Yabgp.C18_received_cumulative', 'Yabgp.C18_sent_counted_once',
                 'Yabgp.C18_increments_are_single', 'Yabgp.C18_sent_step', 'Yabgp.C18_sent_cumulative',
                 'Yabgp.C18_sent_cumulative_rest', 'Yabgp.bal_handle', 'Yabgp.core_handle', 'Yabgp.C16_routes_agree'],
    'genagree': SESSION_GEN,
    'suites': ['session', 'framing', 'rest'],
    'cannot': SESSION_CANNOT + '; received side: cumulative over any byte stream (C18_received_cumulative: the counters move by exactly the '
              'increments owed for the frames dispatched, in order); sent side: C18_sent_cumulative - after any history of enabled events '
              'from the agent\'s start the sent counter of every connection and kind equals the number of such messages written to it '
              '(invariant over all runs, using the reachable-state invariants of C02/C12 at every send site), and '
              'C18_sent_cumulative_rest - the same for histories that also contain REST requests against the route table regenerated '
              'from /repo (all five counters; octets posted to send/bin_update are assumed to be one UPDATE message: BinIsUpdate)',
}

PROPS['C09'] = {
    'module': 'Yabgp.Props.C09',
    'theorems': ['Yabgp.C09_decodes_reference', 'Yabgp.C09_rejects_attribute', 'Yabgp.C09_rejects_prefix',
                 'Yabgp.C09_prefix_length_rejected', 'Yabgp.C09_origin_rejected', 'Yabgp.C09_segment_type_rejected',
                 'Yabgp.C09_as4_segment_type_rejected', 'Yabgp.C09_med_length_rejected',
                 'Yabgp.C09_localpref_length_rejected', 'Yabgp.C09_originator_length_rejected',
                 'Yabgp.C09_nexthop_length_rejected', 'Yabgp.C09_atomic_length_rejected',
                 'Yabgp.C09_aggregator_length_rejected', 'Yabgp.refValidB_sound', 'Yabgp.refValue_parse',
                 'Yabgp.splitAttr_ref', 'Yabgp.parseOnePrefix_ref'],
    'genagree': ['Yabgp.GenAgree.attr_codes', 'Yabgp.GenAgree.attr_ids', 'Yabgp.GenAgree.update_errors'],
    'suites': ['refupdate', 'update'],
    'cannot': 'IPv4 unicast and the standard attributes + AS4_PATH/AS4_AGGREGATOR (the value space of C06); the C07 families '
              '(MP_REACH/MP_UNREACH, extended communities, tunnel attributes) are not in the reference encoder yet; the '
              'reference encoder is my reading of RFC 4271/1997/4456/6793/7911/8092; the handler-level observation '
              '(update_received vs on_update_error) is covered by C10\'s session suite',
    'level_text': 'Lean 4 theorems over an independent reference encoder (Spec/RfcEncode.lean, written from the RFCs, sharing only '
                  'byte helpers with the decoder model): for EVERY well-formed content - any attribute order, extended length '
                  'on/off and Partial bit on/off per attribute, any number of AS_PATH segments, AS4_PATH/AS4_AGGREGATOR, both AS '
                  'widths, add-path ids, arbitrary trailing bits in every prefix - the decoder model returns exactly the values '
                  'and no error; for each malformation the decoder checks, placed after any well-formed content, it returns the '
                  'RFC error sub-code and no value for the offending field. The decoder model is tied to /repo by differential '
                  'correspondence on the reference encodings and on the update suite; the implementation itself is checked '
                  'against the theorem\'s expected value on every generated instance (instances are admitted by refValidB, proved '
                  'sound for the theorem\'s hypotheses).',
}

PROPS['C15'] = {
    'module': 'Yabgp.Props.C15',
    'theorems': ['Yabgp.C15_ipv4_prefixes', 'Yabgp.C15_ipv4_prefixes_concat', 'Yabgp.C15_ipv4_prefixes_own',
                 'Yabgp.C15_communities', 'Yabgp.C15_cluster_list', 'Yabgp.C15_large_communities',
                 'Yabgp.C15_aspath_segments', 'Yabgp.C15_open_capabilities', 'Yabgp.C15_open_parameters',
                 'Yabgp.C15_unknown_capability', 'Yabgp.C15_attr_perm', 'Yabgp.C15_unknown_attr_inserted',
                 'Yabgp.Mp.C15_ipv6_prefixes', 'Yabgp.Mp.C15_labeled', 'Yabgp.Mp.C15_vpn',
                 'Yabgp.Mp.C15_ipv6_prefixes_concat', 'Yabgp.Mp.C15_labeled_concat', 'Yabgp.Mp.C15_vpn_concat',
                 'Yabgp.C15_evpn_routes', 'Yabgp.C15_evpn_unknown_type', 'Yabgp.C15_evpn_entry',
                 'Yabgp.C15_flowspec_components', 'Yabgp.C15_flowspec_component', 'Yabgp.C15_flowspec_rules',
                 'Yabgp.C15_tlv_append_general', 'Yabgp.C15_tlv_append', 'Yabgp.C15_tlv_wellformed_append', 'Yabgp.C15_tlv_insert',
                 'Yabgp.C15_instance_append', 'Yabgp.C15_ls_attr_append', 'Yabgp.C15_ls_attr_unknown_between',
                 'Yabgp.C15_nlri_unknown_skipped', 'Yabgp.C15_reg_unknown_between', 'Yabgp.C15_prefix_sid_unknown_between',
                 'Yabgp.C15_node_descriptor_dict', 'Yabgp.C15_ls_attr_position_irrelevant', 'Yabgp.C15_ls_attr_context_perm',
                 'Yabgp.KF_C15_empty_ls_attr_depends_on_order'],
    'genagree': ['Yabgp.GenAgree.attr_codes', 'Yabgp.GenAgree.attr_ids', 'Yabgp.GenAgree.capability_codes',
                 'Yabgp.gen_loops_covered', 'Yabgp.gen_ls_registry', 'Yabgp.gen_ls_special', 'Yabgp.gen_psid_registries'],
    'suites': ['compose', 'refupdate', 'mpnlri', 'evf', 'tlv'],
    'cannot': 'PARTIAL: proved for IPv4 prefix lists, communities, cluster lists, large communities, AS_PATH/AS4_PATH segments, '
              'OPEN capabilities / optional parameters (for arbitrary capability TLVs), path-attribute order and unknown-attribute '
              'insertion, IPv6 prefix lists (except the recorded 00 00 finding), labeled and VPN route lists, EVPN routes (incl. unknown route types), flowspec rules and components, and - parametric '
              'in the per-TLV body decoder - the BGP-LS NLRI / descriptor / attribute and Prefix-SID TLV containers incl. the position of '
              'the LINK_STATE attribute; extended communities are 8-octet words (C17 proves their list decoding by induction); MP_REACH '
              'enters the LINK_STATE order theorem only through the protocol id it yields',
}

PROPS['C11'] = {
    'module': 'Yabgp.Props.C11',
    'theorems': ['Yabgp.C11_update_never_raises', 'Yabgp.C11_update_raises_only_out_of_range', 'Yabgp.C11_update_first_field',
                 'Yabgp.C11_prefix_progress', 'Yabgp.C11_prefix_work', 'Yabgp.C11_attr_progress', 'Yabgp.C11_aspath_work',
                 'Yabgp.C11_caps_progress', 'Yabgp.C11_words_work', 'Yabgp.C04_terminates',
                 'Yabgp.C11_tlv_work_bound', 'Yabgp.C11_tlv_work_bound_instances', 'Yabgp.C11_tlv_instances_advance',
                 'Yabgp.C11_tlv_total', 'Yabgp.C11_tlv_split_then_map', 'Yabgp.C11_tlv_nested_work_bound',
                 'Yabgp.C11_ls_attr_nested_work_bound', 'Yabgp.C11_range_bound',
                 'Yabgp.C11_pmsi_raises_iff', 'Yabgp.C11_pmsi_tunnel_id_raises_iff', 'Yabgp.C11_pmsi_fields', 'Yabgp.C11_pmsi_roundtrip'],
    'genagree': ['Yabgp.GenAgree.attr_codes', 'Yabgp.GenAgree.attr_ids', 'Yabgp.GenAgree.update_errors',
                 'Yabgp.gen_loops_covered', 'Yabgp.gen_loops_advance', 'Yabgp.covered_instances_exist',
                 'Yabgp.gen_ls_registry', 'Yabgp.gen_ls_special', 'Yabgp.gen_ls_two_arg', 'Yabgp.gen_ls_no_unpack',
                 'Yabgp.gen_psid_registries'],
    'suites': ['decoders', 'update', 'hostile', 'tlv'],
    'cannot': 'PARTIAL: termination (total Lean definitions without fuel), per-iteration progress, work bounds and never-raises are '
              'proved for the decoders that are modelled: UPDATE framing, IPv4 prefix lists, the standard attributes incl. AS_PATH, '
              'communities, OPEN with all capability loops, NOTIFICATION, KEEPALIVE, ROUTE-REFRESH, and the receive-buffer deframer. '
              'The multiprotocol, BGP-LS, Prefix-SID, tunnel and extended-community decoders are exercised on the real code under a '
              'CPU budget through Update.parse (every type code x length 0..16, every 1-octet / length-field mutation of the '
              'repo\'s own encodings); the TLV containers of BGP-LS NLRI, the BGP-LS attribute and Prefix-SID are covered by the parametric '
              'model Model/Tlv.lean (work bounds for every body decoder; loop inventory regenerated from the AST on every run by '
              'gen_loops.py and proved equal to the covered list); the ~60 straight-line TLV bodies, the MP/EVPN/flowspec/extcommunity '
              'loops (modelled under C07/C17, termination by construction there) have no C11 theorem of their own (the tunnel-encapsulation attribute has no decoder in yabgp: type 23 is kept as hexadecimal text by the default branch, which the UPDATE model covers); '
              'the PMSI tunnel decoder is modelled (Model/Pmsi.lean, compared with PMSITunnel.parse by the decoders suite) and C11_pmsi_raises_iff '
              'gives the exact set of values on which it raises (all caught by Update.parse_attributes), C11_pmsi_roundtrip relates it to the '
              'constructor model of C08 (what PMSITunnel.construct writes is decoded back, for labels that fit and addresses whose family survives); '
              'CPU time itself is only measured',
}

PROPS['C19'] = {
    'module': 'Yabgp.Props.C19',
    'theorems': ['Yabgp.Rib.C19_refines', 'Yabgp.Rib.C19_refines_out', 'Yabgp.Rib.C19_history',
                 'Yabgp.Rib.C19_version_ipv4_in', 'Yabgp.Rib.C19_version_ipv4_out',
                 'Yabgp.Rib.C19_version_received', 'Yabgp.Rib.C19_version_sent', 'Yabgp.Rib.C19_version',
                 'Yabgp.Rib.C19_history_all', 'Yabgp.Rib.C19_flush', 'Yabgp.Rib.C19_flush_history',
                 'Yabgp.Rib.C19_version_exact', 'Yabgp.Rib.C19_version_exact_ipv4', 'Yabgp.Rib.C19_tree_covers'],
    'genagree': [],
    'suites': ['rib'],
    'cannot': 'values are abstract ids (prefix strings, attribute dictionaries, rule keys are only compared with ==); the key '
              'string of a flowspec/VPN/sr rule is modelled as the rule itself (injective rendering for field values '
              'without a double quote); routes announced through MP_REACH (1,1) and received sr-policy routes are not '
              'kept by the code; REST worker-thread races with the reactor thread',
    'level_text': 'Lean 4 refinement theorems for ALL tables, messages and histories: the IPv4 Adj-RIB-In/Out denote the '
                  'in-order application (withdrawals, then announcements) of the UPDATEs, every received/sent version '
                  'counter equals the number of table changes (new route, changed attributes, removal of a present route) '
                  'of its own dictionary and is moved by nothing else, init_rib empties the IPv4 tables; tied to /repo by a '
                  'per-event differential correspondence over a real BGP protocol object (all sequences <= 5 ops over 3 '
                  'prefixes, extended alphabet, random histories with drops) and an independent dictionary oracle.',
}

PROPS['C20'] = {
    'module': 'Yabgp.Props.C20',
    'theorems': ['Yabgp.C20_invariant', 'Yabgp.C20_gapfree', 'Yabgp.C20_restart_total', 'Yabgp.C20_recovery_next_number',
                 'Yabgp.C20_event_one_line', 'Yabgp.C20_log_is_history', 'Yabgp.KF_C20_orig_torn_tail_refuses',
                 'Yabgp.KF_C20_orig_empty_newest_reuses', 'Yabgp.KF_C20_orig_missing_newline_joins'],
    'genagree': [],
    'suites': ['msglog'],
    'cannot': 'durability below "prefix of the last write"; a clock that steps backwards or whose integer part changes its digit '
              'count (names are "%s.msg" % time.time(), ordered as text); OSError while reading the log; payloads json cannot '
              'serialise (protocol.py passes none); record text abstracted to length/seq/type',
    'level_text': 'Lean 4 invariant proved by induction over ALL histories of events, rotations, crashes at any byte offset of a '
                  'write, and restarts, for every rotation threshold: the files on disk, read in order, hold exactly one '
                  'well-formed line per reported event with consecutive sequence numbers (the log equals the history), a start '
                  'never refuses and continues with the next number; tied to /repo by a per-operation differential '
                  'correspondence over a real DefaultHandler on a scratch directory (every byte offset of every write in the '
                  'base histories) and the Lean audit applied to the real directory.',
}

PROPS['C02'] = {
    'module': 'Yabgp.Props.C02All',
    'theorems': ['Yabgp.C02_reestablishes', 'Yabgp.C02_reestablishes_and_stays_up', 'Yabgp.reestablish', 'Yabgp.reach_of_run',
                 'Yabgp.reach_step', 'Yabgp.reach_first', 'Yabgp.reach_openWire', 'Yabgp.evo_step', 'Yabgp.cl_step', 'Yabgp.rb_step',
                 'Yabgp.Core.cl_stepOutcome', 'Yabgp.Core.cl_frameOutcome', 'Yabgp.Core.connLost_idle', 'Yabgp.wait_for_idle_hold',
                 'Yabgp.constructOpen_le',
                 'Yabgp.C02_never_stuck', 'Yabgp.heal_step', 'Yabgp.heal_first', 'Yabgp.C02_idle_hold_expiry_reconnects',
                 'Yabgp.C02_retry_expiry_reconnects', 'Yabgp.C02_owed_close_arms_idle_hold',
                 'Yabgp.C02_heals_from_idle_hold', 'Yabgp.heal_to_openSent', 'Yabgp.heal_from_openSent',
                 'Yabgp.C02_stays_established', 'Yabgp.Core.heal_frameOutcome', 'Yabgp.Core.heal_stepOutcome',
                 'Yabgp.core_step_inv', 'Yabgp.C05_open_fields', 'Yabgp.C01_open_accepted'],
    'genagree': SESSION_GEN,
    'suites': ['heal', 'session'],
    'cannot': SESSION_CANNOT + '; safety: "never stuck" for EVERY event sequence; liveness: C02_reestablishes - from EVERY state reachable '
              'after the agent\'s start in which the operator has not stopped the peer there is a continuation made only of what a '
              'well-behaved peer, the clock and due timers do (it drops a connection, accepts TCP, sends its valid OPEN and a KEEPALIVE) '
              'that reaches Established within one idle-hold period of virtual time with hold time min(configured, proposed), and '
              '(C02_reestablishes_and_stays_up) the session then stays Established under keepalive traffic; the only side condition is '
              'that the configured OPEN is encodable.  The theorem exhibits ONE cooperative schedule; that every fair schedule of a '
              'cooperative peer does so is what the heal suite samples on the implementation (lockstep with the model).  The capability '
              'part of "same parameters" is the known finding C02-capability-leak',
    'level_text': 'Lean 4: a control-skeleton abstraction of the session model (core : Sess -> Core) with a refinement lemma for '
                  'every action (core (f s) = fC (core s), frame handling as a finite outcome set), and on it the invariant Heal '
                  'proved inductive over ALL events => C02_never_stuck for every history after the first start; each pending item '
                  'is shown to lead on; from Idle with the idle-hold timer due and ANY leftover state a cooperative peer reaches '
                  'Established in four events with hold time min(configured, proposed) (C02_heals_from_idle_hold), and an '
                  'Established session stays up under KEEPALIVE traffic. Tie: lockstep differential runs of model and real '
                  'BGPPeering/FSM/BGP over adversarial prefixes (BFS + random) followed by a cooperative continuation; oracle on the '
                  'implementation: never stuck, Established within idle_hold + slack, still up 3 hold times later, same OPEN.',
}

PROPS['C07'] = {
    'module': 'Yabgp.Props.C07',
    'theorems': ['Yabgp.Mp.C07_reach_roundtrip', 'Yabgp.Mp.C07_unreach_roundtrip',
                 'Yabgp.Mp.C07_ipv6_unicast_reach', 'Yabgp.Mp.C07_ipv6_unicast_unreach',
                 'Yabgp.Mp.C07_labeled_reach', 'Yabgp.Mp.C07_vpn_reach', 'Yabgp.Mp.C07_vpn_unreach',
                 'Yabgp.Mp.C07_ipv6_unicast_nlri', 'Yabgp.Mp.C07_labeled_nlri', 'Yabgp.Mp.C07_vpn_nlri',
                 'Yabgp.Mp.C07_wrapper_header', 'Yabgp.Mp.C07_rd_types', 'Yabgp.Mp.C07_generated_constants',
                 'Yabgp.Mp.U6Safe_nil_iff', 'Yabgp.Mp.LuOk_iff_space',
                 'Yabgp.Mp.KF_C07_ipv6_two_default_routes', 'Yabgp.Mp.KF_C07_ipv6_unicast_full_false',
                 'Yabgp.Mp.KF_C07_labeled_last_label_zero', 'Yabgp.Mp.KF_C07_labeled_full_false',
                 'Yabgp.Mp.KF_C07_labeled_unreach_not_decoded', 'Yabgp.Mp.KF_C07_labeled_unreach_constructed',
                 'Yabgp.C07_evpn_t1', 'Yabgp.C07_evpn_t2', 'Yabgp.C07_evpn_t3', 'Yabgp.C07_evpn_t4', 'Yabgp.C07_evpn_t5',
                 'Yabgp.C07_evpn_routes', 'Yabgp.C07_evpn_reach', 'Yabgp.C07_evpn_unreach',
                 'Yabgp.C07_flowspec_operators', 'Yabgp.C07_flowspec_prefix', 'Yabgp.C07_flowspec_rule',
                 'Yabgp.C07_flowspec_rules', 'Yabgp.C07_flowspec_reach', 'Yabgp.C07_flowspec_unreach',
                 'Yabgp.KF_flowspec_component_not_encoded'],
    'genagree': ['Yabgp.GenAgree.attr_codes', 'Yabgp.GenAgree.attr_flags', 'Yabgp.GenAgree.update_errors'],
    'suites': ['mpnlri', 'evf'],
    'cannot': 'netaddr text <-> integer conversion and the a:b RD text are handled by the canonicaliser (harness/impl_mp.py), '
              'not modelled; AFI/SAFI numbers are tied by the correspondence check only; add-path is modelled on the decode '
              'side but is outside the round trip (the constructors cannot encode a path id); PARTIAL by three recorded known '
              'findings (IPv6 unicast two trailing ::/0, labeled unicast last label 0, labeled unicast MP_UNREACH not decoded) and one for '
              'flowspec (components 9 and 12 are decoded but never encoded); IPv6 and MAC text go through netaddr in the canonicaliser; '
              'int() of operator texts containing blanks, a sign or an underscore is not modelled; struct.pack(\'!d\') of EVPN type 5 ESI '
              'numbers >= 2^53 is not modelled (type 5 is outside the property text)',
}

PROPS['C16'] = {
    'module': 'Yabgp.Props.C16',
    'theorems': ['Yabgp.C16_auth', 'Yabgp.C16_auth_401', 'Yabgp.C16_valid_iff', 'Yabgp.C16_gate',
                 'Yabgp.C16_no_write_unless_established', 'Yabgp.C16_faithful', 'Yabgp.C16_default_local_pref',
                 'Yabgp.C16_faithful_decodes', 'Yabgp.C16_reach_inv', 'Yabgp.C16_established_tracked',
                 'Yabgp.C16_faithful_reachable', 'Yabgp.C06_roundtrip'],
    'genagree': SESSION_GEN + ['Yabgp.C16_routes_agree', 'Yabgp.C16_chain_as_installed', 'Yabgp.C16_auth_table',
                               'Yabgp.C16_gate_table', 'Yabgp.C16_known_table', 'Yabgp.C16_auth_config'],
    'suites': ['rest', 'commtext'],
    'cannot': SESSION_CANNOT + '; PARTIAL: a REST request is one atomic event - the worker-thread / reactor-thread '
              'interleaving (callFromThread write after the answer, Twisted calls from the worker thread) is not exhibited; '
              'extended-community text (C17), MP attributes (C07) and RIB bookkeeping (C19) of send/update are outside the model; '
              'werkzeug routing and Flask-HTTPAuth header parsing are trusted (the oracle re-parses the header independently)',
    'level_text': 'Lean 4: the URL map and the decorator chain of every view are REGENERATED from /repo on every run '
                  '(harness/gen_routes.py -> Gen/Routes.lean: AST of api/v1.py + the live Flask url_map) and table theorems by '
                  'decide show login_required is the outermost effective decorator of every rule under /v1/peer/ and every send '
                  'view is state-gated; on the model of the chain and the views (Model/Rest.lean over the session model): no valid '
                  'credentials => 401 and the state unchanged, send views outside Established => failure and nothing written, '
                  'success => exactly one write of the requested message (+ default LOCAL_PREF on iBGP) on the tracked connection, '
                  'for every reachable state (induction over all histories of events and requests). Tie: Flask test client on the '
                  'real app over a real BGPPeering, every rule x method x credential variant x session state.',
}

PROPS['C17'] = {
    'module': 'Yabgp.Props.C17',
    'theorems': ['Yabgp.C17.C17_translate', 'Yabgp.C17.C17_construct_one', 'Yabgp.C17.C17_decode_one',
                 'Yabgp.C17.render_valOf', 'Yabgp.C17.C17_translate_list', 'Yabgp.C17.C17_construct', 'Yabgp.C17.C17_parse',
                 'Yabgp.C17.C17_extcomm', 'Yabgp.C17.C17_as4_refused', 'Yabgp.C17.C17_as4_small_as_is_ambiguous',
                 'Yabgp.C17.C17_community', 'Yabgp.C17.C17_wellknown_names', 'Yabgp.C17.C17_wellknown_reverse_table',
                 'Yabgp.C17.C17_large', 'Yabgp.C17.C17_ext_codes', 'Yabgp.C17.C17_names',
                 'Yabgp.Text.parseDec_decStr', 'Yabgp.Text.parseIpv4_ipv4Str', 'Yabgp.Text.parseComm_commStr',
                 'Yabgp.Text.parseLarge_largeStr', 'Yabgp.ExtComm.packF_exact', 'Yabgp.ExtComm.unpackF_exact'],
    'genagree': ['Yabgp.GenAgree.well_known_int2str', 'Yabgp.GenAgree.well_known_str2int', 'Yabgp.GenAgree.attr_ids',
                 'Yabgp.GenAgree.attr_flags', 'Yabgp.GenAgree.update_errors'],
    'suites': ['commtext'],
    'cannot': 'ASCII input only in the string model (Python strips / recognises further Unicode whitespace and digits); IPv4 text is '
              'netaddr 1.x (inet_pton) behaviour; traffic-rate / dmzlink-bw are proved for the naturals binary32 represents exactly '
              '(the decoder prints int(rate)); kinds with a 4-octet AS are proved for AS >= 65536 towards a peer that advertised the '
              'capability (the views refuse them otherwise; RFC 5668 s.3 for the small AS numbers); REST worker-thread races; the '
              'three BGP_EXT_COM_* dictionaries are compared at run time, not through Gen/*',
    'level_text': 'Lean 4 theorems over hand-written executable models of ExtCommunity.parse/construct and of the REST '
                  '"extended community recombine" translation (List Char models of split/strip/lower/int/netaddr, binary32 on bit '
                  'patterns): for every one of the 18 renderable kinds and every in-range field tuple the text form is translated to '
                  'the right item for any peer state, the item is encoded to exactly the octets of an independent RFC reference '
                  'encoder, and those octets decode to exactly that text; lifted by induction to arbitrary lists / the whole '
                  'attribute; all 2^32 community values incl. every name of the table generated from constants.py; large communities '
                  'up to 2^32-1. Tied to /repo by differential correspondence of every model function (codec level, CPython primitives, '
                  'both REST endpoints on the real Flask app over an Established session for three kinds of peer); the property '
                  'itself is evaluated on the real code for every generated value.',
}

PROPS['C08'] = {
    'module': 'Yabgp.Props.C08All',
    'theorems': ['Yabgp.C08_keepalive', 'Yabgp.C08_notification', 'Yabgp.C08_routerefresh', 'Yabgp.C08_open',
                 'Yabgp.C08_update_body', 'Yabgp.C08_update', 'Yabgp.C08_update_no_addpath',
                 'Yabgp.Mp.C08_mp_reach', 'Yabgp.Mp.C08_mp_unreach', 'Yabgp.C08_update_assembled',
                 'Yabgp.C08_update_with_mp',
                 'Yabgp.C08b_evpn_routes', 'Yabgp.C08b_evpn_reach', 'Yabgp.C08b_evpn_unreach',
                 'Yabgp.C08b_flowspec_rules', 'Yabgp.C08b_flowspec_reach', 'Yabgp.C08b_flowspec_unreach',
                 'Yabgp.C08c_srte_reach', 'Yabgp.C08c_srte_unreach', 'Yabgp.C08c_pmsi', 'Yabgp.C08c_tunnel',
                 'Yabgp.C08c_flowspec6_reach',
                 'Yabgp.C08d_extcomm',
                 'Yabgp.KF_C08_addpath_plain_prefix',
                 'Yabgp.KF_C08_ipv6_prefix_in_ipv4_nlri',
                 'Yabgp.KF_C08_originator_id_ipv6',
                 'Yabgp.KF_C08_aggregator_ipv6',
                 'Yabgp.KF_C08_large_community_two_fields',
                 'Yabgp.KF_C08_extcomm_redirect_nh_ipv6',
                 'Yabgp.KF_C08_labeled_prefix_length_33',
                 'Yabgp.KF_C08_ipv6_unicast_ipv4_nexthop',
                 'Yabgp.KF_C08_srte_ipv6_endpoint',
                 'Yabgp.KF_C08_evpn_esi_unknown_type',
                 'Yabgp.KF_C08_evpn_type2_no_label',
                 'Yabgp.KF_C08_evpn_type5_mixed_families',
                 'Yabgp.KF_C08_tunnel_segment_ipv6_node',
                 'Yabgp.KF_C08_tunnel_remote_endpoint_family',
                 'Yabgp.KF_C08_flowspec6_and_items',
                 'Yabgp.KF_C08_flowspec6_six_octet_value',
                 'Yabgp.KF_C08_flowspec6_prefix_offset', 'Yabgp.KF_C08_flowspec4_prefix_length_33'],
    'genagree': ['Yabgp.C08_flags_generated', 'Yabgp.C08_flag_bits_generated', 'Yabgp.C08c_generated_constants',
                 'Yabgp.GenAgree.attr_flags', 'Yabgp.GenAgree.attr_codes', 'Yabgp.GenAgree.attr_ids',
                 'Yabgp.GenAgree.header_consts', 'Yabgp.GenAgree.capability_codes'],
    'suites': ['construct'],
    'cannot': 'PARTIAL: theorems cover the constructor MODELS of OPEN, NOTIFICATION, KEEPALIVE, ROUTE-REFRESH, UPDATE with the '
              'standard attributes (both AS widths, add-path), MP_REACH/MP_UNREACH for IPv6 unicast, labeled unicast, VPNv4/v6 '
              'and EVPN, SR policy NLRI, PMSI tunnel, tunnel encapsulation (all segment kinds the code has a branch for) and '
              'extended communities, IPv4 and IPv6 flow specifications; BGP-LS and Prefix-SID have no constructor in yabgp (the walker grammar '
              'covers them on the tests\' captures only); the 4096-octet limit of RFC 4271 is not part of the walker (the property '
              'does not state it); values are not judged (an ORIGIN of 7 walks); text <-> address conversion is netaddr\'s',
    'level_text': 'Lean 4: an independent, decidable structural grammar of BGP messages (Spec/Walker.lean, RFC 4271/4760/7432/'
                  '8955/8956/9012/9830/6514...) and, for every constructor model, a theorem "construct x = some w -> the walker '
                  'accepts w" for ALL inputs (valid or error), assembled into whole UPDATEs by a composition theorem; the FLAG '
                  'constants are regenerated from /repo on every run and re-checked against the RFC categories by decide. Tie: '
                  'every message the REAL code constructs over the C06, C07, C14 spaces and the construct-only families '
                  '(inputs harvested from the repository\'s tests by AST + boundary pools incl. wrong-family values) is piped to '
                  'the Lean walker (spec.walk); the constructor models (with the guards of the repaired code) are compared '
                  'with the real constructors and their own output is walked as well.',
}


# properties not claimed yet, with the reason that goes into MANIFEST.not_applicable
NOT_YET = {}
