"""The real codecs of /repo's working tree behind the same canonical JSON the Lean driver speaks."""
import binascii

from lib.base import setup_impl_path, with_budget

setup_impl_path()

import logging  # noqa: E402
logging.disable(logging.CRITICAL)

from yabgp.message.update import Update  # noqa: E402

BUDGET = 2.0
OTHER_MODEL_CODES = ()   # filled by suites as more of the decoders get modelled


def hx(b):
    return binascii.b2a_hex(bytes(b)).decode()


def canon(v):
    if isinstance(v, (list, tuple)):
        return [canon(x) for x in v]
    if isinstance(v, (bytes, bytearray)):
        return {'bytes': hx(v)}
    if isinstance(v, dict):
        return {str(k): canon(x) for k, x in v.items()}
    if isinstance(v, bool) or v is None or isinstance(v, (int, str)):
        return v
    if isinstance(v, float):
        import struct
        return {'float': hx(struct.pack('!d', v))}
    return {'repr': repr(v)}


UNMODELLED = {14, 15, 16, 22, 29, 40}


def canon_attrs(d):
    if d is None:
        return None
    out = []
    for k in sorted(d, key=lambda x: (not isinstance(x, int), x if isinstance(x, int) else 0, str(x))):
        if k in UNMODELLED or not isinstance(k, int):
            out.append([k, {'unmodelled': k if isinstance(k, int) else 29}])
        else:
            out.append([k, canon(d[k])])
    return out


def canon_sub_error(e):
    if e is None or isinstance(e, int):
        return e
    return 'other'


def upd_parse(body, asn4=False, addpath=False):
    st, v = with_budget(BUDGET, Update.parse, None, bytes(body), asn4, {'ipv4': True} if addpath else {})
    if st == 'hang':
        return {'hang': True}
    if st == 'raise':
        return {'raise': True}
    return {'withdraw': canon(v['withdraw']), 'nlri': canon(v['nlri']), 'attr': canon_attrs(v['attr']),
            'sub_error': canon_sub_error(v['sub_error'])}


def to_py_attrs(pairs):
    d = {}
    for k, v in pairs:
        d[k] = v
    return d


def upd_construct(msg, asn4=False, addpath=False):
    m = {}
    if 'attr' in msg:
        m['attr'] = to_py_attrs(msg['attr'])
    for k in ('nlri', 'withdraw'):
        if k in msg:
            m[k] = msg[k]
    st, v = with_budget(BUDGET, Update.construct, m, asn4, addpath)
    if st == 'hang':
        return {'hang': True}
    if st == 'raise' or v is None:
        return {'raise': True}
    return {'hex': hx(v)}


def pfx_parse(data, addpath=False):
    st, v = with_budget(BUDGET, Update.parse_prefix_list, bytes(data), addpath)
    if st == 'hang':
        return {'hang': True}
    if st == 'raise':
        return {'raise': True}
    return {'ok': canon(v)}


def pfx_construct(prefixes, addpath=False):
    st, v = with_budget(BUDGET, Update.construct_prefix_v4, prefixes, addpath)
    if st == 'hang':
        return {'hang': True}
    if st == 'raise':
        return {'raise': True}
    return {'hex': hx(v)}


# ---------------------------------------------------------------- OPEN / NOTIFICATION / KEEPALIVE / ROUTE-REFRESH
import ast as _ast  # noqa: E402

from yabgp.message.open import Open  # noqa: E402
from yabgp.message.notification import Notification  # noqa: E402
from yabgp.message.keepalive import KeepAlive  # noqa: E402
from yabgp.message.route_refresh import RouteRefresh  # noqa: E402
from yabgp.common import constants as _c  # noqa: E402
from yabgp.common import exception as _ex  # noqa: E402
import netaddr as _netaddr  # noqa: E402


def _inv(d):
    out = {}
    for k, v in d.items():
        out[v] = k
    return out


PINNED_FAMILY_NAMES = {'ipv4': (1, 1), 'ipv4_mcast': (1, 2), 'ipv6': (2, 1), 'ipv4_lu': (1, 4), 'ipv6_lu': (2, 4), 'flowspec': (1, 133),
                       'vpnv4': (1, 128), 'vpnv6': (2, 128), 'evpn': (25, 70), 'bgpls': (16388, 71), 'ipv4_srte': (1, 73),
                       'ipv6_flowspec': (2, 133)}
PINNED_ADDPATH_NAMES = {'receive': 1, 'send': 2, 'both': 3}


def canon_capa(d):
    """capa_dict of Open.parse in the numeric shape the model prints"""
    # the NAMES under which the agent reports address families and ADD-PATH directions are part of its interface (handler
    # callbacks, REST answers, the message log): they are pinned here, not read back from the code under test
    afi_safi_inv = dict(PINNED_FAMILY_NAMES)
    act_inv = dict(PINNED_ADDPATH_NAMES)
    out = {}
    unknown = []
    for k, v in d.items():
        if k in ('four_bytes_as', 'route_refresh', 'cisco_route_refresh', 'graceful_restart', 'cisco_multi_session',
                 'enhanced_route_refresh'):
            if v:
                out[k] = True
        elif k == 'afi_safi':
            out[k] = [list(x) for x in v]
        elif k == 'add_path':
            out[k] = [(list(afi_safi_inv[e['afi_safi']]) if e['afi_safi'] in afi_safi_inv else ['name', str(e['afi_safi'])]) +
                      [act_inv.get(e['send/receive'], str(e['send/receive']))] for e in v]
        elif k == 'LLGR':
            out[k] = [list(e['afi_safi']) + [e['time']] for e in v]
        elif k == 'ext_nexthop':
            out[k] = [list(e['afi_safi']) + [e['nexthop_afi']] for e in v]
        else:
            unknown.append([int(k), hx(_ast.literal_eval(v))])
    if unknown:
        out['unknown'] = sorted(unknown)
    return out


def _oerr(e):
    if isinstance(e, _ex.MessageHeaderError):
        return {'err': 'hdr', 'sub': e.sub_error}
    if isinstance(e, _ex.OpenMessageError):
        return {'err': 'open', 'sub': e.sub_error}
    return {'err': 'other'}


def open_parse(body):
    o = Open()
    st, v = with_budget(BUDGET, o.parse, bytes(body))
    if st == 'hang':
        return {'hang': True}
    if st == 'raise':
        return _oerr(v)
    if v is None:
        return {'none': True}
    return {'ok': {'version': v['version'], 'asn': v['asn'], 'hold_time': v['hold_time'], 'bgp_id': v['bgp_id'],
                   'capabilities': canon_capa(v['capabilities'])}}


ADDPATH_STR = {1: 'ipv4_receive', 2: 'ipv4_send', 3: 'ipv4_both'}


def py_local_caps(c):
    """model-shaped local capability dict -> the dict yabgp keeps in running_config['capability']['local']"""
    d = {}
    if c.get('afi_safi') is not None:
        d['afi_safi'] = [tuple(x) for x in c['afi_safi']]
    for k in ('cisco_route_refresh', 'route_refresh', 'four_bytes_as', 'enhanced_route_refresh', 'graceful_restart',
              'cisco_multi_session'):
        if k in c:
            d[k] = c[k]
    if c.get('ext_nexthop') is not None:
        d['ext_nexthop'] = [{'afi_safi': [a, s], 'nexthop_afi': n} for a, s, n in c['ext_nexthop']]
    if c.get('add_path') is not None:
        d['add_path'] = ADDPATH_STR.get(c['add_path'], 'bogus')
    return d


def open_construct(version, asn, hold_time, bgp_id, caps):
    o = Open(version=version, asn=asn, hold_time=hold_time, bgp_id=bgp_id)
    st, v = with_budget(BUDGET, o.construct, py_local_caps(caps))
    if st == 'hang':
        return {'hang': True}
    if st == 'raise' or v is None:
        return {'raise': True}
    return {'hex': hx(v)}


def notif_parse(body):
    st, v = with_budget(BUDGET, Notification().parse, bytes(body))
    if st != 'ok':
        return {'hang': True} if st == 'hang' else {'raise': True}
    return {'ok': [v[0], v[1], hx(v[2])]}


def notif_construct(error, sub, data):
    st, v = with_budget(BUDGET, Notification().construct, error, sub, bytes(data))
    if st != 'ok' or v is None:
        return {'hang': True} if st == 'hang' else {'raise': True}
    return {'hex': hx(v)}


def keepalive_parse(body):
    st, v = with_budget(BUDGET, KeepAlive().parse, bytes(body))
    if st == 'hang':
        return {'hang': True}
    if st == 'raise':
        return _oerr(v)
    return {'ok': None}


def keepalive_construct():
    return {'hex': hx(KeepAlive().construct())}


def rr_parse(body):
    st, v = with_budget(BUDGET, RouteRefresh().parse, bytes(body))
    if st != 'ok':
        return {'hang': True} if st == 'hang' else {'raise': True}
    return {'ok': list(v)}


def rr_construct(ty, afi, res, safi):
    st, v = with_budget(BUDGET, RouteRefresh(afi, safi, res).construct, ty)
    if st != 'ok' or v is None:
        return {'hang': True} if st == 'hang' else {'raise': True}
    return {'hex': hx(v)}
