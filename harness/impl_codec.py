"""The real codecs of /repo's working tree behind the same canonical JSON the Lean driver speaks."""
import binascii

from lib.base import setup_impl_path, with_budget

setup_impl_path()

import logging  # noqa: E402
logging.disable(logging.CRITICAL)

from yabgp.message.update import Update  # noqa: E402

BUDGET = 2.0
OTHER_MODEL_CODES = ()   # filled by suites as more of the decoders get modelled


def hx(b):
    return binascii.b2a_hex(bytes(b)).decode()


def canon(v):
    if isinstance(v, (list, tuple)):
        return [canon(x) for x in v]
    if isinstance(v, (bytes, bytearray)):
        return {'bytes': hx(v)}
    if isinstance(v, dict):
        return {str(k): canon(x) for k, x in v.items()}
    if isinstance(v, bool) or v is None or isinstance(v, (int, str)):
        return v
    if isinstance(v, float):
        import struct
        return {'float': hx(struct.pack('!d', v))}
    return {'repr': repr(v)}


UNMODELLED = {14, 15, 16, 22, 29, 40}


def canon_attrs(d):
    if d is None:
        return None
    out = []
    for k in sorted(d, key=lambda x: (not isinstance(x, int), x if isinstance(x, int) else 0, str(x))):
        if k in UNMODELLED or not isinstance(k, int):
            out.append([k, {'unmodelled': k if isinstance(k, int) else 29}])
        else:
            out.append([k, canon(d[k])])
    return out


def canon_sub_error(e):
    if e is None or isinstance(e, int):
        return e
    return 'other'


def upd_parse(body, asn4=False, addpath=False):
    st, v = with_budget(BUDGET, Update.parse, None, bytes(body), asn4, {'ipv4': True} if addpath else {})
    if st == 'hang':
        return {'hang': True}
    if st == 'raise':
        return {'raise': True}
    return {'withdraw': canon(v['withdraw']), 'nlri': canon(v['nlri']), 'attr': canon_attrs(v['attr']),
            'sub_error': canon_sub_error(v['sub_error'])}


def to_py_attrs(pairs):
    d = {}
    for k, v in pairs:
        d[k] = v
    return d


def upd_construct(msg, asn4=False, addpath=False):
    m = {}
    if 'attr' in msg:
        m['attr'] = to_py_attrs(msg['attr'])
    for k in ('nlri', 'withdraw'):
        if k in msg:
            m[k] = msg[k]
    st, v = with_budget(BUDGET, Update.construct, m, asn4, addpath)
    if st == 'hang':
        return {'hang': True}
    if st == 'raise' or v is None:
        return {'raise': True}
    return {'hex': hx(v)}


def pfx_parse(data, addpath=False):
    st, v = with_budget(BUDGET, Update.parse_prefix_list, bytes(data), addpath)
    if st == 'hang':
        return {'hang': True}
    if st == 'raise':
        return {'raise': True}
    return {'ok': canon(v)}


def pfx_construct(prefixes, addpath=False):
    st, v = with_budget(BUDGET, Update.construct_prefix_v4, prefixes, addpath)
    if st == 'hang':
        return {'hang': True}
    if st == 'raise':
        return {'raise': True}
    return {'hex': hx(v)}
