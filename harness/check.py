"""./check Cxx --tier quick|thorough : regenerate tables, rebuild, audit proofs, run the correspondence
suites and the property oracles against /repo's working tree, write evidence, print the verdict."""
import argparse
import importlib
import json
import os
import re
import subprocess
import sys
import time

sys.path.insert(0, os.path.dirname(os.path.abspath(__file__)))

from lib import base  # noqa: E402
from lib.base import VERIF, LEAN_DIR, Driver  # noqa: E402
import registry  # noqa: E402
import kf  # noqa: E402

ALLOWED_AXIOMS = {'propext', 'Classical.choice', 'Quot.sound'}
FORBIDDEN = re.compile(r'sorry|\badmit\b|^axiom |native_decide|bv_decide|implemented_by|unsafe |maxHeartbeats 0')


def sh(cmd, cwd=None, timeout=3600):
    p = subprocess.run(cmd, cwd=cwd, stdout=subprocess.PIPE, stderr=subprocess.STDOUT, text=True, timeout=timeout)
    return p.returncode, p.stdout


def strip_comments(src):
    src = re.sub(r'/-.*?-/', '', src, flags=re.S)
    return '\n'.join(l.split('--')[0] for l in src.split('\n'))


def failing_decls(output):
    """map `error: File.lean:LINE:COL` lines of a lake build to the enclosing theorem/def names"""
    names = []
    for m in re.finditer(r'error: (\S+\.lean):(\d+):(\d+)', output):
        f, line = m.group(1), int(m.group(2))
        path = f if os.path.isabs(f) else os.path.join(LEAN_DIR, f)
        try:
            lines = open(path).read().split('\n')
        except Exception:
            continue
        name = None
        for i in range(min(line, len(lines)) - 1, -1, -1):
            mm = re.match(r'\s*(?:@\[[^\]]*\]\s*)?(?:private\s+|protected\s+)?(theorem|lemma|def|example|instance|abbrev)\s+(\S+)?', lines[i])
            if mm:
                name = '%s:%s' % (os.path.relpath(path, LEAN_DIR), mm.group(2) or mm.group(1))
                break
        names.append(name or '%s:%d' % (f, line))
    return sorted(set(names))


def build_and_audit(prop, info, thorough, log):
    """returns (obligations, discharged, broken list, details)"""
    broken = []
    # 1. regenerate declarative tables from /repo
    rc, out = sh(['/venv/bin/python', os.path.join(VERIF, 'harness', 'gen_tables.py')], cwd=VERIF)
    log.append(out[-2000:])
    if rc != 0:
        broken.append('translator gen_tables.py failed')
    for gen in ('gen_routes.py', 'gen_loops.py'):
        gp = os.path.join(VERIF, 'harness', gen)
        if os.path.exists(gp):
            rc, out = sh(['/venv/bin/python', gp], cwd=VERIF)
            log.append(out[-2000:])
            if rc != 0:
                broken.append('translator %s failed' % gen)
    # 2. build the driver (models + specs + glue) and the property's proof module
    rc, out = sh(['lake', 'build', 'driver'], cwd=LEAN_DIR)
    if rc != 0:
        log.append(out[-6000:])
        raise SystemExit(infra('lake build driver failed:\n' + out[-3000:]))
    targets = ['+' + info['module']] + (['+Yabgp.Props.GenAgree'] if info.get('genagree') else [])
    rc, out = sh(['lake', 'build'] + targets, cwd=LEAN_DIR)
    build_ok = rc == 0
    failed = failing_decls(out) if not build_ok else []
    if not build_ok:
        log.append(out[-6000:])
    theorems = list(info['theorems'])
    gen = list(info.get('genagree', []))
    obligations = len(theorems) + len(gen)
    discharged = 0
    axioms = {}
    if build_ok:
        # 3. axiom audit through `#print axioms` on every listed theorem
        src = 'import %s\n' % info['module']
        if gen:
            src += 'import Yabgp.Props.GenAgree\n'
        for t in theorems + gen:
            src += '#print axioms %s\n' % t
        tmp = os.path.join(LEAN_DIR, '.lake', 'audit_%s.lean' % prop)
        open(tmp, 'w').write(src)
        rc, out = sh(['lake', 'env', 'lean', tmp], cwd=LEAN_DIR)
        for t in theorems + gen:
            m = re.search(r"'%s' depends on axioms: \[([^\]]*)\]" % re.escape(t), out)
            m0 = re.search(r"'%s' does not depend on any axioms" % re.escape(t), out)
            if m:
                axs = set(a.strip() for a in m.group(1).replace('\n', ' ').split(',') if a.strip())
            elif m0:
                axs = set()
            else:
                broken.append('theorem %s not found in the built library' % t)
                continue
            axioms[t] = sorted(axs)
            if axs - ALLOWED_AXIOMS:
                broken.append('theorem %s depends on axioms %s' % (t, sorted(axs - ALLOWED_AXIOMS)))
            else:
                discharged += 1
        # 4. forbidden constructs in the sources this property's module can reach
        for root, _, files in os.walk(os.path.join(LEAN_DIR, 'Yabgp')):
            for fn in files:
                if fn.endswith('.lean'):
                    body = strip_comments(open(os.path.join(root, fn)).read())
                    for l in body.split('\n'):
                        if FORBIDDEN.search(l):
                            broken.append('forbidden construct in %s: %s' % (fn, l.strip()[:80]))
        if thorough:
            rc, out = sh(['lake', 'env', 'leanchecker', info['module']], cwd=LEAN_DIR, timeout=3000)
            if rc != 0:
                broken.append('leanchecker rejected %s: %s' % (info['module'], out[-500:]))
    else:
        broken.append('lake build of %s failed; proof obligations no longer check: %s' % (info['module'], ', '.join(failed) or 'see log'))
    return obligations, discharged, broken, {'axioms': axioms, 'failed_decls': failed}


def infra(msg):
    print('INFRASTRUCTURE FAILURE: ' + msg)
    return 2


def main():
    # `kill -USR1 <pid>` prints where a long run is (stderr), without stopping it
    import faulthandler
    import signal
    faulthandler.register(signal.SIGUSR1, all_threads=True)
    ap = argparse.ArgumentParser()
    ap.add_argument('prop')
    ap.add_argument('--tier', default=os.environ.get('VERIF_TIER', 'quick'), choices=['quick', 'thorough'])
    ap.add_argument('--replay')
    args = ap.parse_args()
    prop = args.prop
    seed = int(os.environ.get('VERIF_SEED', '1'))
    t0 = time.time()
    if prop not in registry.PROPS:
        sys.exit(infra('unknown property %s' % prop))
    info = registry.PROPS[prop]
    log = []
    obligations, discharged, broken, details = build_and_audit(prop, info, args.tier == 'thorough', log)

    # correspondence suites + property oracles
    driver = Driver()
    suites = []
    for sname in info['suites']:
        mod = importlib.import_module('suites.' + sname)
        res = mod.run(seed, args.tier, driver) if not args.replay else mod.replay(args.replay, driver)
        suites.append(res)
    driver.close()
    corr_broken = []
    for res in suites:
        obligations += 1
        if res.disagreements:
            corr_broken.append(res)
        else:
            discharged += 1
    failures = [f for res in suites for f in res.failures if f['property'] == prop]

    # when a proof or the tie broke: look harder for an input on which the PROPERTY fails
    searched = False
    if (broken or corr_broken) and not kf.split(prop, failures)[1] and not args.replay:
        # (failures that are listed known findings do not count: the question is whether an UNLISTED input fails)
        searched = True
        driver = Driver()
        for sname in info['suites']:
            mod = importlib.import_module('suites.' + sname)
            for extra in range(1, 3 if args.tier == 'quick' else 6):
                res = mod.run(seed * 1000 + extra, 'search' if hasattr(mod, 'SEARCH') else args.tier, driver)
                failures += [f for f in res.failures if f['property'] == prop]
                if kf.split(prop, failures)[1]:
                    break
        driver.close()

    # every listed known finding is replayed from its recorded witness, so that it is reported on every run as long as
    # the real code still exhibits it (and silently disappears from the output once it has been repaired)
    if not args.replay:
        driver = Driver()
        for finding in kf.load().get('findings', []):
            if finding['property'] != prop or 'witness' not in finding:
                continue
            mod = importlib.import_module('suites.' + finding['witness']['suite'])
            wres = mod.replay_witness(finding['witness'], driver)
            failures += [f for f in wres.failures if f['property'] == prop]
            for dsg in wres.disagreements:
                corr_broken.append(wres)
                break
        driver.close()
    known, unknown = kf.split(prop, failures)
    # known findings listed for this property must still be printed when they reproduce
    os.makedirs(os.path.join(VERIF, 'replays'), exist_ok=True)
    os.makedirs(os.path.join(VERIF, 'evidence'), exist_ok=True)
    violations = 0
    exit_code = 0
    for line in sorted(set('KNOWN-FINDING: property=%s %s' % (prop, k) for k in known)):
        print(line)
    if unknown:
        violations = len(unknown)
        rp = os.path.join(VERIF, 'replays', '%s_%s_%d.json' % (prop, args.tier, seed))
        json.dump({'property': prop, 'kind': 'failing-input', 'failures': unknown[:10],
                   'broken_obligations': broken,
                   'disagreements': [d for r in corr_broken for d in r.disagreements[:5]]}, open(rp, 'w'), indent=1)
        print('VIOLATION property=%s replay=%s' % (prop, rp))
        exit_code = 1
    elif broken or corr_broken:
        violations = 1
        rp = os.path.join(VERIF, 'replays', '%s_%s_%d.json' % (prop, args.tier, seed))
        json.dump({'property': prop, 'kind': 'no-longer-shown-to-hold',
                   'broken_obligations': broken,
                   'broken_correspondence': [{'suite': r.name, 'disagreements': r.disagreements[:10]} for r in corr_broken],
                   'searched_for_failing_input': searched, 'build_log_tail': log[-1][-3000:] if log else ''},
                  open(rp, 'w'), indent=1)
        print('VIOLATION property=%s replay=%s no-failing-input-found' % (prop, rp))
        exit_code = 1

    # evidence
    st = base.Stats()
    for res in suites:
        st.merge(res.stats)
    samples = st.samples[:4] + [{'theorem': t, 'axioms': a} for t, a in list(details['axioms'].items())[:4]]
    ev = {
        'property_id': prop, 'tier': args.tier, 'seed': seed, 'level': 'proof',
        'coverage': {
            'obligations': obligations, 'discharged': discharged,
            'checker_cmd': 'cd lean && lake build +%s && lake env lean .lake/audit_%s.lean  (#print axioms)%s' % (
                info['module'], prop, ' && lake env leanchecker %s' % info['module'] if args.tier == 'thorough' else ''),
            'trusted_base': registry.TRUSTED,
            'theorems': info['theorems'], 'generated_table_obligations': info.get('genagree', []),
            'correspondence_suites': [r.name for r in suites],
            'evaluations': st.evaluations, 'distinct_nontrivial': len(st.distinct),
            'rule': 'correspondence / oracle cases are generated from VERIF_SEED (exhaustive small scopes + boundary pools + '
                    'structured random + mutations); a case is non-trivial when it is not the empty input and distinct by its canonical JSON',
            'samples': samples, 'skipped_unmodelled': st.skipped, 'histogram': st.hist,
            'exhaustive': False,
            'broken_obligations': broken,
            'disagreements': sum(len(r.disagreements) for r in suites),
            'known_findings_reproduced': sorted(set(known)),
            'cannot_exhibit': info.get('cannot', ''),
        },
        'assumptions': registry.TRUSTED,
        'wall_s': round(time.time() - t0, 2),
        'violations': violations,
    }
    json.dump(ev, open(os.path.join(VERIF, 'evidence', '%s.json' % prop), 'w'), indent=1, sort_keys=True)
    print('%s tier=%s seed=%d obligations=%d discharged=%d cases=%d distinct=%d disagreements=%d failures=%d known=%d wall=%.1fs' % (
        prop, args.tier, seed, obligations, discharged, st.evaluations, len(st.distinct),
        ev['coverage']['disagreements'], len(unknown), len(known), time.time() - t0))
    sys.exit(exit_code)


if __name__ == '__main__':
    main()
