"""The real REST control surface of /repo (yabgp/api/{app,v1,utils,config}.py, unmodified) behind the Flask test client,
with a REAL BGPPeering over the stand-in reactor behind it (impl_session.Sim; cfg.CONF.bgp.running_config['factory'] is
the peering, API credentials are CONF.rest.username / CONF.rest.password).

One `RestSim` = one simulated agent: session events (the alphabet of the session suite) bring the peer to a state, then
HTTP requests are issued the way a client would (URL built from the rule of the url_map, method, Authorization header,
JSON body).  After every request the calls queued with reactor.callFromThread are run (the reactor thread picking them
up) and the canonical observation the Lean model (lean/Yabgp/Model/Rest.lean, ops in lean/Yabgp/Driver/RestOps.lean)
predicts is returned:
   resp : HTTP status + JSON body CLASS (never message texts)
   obs  : the session observation of impl_session.Sim.observe() + everything the request put on a transport / asked of
          the reactor (`outs`)
plus, for the oracle only (not modelled by the session model): send/receive version counters, Adj-RIB-Out, the global
capability dictionary.

Requests are canonical JSON (replayable):
   {'rule': '/v1/peer/<peer_ip>/send/update', 'method': 'POST',
    'auth': {'k': 'none'} | {'k': 'basic', 'user': u, 'password': p, 'scheme': 'Basic'} | {'k': 'raw', 'value': header},
    'peer_ip': '10.0.0.2', 'action': 'send', 'query': {'format': 'human'},
    'body': {'k': 'nojson'} | {'k': 'badjson'} | {'k': 'json', 'v': <any JSON value>}}
`model_request` renders such a request in the shape the Lean glue reads (or says that it is outside the modelled space).
"""
import base64
import binascii
import json
import re
import sys

from lib.base import setup_impl_path, with_budget, jdump

setup_impl_path()

import impl_session as S  # noqa: E402
import impl_codec as IC  # noqa: E402
from oslo_config import cfg  # noqa: E402

REQ_BUDGET = 5.0
_app = None


def load_app():
    """import yabgp.api.app (registers the `rest` options; must happen before oslo.config parsed its arguments, or
    after a clear())"""
    global _app
    if _app is not None:
        return _app
    try:
        from yabgp.api.app import app
    except cfg.ArgsAlreadyParsedError:
        for m in [k for k in sys.modules if k.startswith('yabgp.api')]:
            del sys.modules[m]
        cfg.CONF.clear()
        S._conf_ready = False
        from yabgp.api.app import app
    _app = app
    return app


load_app()

STD_CODES = (1, 2, 3, 4, 5, 6, 7, 8, 9, 10, 32)
SEND_RULES = ('/v1/peer/<peer_ip>/send/update', '/v1/peer/<peer_ip>/send/route-refresh',
              '/v1/peer/<peer_ip>/send/bin_update')


def url_rules():
    """the live url_map: [{'rule', 'methods' (sorted), 'endpoint'}] in registration order"""
    app = load_app()
    return [{'rule': r.rule, 'methods': sorted(r.methods), 'endpoint': r.endpoint} for r in app.url_map.iter_rules()]


def peer_rules():
    return [r for r in url_rules() if r['rule'].startswith('/v1/peer/')]


def auth_header(a):
    k = a.get('k')
    if k == 'none':
        return {}
    if k == 'raw':
        return {'Authorization': a['value']}
    tok = base64.b64encode(('%s:%s' % (a['user'], a['password'])).encode('utf-8')).decode('ascii')
    return {'Authorization': '%s %s' % (a.get('scheme', 'Basic'), tok)}


def parsed_credentials(a):
    """(user, password) a Basic-style Authorization header carries, or None - computed here from the header text alone
    (RFC 7617: token68 after the first space, base64, split at the first colon), independently of Flask-HTTPAuth"""
    h = auth_header(a).get('Authorization')
    if h is None:
        return None
    parts = h.split(' ', 1)
    if len(parts) != 2:
        return None
    try:
        raw = base64.b64decode(parts[1])
    except (ValueError, TypeError, binascii.Error):
        return None
    if b':' not in raw:
        return None
    u, p = raw.split(b':', 1)
    try:
        return u.decode('utf-8'), p.decode('utf-8')
    except UnicodeDecodeError:
        return u.decode('latin1'), p.decode('latin1')


class RestSim(object):
    def __init__(self, conf=None, user='admin', password='admin'):
        self.app = load_app()
        self.sim = S.Sim(conf)
        # set_override drops oslo.config's cached group object, and with it the running_config attribute Sim put there
        rc = cfg.CONF.bgp.running_config
        cfg.CONF.set_override('username', user, group='rest')
        cfg.CONF.set_override('password', password, group='rest')
        cfg.CONF.bgp.running_config = rc
        self.user = user
        self.password = password
        self.client = self.app.test_client()
        self.world = self.sim.world

    # ---- session events (to reach a state)
    def event(self, ev):
        return self.sim.step(ev)

    def enabled(self, ev):
        return self.sim.enabled(ev)

    # ---- what the oracle looks at besides the session observation
    def extra(self):
        fp = self.sim.peering.fsm.protocol
        ex = {'capability': jdump(IC.canon(cfg.CONF.bgp.running_config['capability'])),
              'versions': None, 'ribout': None}
        if fp is not None:
            ex['versions'] = jdump([IC.canon(fp.send_version), IC.canon(fp.receive_version)])
            ex['ribout'] = jdump(IC.canon(fp.adj_rib_out))
        return ex

    def snapshot(self):
        o = self.sim.observe()
        o.update(self.extra())
        return o

    # ---- one HTTP request
    def url(self, req):
        u = req['rule'].replace('<peer_ip>', req.get('peer_ip', '10.0.0.2')).replace('<action>', req.get('action', 'send'))
        u = u.replace('<path:filename>', 'x').replace('<filename>', 'x')
        return u

    def _send(self, req):
        kw = {'method': req['method'], 'headers': auth_header(req.get('auth', {'k': 'none'}))}
        if req.get('query'):
            kw['query_string'] = req['query']
        b = req.get('body') or {'k': 'nojson'}
        if b['k'] == 'json':
            kw['data'] = json.dumps(b['v'])
            kw['content_type'] = 'application/json'
        elif b['k'] == 'badjson':
            kw['data'] = '{"attr": '
            kw['content_type'] = 'application/json'
        elif b['k'] == 'nojson' and req['method'] in ('POST', 'PUT', 'PATCH'):
            kw['data'] = 'attr=1'
            kw['content_type'] = 'application/x-www-form-urlencoded'
        return self.client.open(self.url(req), **kw)

    def request(self, req):
        """-> {'resp': {...}, 'obs': {...}, 'before': snapshot, 'after': snapshot}"""
        before = self.snapshot()
        self.world.take_outs()
        st, r = with_budget(REQ_BUDGET, self._send, req)
        if st == 'ok':
            resp = canon_response(req, r)
        elif st == 'hang':
            resp = {'status': 0, 'body': ['hang']}
        else:
            resp = {'status': 0, 'body': ['escaped', type(r).__name__]}
        # the reactor thread runs what the worker thread queued with callFromThread
        self.world.flush_threads()
        outs = [S.Sim._canon_out(o) for o in self.world.take_outs()]
        obs = self.sim.observe()
        obs['outs'] = outs
        after = dict(obs)
        after.update(self.extra())
        return {'resp': resp, 'obs': obs, 'before': before, 'after': after}


def canon_response(req, r):
    """HTTP status + body class"""
    status = r.status_code
    body = ['other']
    data = r.get_data()
    if req['method'] == 'HEAD' or (status == 200 and not data):
        body = ['empty']
    elif status == 401:
        body = ['unauthorized']
    elif r.is_json:
        j = r.get_json()
        if isinstance(j, dict) and 'status' in j and isinstance(j['status'], bool):
            body = ['status', j['status']]
            if j['status'] and 'data' in j:
                body = ['status', True, 'data']
        elif isinstance(j, dict) and 'peer' in j:
            body = ['peer', j['peer'].get('fsm')]
        elif isinstance(j, dict) and 'version' in j and len(j) == 1:
            body = ['version']
        elif isinstance(j, dict) and set(j) == {'send', 'receive'}:
            body = ['stats', j['send'], j['receive']]
        elif isinstance(j, dict) and 'bin' in j:
            b = j['bin']
            if isinstance(b, list):
                b = ''.join(b)
            body = ['bin', b.replace(' ', '')]
        else:
            body = ['json']
    elif status >= 400:
        body = ['error']
    return {'status': status, 'body': body}


def reason_of(r_json):
    """the `code` text of a {'status': False} answer (evidence histogram only, never compared)"""
    try:
        return r_json.get('code')
    except Exception:
        return None


# ------------------------------------------------------------------------------------------------ model side rendering
HEX2 = re.compile(r'^(?:[0-9a-fA-F]{2})+$')
PFX = re.compile(r'^\d{1,3}\.\d{1,3}\.\d{1,3}\.\d{1,3}/\d{1,2}$')


def _is_nat(v):
    return isinstance(v, int) and not isinstance(v, bool) and v >= 0


def _attr_pairs(attr):
    """JSON object of attributes -> [[code, value], ...] in order, or None when outside the modelled value space"""
    out = []
    for k, v in attr.items():
        if not re.match(r'^(0|[1-9][0-9]*)$', k):
            return None
        code = int(k)
        if code not in STD_CODES:
            return None
        if not _value_ok(code, v):
            return None
        out.append([code, v])
    if len(set(c for c, _ in out)) != len(out):
        return None
    return out


def _ip_ok(v):
    if not isinstance(v, str):
        return False
    p = v.split('.')
    return len(p) == 4 and all(x.isdigit() and len(x) <= 3 and int(x) < 256 for x in p)


def _value_ok(code, v):
    """the shapes lean/Yabgp/Driver/Json.lean:readAttrVal reads (those of gen/values.py)"""
    if code in (1, 4, 5):
        return _is_nat(v)
    if code == 2:
        return isinstance(v, list) and all(isinstance(s, list) and len(s) == 2 and _is_nat(s[0]) and isinstance(s[1], list)
                                           and all(_is_nat(x) for x in s[1]) for s in v)
    if code in (3, 9):
        return _ip_ok(v)
    if code == 6:
        return v == ''
    if code == 7:
        return isinstance(v, list) and len(v) == 2 and _is_nat(v[0]) and _ip_ok(v[1])
    if code == 8:
        from gen.values import WELL_KNOWN
        return isinstance(v, list) and all(isinstance(c, str) and (c in WELL_KNOWN or re.match(r'^\d+:\d+$', c)) for c in v)
    if code == 10:
        return isinstance(v, list) and all(_ip_ok(x) for x in v)
    if code == 32:
        return isinstance(v, list) and all(isinstance(c, str) and re.match(r'^\d+:\d+:\d+$', c) for c in v)
    return False


def _pfx_list(v):
    if v is None:
        return []
    if not isinstance(v, list):
        return None
    for p in v:
        if not (isinstance(p, str) and PFX.match(p) and _ip_ok(p.split('/')[0])):
            return None
    return v


def model_body(rule, req):
    """the request body as the Lean glue reads it, or None = outside the modelled request space"""
    b = req.get('body') or {'k': 'nojson'}
    if b['k'] in ('nojson', 'badjson'):
        return {'k': b['k']}
    v = b['v']
    if v is None:
        return {'k': 'nonobj', 't': 'null'}
    if isinstance(v, bool):
        return None
    if isinstance(v, (int, float)):
        return {'k': 'nonobj', 't': 'number'}
    if isinstance(v, str):
        if 'afi' in v:
            return None
        return {'k': 'nonobj', 't': 'string'}
    if isinstance(v, list):
        if 'afi' in v or 'safi' in v:
            return None
        return {'k': 'nonobj', 't': 'list'}
    o = {'k': 'obj'}
    # send/update, json_to_bin
    attr = v.get('attr')
    if attr:
        if not isinstance(attr, dict):
            return None
        pairs = _attr_pairs(attr)
        if pairs is None:
            return None
        o['attr'] = pairs
    else:
        o['attr'] = []
    for k in ('nlri', 'withdraw'):
        pl = _pfx_list(v.get(k) or None)
        if pl is None:
            return None
        o[k] = pl
    # send/route-refresh
    for k in ('afi', 'safi', 'res'):
        if k in v:
            if not _is_nat(v[k]):
                return None
            o[k] = v[k]
    # send/bin_update: the octets asked for (after the `format=human` re-joining), or that the text is not hex
    bd = v.get('binary_data')
    human = (req.get('query') or {}).get('format') == 'human'
    if not bd:
        o['bin'] = {'k': 'absent'}
    else:
        if human:
            if isinstance(bd, str):
                text = bd.replace(' ', '')
            elif isinstance(bd, list) and all(isinstance(x, str) for x in bd):
                text = ''.join(bd).replace(' ', '')
            else:
                return None
        else:
            if not isinstance(bd, str):
                o['bin'] = {'k': 'nottext'}
                text = None
            else:
                text = bd
        if text is not None:
            if text == '':
                return None
            if not all(ord(c) < 128 for c in text):
                o['bin'] = {'k': 'nottext'}
            elif HEX2.match(text):
                o['bin'] = {'k': 'bytes', 'hex': text.lower()}
            else:
                o['bin'] = {'k': 'nothex'}
    # adj-rib-in / adj-rib-out
    d = v.get('data')
    if d is None:
        o['data'] = False
    else:
        if _pfx_list(d) is None:
            return None
        o['data'] = True
    afs = (req.get('query') or {}).get('afi_safi')
    o['ribfam'] = (afs or 'ipv4') == 'ipv4'
    return o


def model_request(req):
    """-> the `rest.req` operand of the Lean driver, or None when the request is outside the modelled space"""
    body = model_body(req['rule'], req)
    if body is None:
        return None
    a = req.get('auth', {'k': 'none'})
    cred = parsed_credentials(a)
    return {'rule': req['rule'], 'method': req['method'], 'auth': list(cred) if cred is not None else None,
            'action': req.get('action', 'send'), 'body': body}
