"""Known findings: failures of a property on the pinned tree that are recorded rather than repaired.
A failure is suppressed only when the finding's matcher recognises its specific input / history."""
import json
import os

from lib.base import VERIF


def load():
    return json.load(open(os.path.join(VERIF, 'known_findings.json')))


def _match(finding, failure):
    if finding['property'] != failure['property']:
        return False
    return failure.get('key') in finding.get('keys', [])


def split(prop, failures):
    """returns (list of finding descriptions that reproduced, list of unlisted failures)"""
    kfs = [f for f in load().get('findings', []) if f['property'] == prop]
    known, unknown = [], []
    for fl in failures:
        hit = None
        for k in kfs:
            if _match(k, fl):
                hit = k
                break
        if hit:
            known.append(hit['what'])
        else:
            unknown.append(fl)
    return known, unknown
