"""C08 plumbing: the REAL constructors of the project's working tree (whole messages through the public entry points
Update.construct / Open.construct / Notification / KeepAlive / RouteRefresh), the structural walker of
lean/Yabgp/Spec/Walker.lean behind `spec.walk` (shared native driver once it dispatches the op, else the standalone
`lake env lean --run Yabgp/Driver/WalkMain.lean`), and the AST harvester that takes valid constructor inputs from the
repository's own tests (yabgp/tests/unit/message/**).
"""
import ast
import atexit
import binascii
import glob
import json
import os
import subprocess
import threading

from lib.base import setup_impl_path, with_budget, LEAN_DIR, REPO

setup_impl_path()

import logging  # noqa: E402
logging.disable(logging.CRITICAL)

from yabgp.common import constants as bgp_cons  # noqa: E402
from yabgp.common import afn, safn  # noqa: E402
from yabgp.message.update import Update  # noqa: E402
from yabgp.message.open import Open  # noqa: E402
from yabgp.message.notification import Notification  # noqa: E402
from yabgp.message.keepalive import KeepAlive  # noqa: E402
from yabgp.message.route_refresh import RouteRefresh  # noqa: E402

BUDGET = 3.0


def hx(b):
    return binascii.b2a_hex(bytes(b)).decode()


# ---------------------------------------------------------------------------------------------- the walker

class WalkDriver(object):
    """`lake env lean --run Yabgp/Driver/C08Main.lean` (walker + guarded constructor models; WalkMain.lean is the
    walker alone) behind the call/batch interface of lib.base.Driver"""

    def __init__(self):
        self.p = subprocess.Popen(['lake', 'env', 'lean', '--run', 'Yabgp/Driver/C08Main.lean'], cwd=LEAN_DIR,
                                  stdin=subprocess.PIPE, stdout=subprocess.PIPE, text=True, bufsize=1 << 16)
        self.n = 0

    def call(self, req):
        self.p.stdin.write(json.dumps(req, separators=(',', ':')) + '\n')
        self.p.stdin.flush()
        line = self.p.stdout.readline()
        if not line:
            raise RuntimeError('WalkMain died on request %r' % (req,))
        self.n += 1
        return json.loads(line)

    def batch(self, reqs):
        reqs = list(reqs)

        def writer():
            w = self.p.stdin
            for r in reqs:
                w.write(json.dumps(r, separators=(',', ':')) + '\n')
            w.flush()
        t = threading.Thread(target=writer)
        t.start()
        out = []
        for _ in reqs:
            line = self.p.stdout.readline()
            if not line:
                raise RuntimeError('WalkMain died in batch')
            out.append(json.loads(line))
        t.join()
        self.n += len(reqs)
        return out

    def close(self):
        try:
            self.p.stdin.close()
            self.p.wait(timeout=10)
        except Exception:
            self.p.kill()


_own = None


def _close_own():
    global _own
    if _own is not None:
        _own.close()
        _own = None


atexit.register(_close_own)

KEEPALIVE_HEX = 'ff' * 16 + '001304'


def walk_driver(shared):
    """the shared native driver once it answers `spec.walk` and the `c08.*` ops, else the standalone process"""
    global _own
    if shared is not None and os.environ.get('VERIF_WALK_STANDALONE') != '1':
        try:
            r = shared.call({'op': 'spec.walk', 'hex': KEEPALIVE_HEX})
            r2 = shared.call({'op': 'c08.mp.construct', 'attr': 15, 'value': {'afi_safi': [2, 1], 'withdraw': []}})
            if isinstance(r, dict) and r.get('valid') is True and isinstance(r2, dict) and 'error' not in r2:
                return shared
        except Exception:
            pass
    if _own is None or _own.p.poll() is not None:
        _own = WalkDriver()
    return _own


# ---------------------------------------------------------------------------------------------- the real constructors

def _out(st, v):
    if st == 'hang':
        return {'hang': True}
    if st == 'raise':
        return {'raise': type(v).__name__}
    if v is None:
        return {'none': True}
    if not isinstance(v, (bytes, bytearray)):
        return {'notbytes': type(v).__name__}
    return {'hex': hx(v)}


def update_construct(msg, asn4=False, addpath=False):
    """msg: the dictionary Update.construct takes ({'attr': {code: value}, 'nlri': [...], 'withdraw': [...]})"""
    st, v = with_budget(BUDGET, Update.construct, msg, asn4, addpath)
    return _out(st, v)


def open_construct(version, asn, hold_time, bgp_id, caps):
    st, v = with_budget(BUDGET, Open(version=version, asn=asn, hold_time=hold_time, bgp_id=bgp_id).construct, caps)
    return _out(st, v)


def notification_construct(error, sub, data):
    st, v = with_budget(BUDGET, Notification().construct, error, sub, data)
    return _out(st, v)


def keepalive_construct():
    st, v = with_budget(BUDGET, KeepAlive().construct)
    return _out(st, v)


def routerefresh_construct(ty, afi, res, safi):
    st, v = with_budget(BUDGET, RouteRefresh(afi, safi, res).construct, ty)
    return _out(st, v)


def _cres(st, v):
    if st == 'hang':
        return {'hang': True}
    if st == 'raise':
        return {'raise': True}
    if v is None:
        return {'none': True}
    return {'hex': hx(v)}


def ip_text(v):
    import netaddr
    return str(netaddr.IPAddress(v[1], v[0]))


def srte_construct(attr, nexthop, nlri):
    """(1, 73) through MpReachNLRI / MpUnReachNLRI.construct; addresses are [family, value], `nexthop` None = a text
    netaddr refuses, `nlri` None = the empty dictionary"""
    from yabgp.message.attribute.mpreachnlri import MpReachNLRI
    from yabgp.message.attribute.mpunreachnlri import MpUnReachNLRI
    d = None
    if nlri is not None:
        d = {'distinguisher': nlri['distinguisher'], 'color': nlri['color'], 'endpoint': ip_text(nlri['endpoint'])}
    if attr == 14:
        v = {'afi_safi': (1, 73), 'nexthop': ip_text(nexthop) if nexthop is not None else 'no-address', 'nlri': d}
        return _cres(*with_budget(BUDGET, MpReachNLRI.construct, v))
    v = {'afi_safi': (1, 73), 'withdraw': d if d is not None else {}}
    return _cres(*with_budget(BUDGET, MpUnReachNLRI.construct, v))


def pmsi_overlay_kind(attr_dict):
    """what EVPN.signal_evpn_overlay says about the label encoding: 'mpls' | 'vni' | 'unsupported'"""
    from yabgp.message.attribute.nlri.evpn import EVPN
    o = EVPN.signal_evpn_overlay(attr_dict)
    if o['evpn'] & o['encap_ec']:
        return 'vni' if o.get('encap_value') in (bgp_cons.BGP_TUNNEL_ENCAPS_VXLAN, bgp_cons.BGP_TUNNEL_ENCAPS_NVGRE) \
            else 'unsupported'
    return 'mpls'


def pmsi_construct(attr_dict, leaf, ty, label, tunnel_id):
    """PMSITunnel.construct the way Update.construct_attributes calls it"""
    from yabgp.message.attribute.pmsitunnel import PMSITunnel
    from yabgp.message.attribute.nlri.evpn import EVPN
    v = {'mpls_label': [label] if label is not None else [], 'tunnel_type': ty, 'leaf_info_required': leaf,
         'tunnel_id': ip_text(tunnel_id) if tunnel_id is not None else 'no-address'}
    st, out = with_budget(BUDGET, PMSITunnel.construct, v, EVPN.signal_evpn_overlay(attr_dict))
    r = _cres(st, out)
    return {'raise': True} if 'none' in r else r


def pmsi_parse(value, evpn):
    """PMSITunnel.parse the way Update.parse_attributes calls it (second call: evpn_overlay is the truthy dict of
    EVPN.signal_evpn_overlay); canonical: {'raise'} | {'hang'} | leaf, type, label, tunnel_id as [family, int] | None | text"""
    import netaddr
    from yabgp.message.attribute.pmsitunnel import PMSITunnel
    ov = {'evpn': True, 'encap_ec': True, 'encap_value': 8} if evpn else False
    st, out = with_budget(BUDGET, PMSITunnel.parse, value, ov)
    if st != 'ok':
        return {st: True}
    tid = out.get('tunnel_id')
    if isinstance(tid, str) and tid != 'not supported':
        try:
            a = netaddr.IPAddress(tid)
            tid = [a.version, int(a)]
        except Exception:
            tid = ['text', tid]
    lab = out.get('mpls_label')
    return {'leaf': out.get('leaf_info_required'), 'type': out.get('tunnel_type'),
            'label': lab[0] if isinstance(lab, list) and len(lab) == 1 else ['shape', repr(lab)], 'tunnel_id': tid}


def _sid_py(x):
    d = {'label': x['label']}
    for k, pk in (('tc', 'TC'), ('s', 'S'), ('ttl', 'TTL')):
        if x.get(k) is not None:
            d[pk] = x[k]
    return d


def _seg_py(g):
    t = g['t']
    if t == 1:
        return {'1': _sid_py(g['sid'])}
    v = {}
    if t == 3:
        v = {'node': ip_text(g['node'])}
    elif t == 5:
        v = {'interface': g['itf'], 'node': ip_text(g['node'])}
    elif t == 6:
        v = {'local': ip_text(g['local']), 'remote': ip_text(g['remote'])}
    if t in (3, 5, 6) and g.get('sid') is not None:
        v['SID'] = _sid_py(g['sid'])
    return {str(t): v}


def tunnel_py(p):
    """canonical policy (the JSON of `c08.tunnel.construct`) -> the dictionary TunnelEncaps.construct takes, keys in
    the order that matters (128 before or after 0)"""
    d = {}

    def put0():
        if p.get('enc') is not None:
            d['0'] = p['enc']

    def put128():
        if p.get('k128') is not None:
            out = []
            for l in p['k128']:
                e = {}
                if l.get('weight') is not None:
                    e['9'] = l['weight']
                if l.get('segs') is not None:
                    e['1'] = [_seg_py(g) for g in l['segs']]
                out.append(e)
            d['128'] = out
    if p.get('seg_first'):
        put128()
        put0()
    else:
        put0()
        put128()
    k6 = p.get('k6')
    if k6 is not None:
        d['6'] = k6['n'] if 'n' in k6 else {'asn': k6['asn'], 'afi': k6['afi'], 'address': ip_text(k6['address'])}
    for k in ('7', '12', '13', '14', '15'):
        if p.get('k' + k) is not None:
            d[k] = p['k' + k]
    if p.get('k129') is not None:
        d['129'] = bytes.fromhex(p['k129']).decode('ascii')
    return d


def flow6_construct(nexthop, rules):
    """(2, 133) through MpReachNLRI.construct; `rules` canonical: [[type, "text" | {"prefix": [fam, int], "len", "offset"}], ..]"""
    from yabgp.message.attribute.mpreachnlri import MpReachNLRI
    py = []
    for rule in rules:
        d = {}
        for t, c in rule:
            d[t] = c if isinstance(c, str) else {'prefix': '%s/%d' % (ip_text(c['prefix']), c['len']), 'offset': c['offset']}
        py.append(d)
    v = {'afi_safi': (2, 133), 'nexthop': ip_text(nexthop) if nexthop is not None else 'no-address', 'nlri': py}
    return _cres(*with_budget(BUDGET, MpReachNLRI.construct, v))


def extcomm_construct(items):
    from yabgp.message.attribute.extcommunity import ExtCommunity
    return _cres(*with_budget(BUDGET, ExtCommunity.construct, items))


def tunnel_construct(p):
    from yabgp.message.attribute.tunnelencaps import TunnelEncaps
    r = _cres(*with_budget(BUDGET, TunnelEncaps.construct, tunnel_py(p)))
    return {'raise': True} if 'none' in r else r


# ---------------------------------------------------------------------------------------------- AST harvesting

MODS = {'bgp_cons': bgp_cons, 'afn': afn, 'safn': safn, 'constants': bgp_cons}


class NoEval(Exception):
    pass


def _ev(node, env):
    """literal evaluation extended with local names and constants of yabgp.common (nothing is executed)"""
    if isinstance(node, ast.Constant):
        return node.value
    if isinstance(node, ast.List):
        return [_ev(x, env) for x in node.elts]
    if isinstance(node, ast.Tuple):
        return tuple(_ev(x, env) for x in node.elts)
    if isinstance(node, ast.Dict):
        return dict((_ev(k, env), _ev(v, env)) for k, v in zip(node.keys, node.values))
    if isinstance(node, ast.Name):
        if node.id in env:
            return env[node.id]
        if node.id in ('True', 'False', 'None'):
            return {'True': True, 'False': False, 'None': None}[node.id]
        raise NoEval(node.id)
    if isinstance(node, ast.Attribute) and isinstance(node.value, ast.Name) and node.value.id in MODS:
        try:
            return getattr(MODS[node.value.id], node.attr)
        except AttributeError:
            raise NoEval(node.attr)
    if isinstance(node, ast.Subscript):
        v = _ev(node.value, env)
        s = node.slice
        if isinstance(s, ast.Slice):
            lo = _ev(s.lower, env) if s.lower is not None else None
            hi = _ev(s.upper, env) if s.upper is not None else None
            return v[lo:hi]
        return v[_ev(s, env)]
    if isinstance(node, ast.UnaryOp) and isinstance(node.op, ast.USub):
        return -_ev(node.operand, env)
    if isinstance(node, ast.BinOp) and isinstance(node.op, (ast.Add, ast.Mult)):
        a, b = _ev(node.left, env), _ev(node.right, env)
        return a + b if isinstance(node.op, ast.Add) else a * b
    raise NoEval(type(node).__name__)


def _callee(func):
    """('ClassName', 'method') of `ClassName.method(..)` / `ClassName().method(..)`"""
    if not isinstance(func, ast.Attribute):
        return None
    v = func.value
    if isinstance(v, ast.Call):
        v = v.func
    if isinstance(v, ast.Name):
        return (v.id, func.attr)
    if isinstance(v, ast.Attribute):
        return (v.attr, func.attr)
    return None


def harvest():
    """(calls, values): `calls` = every `X.construct(...)` of the tests whose arguments are literal
    ({'cls','args','kwargs','where'}); `values` = every dict / list literal assigned in the tests ({'name','value',
    'where'}) - the expected results of the parse tests are valid constructor inputs too."""
    calls, values = [], []
    for f in sorted(glob.glob(os.path.join(REPO, 'yabgp', 'tests', 'unit', 'message', '**', '*.py'), recursive=True)):
        try:
            tree = ast.parse(open(f, 'rb').read())
        except Exception:
            continue
        rel = os.path.relpath(f, REPO)
        for fn in ast.walk(tree):
            if not isinstance(fn, ast.FunctionDef):
                continue
            env = {}
            for node in ast.walk(fn):
                if isinstance(node, ast.Assign) and len(node.targets) == 1 and isinstance(node.targets[0], ast.Name):
                    try:
                        env[node.targets[0].id] = _ev(node.value, env)
                    except (NoEval, Exception):
                        pass
            for name, v in env.items():
                if isinstance(v, (dict, list)) and v:
                    values.append({'name': name, 'value': v, 'where': '%s:%s' % (rel, fn.name)})
            for node in ast.walk(fn):
                if isinstance(node, ast.Call):
                    c = _callee(node.func)
                    if c is None or c[1] != 'construct':
                        continue
                    try:
                        args = [_ev(a, env) for a in node.args]
                        kwargs = dict((k.arg, _ev(k.value, env)) for k in node.keywords if k.arg)
                    except (NoEval, Exception):
                        continue
                    calls.append({'cls': c[0], 'args': args, 'kwargs': kwargs, 'where': '%s:%s' % (rel, fn.name)})
    return calls, values


def jsonable(v):
    """replay files are JSON: tuples -> lists, bytes -> {'bytes': hex}, non-string keys -> strings"""
    if isinstance(v, (list, tuple)):
        return [jsonable(x) for x in v]
    if isinstance(v, (bytes, bytearray)):
        return {'bytes': hx(v)}
    if isinstance(v, dict):
        return dict((str(k), jsonable(x)) for k, x in v.items())
    if isinstance(v, float):
        return repr(v)
    return v
