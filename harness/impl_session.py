"""The real session layer of /repo (yabgp/core/{factory,fsm,protocol,timer}.py, unmodified) driven over the
stand-in reactor: one event at a time, returning the canonical observation the Lean session model predicts."""
import ast
import binascii

from lib.base import setup_impl_path, with_budget

setup_impl_path()

import logging  # noqa: E402
logging.disable(logging.CRITICAL)

from oslo_config import cfg  # noqa: E402
import yabgp.config  # noqa: E402,F401
from twisted.internet import reactor  # noqa: E402  (the stand-in)
# the agent's own start-up code (builds the peering, schedules its first start); importing it registers the REST options,
# which has to happen before oslo.config parses its (empty) command line
import yabgp.agent as _agent  # noqa: E402
from yabgp.common import constants as _bgp_cons  # noqa: E402
import impl_codec as IC  # noqa: E402

_conf_ready = False
TIMER_NAMES = {'connect_retry_time_event': 'retry', 'hold_time_event': 'hold', 'keep_alive_time_event': 'keepalive',
               'delay_open_time_event': 'delayopen', 'idle_hold_time_event': 'idlehold'}
EVENT_BUDGET = 5.0


def hx(b):
    return binascii.b2a_hex(bytes(b)).decode()


class RecordingHandler(object):
    """a BaseHandler that records every callback in the world's output list"""

    def __init__(self, world, sim):
        from queue import Queue
        self.inter_mq = Queue()
        self.world = world
        self.sim = sim

    def _cid(self, proto):
        for c in self.world.connectors:
            if c.protocol is proto:
                return c.id
        return None

    def init(self):
        pass

    def on_update_error(self, peer, timestamp, msg):
        raw = msg.get('hex')
        try:
            raw = hx(ast.literal_eval(raw))
        except Exception:
            raw = repr(raw)
        self.world.out(('handler', 'update_error', self._cid(peer), raw))

    def update_received(self, peer, timestamp, msg):
        self.world.out(('handler', 'update', self._cid(peer),
                        {'attr': IC.canon_attrs(msg['attr']), 'nlri': IC.canon(msg['nlri']),
                         'withdraw': IC.canon(msg['withdraw']), 'afi_safi': msg.get('afi_safi')}))

    def keepalive_received(self, peer, timestamp):
        self.world.out(('handler', 'keepalive', self._cid(peer)))

    def open_received(self, peer, timestamp, result):
        r = None
        if result is not None:
            r = {'version': result['version'], 'asn': result['asn'], 'hold_time': result['hold_time'],
                 'bgp_id': result['bgp_id'], 'capabilities': IC.canon_capa(result['capabilities'])}
        self.world.out(('handler', 'open', self._cid(peer), r))

    def send_open(self, peer, timestamp, result):
        self.world.out(('handler', 'send_open', self._cid(peer),
                        {'version': result['version'], 'asn': result['asn'], 'hold_time': result['hold_time'],
                         'bgp_id': result['bgp_id']}))

    def route_refresh_received(self, peer, msg, msg_type):
        self.world.out(('handler', 'route_refresh', self._cid(peer), [msg['afi'], msg['res'], msg['safi'], msg_type]))

    def notification_received(self, peer, msg):
        raw = msg.get('data')
        try:
            raw = hx(ast.literal_eval(raw))
        except Exception:
            raw = repr(raw)
        self.world.out(('handler', 'notification', self._cid(peer), raw))

    def on_connection_lost(self, peer):
        self.world.out(('handler', 'conn_lost', self._cid(peer)))

    def on_connection_failed(self, peer, msg):
        self.world.out(('handler', 'conn_failed'))

    def on_established(self, peer, msg):
        self.world.out(('handler', 'established'))


DEFAULT_CFG = {
    'local_as': 65001, 'remote_as': 65002, 'hold_time': 180, 'connect_retry_time': 30, 'idle_hold_time': 30,
    'caps': {'four_bytes_as': True, 'route_refresh': True, 'cisco_route_refresh': True, 'enhanced_route_refresh': True,
             'graceful_restart': True, 'cisco_multi_session': True, 'add_path': None, 'afi_safi': [[1, 1]]},
    'rib': False, 'local_host': '10.0.0.1', 'remote_addr': '10.0.0.2',
}


class Sim(object):
    def __init__(self, conf=None):
        global _conf_ready
        self.cfg = dict(DEFAULT_CFG)
        if conf:
            self.cfg.update(conf)
        if not _conf_ready:
            cfg.CONF(args=[], project='yabgp', default_config_files=[])
            _conf_ready = True
        c = self.cfg
        cfg.CONF.set_override('hold_time', c['hold_time'], group='time')
        # the option `keep_alive_time` is left at what an operator who configures only the hold time gets - the shipped default,
        # 60 s, unrelated to the hold time: the KEEPALIVE interval of a session must come from the NEGOTIATED hold time alone
        # (round 10: with an override of hold_time // 3 here, a session that kept the configured interval was invisible)
        cfg.CONF.set_override('keep_alive_time', c.get('keep_alive_time', 60), group='time')
        cfg.CONF.set_override('connect_retry_time', c['connect_retry_time'], group='time')
        cfg.CONF.set_override('idle_hold_time', c['idle_hold_time'], group='time')
        cfg.CONF.set_override('rib', bool(c['rib']), group='bgp')
        cfg.CONF.set_override('afi_safi', ['ipv4'], group='bgp')
        caps = c['caps']
        local = {}
        for k in ('four_bytes_as', 'route_refresh', 'cisco_route_refresh', 'enhanced_route_refresh',
                  'graceful_restart', 'cisco_multi_session'):
            if k in caps:
                local[k] = caps[k]
        local['add_path'] = IC.ADDPATH_STR.get(caps.get('add_path')) if caps.get('add_path') else None
        if caps.get('afi_safi') is not None:
            local['afi_safi'] = [tuple(x) for x in caps['afi_safi']]
        if caps.get('ext_nexthop') is not None:
            local['ext_nexthop'] = [{'afi_safi': [a, s], 'nexthop_afi': n} for a, s, n in caps['ext_nexthop']]
        names = ['ipv4']
        cfg.CONF.bgp.running_config = {
            'remote_as': c['remote_as'], 'remote_addr': c['remote_addr'], 'local_as': c['local_as'],
            'local_addr': c['local_host'], 'md5': c.get('md5'), 'afi_safi': names,
            'capability': {'local': local, 'remote': {}},
        }
        self.world = reactor.world
        self.world.reset(local_host=c['local_host'])
        self.handler = RecordingHandler(self.world, self)
        # the peering is built, and its first start scheduled, by the agent's own start-up routine
        # (yabgp/agent/__init__.py::prepare_twisted_service) running over the stand-in reactor
        _agent.prepare_twisted_service(self.handler)
        self.peering = cfg.CONF.bgp.running_config['factory']
        # (the address families: the start-up turned the configured names into (afi, safi) pairs; the harness's
        # configurations give the pairs themselves, possibly none at all)
        if caps.get('afi_safi') is None:
            cfg.CONF.bgp.running_config['capability']['local'].pop('afi_safi', None)
        else:
            cfg.CONF.bgp.running_config['capability']['local']['afi_safi'] = [tuple(x) for x in caps['afi_safi']]
        # the one deferred call of the start-up (reactor.callLater(bgp_peer_call_later_time, <first start>)) is taken out of
        # the timer list: the harness's `boot` event runs it, whenever the schedule says so
        boots = [x for x in self.world.calls]
        assert len(boots) == 1, boots
        self.boot_call = boots[0]
        self.world.calls.remove(self.boot_call)
        self.escaped = None

    # ---- one event
    def _apply(self, ev):
        w = self.world
        k = ev['k']
        if k == 'boot':
            bc = self.boot_call
            bc.func(*bc.args, **bc.kw)
        elif k == 'start':
            # the operator's commands arrive the way they do in the deployed agent: REST view -> yabgp/api/utils.py
            # (manual_start / manual_stop there call the peering held in the running configuration and map its answer)
            from yabgp.api import utils as api_utils
            r = api_utils.manual_start(self.cfg['remote_addr'])
            w.out(('ret', 'start', 'EST' if (not r.get('status') and 'established' in str(r.get('code'))) else bool(r.get('status'))))
            if not r.get('status') and str(r.get('code', '')).startswith('failed'):
                w.out(('reactor-error', 'manual_start'))
        elif k == 'stop':
            from yabgp.api import utils as api_utils
            r = api_utils.manual_stop(self.cfg['remote_addr'])
            w.out(('ret', 'stop', bool(r.get('status'))))
            if not r.get('status') and str(r.get('code', '')).startswith('failed'):
                w.out(('reactor-error', 'manual_stop'))
        elif k == 'connok':
            w.connect_ok(w.connectors[ev['c']])
        elif k == 'connfail':
            w.fail_connect(w.connectors[ev['c']], 'Connection refused' if ev.get('why') != 'timeout' else 'User timeout caused connection failure.')
        elif k == 'chunk':
            w.deliver(w.connectors[ev['c']], bytes.fromhex(ev['hex']))
        elif k == 'lost':
            w.lose(w.connectors[ev['c']])
        elif k == 'advance':
            w.advance_to(w.now + ev['dt'])
        elif k == 'fire':
            call = None
            for c in w.due():
                if TIMER_NAMES.get(getattr(c.func, '__name__', None)) == ev['t']:
                    call = c
            if call is None:
                raise KeyError('no due timer %s' % ev['t'])
            w.fire(call)
        else:
            raise KeyError(k)
        w.flush_threads()

    def enabled(self, ev):
        """is this environment event possible in the simulated world right now?"""
        w = self.world
        k = ev['k']
        if k in ('boot', 'start', 'stop'):
            return True
        if k in ('connok', 'connfail'):
            return ev['c'] < len(w.connectors) and w.connectors[ev['c']].state == 'connecting'
        if k == 'chunk':
            c = w.connectors[ev['c']] if ev['c'] < len(w.connectors) else None
            return c is not None and c.state == 'connected'
        if k == 'lost':
            return ev['c'] < len(w.connectors) and w.connectors[ev['c']].state in ('connected', 'closing')
        if k == 'advance':
            return all(c.time >= w.now + ev['dt'] for c in w.calls) and ev['dt'] > 0
        if k == 'fire':
            return any(TIMER_NAMES.get(getattr(c.func, '__name__', None)) == ev['t'] for c in w.due())
        return False

    def step(self, ev):
        self.world.take_outs()
        st, v = with_budget(EVENT_BUDGET, self._apply, ev)
        outs = self.world.take_outs()
        obs = self.observe()
        obs['outs'] = [self._canon_out(o) for o in outs]
        if st == 'hang':
            obs['hang'] = True
        elif st == 'raise':
            obs['escaped'] = type(v).__name__
        return obs

    @staticmethod
    def _canon_out(o):
        if o[0] == 'write':
            return ['write', o[1], hx(o[2])]
        return [x for x in o]

    def observe(self):
        from yabgp.api import utils as api_utils
        w = self.world
        timers = {}
        for c in w.calls:
            n = TIMER_NAMES.get(getattr(c.func, '__name__', None), 'other')
            timers.setdefault(n, []).append(c.time)
        state = api_utils.get_peer_conf_and_state()['peer']['fsm']
        stats = None
        try:
            s = api_utils.get_peer_msg_statistic()
            stats = {'send': dict(s['send']), 'receive': dict(s['receive'])}
        except AttributeError:
            stats = None
        proto = None
        fp = self.peering.fsm.protocol
        for c in w.connectors:
            if c.protocol is fp and fp is not None:
                proto = c.id
        return {'state': state, 'now': w.now, 'timers': {k: sorted(v) for k, v in timers.items()},
                'stats': stats, 'conns': [c.state for c in w.connectors], 'proto': proto}
