"""The real EVPN / IPv4-flowspec codecs of /repo's working tree (yabgp/message/attribute/nlri/evpn.py,
ipv4_flowspec.py and the (25,70) / (1,133) branches of mpreachnlri.py / mpunreachnlri.py) behind the same
canonical JSON the Lean ops of lean/Yabgp/Driver/EvfOps.lean speak.

canonical JSON
  IP address   [4|6, value]                 <-> text through netaddr (trusted: netaddr's str and parser are inverse)
  MAC address  value                        <-> 'XX-XX-XX-XX-XX-XX' through netaddr.EUI
  RD           'asn:an' | 'a.b.c.d:an' | {'raw': hex}   (str(bytes) of an unknown RD type -> hex)
  ESI          {'type': t, 'value': int | {'ce_mac_addr': mac, 'ce_port_key': k} | ... | {}}
  route        {'type': t, 'value': {...}}
  flow spec    [[type, text], ...] sorted by type       <-> dict
Every call of the real code runs under lib.base.with_budget."""
import ast
import binascii

from lib.base import setup_impl_path, with_budget

setup_impl_path()

import logging  # noqa: E402
logging.disable(logging.CRITICAL)

import netaddr  # noqa: E402
from yabgp.common import exception as _ex  # noqa: E402
from yabgp.message.attribute.nlri.evpn import EVPN  # noqa: E402
from yabgp.message.attribute.nlri.ipv4_flowspec import IPv4FlowSpec  # noqa: E402
from yabgp.message.attribute.mpreachnlri import MpReachNLRI  # noqa: E402
from yabgp.message.attribute.mpunreachnlri import MpUnReachNLRI  # noqa: E402

BUDGET = 2.0
MAC_KEYS = ('ce_mac_addr', 'rb_mac_addr', 'sys_mac_addr')


def hx(b):
    return binascii.b2a_hex(bytes(b)).decode()


# ------------------------------------------------------------------------------------------- real value -> canonical
def c_ip(text):
    a = netaddr.IPAddress(text)
    return [a.version, int(a)]


def c_mac(text):
    return int(netaddr.EUI(text))


def c_rd(text):
    if text[:2] in ("b'", 'b"'):
        return {'raw': hx(ast.literal_eval(text))}
    return text


def c_esi(e):
    v = e['value']
    if isinstance(v, dict):
        v = dict((k, c_mac(x) if k in MAC_KEYS else x) for k, x in v.items())
    return {'type': e['type'], 'value': v}


def c_route(r):
    v = r['value']
    out = {}
    for k, x in v.items():
        if k == 'rd':
            out[k] = c_rd(x)
        elif k == 'esi':
            out[k] = c_esi(x) if isinstance(x, dict) else x
        elif k == 'mac':
            out[k] = c_mac(x)
        elif k in ('ip', 'gateway'):
            out[k] = c_ip(x)
        elif k == 'prefix':
            a, l = x.rsplit('/', 1)
            out[k] = [c_ip(a), int(l)]
        elif k == 'label':
            out[k] = list(x)
        else:
            out[k] = x
    return {'type': r['type'], 'value': out}


def c_rule(d):
    return [[k, d[k]] for k in sorted(d)]


# ------------------------------------------------------------------------------------------- canonical -> real value
def p_ip(j):
    return str(netaddr.IPAddress(j[1], j[0]))


def p_mac(n):
    return str(netaddr.EUI(n))


def p_esi(e):
    v = e['value']
    if isinstance(v, dict):
        v = dict((k, p_mac(x) if k in MAC_KEYS else x) for k, x in v.items())
    return {'type': e['type'], 'value': v}


def p_route(r):
    out = {}
    for k, x in r['value'].items():
        if k == 'esi':
            out[k] = p_esi(x) if isinstance(x, dict) else x
        elif k == 'mac':
            out[k] = p_mac(x)
        elif k in ('ip', 'gateway'):
            out[k] = p_ip(x)
        elif k == 'prefix':
            out[k] = '%s/%d' % (p_ip(x[0]), x[1])
        else:
            out[k] = x
    return {'type': r['type'], 'value': out}


def p_rule(pairs):
    return dict((k, v) for k, v in pairs)


def representable(routes):
    """values the text forms of the API can carry (RD of an unknown type has no text form)"""
    for r in routes:
        if isinstance(r['value'].get('rd'), dict):
            return False
    return True


def _res(st, v, ok):
    if st == 'hang':
        return {'hang': True}
    if st == 'raise':
        return {'raise': True}
    return ok(v)


# ------------------------------------------------------------------------------------------- EVPN
def evpn_parse(b):
    st, v = with_budget(BUDGET, EVPN.parse, bytes(b))
    return _res(st, v, lambda v: {'ok': [c_route(r) for r in v]})


def evpn_construct(routes):
    py = [p_route(r) for r in routes]
    st, v = with_budget(BUDGET, EVPN.construct, py)
    return _res(st, v, lambda v: {'hex': hx(v)})


def esi_parse(b):
    st, v = with_budget(BUDGET, EVPN.parse_esi, bytes(b))
    return _res(st, v, lambda v: {'ok': c_esi(v)})


def esi_construct(e):
    st, v = with_budget(BUDGET, EVPN.construct_esi, p_esi(e))
    return _res(st, v, lambda v: {'hex': hx(v)})


# ------------------------------------------------------------------------------------------- flowspec
def fs_parse(b):
    st, v = with_budget(BUDGET, IPv4FlowSpec.parse, bytes(b))
    return _res(st, v, lambda v: {'ok': c_rule(v)})


def fs_construct(pairs):
    st, v = with_budget(BUDGET, IPv4FlowSpec.construct_nlri, p_rule(pairs))
    return _res(st, v, lambda v: {'none': True} if v is None else {'hex': hx(v)})


def ops_parse(b):
    def f():
        lst, off = IPv4FlowSpec.parse_operators(bytes(b))
        return [IPv4FlowSpec.operator_dict_to_str(lst), off]
    st, v = with_budget(BUDGET, f)
    return _res(st, v, lambda v: {'ok': v})


def ops_construct(text):
    st, v = with_budget(BUDGET, IPv4FlowSpec.construct_operators, text)
    return _res(st, v, lambda v: {'hex': hx(v)})


# ------------------------------------------------------------------------------------------- MP_REACH / MP_UNREACH
def _c_nlri(afi_safi, nlri):
    if afi_safi == (25, 70):
        return [c_route(r) for r in nlri]
    return [c_rule(d) for d in nlri]


def _mine(afi_safi):
    return afi_safi in ((25, 70), (1, 133))


def _perr(st, e):
    if st == 'hang':
        return {'hang': True}
    if isinstance(e, _ex.UpdateMessageError):
        return {'err': e.sub_error}
    return {'raise': True}


def peek_family(b, reach=True):
    """(afi, safi) of an attribute value when its fixed part is complete, else None"""
    b = bytes(b)
    n = 4 if reach else 3
    if len(b) < n:
        return None
    return (b[0] * 256 + b[1], b[2])


def mpreach_parse(b):
    fam = peek_family(b, True)
    if fam is not None and not _mine(fam):
        return {'notmine': True}
    st, v = with_budget(BUDGET, MpReachNLRI.parse, bytes(b))
    if st != 'ok':
        return _perr(st, v)
    fam = tuple(v['afi_safi'])
    nh = v['nexthop']
    return {'ok': {'afi_safi': list(fam), 'nexthop': c_ip(nh) if nh != '' else '', 'nlri': _c_nlri(fam, v['nlri'])}}


def mpunreach_parse(b):
    fam = peek_family(b, False)
    if fam is not None and not _mine(fam):
        return {'notmine': True}
    st, v = with_budget(BUDGET, MpUnReachNLRI.parse, bytes(b))
    if st != 'ok':
        return _perr(st, v)
    fam = tuple(v['afi_safi'])
    return {'ok': {'afi_safi': list(fam), 'withdraw': _c_nlri(fam, v['withdraw'])}}


def _p_nlri(fam, nlri):
    if fam == (25, 70):
        return [p_route(r) for r in nlri]
    return [p_rule(d) for d in nlri]


def _cres(st, v):
    if st == 'hang':
        return {'hang': True}
    if st == 'raise':
        return {'raise': True}
    if v is None:
        return {'none': True}
    return {'hex': hx(v)}


def mpreach_construct(value):
    fam = tuple(value['afi_safi'])
    nh = value.get('nexthop', '')
    py = {'afi_safi': fam, 'nexthop': p_ip(nh) if nh != '' else '', 'nlri': _p_nlri(fam, value['nlri'])}
    st, v = with_budget(BUDGET, MpReachNLRI.construct, py)
    return _cres(st, v)


def mpunreach_construct(value):
    fam = tuple(value['afi_safi'])
    py = {'afi_safi': fam, 'withdraw': _p_nlri(fam, value['withdraw'])}
    st, v = with_budget(BUDGET, MpUnReachNLRI.construct, py)
    return _cres(st, v)
