"""Property oracles evaluated on the REAL implementation while the session suites drive it (DESIGN §3.1 step 5).
Each failure carries a `key` that classifies the specific history, so that known_findings.json can list some
classes without hiding different violations of the same property."""
import struct

MARK = b'\xff' * 16
MINLEN = {1: 29, 2: 23, 3: 21, 4: 19, 5: 23, 128: 23}
STAT_KEY = {1: 'Opens', 2: 'Updates', 3: 'Notifications', 4: 'Keepalives', 5: 'RouteRefresh', 128: 'RouteRefresh'}


def frames_of(stream):
    """complete frames (type, total length, body) a conforming deframer extracts, stopping at a framing error"""
    out = []
    b = stream
    while len(b) >= 19 and b[:16] == MARK:
        ln = struct.unpack('!H', b[16:18])[0]
        if ln < 19 or ln > 4096 or len(b) < ln:
            break
        out.append((b[18], ln, b[19:ln]))
        b = b[ln:]
    return out


def parse_open_wire(w):
    """minimal independent reading of an OPEN we wrote: version, true AS, hold, id, capability code set"""
    body = w[19:]
    ver, asn, hold, bid, ol = struct.unpack('!BHHIB', body[:10])
    caps = []
    rest = body[10:10 + ol]
    while len(rest) >= 2:
        pt, pl = rest[0], rest[1]
        pv = rest[2:2 + pl]
        rest = rest[2 + pl:]
        while len(pv) >= 2:
            cc, cl = pv[0], pv[1]
            cv = pv[2:2 + cl]
            pv = pv[2 + cl:]
            caps.append((cc, cv.hex()))
            if cc == 65 and len(cv) == 4:
                asn = struct.unpack('!I', cv)[0]
    return {'version': ver, 'asn': asn, 'hold': hold, 'id': bid, 'caps': sorted(set(caps))}


class Monitor(object):
    def __init__(self, res, conf, full_cfg):
        self.res = res
        self.conf = conf
        self.cfg = full_cfg
        self.trace = []
        self.stopped = False
        self.conn_before_stop = set()
        self.streams = {}          # connector id -> bytes delivered
        self.closed_by_us = set()
        self.first_open = None
        self.prev = None
        self.H = None              # negotiated hold time of the current session (seconds)
        self.last_arrival = None
        self.t_connect = None
        self.opens_seen = 0
        self.multi = False

    def fail(self, prop, what, key, extra=None):
        rp = {'cfg': self.conf, 'events': list(self.trace)}
        if extra:
            rp.update(extra)
        self.res.fail(prop, what, rp, key=key)

    def step(self, ev, obs, sim):
        self.trace.append(ev)
        if self.multi:
            # the history left the single-connection regime (already reported under C12): what follows is a
            # consequence of that finding and is not attributed to the other properties
            return
        prev = self.prev or {'state': 'IDLE', 'conns': [], 'proto': None, 'timers': {}, 'now': 0}
        outs = obs['outs']
        k = ev['k']
        # ---------------- C10: nothing escapes, nothing hangs
        if obs.get('hang'):
            self.fail('C10', 'handling of an event did not return (CPU budget exceeded)', 'hang')
        if obs.get('escaped'):
            self.fail('C10', 'an exception escaped from the event handler: %s' % obs['escaped'], 'escape')
        if k == 'chunk':
            if sim.world.connectors[ev['c']].state in ('connected', 'closing') or True:
                self.streams[ev['c']] = self.streams.get(ev['c'], b'') + bytes.fromhex(ev['hex'])
            nframes = len(frames_of(bytes.fromhex(ev['hex']))) + 1
            reports = [o for o in outs if o[0] == 'handler' and o[1] in ('update', 'update_error', 'open', 'keepalive',
                                                                      'notification', 'route_refresh')]
            if len(reports) > nframes + 1:
                self.fail('C10', 'more reports to the application than messages received', 'multi-report')
            if prev['state'] == 'ESTABLISHED':
                fr = frames_of(self.streams[ev['c']])
                new = frames_of(bytes.fromhex(ev['hex']))
                if new and all(t == 2 for t, _, _ in new) and len(b''.join(MARK + struct.pack('!HB', l, t) + b for t, l, b in new)) == len(bytes.fromhex(ev['hex'])) \
                        and ev['c'] == prev['proto'] and not any(o[0] == 'unmodelled' for o in outs):
                    if obs['state'] != 'ESTABLISHED':
                        self.fail('C10', 'an UPDATE tore down an Established session', 'update-teardown')
        # ---------------- C12: at most one connection or attempt
        live_prev = sum(1 for p in prev['conns'] if p in ('connecting', 'connected'))
        live = sum(1 for p in obs['conns'] if p in ('connecting', 'connected'))
        if live > 1 and live > live_prev:
            pending_older = any(p == 'connecting' for p in prev['conns'])
            if k == 'fire' and ev.get('t') == 'retry' and pending_older:
                key = 'KF-retry-fires-while-attempt-pending'
            elif k == 'start' and pending_older:
                key = 'KF-start-while-attempt-pending'
            else:
                key = 'other:%s' % k
            self.fail('C12', 'a second connection / attempt was started while one is live', key)
            self.multi = True
        for o in outs:
            if o[0] == 'write' and o[1] != obs['proto']:
                self.fail('C12', 'a message was written to a connection the state machine does not track', 'write-untracked')
        # ---------------- C13: operator stop is final until operator start
        if k == 'stop':
            cease = [o for o in outs if o[0] == 'write' and bytes.fromhex(o[2])[18:20] == b'\x03\x06']
            ws = [o for o in outs if o[0] == 'write']
            if prev['state'] == 'ESTABLISHED':
                if len(cease) != 1 or len(ws) != 1 or ['lose', prev['proto']] not in outs:
                    self.fail('C13', 'manual stop from Established did not send exactly Cease and close', 'stop-reaction')
            elif ws:
                self.fail('C13', 'manual stop outside Established wrote a message', 'stop-reaction')
            if obs['state'] != 'IDLE' or obs['timers']:
                self.fail('C13', 'manual stop did not end in Idle with all timers cancelled', 'stop-state')
            self.stopped = True
            self.conn_before_stop = set(i for i, p in enumerate(obs['conns']) if p in ('connecting', 'connected'))
        elif k == 'start':
            if self.stopped:
                if not any(o[0] == 'connect' for o in outs) or obs['state'] != 'CONNECT':
                    self.fail('C13', 'manual start from the stopped state did not begin connecting', 'start-reaction')
            elif prev['state'] == 'ESTABLISHED':
                if any(o[0] in ('write', 'connect', 'lose') for o in outs) or obs['state'] != 'ESTABLISHED':
                    self.fail('C13', 'manual start changed something while a session was up', 'start-while-up')
            self.stopped = False
        elif self.stopped:
            noisy = [o for o in outs if o[0] in ('write', 'connect')]
            if noisy:
                if k == 'connok' and ev['c'] in self.conn_before_stop:
                    key = 'KF-pending-attempt-adopted-after-stop'
                elif k in ('chunk', 'fire') and any(i in self.conn_before_stop for i in [obs['proto']]):
                    key = 'KF-pending-attempt-adopted-after-stop'
                else:
                    key = 'other:%s' % k
                self.fail('C13', 'after manual stop the agent sent a message or started a connection', key)
                self.multi = True
        # ---------------- C18: statistics equal what crossed the wire
        if obs['stats'] is not None and obs['proto'] is not None:
            pc = sim.world.connectors[obs['proto']]
            sent = {}
            for wbytes in pc.written:
                sent[STAT_KEY.get(wbytes[18], '?')] = sent.get(STAT_KEY.get(wbytes[18], '?'), 0) + 1
            for name in ('Opens', 'Notifications', 'Updates', 'Keepalives', 'RouteRefresh'):
                if obs['stats']['send'].get(name, 0) != sent.get(name, 0):
                    self.fail('C18', 'sent counter %s=%d but %d such messages were written' % (
                        name, obs['stats']['send'].get(name, 0), sent.get(name, 0)), 'sent-counter')
                    break
            if obs['conns'][obs['proto']] == 'connected':
                fr = frames_of(self.streams.get(obs['proto'], b''))
                lo, hi = {}, {}
                for t, ln, body in fr:
                    n = STAT_KEY.get(t)
                    if n is None:
                        continue
                    hi[n] = hi.get(n, 0) + 1
                    if ln >= MINLEN[t]:
                        lo[n] = lo.get(n, 0) + 1
                for name in ('Opens', 'Notifications', 'Updates', 'Keepalives', 'RouteRefresh'):
                    v = obs['stats']['receive'].get(name, 0)
                    if not (lo.get(name, 0) <= v <= hi.get(name, 0)):
                        if not any(o[0] == 'unmodelled' for o in outs):
                            self.fail('C18', 'received counter %s=%d but %d..%d such frames were delivered' % (
                                name, v, lo.get(name, 0), hi.get(name, 0)), 'recv-counter')
                        break
        # ---------------- C05: every OPEN we write depends on the configuration only
        for o in outs:
            if o[0] == 'write' and bytes.fromhex(o[2])[18] == 1:
                po = parse_open_wire(bytes.fromhex(o[2]))
                self.opens_seen += 1
                if po['version'] != 4 or po['asn'] != self.cfg['local_as'] or po['hold'] != self.cfg['hold_time']:
                    self.fail('C05', 'our OPEN does not carry version 4 / configured AS / configured hold time: %r' % (po,),
                              'open-fields')
                if self.first_open is None:
                    self.first_open = po
                elif po != self.first_open:
                    a, b = set(map(tuple, self.first_open['caps'])), set(map(tuple, po['caps']))
                    same_rest = all(po[x] == self.first_open[x] for x in ('version', 'asn', 'hold', 'id'))
                    key = 'KF-capability-leak' if (same_rest and b < a) else 'open-differs'
                    self.fail('C05', 'the OPEN of a later session differs from the first one: %r vs %r' % (self.first_open, po), key)
                self.t_connect = obs['now']
                self.H = None
        # ---------------- C03: timers keep the negotiated contract
        if k == 'chunk' and ev['c'] == prev['proto']:
            for t, ln, body in frames_of(bytes.fromhex(ev['hex'])):
                pass
        st = obs['state']
        if any(o[0] == 'handler' and o[1] == 'open' for o in outs) and st == 'OPENCONFIRM':
            for o in outs:
                if o[0] == 'handler' and o[1] == 'open' and o[3]:
                    self.H = min(self.cfg['hold_time'], o[3]['hold_time'])
                    self.last_arrival = obs['now']
        if st == 'ESTABLISHED' and k == 'chunk' and any(o[0] == 'handler' and o[1] in ('keepalive', 'update', 'update_error') for o in outs):
            self.last_arrival = obs['now']
        if st in ('OPENCONFIRM', 'ESTABLISHED') and self.H is not None and not any(o[0] == 'unmodelled' for o in outs):
            tm = obs['timers']
            if self.H > 0:
                ka = tm.get('keepalive')
                if not ka or min(ka) > obs['now'] + self.H:
                    self.fail('C03', 'no KEEPALIVE is scheduled within H/3 (H=%d): timers %r at %d' % (self.H, tm, obs['now']), 'keepalive-schedule')
                hd = tm.get('hold')
                if not hd or hd != [self.last_arrival + 3 * self.H]:
                    self.fail('C03', 'hold deadline %r is not last arrival %r + H (H=%d)' % (hd, self.last_arrival, self.H), 'hold-deadline')
            else:
                if tm.get('hold') or tm.get('keepalive'):
                    self.fail('C03', 'hold time 0 but hold/keepalive timers are armed: %r' % (tm,), 'hold-zero')
        if st == 'OPENSENT' and self.t_connect is not None:
            if obs['timers'].get('hold') != [self.t_connect + 720]:
                self.fail('C03', 'OpenSent without the 4-minute hold limit: %r' % (obs['timers'],), 'large-hold')
        if k == 'fire' and ev['t'] == 'hold' and prev['state'] in ('OPENSENT', 'OPENCONFIRM', 'ESTABLISHED'):
            ws = [o for o in outs if o[0] == 'write']
            if len(ws) != 1 or bytes.fromhex(ws[0][2])[18:21] != b'\x03\x04\x00' or obs['state'] != 'IDLE' or not any(o[0] == 'lose' for o in outs):
                self.fail('C03', 'hold timer expiry was not answered with NOTIFICATION(4,0), close, Idle', 'hold-expiry')
        if k == 'fire' and ev['t'] == 'keepalive' and prev['state'] in ('OPENCONFIRM', 'ESTABLISHED'):
            ws = [o for o in outs if o[0] == 'write']
            if len(ws) != 1 or bytes.fromhex(ws[0][2])[18] != 4:
                self.fail('C03', 'keepalive timer expiry did not send a KEEPALIVE', 'keepalive-expiry')
        if st == 'IDLE':
            self.H = None
        self.prev = {'state': obs['state'], 'conns': list(obs['conns']), 'proto': obs['proto'], 'timers': obs['timers'],
                     'now': obs['now']}
