"""Property oracles evaluated on the REAL implementation while the session suites drive it (DESIGN §3.1 step 5).
Each failure carries a `key` that classifies the specific history, so that known_findings.json can list some
classes without hiding different violations of the same property."""
import struct

MARK = b'\xff' * 16
MINLEN = {1: 29, 2: 23, 3: 21, 4: 19, 5: 23, 128: 23}
STAT_KEY = {1: 'Opens', 2: 'Updates', 3: 'Notifications', 4: 'Keepalives', 5: 'RouteRefresh', 128: 'RouteRefresh'}


def frames_of(stream):
    """complete frames (type, total length, body) a conforming deframer extracts, stopping at a framing error"""
    out = []
    b = stream
    while len(b) >= 19 and b[:16] == MARK:
        ln = struct.unpack('!H', b[16:18])[0]
        if ln < 19 or ln > 4096 or len(b) < ln:
            break
        out.append((b[18], ln, b[19:ln]))
        b = b[ln:]
    return out


def parse_open_wire(w):
    """minimal independent reading of an OPEN we wrote: version, true AS, hold, id, capability code set"""
    body = w[19:]
    ver, asn, hold, bid, ol = struct.unpack('!BHHIB', body[:10])
    caps = []
    rest = body[10:10 + ol]
    while len(rest) >= 2:
        pt, pl = rest[0], rest[1]
        pv = rest[2:2 + pl]
        rest = rest[2 + pl:]
        while len(pv) >= 2:
            cc, cl = pv[0], pv[1]
            cv = pv[2:2 + cl]
            pv = pv[2 + cl:]
            caps.append((cc, cv.hex()))
            if cc == 65 and len(cv) == 4:
                asn = struct.unpack('!I', cv)[0]
    return {'version': ver, 'asn': asn, 'hold': hold, 'id': bid, 'caps': sorted(set(caps)),
            'my_as_field': struct.unpack('!H', body[1:3])[0]}


def upd_in_range(body):
    """both length fields of an UPDATE body are in range (otherwise Update.parse raises and the message is skipped: C11)"""
    if len(body) < 4:
        return False
    wl = struct.unpack('!H', body[:2])[0]
    if wl + 4 > len(body):
        return False
    al = struct.unpack('!H', body[2 + wl:4 + wl])[0]
    return wl + 4 + al <= len(body)


class Monitor(object):
    def __init__(self, res, conf, full_cfg):
        self.res = res
        self.conf = conf
        self.cfg = full_cfg
        self.trace = []
        self.stopped = False
        self.was_stopped_then_started = False
        self.last_ka_sent = None
        self.conn_before_stop = set()
        self.streams = {}          # connector id -> bytes delivered
        self.closed_by_us = set()
        self.first_open = None
        self.prev = None
        self.H = None              # negotiated hold time of the current session (seconds)
        self.last_arrival = None
        self.t_connect = None
        self.opens_seen = 0
        self.multi = False
        self.booted = False
        self.pending = {}
        self.nframes = {}
        self.recv_lo = {}          # connector id -> {counter: frames certainly received and to be counted}
        self.recv_hi = {}          # connector id -> {counter: frames possibly counted}

    only = None      # when set: the properties this monitor is allowed to judge (runs outside the common event alphabet)

    def fail(self, prop, what, key, extra=None):
        if self.only is not None and prop not in self.only:
            return
        rp = {'cfg': self.conf, 'events': list(self.trace)}
        if extra:
            rp.update(extra)
        self.res.fail(prop, what, rp, key=key)

    def step(self, ev, obs, sim):
        self.trace.append(ev)
        if ev['k'] in ('boot', 'start'):
            self.booted = True
        if self.multi:
            # the history left the single-connection regime (already reported under C12): what follows is a consequence of
            # that finding and is not attributed to the properties stated for the single-connection regime.  C13 is stated
            # "whatever the peer, pending timers or pending attempts do" and C12 about every connection: those two go on
            # being judged.
            self.only = {'C12', 'C13'} if self.only is None else (set(self.only) & {'C12', 'C13'})
        prev = self.prev or {'state': 'IDLE', 'conns': [], 'proto': None, 'timers': {}, 'now': 0}
        outs = obs['outs']
        k = ev['k']
        # ---------------- C10 / C04: a connection the agent has closed is dead to it - nothing more is written to it and
        # nothing more that arrived on it is reported (the rest of the segment that carried the fatal message included)
        REPORTS = ('update', 'update_error', 'open', 'keepalive', 'notification', 'route_refresh')
        closed_now = set()
        late_reports = {}
        for o in outs:
            if o[0] == 'lose':
                closed_now.add(o[1])
            elif o[0] == 'write' and (o[1] in self.closed_by_us or o[1] in closed_now):
                for pr in ('C10', 'C04', 'C01'):
                    self.fail(pr, 'a message was written to connection %d after the agent had closed it' % o[1], 'activity-after-close')
                break
            elif o[0] == 'handler' and o[1] in REPORTS and len(o) > 2:
                if o[2] in self.closed_by_us:
                    for pr in ('C10', 'C04', 'C01'):
                        self.fail(pr, 'a message received on connection %d was reported after the agent had closed it' % o[2],
                                  'activity-after-close')
                    break
                if o[2] in closed_now:
                    # the report of the very message that made the agent close may follow the close; a second one is a
                    # message from behind it in the same segment
                    late_reports[o[2]] = late_reports.get(o[2], 0) + 1
                    if late_reports[o[2]] > 1:
                        for pr in ('C10', 'C04', 'C01'):
                            self.fail(pr, 'messages behind the one that made the agent close connection %d were still reported' % o[2],
                                      'activity-after-close')
                        break
        self.closed_by_us |= closed_now
        # ---------------- C10 / C12: the (late) loss of a connection that is not the tracked one is no business of the
        # session on the tracked connection
        if k == 'lost' and prev['proto'] is not None and ev['c'] != prev['proto'] and \
                prev['state'] in ('OPENSENT', 'OPENCONFIRM', 'ESTABLISHED') and \
                prev['proto'] < len(prev['conns']) and prev['conns'][prev['proto']] == 'connected':
            if obs['state'] != prev['state'] or any(o[0] in ('write', 'connect', 'lose') for o in outs):
                # (after an operator stop / start cycle this is also what C13 promises: the session the operator started is
                # not undone by leftovers of the one he stopped)
                for pr in ('C10', 'C12') + (('C13',) if any(e.get('k') == 'stop' for e in self.trace) else ()):
                    self.fail(pr, 'the loss of old connection %d changed the session on the tracked connection %d: %s -> %s, outputs %r' % (
                        ev['c'], prev['proto'], prev['state'], obs['state'], [o[:2] for o in outs]), 'stale-connection-loss')
        # ---------------- C10: nothing escapes, nothing hangs
        if obs.get('hang'):
            self.fail('C10', 'handling of an event did not return (CPU budget exceeded)', 'hang')
        if obs.get('escaped'):
            self.fail('C10', 'an exception escaped from the event handler: %s' % obs['escaped'], 'escape')
        if k == 'chunk':
            if sim.world.connectors[ev['c']].state in ('connected', 'closing') or True:
                self.streams[ev['c']] = self.streams.get(ev['c'], b'') + bytes.fromhex(ev['hex'])
            allfr = frames_of(self.streams[ev['c']])
            total = len(allfr)
            nframes = total - self.nframes.get(ev['c'], 0) + 1     # +1: the frame that ends the stream with an error
            # C18 bookkeeping: frames delivered while the connection was open are received messages.  When the
            # connection is closed while handling this chunk, the frame that caused it (the first new one at least) was
            # received, the ones behind it may not have been looked at.
            if ev['c'] < len(prev['conns']) and prev['conns'][ev['c']] == 'connected':
                newfr = allfr[self.nframes.get(ev['c'], 0):]
                still = obs['conns'][ev['c']] == 'connected'
                lo = self.recv_lo.setdefault(ev['c'], {})
                hi = self.recv_hi.setdefault(ev['c'], {})
                for i, (t, ln, body) in enumerate(newfr):
                    n = STAT_KEY.get(t)
                    if n is None:
                        continue
                    hi[n] = hi.get(n, 0) + 1
                    if ln >= MINLEN[t] and (still or i == 0):
                        lo[n] = lo.get(n, 0) + 1
            self.nframes[ev['c']] = total
            reports = [o for o in outs if o[0] == 'handler' and o[1] in ('update', 'update_error', 'open', 'keepalive',
                                                                      'notification', 'route_refresh')]
            if len(reports) > nframes:
                self.fail('C10', 'more reports to the application than messages received', 'multi-report')
            # a message that could not be decoded must not change how the following ones are handled: a KEEPALIVE
            # that arrives aligned on a frame boundary of an open session is always reported
            sofar = self.streams[ev['c']]
            b = bytes.fromhex(ev['hex'])
            before = sofar[:len(sofar) - len(b)]
            fb = frames_of(before)
            if (b == MARK + b'\x00\x13\x04' and sum(ln for _, ln, _ in fb) == len(before)
                    and prev['state'] in ('OPENCONFIRM', 'ESTABLISHED') and ev['c'] == prev['proto']
                    and prev['conns'][ev['c']] == 'connected'):
                if not any(o[0] == 'handler' and o[1] == 'keepalive' for o in outs):
                    self.fail('C10', 'a KEEPALIVE following earlier (possibly malformed) messages was not processed',
                              'stuck-after-bad-message')
            if prev['state'] == 'ESTABLISHED':
                fr = frames_of(self.streams[ev['c']])
                new = frames_of(bytes.fromhex(ev['hex']))
                if new and all(t == 2 for t, _, _ in new) and len(b''.join(MARK + struct.pack('!HB', l, t) + b for t, l, b in new)) == len(bytes.fromhex(ev['hex'])) \
                        and ev['c'] == prev['proto'] and not any(o[0] == 'unmodelled' for o in outs):
                    if obs['state'] != 'ESTABLISHED':
                        self.fail('C10', 'an UPDATE tore down an Established session', 'update-teardown')
        # ---------------- C12: at most one connection or attempt
        live_prev = sum(1 for p in prev['conns'] if p in ('connecting', 'connected'))
        live = sum(1 for p in obs['conns'] if p in ('connecting', 'connected'))
        if live > 1 and live > live_prev:
            pending_older = any(p == 'connecting' for p in prev['conns'])
            if k == 'fire' and ev.get('t') == 'retry' and pending_older:
                key = 'KF-retry-fires-while-attempt-pending'
            elif k == 'start' and pending_older:
                key = 'KF-start-while-attempt-pending'
            elif ((k == 'fire' and ev.get('t') == 'idlehold') or k == 'boot') and pending_older:
                # automatic start (idle-hold expiry, or the agent's deferred boot call) while an attempt is pending
                key = 'KF-idlehold-fires-while-attempt-pending'
            else:
                key = 'other:%s' % k
            self.fail('C12', 'a second connection / attempt was started while one is live', key)
            self.multi = True
        for o in outs:
            if o[0] == 'write' and o[1] != obs['proto']:
                self.fail('C12', 'a message was written to a connection the state machine does not track', 'write-untracked')
        # ---------------- C13: operator stop is final until operator start
        if k == 'stop':
            cease = [o for o in outs if o[0] == 'write' and bytes.fromhex(o[2])[18:20] == b'\x03\x06']
            ws = [o for o in outs if o[0] == 'write']
            if prev['state'] == 'ESTABLISHED':
                if len(cease) != 1 or len(ws) != 1 or ['lose', prev['proto']] not in outs:
                    self.fail('C13', 'manual stop from Established did not send exactly Cease and close', 'stop-reaction')
            elif ws:
                self.fail('C13', 'manual stop outside Established wrote a message', 'stop-reaction')
            if obs['state'] != 'IDLE' or obs['timers']:
                self.fail('C13', 'manual stop did not end in Idle with all timers cancelled', 'stop-state')
            self.stopped = True
            self.conn_before_stop = set(i for i, p in enumerate(obs['conns']) if p in ('connecting', 'connected'))
        elif k == 'start':
            if self.stopped:
                self.was_stopped_then_started = True
                if not any(o[0] == 'connect' for o in outs) or obs['state'] != 'CONNECT':
                    self.fail('C13', 'manual start from the stopped state did not begin connecting', 'start-reaction')
            elif prev['state'] == 'ESTABLISHED':
                if any(o[0] in ('write', 'connect', 'lose') for o in outs) or obs['state'] != 'ESTABLISHED':
                    self.fail('C13', 'manual start changed something while a session was up', 'start-while-up')
            self.stopped = False
        elif self.stopped:
            noisy = [o for o in outs if o[0] in ('write', 'connect')]
            if noisy:
                if k == 'connok' and ev['c'] in self.conn_before_stop:
                    key = 'KF-pending-attempt-adopted-after-stop'
                elif k in ('chunk', 'fire') and any(i in self.conn_before_stop for i in [obs['proto']]):
                    key = 'KF-pending-attempt-adopted-after-stop'
                else:
                    key = 'other:%s' % k
                self.fail('C13', 'after manual stop the agent sent a message or started a connection', key)
                self.multi = True
        # ---------------- C18: statistics equal what crossed the wire
        if obs['stats'] is not None and obs['proto'] is not None:
            pc = sim.world.connectors[obs['proto']]
            sent = {}
            for wbytes in pc.written:
                sent[STAT_KEY.get(wbytes[18], '?')] = sent.get(STAT_KEY.get(wbytes[18], '?'), 0) + 1
            for name in ('Opens', 'Notifications', 'Updates', 'Keepalives', 'RouteRefresh'):
                if obs['stats']['send'].get(name, 0) != sent.get(name, 0):
                    self.fail('C18', 'sent counter %s=%d but %d such messages were written' % (
                        name, obs['stats']['send'].get(name, 0), sent.get(name, 0)), 'sent-counter')
                    break
            lo, hi = self.recv_lo.get(obs['proto'], {}), self.recv_hi.get(obs['proto'], {})
            for name in ('Opens', 'Notifications', 'Updates', 'Keepalives', 'RouteRefresh'):
                v = obs['stats']['receive'].get(name, 0)
                if not (lo.get(name, 0) <= v <= hi.get(name, 0)):
                    if not any(o[0] == 'unmodelled' for o in outs):
                        self.fail('C18', 'received counter %s=%d but %d..%d such frames were delivered' % (
                            name, v, lo.get(name, 0), hi.get(name, 0)), 'recv-counter')
                    break
        # ---------------- C05: every OPEN we write depends on the configuration only
        for o in outs:
            if o[0] == 'write' and bytes.fromhex(o[2])[18] == 1:
                po = parse_open_wire(bytes.fromhex(o[2]))
                self.opens_seen += 1
                want_field = self.cfg['local_as'] if self.cfg['local_as'] <= 65535 else 23456
                if po['version'] != 4 or po['asn'] != self.cfg['local_as'] or po['hold'] != self.cfg['hold_time'] \
                        or po['my_as_field'] != want_field:
                    self.fail('C05', 'our OPEN does not carry version 4 / configured AS (My-AS field %d expected) / configured '
                                     'hold time: %r' % (want_field, po), 'open-fields')
                # ... and only capabilities from the configured set (read off the configuration independently of Open.construct)
                caps_cfg = self.cfg.get('caps') or {}
                allowed = set()
                if caps_cfg.get('afi_safi') is not None:
                    allowed.add(1)
                if caps_cfg.get('route_refresh'):
                    allowed.add(2)
                if caps_cfg.get('cisco_route_refresh'):
                    allowed.add(128)
                if caps_cfg.get('enhanced_route_refresh'):
                    allowed.add(70)
                if caps_cfg.get('four_bytes_as') or self.cfg['local_as'] > 65535:
                    allowed.add(65)
                if caps_cfg.get('add_path'):
                    allowed.add(69)
                if caps_cfg.get('ext_nexthop') is not None:
                    allowed.add(5)
                if caps_cfg.get('graceful_restart'):
                    allowed.add(64)
                if caps_cfg.get('cisco_multi_session'):
                    allowed.add(131)
                extra = sorted(set(c for c, _ in po['caps']) - allowed)
                if extra:
                    self.fail('C05', 'our OPEN advertises capabilities %r that the configuration does not switch on (%r)' % (extra, caps_cfg),
                              'open-unconfigured-capability')
                if self.first_open is None:
                    self.first_open = po
                elif po != self.first_open:
                    a, b = set(map(tuple, self.first_open['caps'])), set(map(tuple, po['caps']))
                    same_rest = all(po[x] == self.first_open[x] for x in ('version', 'asn', 'hold', 'id'))
                    key = 'KF-capability-leak' if (same_rest and b < a) else 'open-differs'
                    self.fail('C05', 'the OPEN of a later session differs from the first one: %r vs %r' % (self.first_open, po), key)
                self.t_connect = obs['now']
                self.H = None
        # ---------------- C03: timers keep the negotiated contract
        for o in outs:
            if o[0] == 'write' and bytes.fromhex(o[2])[18] == 4 and o[1] == obs['proto']:
                self.last_ka_sent = obs['now']
            elif o[0] == 'write' and bytes.fromhex(o[2])[18] == 1:
                self.last_ka_sent = None
        if k == 'chunk' and ev['c'] == prev['proto']:
            for t, ln, body in frames_of(bytes.fromhex(ev['hex'])):
                pass
        st = obs['state']
        if any(o[0] == 'handler' and o[1] == 'open' for o in outs) and st == 'OPENCONFIRM':
            for o in outs:
                if o[0] == 'handler' and o[1] == 'open' and o[3]:
                    self.H = min(self.cfg['hold_time'], o[3]['hold_time'])
                    self.last_arrival = obs['now']
        if st == 'ESTABLISHED' and k == 'chunk' and any(o[0] == 'handler' and o[1] in ('keepalive', 'update', 'update_error') for o in outs):
            self.last_arrival = obs['now']
        if st == 'ESTABLISHED' and k == 'chunk' and ev['c'] == obs['proto'] and not self.pending.get(ev['c']):
            # independent of what the agent reports: a chunk of whole frames that contains a KEEPALIVE or an UPDATE (any
            # UPDATE, an End-of-RIB marker included) is an arrival that restarts the hold timer (RFC 4271 8.2.2, events 26/27)
            raw = bytes.fromhex(ev['hex'])
            fr = frames_of(raw)
            if fr and sum(ln for _, ln, _ in fr) == len(raw) and any((t == 4 and ln == 19) or (t == 2 and upd_in_range(body_)) for t, ln, body_ in fr):
                self.last_arrival = obs['now']
        if st in ('OPENCONFIRM', 'ESTABLISHED') and self.H is not None and not any(o[0] == 'unmodelled' for o in outs):
            tm = obs['timers']
            if self.H > 0:
                ka = tm.get('keepalive')
                if not ka or min(ka) > obs['now'] + self.H:
                    self.fail('C03', 'no KEEPALIVE is scheduled within H/3 (H=%d): timers %r at %d' % (self.H, tm, obs['now']), 'keepalive-schedule')
                elif self.last_ka_sent is not None and min(ka) > self.last_ka_sent + self.H:
                    # "a KEEPALIVE at least every H/3 seconds": the next one is due no later than H/3 after the last one written
                    self.fail('C03', 'the next KEEPALIVE is scheduled at %d, more than H/3 (H=%d) after the last one the agent wrote (at %d)'
                              % (min(ka), self.H, self.last_ka_sent), 'keepalive-gap')
                hd = tm.get('hold')
                if not hd or hd != [self.last_arrival + 3 * self.H]:
                    self.fail('C03', 'hold deadline %r is not last arrival %r + H (H=%d)' % (hd, self.last_arrival, self.H), 'hold-deadline')
            else:
                if tm.get('hold') or tm.get('keepalive'):
                    self.fail('C03', 'hold time 0 but hold/keepalive timers are armed: %r' % (tm,), 'hold-zero')
        if st == 'OPENSENT' and self.t_connect is not None:
            if obs['timers'].get('hold') != [self.t_connect + 720]:
                self.fail('C03', 'OpenSent without the 4-minute hold limit: %r' % (obs['timers'],), 'large-hold')
                if not obs['timers'].get('hold'):
                    # C12: "every connection it opened is eventually closed by it or by the peer": with no hold timer a
                    # connection on which the peer stays silent is never closed
                    self.fail('C12', 'a connection is open in OpenSent with no hold timer running: should the peer stay silent it '
                                     'is never closed (timers %r)' % (obs['timers'],), 'never-closed')
            elif obs['timers'].get('retry'):
                # "while waiting for the peer's OPEN the limit is the fixed 4-minute large hold time": the one other timer
                # whose expiry ends the wait (FSM error in OpenSent) is not running (RFC 4271 8.2.2: the ConnectRetryTimer
                # is stopped when TCP comes up).  A left-over keepalive / idle-hold timer only clears itself in OpenSent.
                self.fail('C03', 'in OpenSent the connect-retry timer is running next to the large hold timer: %r' % (obs['timers'],),
                          'opensent-timers')
        if k == 'fire' and ev['t'] == 'hold' and prev['state'] in ('OPENSENT', 'OPENCONFIRM', 'ESTABLISHED'):
            ws = [o for o in outs if o[0] == 'write']
            if len(ws) != 1 or bytes.fromhex(ws[0][2])[18:21] != b'\x03\x04\x00' or obs['state'] != 'IDLE' or not any(o[0] == 'lose' for o in outs):
                self.fail('C03', 'hold timer expiry was not answered with NOTIFICATION(4,0), close, Idle', 'hold-expiry')
        if k == 'fire' and ev['t'] == 'keepalive' and prev['state'] in ('OPENCONFIRM', 'ESTABLISHED'):
            ws = [o for o in outs if o[0] == 'write']
            if len(ws) != 1 or bytes.fromhex(ws[0][2])[18] != 4:
                self.fail('C03', 'keepalive timer expiry did not send a KEEPALIVE', 'keepalive-expiry')
        if k == 'fire' and ev['t'] == 'retry' and prev['state'] == 'IDLE':
            # RFC 4271 8.2.2, Idle: "any other event is ignored" - an expiry of the ConnectRetryTimer that a lost OpenSent
            # connection left running (FSM.connection_failed restarts it, the peering then resets the state to Idle) clears
            # itself and changes nothing else: state, other timers, connections, and nothing is written
            rest_before = {n: v for n, v in prev['timers'].items() if n != 'retry'}
            rest_after = {n: v for n, v in obs['timers'].items() if n != 'retry'}
            if obs['state'] != 'IDLE' or rest_before != rest_after or obs['conns'] != prev['conns'] or \
                    any(o[0] in ('write', 'lose', 'connect') for o in outs):
                self.fail('C01', 'a ConnectRetryTimer expiry in Idle was not ignored: state %s, timers %r -> %r' % (
                    obs['state'], prev['timers'], obs['timers']), 'retry-in-idle')
        if k == 'fire' and ev['t'] in ('hold', 'keepalive') and prev['state'] in ('IDLE', 'CONNECT', 'ACTIVE'):
            # RFC 4271 8.2.2: the HoldTimer and the KeepaliveTimer run in OpenSent / OpenConfirm / Established only; one that
            # is left over from a session that has ended must not act on the state machine of the next attempt
            if obs['state'] != prev['state'] or obs['conns'] != prev['conns'] or any(o[0] in ('write', 'lose', 'connect') for o in outs):
                self.fail('C01', 'a %s timer left over from an ended session expired in state %s and moved the state machine to %s '
                                 '(connections %r -> %r)' % (ev['t'], prev['state'], obs['state'], prev['conns'], obs['conns']),
                          'stale-timer-acts')
        if st == 'IDLE':
            self.H = None
        self.check_rfc(ev, prev, obs, sim)
        self.prev = {'state': obs['state'], 'conns': list(obs['conns']), 'proto': obs['proto'], 'timers': obs['timers'],
                     'now': obs['now']}

    # ---------------- C01: the RFC 4271 section 8 table for the active-only profile (DESIGN Appendix A)
    def classify_frame(self, b):
        """class of a chunk that is exactly one frame; None when it is not classifiable"""
        if len(b) < 19:
            return None
        if b[:16] != MARK:
            return ('hdr', 1)
        ln = struct.unpack('!H', b[16:18])[0]
        if ln < 19 or ln > 4096:
            return ('hdr', 2)
        if len(b) != ln:
            return None
        ty, body = b[18], b[19:]
        if ty == 1:
            if len(body) < 10:
                return ('hdr', 2)
            ver, asn, hold, bid, ol = struct.unpack('!BHHIB', body[:10])
            if ver != 4:
                return ('openerr', 1)
            # walk the optional parameters with an independent reader
            rest = body[10:] if ol else b''
            while rest:
                if len(rest) < 2:
                    return None
                pt, pl = rest[0], rest[1]
                if pt != 2:
                    return ('openerr', 4)
                pv, rest = rest[2:2 + pl], rest[2 + pl:]
                if len(pv) != pl:
                    return None
                while pv:
                    if len(pv) < 2 or len(pv) < 2 + pv[1]:
                        return None
                    cc, cl = pv[0], pv[1]
                    cv, pv = pv[2:2 + cl], pv[2 + cl:]
                    if cc == 65:
                        if cl != 4:
                            return None
                        asn = struct.unpack('!I', cv)[0]
                    elif cc in (1,) and cl != 4:
                        return None
                    elif cc == 69 and cl % 4 != 0:
                        pass            # `while len(v) % 4 == 0 and v`: a value of another length lists nothing
                    elif cc == 5 and cl % 6 != 0:
                        return None     # truncated extended-next-hop tuple: malformed capability, not classified
                    # ADD-PATH (69), extended next hop (5) and LLGR (71) with whole tuples: whatever families and values
                    # they name, known to the agent or not, the capability does not invalidate the OPEN (RFC 5492)
            if asn == 0 or asn != self.cfg['remote_as']:
                return ('openerr', 2)
            if hold in (1, 2):
                return ('openerr', 6)
            return ('open', hold)
        if ty == 2:
            if len(body) < 4:
                return None
            wl = struct.unpack('!H', body[:2])[0]
            if wl + 4 > len(body):
                return None
            al = struct.unpack('!H', body[2 + wl:4 + wl])[0]
            if wl + 4 + al > len(body):
                return None     # a length field out of range: Update.parse raises, the message is skipped (C11's exclusion)
            return ('update',)
        if ty == 3:
            if len(body) < 2:
                return None
            return ('notification',)
        if ty == 4:
            return ('keepalive',) if not body else ('hdr', 2)
        if ty in (5, 128):
            return ('rr',) if len(body) == 4 else None
        return ('hdr', 3)

    def check_malformed_reported(self, ev, b, outs):
        """C10: "each well-framed message yields at most one report (the decoded message, or a malformed-UPDATE report carrying
        the raw bytes)" - an UPDATE whose ORIGIN or NEXT_HOP has length 0, or whose last attribute header is cut short, is not
        a decoded message: it must not be handed to the application as one."""
        from gen import session_gen as SG
        bad = getattr(self, '_bad_updates', None)
        if bad is None:
            pool = dict(SG.message_pool(self.cfg['remote_as']))
            bad = self._bad_updates = {pool[k]: k for k in ('update_origin_len0', 'update_nexthop_len0', 'update_attr_header_cut', 'update_aggregator8_aspath2')}
        if b not in bad:
            return
        if any(o[0] == 'handler' and o[1] == 'update' for o in outs):
            self.fail('C10', 'a malformed UPDATE (%s) was handed to the application as a decoded message' % bad[b], 'malformed-as-good')
            if bad[b] == 'update_aggregator8_aspath2':
                self.fail('C05', 'an AGGREGATOR with a 4-octet AS number was accepted next to an AS_PATH with 2-octet numbers: the AS '
                                 'width of a session is one (4 octets iff both OPENs carried capability 65)', 'as-width')

    def check_as_width(self, ev, b, outs, sim):
        """C05: AS numbers in AS_PATH are 4 octets wide on this connection iff both OPENs carried capability 65.
        Decided on the two probe UPDATEs (one AS_SEQUENCE [65001]) that are well-formed in exactly one width."""
        from gen import session_gen as SG
        probes = getattr(self, '_probes', None)
        if probes is None:
            pool = dict(SG.message_pool(self.cfg['remote_as']))
            probes = self._probes = {pool['update_aspath4']: True, pool['update_aspath2']: False, pool['update_as4path_first']: False,
                                      pool['update_aggregator4']: True, pool['update_aggregator2']: False}
        if b not in probes or any(o[0] == 'unmodelled' for o in outs):
            return
        c = ev['c']
        ours = [w for w in sim.world.connectors[c].written if w[18] == 1]
        stream = self.streams.get(c, b'')
        theirs = [body for t, ln, body in frames_of(stream) if t == 1]
        if not ours or not theirs:
            return
        mine = any(cc == 65 for cc, _ in parse_open_wire(ours[-1])['caps'])
        peer = any(cc == 65 for cc, _ in parse_open_wire(MARK + b'\x00\x00\x01' + theirs[0])['caps'])
        both = mine and peer
        ok = any(o[0] == 'handler' and o[1] == 'update' for o in outs)
        err = any(o[0] == 'handler' and o[1] == 'update_error' for o in outs)
        want_ok = (probes[b] == both)
        if (want_ok and not ok) or (not want_ok and not err):
            self.fail('C05', 'AS_PATH with %d-octet AS numbers was %s although capability 65 was advertised by us=%s, by the peer=%s '
                             '(4-octet AS numbers are used iff both advertised it)' % (
                                 4 if probes[b] else 2, 'accepted' if ok else ('reported malformed' if err else 'not reported'), mine, peer),
                      'as-width')

    def check_rfc(self, ev, prev, obs, sim):
        k = ev['k']
        ps, ns = prev['state'], obs['state']
        outs = obs['outs']
        if any(o[0] == 'unmodelled' for o in outs):
            return
        ws = [bytes.fromhex(o[2]) for o in outs if o[0] == 'write']
        notifs = [(w[19], w[20]) for w in ws if w[18] == 3]
        kas = [w for w in ws if w[18] == 4]
        opens = [w for w in ws if w[18] == 1]
        closed = any(o[0] == 'lose' for o in outs)

        def bad(what, cls):
            self.fail('C01', '%s: state %s, event %s -> state %s, NOTIFICATIONs %r, KEEPALIVEs %d, OPENs %d, close %s' % (
                what, ps, cls, ns, notifs, len(kas), len(opens), closed), 'rfc:%s:%s' % (ps, cls if isinstance(cls, str) else cls[0]))

        def expect_error(cls, code, sub):
            if ns != 'IDLE' or notifs != [(code, sub)] or not closed or kas or opens:
                bad('protocol error not answered with NOTIFICATION(%d,%d), close, Idle' % (code, sub), cls)

        def expect_unchanged(cls):
            if ns != ps or ws or closed or any(o[0] == 'connect' for o in outs):
                bad('an event the RFC says to ignore changed something', cls)

        def restarts_hold(what):
            # RFC 4271 8.2.2: KeepAliveMsg in OpenConfirm / Established and UpdateMsg in Established restart the HoldTimer
            # when the negotiated hold time is non-zero
            if self.H and ns == 'ESTABLISHED' and obs['timers'].get('hold') != [obs['now'] + 3 * self.H]:
                bad('%s did not restart the hold timer (negotiated %d): timers %r at %d' % (what, self.H, obs['timers'], obs['now']),
                    'restart-hold')

        insess = ps in ('OPENSENT', 'OPENCONFIRM', 'ESTABLISHED')
        if k == 'fire':
            t = ev['t']
            if t == 'hold' and insess:
                expect_error('hold-expires', 4, 0)
            elif t == 'retry' and insess:
                expect_error('retry-expires', 5, 0)
            elif t == 'keepalive' and ps in ('OPENCONFIRM', 'ESTABLISHED'):
                if ns != ps or len(kas) != 1 or notifs or closed:
                    bad('keepalive timer expiry must send exactly one KEEPALIVE and keep the state', 'keepalive-expires')
            elif ps == 'IDLE' and t in ('hold', 'retry', 'keepalive'):
                expect_unchanged(t + '-expires')
            elif ps == 'IDLE' and t == 'idlehold' and not self.stopped:
                if ns != 'CONNECT' or not any(o[0] == 'connect' for o in outs):
                    bad('idle-hold expiry must start connecting', 'idlehold-expires')
        elif k == 'connok' and ps == 'CONNECT':
            if ns != 'OPENSENT' or len(opens) != 1 or notifs:
                bad('TCP established must send our OPEN and enter OpenSent', 'tcp-ok')
        elif k == 'connfail' and ps == 'CONNECT':
            if ns != 'IDLE' or ws:
                bad('TCP failure must lead to Idle silently', 'tcp-fails')
        elif k == 'lost' and insess and ev['c'] == prev['proto'] and prev['conns'][ev['c']] == 'connected':
            if ns != 'IDLE' or ws:
                bad('loss of the connection must lead to Idle silently', 'tcp-fails')
        elif k == 'start' and insess:
            expect_unchanged('manual-start')
        elif k == 'chunk' and ev['c'] == prev['proto'] and insess:
            b = bytes.fromhex(ev['hex'])
            pending = self.pending.get(ev['c'], b'')
            cls = self.classify_frame(b) if not pending else None
            # keep track of unconsumed partial data so that only whole, aligned frames are classified
            fr = frames_of(pending + b)
            used = sum(ln for _, ln, _ in fr)
            self.pending[ev['c']] = (pending + b)[used:] if (cls is None) else b''
            if cls is None:
                return
            c0 = cls[0]
            if c0 == 'hdr':
                expect_error(cls, 1, cls[1])
            elif c0 == 'openerr':
                expect_error(cls, 2, cls[1])
                if ps == 'OPENSENT' and (ns != 'IDLE' or notifs != [(2, cls[1])]):
                    self.fail('C05', 'an unacceptable peer OPEN (sub-code %d) was not rejected with NOTIFICATION(2,%d): state %s, sent %r' % (
                        cls[1], cls[1], ns, notifs), 'accept-iff')
            elif c0 == 'open':
                if ps == 'OPENSENT':
                    if ns != 'OPENCONFIRM' or len(kas) != 1 or notifs or closed:
                        bad('a valid OPEN in OpenSent must be answered with KEEPALIVE and lead to OpenConfirm', cls)
                        self.fail('C05', 'an acceptable peer OPEN (version 4, configured AS, hold %d) was not accepted: state %s, sent %r' % (
                            cls[1], ns, notifs), 'accept-iff')
                    else:
                        h = min(self.cfg['hold_time'], cls[1])
                        tm = obs['timers']
                        want_hold = [obs['now'] + 3 * h] if h > 0 else None
                        want_ka = [obs['now'] + h] if h > 0 else None
                        if tm.get('hold') != want_hold or tm.get('keepalive') != want_ka:
                            self.fail('C05', 'session hold time is not min(configured %d, proposed %d): timers %r at %d' % (
                                self.cfg['hold_time'], cls[1], tm, obs['now']), 'hold-min')
                            # RFC 4271 8.2.2 (OpenSent, event 19): "sets the HoldTimer according to the negotiated value",
                            # KeepaliveTimer = a third of it
                            bad('after accepting the OPEN the hold / keepalive timers are not the negotiated ones (%r at %d, negotiated %d)'
                                % (tm, obs['now'], h), 'negotiated-timers')
                        if h == 0 and (tm.get('hold') or tm.get('keepalive')):
                            # RFC 4271 8.2.2 (OpenSent, event 19): with a negotiated hold time of zero the HoldTimer and
                            # the KeepaliveTimer are not started
                            bad('negotiated hold time 0 but a hold / keepalive timer is running (%r)' % (tm,), 'hold0-timers')
                else:
                    expect_error(cls, 5, 0)
            elif c0 == 'keepalive':
                if ps == 'OPENCONFIRM':
                    if ns != 'ESTABLISHED' or ws or closed:
                        bad('KEEPALIVE in OpenConfirm must lead to Established', cls)
                    else:
                        restarts_hold('KEEPALIVE in OpenConfirm')
                elif ps == 'ESTABLISHED':
                    expect_unchanged('keepalive')
                    restarts_hold('KEEPALIVE in Established')
                else:
                    expect_error(cls, 5, 0)
            elif c0 == 'update':
                if ps == 'ESTABLISHED':
                    expect_unchanged('update')
                    restarts_hold('UPDATE in Established')
                    self.check_as_width(ev, b, outs, sim)
                    self.check_malformed_reported(ev, b, outs)
                else:
                    expect_error(cls, 5, 0)
            elif c0 == 'notification':
                if ns != 'IDLE' or ws or not closed:
                    bad('a NOTIFICATION must end the session without an answer', cls)
            elif c0 == 'rr':
                expect_unchanged('route-refresh')
        if k == 'connfail' and ps == 'CONNECT' and ns == 'IDLE' and not self.stopped:
            # a refused / timed-out attempt: Idle with the damped automatic restart pending (Appendix A)
            if not obs['timers'].get('idlehold') and not any(p in ('closing', 'connecting') for p in obs['conns']):
                bad('a failed connection attempt left the agent Idle without a restart pending', 'no-restart-after-connfail')
        if ns == 'IDLE' and insess and not self.stopped and k in ('lost', 'chunk', 'fire'):
            # "-> Idle" always includes the damped automatic restart being pending (Appendix A)
            if not obs['timers'].get('idlehold') and not any(p == 'closing' for p in obs['conns']):
                bad('the session ended in Idle without a restart pending', 'no-restart')
        if k in ('chunk', 'lost') and not self.stopped and self.booted and not any(o[0] == 'unmodelled' for o in outs):
            # C10: "after any input the agent is either still in session or has closed cleanly with its reconnect scheduled"
            tm = obs['timers']
            pr = obs['proto']
            on_live = pr is not None and pr < len(obs['conns']) and obs['conns'][pr] == 'connected'
            in_session = ns in ('OPENSENT', 'OPENCONFIRM', 'ESTABLISHED') and on_live
            scheduled = (ns == 'IDLE' and (tm.get('idlehold') or any(p == 'closing' for p in obs['conns']))) or \
                        (ns in ('CONNECT', 'ACTIVE') and (tm.get('retry') or on_live or any(p == 'connecting' for p in obs['conns'])))
            if not in_session and not scheduled:
                self.fail('C10', 'after peer input / connection loss the agent is neither in session nor has a reconnect scheduled: '
                                 'state %s, timers %r, connections %r' % (ns, tm, obs['conns']), 'no-reconnect-scheduled')
                if self.was_stopped_then_started:
                    # C13: "Manual start from the stopped state begins connecting at once and automatic recovery is in force again"
                    self.fail('C13', 'after an operator stop and start, automatic recovery is not in force again: the session / attempt '
                                     'ended (state %s) and no reconnection is scheduled (timers %r, connections %r)' % (ns, tm, obs['conns']),
                              'no-recovery-after-start')
        if k == 'connfail' and not self.stopped and self.was_stopped_then_started:
            tm = obs['timers']
            if ns == 'IDLE' and not tm.get('idlehold') and not any(p in ('closing', 'connecting') for p in obs['conns']):
                self.fail('C13', 'after an operator stop and start, a refused / timed-out attempt leaves the agent Idle with no reconnection '
                                 'scheduled (timers %r)' % (tm,), 'no-recovery-after-start')
        if ns == 'ESTABLISHED' and ps != 'ESTABLISHED':
            # entered only by a KEEPALIVE on the current connection after a valid OPEN on it
            if not (k == 'chunk' and ev['c'] == obs['proto']):
                bad('Established entered by something else than a message on the tracked connection', 'enter-established')
            else:
                stream = self.streams.get(ev['c'], b'')
                types = [t for t, _, _ in frames_of(stream)]
                if 1 not in types or 4 not in types[types.index(1):]:
                    bad('Established entered without OPEN then KEEPALIVE from the peer on this connection', 'enter-established')
                wr = [w[18] for w in sim.world.connectors[ev['c']].written]
                if 1 not in wr or 4 not in wr:
                    bad('Established entered without our own OPEN and KEEPALIVE on this connection', 'enter-established')
