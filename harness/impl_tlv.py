"""The real TLV decoders of the tree under verification (nlri/linkstate.py, linkstate/**, sr/**) behind the
interface the `tlv` suite needs:

* for every instance of the parametric loop model (lean/Yabgp/Model/Tlv.lean) the REAL container decoder and the
  REAL per-TLV decoder, so that the suite can check "the real loop is the parametric loop": model SPLIT, real
  per-TLV decoder mapped over the split, compared with what the real container returns (`expected` / `observed`);
* the Lean side: a line-protocol process for the "tlv.*" ops - the shared native driver when it already answers
  them, else `lake env lean --run Yabgp/Driver/TlvMain.lean`;
* entry points for the C11 (termination / never raises out of Update.parse) and C15 (composition) oracles.

Every real call runs under lib.base.with_budget; a hang is an outcome of its own ({'hang': True}).
"""
import binascii
import json
import os
import struct
import subprocess
import threading

from lib.base import setup_impl_path, with_budget, LEAN_DIR, jdump

setup_impl_path()

import logging  # noqa: E402
logging.disable(logging.CRITICAL)

from yabgp.message.update import Update  # noqa: E402
from yabgp.common import exception as excep  # noqa: E402
from yabgp.message.attribute.linkstate.linkstate import LinkState  # noqa: E402
from yabgp.message.attribute.sr.bgpprefixsid import BGPPrefixSID  # noqa: E402
from yabgp.message.attribute.nlri.linkstate import BGPLS  # noqa: E402

BUDGET = 2.0
MAX_HANGS = 3          # per entry point: each hang costs a whole CPU budget, a few witnesses are enough
MAX_TOTAL_HANGS = 10   # ... and over the whole run
HANGS = {}


def hung(key):
    return HANGS.get(key, 0) >= MAX_HANGS or sum(HANGS.values()) >= MAX_TOTAL_HANGS


def note_hang(key):
    HANGS[key] = HANGS.get(key, 0) + 1


# ------------------------------------------------------------------------------------------------ Lean side
class TlvDriver(object):
    """`tlv.*` ops: the shared driver when it knows them, else the standalone interpreter process"""

    def __init__(self, shared=None):
        self.shared = None
        self.p = None
        if shared is not None:
            try:
                r = shared.call({'op': 'tlv.instances'})
                if isinstance(r, dict) and 'instances' in r:
                    self.shared = shared
            except Exception:
                self.shared = None
        if self.shared is None:
            self.p = subprocess.Popen(['lake', 'env', 'lean', '--run', 'Yabgp/Driver/TlvMain.lean'], cwd=LEAN_DIR,
                                      stdin=subprocess.PIPE, stdout=subprocess.PIPE, text=True, bufsize=1 << 16)

    def call(self, req):
        if self.shared is not None:
            return self.shared.call(req)
        self.p.stdin.write(json.dumps(req, separators=(',', ':')) + '\n')
        self.p.stdin.flush()
        line = self.p.stdout.readline()
        if not line:
            raise RuntimeError('tlv driver died on %r' % (req,))
        return json.loads(line)

    def batch(self, reqs):
        reqs = list(reqs)
        if self.shared is not None:
            return self.shared.batch(reqs)

        def writer():
            w = self.p.stdin
            for r in reqs:
                w.write(json.dumps(r, separators=(',', ':')) + '\n')
            w.flush()
        t = threading.Thread(target=writer)
        t.start()
        out = []
        for _ in reqs:
            line = self.p.stdout.readline()
            if not line:
                raise RuntimeError('tlv driver died in batch')
            out.append(json.loads(line))
        t.join()
        return out

    def close(self):
        if self.p is not None:
            try:
                self.p.stdin.close()
                self.p.wait(timeout=10)
            except Exception:
                self.p.kill()


# ------------------------------------------------------------------------------------------------ canonical values
def hx(b):
    return binascii.b2a_hex(bytes(b)).decode()


def canon(v):
    if isinstance(v, (list, tuple)):
        return [canon(x) for x in v]
    if isinstance(v, (bytes, bytearray)):
        return {'bytes': hx(v)}
    if isinstance(v, dict):
        return {str(k): canon(x) for k, x in v.items()}
    if isinstance(v, bool) or v is None or isinstance(v, (int, str)):
        return v
    if isinstance(v, float):
        return {'float': hx(struct.pack('!d', v))}      # NaN-safe
    if hasattr(v, 'dict') and hasattr(v, 'value'):
        return {'tlv': canon(v.dict())}
    return {'repr': repr(v)}


def outcome(st, v, extract=None):
    """('ok'|'raise'|'hang', value) of with_budget -> canonical outcome"""
    if st == 'hang':
        return {'hang': True}
    if st == 'raise':
        if isinstance(v, excep.UpdateMessageError):
            part = getattr(v, 'sub_results', None)
            return {'upderr': v.sub_error, 'partial': canon(part.value if hasattr(part, 'value') else part),
                    'data': canon(v.data)}
        return {'raise': type(v).__name__}
    return {'ok': canon(extract(v) if extract else v)}


def run(fn, *a):
    return with_budget(BUDGET, fn, *a)


def hdr22(t, ln):
    return struct.pack('!HH', t, ln)


def hdr12(t, ln):
    return struct.pack('!BH', t, ln)


def unknown_dict(t, v):
    return {'type': t, 'value': str(binascii.b2a_hex(v))}


# ------------------------------------------------------------------------------------------------ instances
class Inst(object):
    """one instance of the parametric loop: the real container and the real per-TLV decoder"""
    name = None
    skip = 0
    ctxs = (None,)            # contexts (protocol id / NLRI type) the container is exercised with
    as_dict = False           # elements accumulate into a dict (parse_node_descriptor)
    wraps_body_errors = False  # LinkState.unpack: try/except around the dispatch

    def container(self, data, ctx):
        raise NotImplementedError

    def elements(self, value):
        """the loop's result inside the container's return value"""
        return value

    def head(self, value):
        """the part of the container's return value the loop does not produce"""
        return None

    def item(self, h, v, t, call, data, ctx):
        """REAL per-TLV decoder on one (header, value) pair of the split -> list of 0/1 elements (or a dict)"""
        raise NotImplementedError

    # -- what the real code does
    def observed(self, data, ctx):
        if hung(self.name):
            return {'hang': True, 'skipped': True}
        st, v = run(self.container, bytes(data), ctx)
        if st == 'hang':
            note_hang(self.name)
        if st != 'ok':
            return outcome(st, v)
        return {'ok': canon(self.elements(v)), 'head': canon(self.head(v))}

    # -- what the parametric loop says it does, given the model's split and the real per-TLV decoders
    def expected(self, data, ctx, split):
        data = bytes(data)
        if hung(self.name):
            return {'hang': True, 'skipped': True}
        if self.skip:
            st, v = run(self.container, data[:self.skip], ctx)
            if st != 'ok':
                return outcome(st, v)
            head = self.head(v)
        else:
            head = None
        acc = {} if self.as_dict else []
        for it in split['items']:
            h, val = bytes.fromhex(it['h']), bytes.fromhex(it['v'])
            st, r = run(self.item, h, val, it['t'], it['call'], data, ctx)
            if st == 'hang':
                return {'hang': True}
            if st == 'raise':
                if self.wraps_body_errors:
                    return {'upderr': 1, 'partial': canon(acc), 'data': canon(val)}
                return outcome(st, r)
            if self.as_dict:
                acc.update(r)
            else:
                acc.extend(r)
        if split['stop'] == 'short':
            return {'raise': 'error'}          # struct.error from the header read
        return {'ok': canon(acc), 'head': canon(head)}


class NlriInst(Inst):
    name = 'bgpls.nlri'

    def container(self, data, ctx):
        return BGPLS.parse(data)

    def item(self, h, v, t, call, data, ctx):
        r = BGPLS.parse(h + v)
        if call == 'skip' and r:
            raise AssertionError('model says skipped, code produced an element')
        if call == 'plain' and len(r) != 1:
            raise AssertionError('model says one element, code produced %d' % len(r))
        return r


class NlriDescInst(Inst):
    name = 'bgpls.descriptors'
    skip = 9
    ctxs = (1, 2, 3, 4, 6)      # NLRI type

    def container(self, data, ctx):
        return BGPLS.parse_nlri(data, ctx)

    def elements(self, value):
        return value[2]

    def head(self, value):
        return [value[0], value[1]]

    def item(self, h, v, t, call, data, ctx):
        return BGPLS.parse_nlri(data[:9] + h + v, ctx)[2]


class NodeDescInst(Inst):
    name = 'bgpls.node_descriptor'
    ctxs = (0, 1, 2, 3, 6, 7)   # protocol id
    as_dict = True

    def container(self, data, ctx):
        return BGPLS.parse_node_descriptor(data, ctx)

    def item(self, h, v, t, call, data, ctx):
        return BGPLS.parse_node_descriptor(h + v, ctx)


class MtIdInst(Inst):
    """the stride-2 loop inside descriptor 263 of BGPLS.parse_nlri"""
    name = 'bgpls.mt_id'

    def _wrap(self, data):
        return b'\x01' + b'\x00' * 8 + hdr22(263, len(data)) + data

    def container(self, data, ctx):
        if len(data) > 0xffff:
            data = data[:0xfffe]
        d = BGPLS.parse_nlri(self._wrap(data), 1)[2]
        return d[0]['value']

    def item(self, h, v, t, call, data, ctx):
        return BGPLS.parse_nlri(self._wrap(h), 1)[2][0]['value']


class LsAttrInst(Inst):
    name = 'ls.attr'
    ctxs = (None, 0, 1, 2, 3, 6, 7)
    wraps_body_errors = True

    def container(self, data, ctx):
        return LinkState.unpack(data, ctx)

    def elements(self, value):
        return value.value

    def item(self, h, v, t, call, data, ctx):
        if call == 'pro':
            return [LinkState.registered_tlvs[t].unpack(v, ctx).dict()]
        if call == 'plain':
            return [LinkState.registered_tlvs[t].unpack(v).dict()]
        return [unknown_dict(t, v)]


class LsSubInst(Inst):
    """nested sub-TLV loops of 1106 / 1107 / 1108 / 1162: same registry, always the one-argument call"""
    klass_type = None
    two_arg = False

    def container(self, data, ctx):
        k = LinkState.registered_tlvs[self.klass_type]
        return k.unpack(data, ctx) if self.two_arg else k.unpack(data)

    def elements(self, value):
        return value.value['sub_tlvs']

    def head(self, value):
        return {k: x for k, x in value.value.items() if k != 'sub_tlvs'}

    def item(self, h, v, t, call, data, ctx):
        if call == 'plain':
            return [LinkState.registered_tlvs[t].unpack(v).dict()]
        return [unknown_dict(t, v)]


class EndXInst(LsSubInst):
    name = 'ls.srv6_end_x_sid'
    skip = 22
    klass_type = 1106


class LanEndXIsisInst(LsSubInst):
    name = 'ls.srv6_lan_end_x_sid.isis'
    skip = 28
    klass_type = 1107
    two_arg = True
    ctxs = (1, 2)


class LanEndXOspfInst(LsSubInst):
    name = 'ls.srv6_lan_end_x_sid.ospf'
    skip = 26
    klass_type = 1108
    two_arg = True
    ctxs = (3, 6)


class LocatorInst(LsSubInst):
    name = 'ls.srv6_locator'
    skip = 8
    klass_type = 1162
    two_arg = True
    ctxs = (None, 1, 3)


class SrCapInst(Inst):
    name = 'ls.sr_capabilities'
    skip = 2
    klass_type = 1034

    def container(self, data, ctx):
        return LinkState.registered_tlvs[self.klass_type].unpack(data)

    def elements(self, value):
        return value.value['value']

    def head(self, value):
        return value.value['flag']

    def item(self, h, v, t, call, data, ctx):
        return self.elements(self.container(data[:2] + h + v, ctx))


class SrlbInst(SrCapInst):
    name = 'ls.srlb'
    klass_type = 1036

    def elements(self, value):
        return value.value

    def head(self, value):
        return None


class StrideInst(Inst):
    klass_type = None

    def container(self, data, ctx):
        return LinkState.registered_tlvs[self.klass_type].unpack(data)

    def elements(self, value):
        return value.value

    def item(self, h, v, t, call, data, ctx):
        return self.container(h, ctx).value


class SrlgInst(StrideInst):
    name = 'ls.srlg'
    klass_type = 1096


class IgpTagInst(StrideInst):
    name = 'ls.igp_route_tag'
    klass_type = 1153


class ExtIgpTagInst(StrideInst):
    name = 'ls.ext_igp_route_tag'
    klass_type = 1154


class NodeMsdInst(StrideInst):
    name = 'ls.node_msd'
    klass_type = 266


class RegInst(Inst):
    """registry-dispatched loops without try/except: BGPPrefixSID / SRv6L3Service / SRv6SIDInformation"""

    def klass(self):
        raise NotImplementedError

    def item(self, h, v, t, call, data, ctx):
        if call == 'plain':
            return [self.klass().registered_tlvs[t].unpack(v)]
        return [unknown_dict(t, v)]


class PrefixSidInst(RegInst):
    name = 'psid.attr'

    def klass(self):
        return BGPPrefixSID

    def container(self, data, ctx):
        return BGPPrefixSID.unpack(data)


class L3ServiceInst(RegInst):
    name = 'psid.srv6_l3_service'
    skip = 1

    def klass(self):
        return BGPPrefixSID.registered_tlvs[5]

    def container(self, data, ctx):
        return self.klass().unpack(data)

    def elements(self, value):
        return value['srv6_l3_service']['srv6_service_sub_tlvs']


class SidInfoInst(RegInst):
    name = 'psid.srv6_sid_information'
    skip = 21

    def klass(self):
        return BGPPrefixSID.registered_tlvs[5].registered_tlvs[1]

    def container(self, data, ctx):
        return self.klass().unpack(data)

    def elements(self, value):
        return value['srv6_sid_information']['srv6_service_data_sub_sub_tlvs']

    def head(self, value):
        return {k: x for k, x in value['srv6_sid_information'].items() if k != 'srv6_service_data_sub_sub_tlvs'}


INSTANCES = [NlriInst(), NlriDescInst(), NodeDescInst(), MtIdInst(), LsAttrInst(), EndXInst(), LanEndXIsisInst(),
             LanEndXOspfInst(), LocatorInst(), SrCapInst(), SrlbInst(), SrlgInst(), IgpTagInst(), ExtIgpTagInst(),
             NodeMsdInst(), PrefixSidInst(), L3ServiceInst(), SidInfoInst()]
BY_NAME = {i.name: i for i in INSTANCES}


# ------------------------------------------------------------------------------------------------ whole UPDATE
def attr_blob(flag, code, val):
    if len(val) > 255:
        return bytes([flag | 0x10, code]) + struct.pack('!H', len(val)) + val
    return bytes([flag, code, len(val)]) + val


def upd_body(attrs, wd=b'', nlri=b''):
    return struct.pack('!H', len(wd)) + wd + struct.pack('!H', len(attrs)) + attrs + nlri


def mp_reach_ls(nlri, nexthop=b'\x0a\x00\x00\x01'):
    return struct.pack('!HBB', 16388, 71, len(nexthop)) + nexthop + b'\x00' + nlri


def mp_unreach_ls(nlri):
    return struct.pack('!HB', 16388, 71) + nlri


def node_nlri(proto, asn=65000, ident=0):
    nd = hdr22(512, 4) + struct.pack('!I', asn)
    ln = hdr22(256, len(nd)) + nd
    body = bytes([proto]) + struct.pack('!Q', ident) + ln
    return hdr22(1, len(body)) + body


def update_parse(body, asn4=True):
    """Update.parse on a body -> ('ok', result dict) | ('raise', exc) | ('hang', None)"""
    if hung('Update.parse'):
        return ('hang', 'skipped')
    st, v = run(Update.parse, None, bytes(body), asn4, {})
    if st == 'hang':
        note_hang('Update.parse')
    return st, v


def attr_view(res):
    """canonical view of the decoded attribute dict of an Update.parse result (keys as text, order ignored)"""
    a = res.get('attr')
    return {'attr': canon(a) if isinstance(a, dict) else canon(a), 'sub_error': res.get('sub_error')
            if isinstance(res.get('sub_error'), (int, type(None))) else 'other'}


def split_update_attrs(msg):
    """(type code, value) of every attribute of a whole UPDATE message literal (harvesting only)"""
    out = []
    try:
        body = msg[19:]
        wl = struct.unpack('!H', body[:2])[0]
        al = struct.unpack('!H', body[2 + wl:4 + wl])[0]
        a = body[4 + wl:4 + wl + al]
        while a:
            flags, code = a[0], a[1]
            if flags & 0x10:
                ln = struct.unpack('!H', a[2:4])[0]
                val, a = a[4:4 + ln], a[4 + ln:]
            else:
                ln = a[2]
                val, a = a[3:3 + ln], a[3 + ln:]
            out.append((code, val))
    except Exception:
        pass
    return out


def same(a, b):
    return jdump(a) == jdump(b)
