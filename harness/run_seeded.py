"""Runs the registered quick checks against every seeded defect under /verif/seeded: applies the patch to /repo,
runs the checks of the property it breaks (or the ones given), undoes the patch straight afterwards."""
import json
import os
import subprocess
import sys

VERIF = os.path.dirname(os.path.dirname(os.path.abspath(__file__)))
sys.path.insert(0, os.path.join(VERIF, 'harness'))
import registry  # noqa: E402


def sh(cmd, **kw):
    return subprocess.run(cmd, stdout=subprocess.PIPE, stderr=subprocess.STDOUT, text=True, **kw)


def main():
    only = sys.argv[1:]
    results = {}
    for name in sorted(n for n in os.listdir(os.path.join(VERIF, 'seeded')) if os.path.isdir(os.path.join(VERIF, 'seeded', n))):
        if only and name not in only and name.split('_')[0] not in only:
            continue
        d = os.path.join(VERIF, 'seeded', name)
        meta = json.load(open(os.path.join(d, 'meta.json')))
        props = meta.get('checks') or [meta['property']]
        props = [p for p in props if p in registry.PROPS]
        st = sh(['git', '-C', '/repo', 'status', '--porcelain']).stdout.strip()
        if st:
            print('refusing: /repo is not clean'); sys.exit(2)
        r = sh(['git', '-C', '/repo', 'apply', os.path.join(d, 'patch.diff')])
        if r.returncode != 0:
            results[name] = 'patch does not apply: ' + r.stdout[:200]
            continue
        try:
            out = {}
            for p in props:
                c = sh([os.path.join(VERIF, 'check'), p, '--tier', 'quick'], cwd=VERIF)
                line = [l for l in c.stdout.split('\n') if l.startswith('VIOLATION')]
                out[p] = (c.returncode, line[0] if line else c.stdout.strip().split('\n')[-1][:200])
            results[name] = out
        finally:
            sh(['git', '-C', '/repo', 'checkout', '--', '.'])
        print(name, json.dumps(results[name]))
    # leave the evidence / generated files of the clean tree behind
    for p in sorted(set(p for v in results.values() if isinstance(v, dict) for p in v)):
        sh([os.path.join(VERIF, 'check'), p, '--tier', 'quick'], cwd=VERIF)
    rp = os.path.join(VERIF, 'seeded', 'RESULTS.json')
    allres = {}
    if os.path.exists(rp):
        try:
            allres = json.load(open(rp))
        except Exception:
            allres = {}
    allres.update(results)
    json.dump(allres, open(rp, 'w'), indent=1, sort_keys=True)


if __name__ == '__main__':
    main()
