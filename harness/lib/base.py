"""Shared plumbing of the /verif harness: paths, the Lean driver, PRNG, CPU budget, canonical JSON."""
import json
import os
import random
import signal
import subprocess
import sys
import threading
import time

VERIF = os.path.dirname(os.path.dirname(os.path.dirname(os.path.abspath(__file__))))
REPO = os.environ.get('VERIF_REPO', '/repo')
LEAN_DIR = os.path.join(VERIF, 'lean')
DRIVER_BIN = os.path.join(LEAN_DIR, '.lake', 'build', 'bin', 'driver')
STUBS = os.path.join(VERIF, 'harness', 'stubs')


def setup_impl_path():
    """Make `import yabgp` load /repo's working tree (and the stand-ins for absent libraries)."""
    for p in (REPO, STUBS):
        if p in sys.path:
            sys.path.remove(p)
    sys.path.insert(0, REPO)
    sys.path.insert(0, STUBS)
    os.environ.setdefault('YABGP_VERIF', '1')
    # yabgp formats a traceback for its debug log in many `except` blocks (traceback.format_exc()); Python 3.12 re-parses the
    # source line of every frame for that, which costs milliseconds per exception and dominates runs in which many inputs
    # raise.  The log text is not observed by anything here (logging is switched off): the formatting is made cheap.
    import traceback
    if not getattr(traceback, '_verif_cheap', False):
        traceback.format_exc = lambda *a, **k: 'Traceback (formatting switched off by the harness)\n'
        traceback._verif_cheap = True


class Budget(BaseException):
    """CPU budget exceeded.  Derives from BaseException: yabgp's catch-alls are `except Exception`."""


def _on_alarm(signum, frame):
    raise Budget()


HANGS = {'count': 0}


def with_budget(seconds, fn, *args, **kw):
    """Run fn under a CPU-time budget; returns ('ok', value) | ('raise', exc) | ('hang', None).
    Hang governor: a tree on which calls hang makes a run cost (number of hanging cases) x budget.  The first hangs are
    established with the full budget (they are the ones kept as witnesses: SuiteResult keeps the first five per class);
    after 3 of them the budget shrinks to a tenth, after 40 to 0.05 s of CPU, so that the run still ends in minutes."""
    if HANGS['count'] >= 40:
        seconds = min(seconds, 0.05)
    elif HANGS['count'] >= 3:
        seconds = min(seconds, max(0.3, seconds / 10.0))
    old = signal.signal(signal.SIGVTALRM, _on_alarm)
    signal.setitimer(signal.ITIMER_VIRTUAL, seconds)
    try:
        try:
            v = fn(*args, **kw)
            return ('ok', v)
        except Budget:
            HANGS['count'] += 1
            return ('hang', None)
        except Exception as e:  # noqa
            return ('raise', e)
    finally:
        # the alarm can still arrive between the end of the call and the disarming below (seen with the 0.05 s budgets of the
        # hang governor): the call is over, its result stands, the late alarm is dropped instead of escaping from the harness
        try:
            signal.setitimer(signal.ITIMER_VIRTUAL, 0)
        except Budget:
            signal.setitimer(signal.ITIMER_VIRTUAL, 0)
        signal.signal(signal.SIGVTALRM, old)


class Driver(object):
    """The compiled Lean driver behind a line protocol (one JSON value per line each way)."""

    def __init__(self):
        if not os.path.exists(DRIVER_BIN):
            raise RuntimeError('driver not built: %s' % DRIVER_BIN)
        self.p = subprocess.Popen([DRIVER_BIN], stdin=subprocess.PIPE, stdout=subprocess.PIPE,
                                  text=True, bufsize=1 << 16)
        self.n = 0

    def call(self, req):
        self.p.stdin.write(json.dumps(req, separators=(',', ':')) + '\n')
        self.p.stdin.flush()
        line = self.p.stdout.readline()
        if not line:
            raise RuntimeError('driver died on request %r' % (req,))
        self.n += 1
        return json.loads(line)

    def batch(self, reqs):
        """Send many requests, read as many responses (writer thread avoids pipe deadlock)."""
        reqs = list(reqs)

        def writer():
            w = self.p.stdin
            for r in reqs:
                w.write(json.dumps(r, separators=(',', ':')) + '\n')
            w.flush()
        t = threading.Thread(target=writer)
        t.start()
        out = []
        for _ in reqs:
            line = self.p.stdout.readline()
            if not line:
                raise RuntimeError('driver died in batch')
            out.append(json.loads(line))
        t.join()
        self.n += len(reqs)
        return out

    def close(self):
        try:
            self.p.stdin.close()
            self.p.wait(timeout=10)
        except Exception:
            self.p.kill()


def rng_for(seed, *names):
    """All random choices of a suite derive from (VERIF_SEED, suite name, ...)."""
    return random.Random('%s|%s' % (seed, '|'.join(str(n) for n in names)))


def jdump(v):
    return json.dumps(v, sort_keys=True, separators=(',', ':'))


def has_unmodelled(v):
    if isinstance(v, dict):
        if 'unmodelled' in v or 'badvalue' in v:
            return True
        return any(has_unmodelled(x) for x in v.values())
    if isinstance(v, list):
        return any(has_unmodelled(x) for x in v)
    return False


class Stats(object):
    """Counts kept by every suite and written into the evidence."""

    def __init__(self):
        self.evaluations = 0
        self.distinct = set()
        self.hist = {}
        self.samples = []
        self.skipped = 0

    def case(self, key, nontrivial=True, sample=None):
        self.evaluations += 1
        if nontrivial:
            self.distinct.add(key if isinstance(key, (str, int)) else jdump(key))
        if sample is not None and len(self.samples) < 6:
            self.samples.append(sample)

    def hit(self, name, k=1):
        self.hist[name] = self.hist.get(name, 0) + k

    def merge(self, other):
        self.evaluations += other.evaluations
        self.distinct |= other.distinct
        self.skipped += other.skipped
        for k, v in other.hist.items():
            self.hist[k] = self.hist.get(k, 0) + v
        for s in other.samples:
            if len(self.samples) < 6:
                self.samples.append(s)


class SuiteResult(object):
    def __init__(self, name):
        self.name = name
        self.stats = Stats()
        self.disagreements = []   # model vs implementation (the tie)
        self.failures = []        # the PROPERTY fails on the implementation: dicts {what, replay, ...}
        self.fail_counts = {}
        self.exhaustive = False
        self.notes = []

    def disagree(self, what, case, impl, model):
        if len(self.disagreements) < 50:
            self.disagreements.append({'suite': self.name, 'what': what, 'case': case,
                                       'impl': impl, 'model': model})

    def fail(self, prop, what, replay, key=None):
        k = (prop, key or what)
        self.fail_counts[k] = self.fail_counts.get(k, 0) + 1
        if self.fail_counts[k] <= 5:       # keep a few witnesses per class; classes never crowd each other out
            self.failures.append({'property': prop, 'what': what, 'replay': replay, 'key': key or what})


def now():
    return time.time()
