"""Source-directed inputs: byte literals from the repo's tests, integer constants from the modelled code."""
import ast
import glob
import os

from lib.base import REPO


def harvest_byte_literals(subdir='yabgp/tests'):
    out = []
    seen = set()
    for f in sorted(glob.glob(os.path.join(REPO, subdir, '**', '*.py'), recursive=True)):
        try:
            tree = ast.parse(open(f, 'rb').read())
        except Exception:
            continue
        for node in ast.walk(tree):
            if isinstance(node, ast.Constant) and isinstance(node.value, bytes) and len(node.value) >= 2:
                if node.value not in seen:
                    seen.add(node.value)
                    out.append(node.value)
    return out


def harvest_ints(relfiles):
    """every integer literal of the given source files, with +-1 neighbours (boundary pool)"""
    vals = set()
    for rf in relfiles:
        f = os.path.join(REPO, rf)
        try:
            tree = ast.parse(open(f, 'rb').read())
        except Exception:
            continue
        for node in ast.walk(tree):
            if isinstance(node, ast.Constant) and isinstance(node.value, int) and not isinstance(node.value, bool):
                v = node.value
                if 0 <= v < 2 ** 33:
                    vals.update([v, v + 1, max(0, v - 1)])
    return sorted(vals)
