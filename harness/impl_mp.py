"""The real multiprotocol NLRI codecs of the project's working tree (MpReachNLRI / MpUnReachNLRI and the NLRI classes
for IPv6 unicast, IPv4/IPv6 labeled unicast, VPNv4/VPNv6) behind the canonical JSON of lean/Yabgp/Driver/MpOps.lean.

Trusted here (DESIGN 4.4): netaddr's text <-> integer conversion in both directions (an address text is canonicalised
to [family, integer], a prefix text to [family, integer, masklen], an RD text to ["as"|"ip"|"raw", ..]) and
ast.literal_eval on the str(bytes)/repr(bytes) forms the code returns for unknown RD types / undecoded families.
"""
import ast
import binascii
import json
import os
import subprocess
import threading

from lib.base import setup_impl_path, with_budget, LEAN_DIR

setup_impl_path()

import logging  # noqa: E402
logging.disable(logging.CRITICAL)

import netaddr  # noqa: E402
from yabgp.common import constants as bgp_cons  # noqa: E402
from yabgp.common import exception as excep  # noqa: E402
from yabgp.message.attribute.mpreachnlri import MpReachNLRI  # noqa: E402
from yabgp.message.attribute.mpunreachnlri import MpUnReachNLRI  # noqa: E402
from yabgp.message.attribute.nlri.ipv6_unicast import IPv6Unicast  # noqa: E402
from yabgp.message.attribute.nlri.ipv4_mpls_vpn import IPv4MPLSVPN  # noqa: E402
from yabgp.message.attribute.nlri.ipv6_mpls_vpn import IPv6MPLSVPN  # noqa: E402
from yabgp.message.attribute.nlri.mpls_vpn import MPLSVPN  # noqa: E402
from yabgp.message.attribute.nlri.labeled_unicast.ipv4 import IPv4LabeledUnicast  # noqa: E402
from yabgp.message.attribute.nlri.labeled_unicast.ipv6 import IPv6LabeledUnicast  # noqa: E402

BUDGET = 2.0
MINE = {(2, 1), (1, 4), (2, 4), (1, 128), (2, 128)}
ALL_ADD_PATH = {name: True for name in bgp_cons.AFI_SAFI_DICT.values()}


def hx(b):
    return binascii.b2a_hex(bytes(b)).decode()


class Unmodelled(Exception):
    """a value of the real code that the canonical form cannot express (never compared, counted as skipped)"""


# ------------------------------------------------------------------ text -> canonical (results of the real code)

def ip_canon(text):
    a = netaddr.IPAddress(text)
    return [a.version, int(a)]


def pfx_canon(text):
    addr, ln = text.rsplit('/', 1)
    a = netaddr.IPAddress(addr)
    return [a.version, int(a), int(ln)]


def rd_canon(text):
    if text[:2] in ("b'", 'b"'):
        return ['raw', hx(ast.literal_eval(text))]
    a, b = text.split(':')
    if '.' in a:
        return ['ip', int(netaddr.IPAddress(a)), int(b)]
    return ['as', int(a), int(b)]


def u6_canon(r):
    if isinstance(r, dict):
        return {'path_id': r['path_id'], 'prefix': pfx_canon(r['prefix'])}
    return pfx_canon(r)


def lu_canon(r):
    out = {'label': list(r['label']), 'prefix': pfx_canon(r['prefix'])}
    if 'path_id' in r:
        out['path_id'] = r['path_id']
    return out


def vpn_canon(r):
    out = {'label': list(r['label']), 'rd': rd_canon(r['rd']), 'prefix': pfx_canon(r['prefix'])}
    if 'path_id' in r:
        out['path_id'] = r['path_id']
    return out


ROUTE_CANON = {1: u6_canon, 4: lu_canon, 128: vpn_canon}


def reach_canon(d):
    afi, safi = d['afi_safi']
    if (afi, safi) not in MINE:
        return {'other': [afi, safi]}
    out = {'afi_safi': [afi, safi], 'nlri': [ROUTE_CANON[safi](r) for r in d['nlri']]}
    if safi == 128:
        out['nexthop'] = {'rd': rd_canon(d['nexthop']['rd']), 'str': ip_canon(d['nexthop']['str'])}
    elif safi == 4:
        out['nexthop'] = ip_canon(d['nexthop']) if d['nexthop'] != '' else ''
    else:
        out['nexthop'] = ip_canon(d['nexthop'])
        if 'linklocal_nexthop' in d:
            out['linklocal_nexthop'] = ip_canon(d['linklocal_nexthop'])
    return out


def unreach_canon(d):
    afi, safi = d['afi_safi']
    if (afi, safi) not in MINE:
        return {'other': [afi, safi]}
    wd = d['withdraw']
    if safi == 4:
        return {'afi_safi': [afi, safi], 'withdraw': {'raw': hx(ast.literal_eval(wd))}}
    return {'afi_safi': [afi, safi], 'withdraw': [ROUTE_CANON[safi](r) for r in wd]}


# ------------------------------------------------------------------ canonical -> the dictionaries the real code takes

def ip_text(v):
    return str(netaddr.IPAddress(v[1], v[0]))


def pfx_text(v):
    return '%s/%d' % (str(netaddr.IPAddress(v[1], v[0])), v[2])


def rd_text(v):
    if v[0] == 'ip':
        return '%s:%d' % (str(netaddr.IPAddress(v[1], 4)), v[2])
    if v[0] == 'as':
        return '%d:%d' % (v[1], v[2])
    raise Unmodelled('raw rd')


def u6_py(r):
    if isinstance(r, dict):
        return {'path_id': r['path_id'], 'prefix': pfx_text(r['prefix'])}
    return pfx_text(r)


def lu_py(r, with_label=True):
    out = {'prefix': pfx_text(r['prefix'])}
    if with_label:
        out['label'] = list(r['label'])
    if 'path_id' in r:
        out['path_id'] = r['path_id']
    return out


def vpn_py(r, with_label=True):
    out = {'rd': rd_text(r['rd']), 'prefix': pfx_text(r['prefix'])}
    if with_label:
        out['label'] = list(r['label'])
    if 'path_id' in r:
        out['path_id'] = r['path_id']
    return out


ROUTE_PY = {1: u6_py, 4: lu_py, 128: vpn_py}


def reach_py(v):
    afi, safi = v['afi_safi']
    out = {'afi_safi': (afi, safi), 'nlri': [ROUTE_PY[safi](r) for r in v['nlri']]}
    if safi == 128:
        out['nexthop'] = {'rd': rd_text(v['nexthop']['rd']), 'str': ip_text(v['nexthop']['str'])}
    elif safi == 4:
        out['nexthop'] = ip_text(v['nexthop']) if v['nexthop'] != '' else ''
    else:
        out['nexthop'] = ip_text(v['nexthop'])
        if 'linklocal_nexthop' in v:
            out['linklocal_nexthop'] = ip_text(v['linklocal_nexthop'])
    return out


def unreach_py(v):
    afi, safi = v['afi_safi']
    return {'afi_safi': (afi, safi), 'withdraw': [ROUTE_PY[safi](r) for r in v['withdraw']]}


# ------------------------------------------------------------------ the entry points

def _err(e):
    if isinstance(e, excep.UpdateMessageError):
        return {'err': e.sub_error}
    return {'err': 'other'}


def _run(fn, *a, **kw):
    return with_budget(BUDGET, fn, *a, **kw)


def mp_parse(attr, value, addpath=False):
    cls, canon = (MpReachNLRI, reach_canon) if attr == 14 else (MpUnReachNLRI, unreach_canon)
    st, v = _run(cls.parse, bytes(value), ALL_ADD_PATH if addpath else None)
    if st == 'hang':
        return {'hang': True}
    if st == 'raise':
        return _err(v)
    if v is None:
        return {'returns_none': True}
    try:
        return {'ok': canon(v)}
    except Unmodelled as e:
        return {'unmodelled': str(e)}


def mp_construct(attr, value):
    """value in canonical form; returns {'hex'} | {'none'} | {'raise'} | {'hang'}"""
    cls, py = (MpReachNLRI, reach_py) if attr == 14 else (MpUnReachNLRI, unreach_py)
    try:
        d = py(value)
    except Unmodelled as e:
        return {'unmodelled': str(e)}
    return mp_construct_py(cls, d)


def mp_construct_py(cls, d):
    st, v = _run(cls.construct, d)
    if st == 'hang':
        return {'hang': True}
    if st == 'raise':
        return {'raise': True}
    if v is None:
        return {'none': True}
    return {'hex': hx(v)}


FAMS = {
    'u6': (IPv6Unicast, u6_canon, u6_py),
    'lu4': (IPv4LabeledUnicast, lu_canon, lu_py),
    'lu6': (IPv6LabeledUnicast, lu_canon, lu_py),
    'vpn4': (IPv4MPLSVPN, vpn_canon, vpn_py),
    'vpn6': (IPv6MPLSVPN, vpn_canon, vpn_py),
}
FAM_AFI_SAFI = {'u6': (2, 1), 'lu4': (1, 4), 'lu6': (2, 4), 'vpn4': (1, 128), 'vpn6': (2, 128)}


def nlri_parse(fam, data, withdraw=False, addpath=False):
    cls, canon, _ = FAMS[fam]
    if fam.startswith('vpn'):
        st, v = _run(cls.parse, bytes(data), iswithdraw=withdraw, addpath=addpath)
    else:
        st, v = _run(cls.parse, bytes(data), addpath=addpath)
    if st == 'hang':
        return {'hang': True}
    if st == 'raise':
        return _err(v)
    return {'ok': [canon(r) for r in v]}


def nlri_construct(fam, routes, withdraw=False):
    cls, _, py = FAMS[fam]
    try:
        if fam == 'u6':
            rs = [py(r) for r in routes]
        else:
            rs = [py(r, not withdraw) for r in routes]
    except Unmodelled as e:
        return {'unmodelled': str(e)}
    if fam == 'u6':
        st, v = _run(cls.construct, rs)
    elif fam.startswith('lu'):
        st, v = _run(cls.construct, rs, 'withdraw' if withdraw else 'advertise')
    else:
        st, v = _run(cls.construct, rs, iswithdraw=withdraw)
    if st == 'hang':
        return {'hang': True}
    if st == 'raise':
        return {'raise': True}
    return {'hex': hx(v)}


def rd_parse(data):
    st, v = _run(MPLSVPN.parse_rd, bytes(data))
    if st != 'ok':
        return {'hang': True} if st == 'hang' else {'err': 'other'}
    return {'ok': rd_canon(v)}


def rd_construct(rd):
    st, v = _run(MPLSVPN.construct_rd, rd_text(rd))
    if st != 'ok':
        return {'hang': True} if st == 'hang' else {'raise': True}
    return {'hex': hx(v)}


def labels_parse(data, vpn=False):
    cls = MPLSVPN if vpn else IPv4LabeledUnicast
    st, v = _run(cls.parse_mpls_label_stack, bytes(data))
    if st != 'ok':
        return {'hang': True} if st == 'hang' else {'err': 'other'}
    return {'ok': list(v)}


def labels_construct(labels, vpn=False):
    cls = MPLSVPN if vpn else IPv4LabeledUnicast
    st, v = _run(cls.construct_mpls_label_stack, list(labels))
    if st != 'ok':
        return {'hang': True} if st == 'hang' else {'raise': True}
    return {'hex': hx(v)}


# ------------------------------------------------------------------ the Lean model: shared native driver or MpMain.lean

class MpDriver(object):
    """`lake env lean --run Yabgp/Driver/MpMain.lean` behind the same call/batch interface as lib.base.Driver"""

    def __init__(self):
        self.p = subprocess.Popen(['lake', 'env', 'lean', '--run', 'Yabgp/Driver/MpMain.lean'], cwd=LEAN_DIR,
                                  stdin=subprocess.PIPE, stdout=subprocess.PIPE, text=True, bufsize=1 << 16)
        self.n = 0

    def call(self, req):
        self.p.stdin.write(json.dumps(req, separators=(',', ':')) + '\n')
        self.p.stdin.flush()
        line = self.p.stdout.readline()
        if not line:
            raise RuntimeError('MpMain died on request %r' % (req,))
        self.n += 1
        return json.loads(line)

    def batch(self, reqs):
        reqs = list(reqs)

        def writer():
            w = self.p.stdin
            for r in reqs:
                w.write(json.dumps(r, separators=(',', ':')) + '\n')
            w.flush()
        t = threading.Thread(target=writer)
        t.start()
        out = []
        for _ in reqs:
            line = self.p.stdout.readline()
            if not line:
                raise RuntimeError('MpMain died in batch')
            out.append(json.loads(line))
        t.join()
        self.n += len(reqs)
        return out

    def close(self):
        try:
            self.p.stdin.close()
            self.p.wait(timeout=10)
        except Exception:
            self.p.kill()


def model_driver(shared):
    """the shared native driver once it dispatches "mp." ops, else the standalone process; returns (driver, owned)"""
    if shared is not None and os.environ.get('VERIF_MP_STANDALONE') != '1':
        try:
            r = shared.call({'op': 'mp.labels.parse', 'hex': ''})
            if 'ok' in r:
                return shared, False
        except Exception:
            pass
    return MpDriver(), True
