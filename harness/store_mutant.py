#!/venv/bin/python
"""usage: store_mutant.py <worktree under /tmp/mut> <property id> <suffix for A> <suffix for B> <round>
Confirms each of _out/A and _out/B in the scratch worktree (demo passes clean / fails patched / test suite passes patched)
and, when confirmed, stores it under /verif/seeded/<id>_<suffix>/ with a meta.json."""
import json
import os
import shutil
import subprocess
import sys

wt, pid, sa, sb, rnd = sys.argv[1:6]
for sub, suf in (('A', sa), ('B', sb)):
    src = os.path.join(wt, '_out', sub)
    if not os.path.isfile(os.path.join(src, 'patch.diff')):
        print(sub, 'no patch')
        continue
    out = subprocess.run(['bash', '/verif/harness/confirm_mutant.sh', wt, src], capture_output=True, text=True).stdout.strip()
    print(pid, suf, out)
    ok = 'demo_clean_exit=0' in out and 'demo_mutant_exit=0' not in out and '221 passed' in out
    if not ok:
        print('  NOT CONFIRMED')
        continue
    dst = '/verif/seeded/%s_%s' % (pid, suf)
    if os.path.isdir(dst):
        shutil.rmtree(dst)
    shutil.copytree(src, dst, ignore=shutil.ignore_patterns('__pycache__', '*.pyc'))
    readme = ''
    for n in ('README.md', 'README'):
        if os.path.isfile(os.path.join(src, n)):
            readme = open(os.path.join(src, n)).read()
    meta = {'property': pid, 'round': int(rnd), 'breaks': readme[:600],
            'confirmed': {'demo_on_clean_tree': 'exit 0', 'demo_with_patch': 'exit non-zero', 'test_suite_with_patch': '221 passed',
                          'how': 'harness/confirm_mutant.sh <scratch worktree of /repo at HEAD> seeded/%s_%s' % (pid, suf)},
            'origin': 'written by an independent sub-agent that saw only the property text%s and a scratch worktree'
                      % (', one-line summaries of the first-round changes to avoid,' if int(rnd) > 1 else '')}
    json.dump(meta, open(os.path.join(dst, 'meta.json'), 'w'), indent=1)
