#!/venv/bin/python
"""prints the markdown table of DESIGN 11.7 from seeded/RESULTS.json (property | changes | with input | without | missed)"""
import json
import os
import sys

VERIF = os.path.dirname(os.path.dirname(os.path.abspath(__file__)))
sub = sys.argv[1] if len(sys.argv) > 1 else 'seeded'
res = json.load(open(os.path.join(VERIF, sub, 'RESULTS.json')))
names = sorted(n for n in os.listdir(os.path.join(VERIF, sub)) if os.path.isdir(os.path.join(VERIF, sub, n)))
rows = {}
tot = [0, 0, 0, 0]
retired = []
for n in names:
    p, letter = n.split('_')
    if json.load(open(os.path.join(VERIF, sub, n, 'meta.json'))).get('retired'):
        retired.append(n)
        continue
    r = res.get(n)
    row = rows.setdefault(p, {'n': 0, 'input': [], 'noinput': [], 'missed': [], 'other': []})
    row['n'] += 1
    if not isinstance(r, dict):
        row['other'].append(letter)
        continue
    # a change counts as caught with input when ANY of the checks run for it reports a failing input
    lines = [v[1] for v in r.values()]
    codes = [v[0] for v in r.values()]
    if any(c == 1 and 'no-failing-input-found' not in l and l.startswith('VIOLATION') for c, l in zip(codes, lines)):
        row['input'].append(letter)
    elif any(c == 1 and l.startswith('VIOLATION') for c, l in zip(codes, lines)):
        row['noinput'].append(letter)
    elif all(c == 0 for c in codes):
        row['missed'].append(letter)
    else:
        row['other'].append(letter)
print('| property | changes | VIOLATION with failing input | `no-failing-input-found` | missed |')
print('|----------|---------|------------------------------|--------------------------|--------|')
for p in sorted(rows):
    r = rows[p]
    print('| %s | %d | %s | %s | %s |' % (p, r['n'], ''.join(r['input']) or '-', ''.join(r['noinput']) or '-',
                                      ''.join(r['missed'] + r['other']) or '-'))
    tot[0] += r['n']; tot[1] += len(r['input']); tot[2] += len(r['noinput']); tot[3] += len(r['missed']) + len(r['other'])
print()
print('total %d: %d with input, %d without, %d missed/other' % tuple(tot))
print('retired (neutralised by a later fix):', ' '.join(retired) or '-')
