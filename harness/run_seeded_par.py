#!/venv/bin/python
"""Parallel variant of run_seeded.py for bulk evaluation: K workers, each with its OWN scratch copy of /verif (under /tmp/sw/<k>/verif)
and its OWN scratch git worktree of /repo (/tmp/sw/<k>/repo, at /repo's HEAD).  A worker applies a seeded patch to its worktree,
runs the quick check of the property there (VERIF_REPO points the harness and the translators at the worktree), reverts.
/repo itself and /verif's generated files are never touched.  Results are merged into /verif/seeded/RESULTS.json; the
scratch directories are removed at the end.  usage: run_seeded_par.py [-j K] [names or property ids ...]"""
import json
import os
import shutil
import subprocess
import sys
from concurrent.futures import ThreadPoolExecutor

VERIF = os.path.dirname(os.path.dirname(os.path.abspath(__file__)))
ROOT = '/tmp/sw'
SUB = 'seeded'


def sh(cmd, **kw):
    return subprocess.run(cmd, stdout=subprocess.PIPE, stderr=subprocess.STDOUT, text=True, **kw)


def setup(k):
    d = os.path.join(ROOT, str(k))
    os.makedirs(d, exist_ok=True)
    sh(['rsync', '-a', '--delete', '--exclude', '.git', '--exclude', 'replays', VERIF + '/', os.path.join(d, 'verif') + '/'])
    rp = os.path.join(d, 'repo')
    if os.path.isdir(rp):
        sh(['git', '-C', '/repo', 'worktree', 'remove', '--force', rp])
    sh(['git', '-C', '/repo', 'worktree', 'add', '--detach', rp, 'HEAD'])
    return d


def work(k, names, out):
    d = os.path.join(ROOT, str(k))
    rp = os.path.join(d, 'repo')
    vf = os.path.join(d, 'verif')
    env = dict(os.environ, VERIF_REPO=rp)
    for name in names:
        sd = os.path.join(VERIF, SUB, name)
        meta = json.load(open(os.path.join(sd, 'meta.json')))
        props = meta.get('checks') or [meta['property']]
        r = sh(['git', '-C', rp, 'apply', os.path.join(sd, 'patch.diff')])
        if r.returncode != 0:
            out[name] = 'patch does not apply: ' + r.stdout[:200]
            continue
        res = {}
        try:
            for p in props:
                c = sh([os.path.join(vf, 'check'), p, '--tier', 'quick'], cwd=vf, env=env)
                line = [l for l in c.stdout.split('\n') if l.startswith('VIOLATION')]
                res[p] = (c.returncode, line[0].replace(vf, VERIF) if line else c.stdout.strip().split('\n')[-1][:200])
        finally:
            sh(['git', '-C', rp, 'checkout', '--', '.'])
        out[name] = res
        print(name, json.dumps(res), flush=True)


def main():
    args = sys.argv[1:]
    k = 6
    global SUB
    while args and args[0] in ('-j', '--dir'):
        if args[0] == '-j':
            k = int(args[1])
        else:
            SUB = args[1]       # 'seeded' (property-breaking changes) or 'harmless' (property-preserving refactorings)
        args = args[2:]
    names = sorted(n for n in os.listdir(os.path.join(VERIF, SUB)) if os.path.isdir(os.path.join(VERIF, SUB, n)))
    names = [n for n in names if not json.load(open(os.path.join(VERIF, SUB, n, 'meta.json'))).get('retired')]
    if args:
        names = [n for n in names if n in args or n.split('_')[0] in args]
    # longest checks first, round-robin
    buckets = [[] for _ in range(k)]
    for i, n in enumerate(names):
        buckets[i % k].append(n)
    for i in range(k):
        setup(i)
    out = {}
    with ThreadPoolExecutor(max_workers=k) as ex:
        futs = [ex.submit(work, i, buckets[i], out) for i in range(k)]
        for f in futs:
            f.result()
    rp = os.path.join(VERIF, SUB, 'RESULTS.json')
    allres = json.load(open(rp)) if os.path.exists(rp) else {}
    allres.update(out)
    json.dump(allres, open(rp, 'w'), indent=1, sort_keys=True)
    for i in range(k):
        sh(['git', '-C', '/repo', 'worktree', 'remove', '--force', os.path.join(ROOT, str(i), 'repo')])
    shutil.rmtree(ROOT, ignore_errors=True)
    sh(['git', '-C', '/repo', 'worktree', 'prune'])


if __name__ == '__main__':
    main()
