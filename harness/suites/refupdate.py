"""Suite `refupdate` (C09): structured UPDATE contents are pushed through the reference encoder of
lean/Yabgp/Spec/RfcEncode.lean (the encoder the theorems C09_* quantify over, evaluated by the Lean driver) with every legal
variant switched on and off; the real Update.parse must return exactly the values encoded (value half) or the error
sub-code (error half), and the Lean model of the decoder must agree with the implementation on the same octets."""
import struct

from lib.base import SuiteResult, rng_for, has_unmodelled
from gen import values as G
import impl_codec as I

CODES = G.STD_CODES + [17, 18]


def ref_value(r, code, asn4):
    if code == 17:
        return G.rnd_aspath(r, True, big=r.random() < 0.05) or [[2, [G.rnd_u32(r)]]]
    if code == 18:
        return [G.rnd_u32(r), G.ip(r.choice(G.ADDRS))]
    if code == 2:
        # several segments more often than the C06 generator does
        v = G.rnd_aspath(r, asn4, big=r.random() < 0.05)
        if r.random() < 0.4:
            v = v + G.rnd_aspath(r, asn4)
        return v
    return G.rnd_attr_value(r, code, asn4)


def ref_pfx(r, addpath, ln=None, junk_mode=None):
    ln = r.choice([0, 1, 7, 8, 9, 15, 16, 17, 23, 24, 25, 31, 32, r.randint(0, 32)]) if ln is None else ln
    a = r.choice(G.ADDRS + [r.getrandbits(32)])
    free = 32 - ln
    mode = junk_mode if junk_mode is not None else r.choice(['zero', 'ones', 'one', 'rand', 'rand'])
    if free == 0 or mode == 'zero':
        junk = 0
    elif mode == 'ones':
        junk = (1 << free) - 1
    elif mode == 'one':
        junk = 1 << (free - 1)
    else:
        junk = r.getrandbits(free)
    d = {'prefix': G.net(a, ln), 'junk': junk}
    if addpath:
        d['path_id'] = G.rnd_u32(r)
    return d


def ref_attrs(r, asn4, k=None):
    k = r.choice([0, 1, 2, 3, 5, 8, len(CODES)]) if k is None else k
    codes = r.sample(CODES, min(k, len(CODES)))
    r.shuffle(codes)
    return [{'code': c, 'value': ref_value(r, c, asn4), 'ext': r.random() < 0.4, 'partial': r.random() < 0.3}
            for c in codes]


def _attr(flag, code, val, ext):
    if ext or len(val) > 255:
        return bytes([flag | 0x10, code]) + struct.pack('!H', len(val)) + val
    return bytes([flag, code, len(val)]) + val


def bad_attr(r, asn4):
    """one malformed attribute of each kind the decoder checks: (kind, bytes)"""
    kind = r.choice(['origin', 'segtype', 'segtype', 'fixedlen', 'fixedlen', 'atomic'])
    ext = r.random() < 0.3
    if kind == 'origin':
        v = bytes([r.choice([3, 4, 127, 128, 255, r.randint(3, 255)])])
        return kind, _attr(0x40, 1, v, ext)
    if kind == 'segtype':
        code = r.choice([2, 2, 17])
        four = asn4 or code == 17
        w = 4 if four else 2
        good = b''
        for _ in range(r.choice([0, 0, 1, 2])):
            n = r.choice([0, 1, 3])
            good += bytes([r.choice([1, 2, 3, 4]), n]) + bytes(r.getrandbits(8) for _ in range(n * w))
        t = r.choice([0, 5, 6, 255, r.randint(5, 255)])
        n = r.choice([0, 1, 2])
        tail = bytes([t, n]) + bytes(r.getrandbits(8) for _ in range(r.choice([0, n * w, n * w + 1])))
        return kind, _attr(0x40 if code == 2 else 0xc0, code, good + tail, ext)
    if kind == 'fixedlen':
        code = r.choice([3, 4, 5, 9, 7])
        if code == 3:
            ln = r.choice([1, 2, 3, 5, 6, 7, 9])
        elif code == 7:
            ln = r.choice([x for x in (0, 1, 2, 4, 5, 6, 7, 8, 9, 10, 12) if x != (8 if asn4 else 6)])
        else:
            ln = r.choice([0, 1, 2, 3, 5, 6, 8])
        flag = {3: 0x40, 4: 0x80, 5: 0x40, 9: 0x80, 7: 0xc0}[code]
        return kind, _attr(flag, code, bytes(r.getrandbits(8) for _ in range(ln)), ext)
    v = bytes(r.getrandbits(8) for _ in range(r.choice([1, 2, 4])))
    return kind, _attr(0x40, 6, v, ext)


def cases(r, tier):
    out = []
    # exhaustive small scope: every prefix length x junk pattern x add-path, as NLRI and as withdrawn route
    for ln in range(33):
        for jm in ('zero', 'ones', 'one', 'rand'):
            for ap in (False, True):
                p = ref_pfx(r, ap, ln, jm)
                out.append({'asn4': False, 'addpath': ap, 'withdraw': [], 'attrs': [{'code': 1, 'value': 0}], 'nlri': [p]})
                out.append({'asn4': False, 'addpath': ap, 'withdraw': [p], 'attrs': [], 'nlri': []})
    # every attribute type x AS mode x extended length x Partial, alone
    for code in CODES:
        for asn4 in (False, True):
            for ext in (False, True):
                for part in (False, True):
                    for _ in range(2 if tier == 'quick' else 20):
                        out.append({'asn4': asn4, 'addpath': False, 'withdraw': [], 'nlri': [],
                                    'attrs': [{'code': code, 'value': ref_value(r, code, asn4), 'ext': ext, 'partial': part}]})
    # every ordered pair of attribute types (order independence)
    for a in CODES:
        for b in CODES:
            if a != b:
                asn4 = r.random() < 0.5
                out.append({'asn4': asn4, 'addpath': False, 'withdraw': [], 'nlri': [ref_pfx(r, False)],
                            'attrs': [{'code': c, 'value': ref_value(r, c, asn4), 'ext': r.random() < 0.5,
                                       'partial': r.random() < 0.5} for c in (a, b)]})
    n = 1500 if tier == 'quick' else 40000
    for _ in range(n):
        asn4 = r.random() < 0.5
        ap = r.random() < 0.3
        c = {'asn4': asn4, 'addpath': ap,
             'withdraw': [ref_pfx(r, ap) for _ in range(r.choice([0, 0, 1, 2, 5]))],
             'attrs': ref_attrs(r, asn4),
             'nlri': [ref_pfx(r, ap) for _ in range(r.choice([0, 1, 1, 2, 3, 8]))]}
        k = r.random()
        if k < 0.25:
            kind, b = bad_attr(r, asn4)
            if r.random() < 0.3:     # something after the malformed attribute: must not be decoded
                b += _attr(0x80, 4, struct.pack('!I', 7), False)
            c['bad'] = {'kind': kind, 'hex': b.hex()}
        elif k < 0.35:
            b = (struct.pack('!I', G.rnd_u32(r)) if ap else b'') + bytes([r.choice([33, 34, 64, 128, 255, r.randint(33, 255)])])
            b += bytes(r.getrandbits(8) for _ in range(r.choice([0, 1, 4, 5])))
            c['badpfx'] = {'hex': b.hex()}
        out.append(c)
    return out


def run(seed, tier, driver):
    res = SuiteResult('refupdate')
    r = rng_for(seed, 'refupdate', tier)
    cs = cases(r, tier)
    sres = driver.batch([dict(c, op='spec.refupdate') for c in cs])
    todo = []
    for c, so in zip(cs, sres):
        if 'hex' not in so or not so.get('valid'):
            res.stats.skipped += 1
            res.stats.hit('not_an_instance')
            continue
        todo.append((c, so))
    mres = driver.batch([{'op': 'upd.parse', 'asn4': c['asn4'], 'addpath': c['addpath'], 'hex': so['hex']}
                         for c, so in todo])
    for (c, so), mo in zip(todo, mres):
        body = bytes.fromhex(so['hex'])
        got = I.upd_parse(body, c['asn4'], c['addpath'])
        half = 'bad_' + c['bad']['kind'] if 'bad' in c else ('bad_prefix_length' if 'badpfx' in c else 'value')
        res.stats.case(('ref', so['hex'], c['asn4'], c['addpath']), nontrivial=len(body) > 4,
                       sample={'refupdate': c, 'hex': so['hex'], 'impl': got})
        res.stats.hit('half_' + half)
        res.stats.hit('asn4_%s' % c['asn4'])
        res.stats.hit('addpath_%s' % c['addpath'])
        res.stats.hit('attrs_%d' % min(len(c['attrs']), 6))
        for a in c['attrs']:
            res.stats.hit('attr_%d%s%s' % (a['code'], '_ext' if a.get('ext') else '', '_partial' if a.get('partial') else ''))
        for p in c['nlri'] + c['withdraw']:
            res.stats.hit('prefix_junk_%s' % ('zero' if p['junk'] == 0 else 'nonzero'))
        if got != so['expect']:
            what = ('decoding of the reference encoding differs from the encoded values' if half == 'value'
                    else 'malformation (%s) not reported as the error the decoder checks for' % half)
            res.fail('C09', what, {'case': c, 'hex': so['hex'], 'decoded': got, 'expected': so['expect']}, key=half)
        if has_unmodelled(mo) or 'error' in mo:
            res.stats.skipped += 1
            continue
        if got != mo:
            res.disagree('Update.parse(reference encoding)', {'hex': so['hex'], 'asn4': c['asn4'], 'addpath': c['addpath']},
                         got, mo)
    through_a_session(res, r, tier, todo)
    return res


def through_a_session(res, r, tier, todo):
    """C09's second observation point ("handler.update_received vs handler.on_update_error"): the same reference encodings
    delivered to a real Established session.  The AS width the session decodes with is the one both OPENs agreed on (the
    4-octet-AS capability advertised by us - i.e. switched on in the configuration - AND by the peer); a reference UPDATE
    encoded in that width must reach handler.update_received with exactly the encoded values, a malformed one
    handler.on_update_error.  Implementation only."""
    import impl_session as S
    from gen import session_gen as SG
    per = 25 if tier == 'quick' else 400
    base_caps = dict(S.DEFAULT_CFG['caps'])
    from oracles import parse_open_wire
    combos = [(l4, p4, None) for l4 in (True, False) for p4 in (True, False)]
    # ... and the same after an EARLIER session of the same agent with a peer of the other kind (the router was upgraded /
    # replaced): the width is the one the two OPENs of THIS session agreed on, read off the wire
    combos += [(True, True, False), (True, False, True)]
    for local4, peer4, earlier4 in combos:
            conf = {'caps': dict(base_caps, four_bytes_as=local4)}
            sim = S.Sim(conf)
            ras = sim.cfg['remote_as']
            o = sim.step({'k': 'boot'})
            cid = 0
            for n, p4 in enumerate(([earlier4] if earlier4 is not None else []) + [peer4]):
                for ev in ({'k': 'connok', 'c': cid},
                           {'k': 'chunk', 'c': cid, 'hex': SG.frame(1, SG.open_body(ras, 180, caps=SG.std_caps(ras, as4=p4))).hex()},
                           {'k': 'chunk', 'c': cid, 'hex': SG.KEEPALIVE.hex()}):
                    if sim.enabled(ev):
                        o = sim.step(ev)
                if earlier4 is not None and n == 0:
                    sim.step({'k': 'lost', 'c': cid})
                    for _ in range(6):
                        w = sim.world
                        if any(c.state == 'connecting' for c in w.connectors):
                            break
                        due = [S.TIMER_NAMES.get(getattr(c.func, '__name__', None)) for c in w.due()]
                        due = [d for d in due if d]
                        if due:
                            sim.step({'k': 'fire', 't': due[0]})
                            continue
                        times = [c.time for c in w.calls if c.time > w.now]
                        if not times:
                            break
                        sim.step({'k': 'advance', 'dt': min(times) - w.now})
                    cid = len(sim.world.connectors) - 1
            if o['state'] != 'ESTABLISHED':
                res.disagree('session setup for the reference encodings', {'cfg': conf, 'peer_as4': peer4, 'earlier': earlier4}, o['state'], 'ESTABLISHED')
                continue
            ours = [w for w in sim.world.connectors[cid].written if w[18] == 1]
            mine = bool(ours) and any(cc == 65 for cc, _ in parse_open_wire(ours[-1])['caps'])
            mode = mine and peer4
            pick = [(c, so) for c, so in todo if c['asn4'] == mode and not c['addpath'] and len(so['hex']) // 2 + 19 <= 4096]
            pick = r.sample(pick, min(per, len(pick)))
            for c, so in pick:
                body = bytes.fromhex(so['hex'])
                if not sim.enabled({'k': 'chunk', 'c': cid}):
                    break
                o = sim.step({'k': 'chunk', 'c': cid, 'hex': SG.frame(2, body).hex()})
                exp = so['expect']
                rep = [x for x in o['outs'] if x[0] == 'handler' and x[1] in ('update', 'update_error')]
                res.stats.case(('ref-session', so['hex'], local4, peer4), sample=None)
                res.stats.hit('session_mode_%s' % ('as4' if mode else 'as2'))
                if exp.get('sub_error') is None:
                    ok = (len(rep) == 1 and rep[0][1] == 'update' and rep[0][3]['attr'] == exp['attr']
                          and rep[0][3]['nlri'] == exp['nlri'] and rep[0][3]['withdraw'] == exp['withdraw'])
                    what = 'a reference UPDATE (%d-octet AS numbers, the width both OPENs agreed on) was not reported to the application with the encoded values' % (4 if mode else 2)
                else:
                    ok = len(rep) == 1 and rep[0][1] == 'update_error'
                    what = 'a malformed reference UPDATE was not reported to the application as an error'
                if not ok:
                    res.fail('C09', what, {'case': c, 'hex': so['hex'], 'session': {'local_four_bytes_as': local4, 'peer_capability_65': peer4, 'earlier_session_peer_capability_65': earlier4},
                                           'reported': rep, 'expected': exp}, key='session-' + ('as4' if mode else 'as2'))
